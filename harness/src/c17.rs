//! C17 — configuration precedence: the real `Config::read_file` / `read_cli_settings` / attribute pass /
//! `get_overridden` pipeline vs the Lean model, plus an oracle that evaluates the *documented rule*
//! (file < cli < attribute; scoped key beats shared key for its own language; kebab = snake).
use crate::report::Report;
use crate::rng::Rng;
use crate::tool;
use crate::util;
use diplomat_tool::config::Config;
use serde_json::json;

#[derive(Clone, Debug, PartialEq)]
pub enum V {
    S(String),
    B(bool),
    I(i64),
}

impl V {
    fn toml(&self) -> String {
        match self {
            V::S(s) => format!("\"{s}\""),
            V::B(b) => b.to_string(),
            V::I(i) => i.to_string(),
        }
    }
    fn sexp(&self) -> String {
        match self {
            V::S(s) => format!("(s \"{s}\")"),
            V::B(b) => format!("(b {b})"),
            V::I(i) => format!("(i {i})"),
        }
    }
}

#[derive(Clone, Debug)]
pub struct FileEntry {
    table: Option<String>, // as spelled in the file (maybe kebab)
    key: String,           // as spelled in the file
    val: V,
}

#[derive(Clone, Debug)]
pub struct Raw {
    key: String,
    text: String, // raw value text as clap / the attribute parser hands it over
    val: V,       // what the user meant
}

#[derive(Clone, Debug)]
pub struct Case {
    target: String,
    file: Vec<FileEntry>,
    cli: Vec<Raw>,
    attrs: Vec<Raw>,
}

fn q(s: &str) -> String {
    format!("\"{}\"", s.replace('\\', "\\\\").replace('"', "\\\""))
}

impl Case {
    pub fn sexp(&self) -> String {
        let f: Vec<String> = self.file.iter().map(|e| format!("(f {} {} {})", e.table.clone().unwrap_or("-".into()), e.key, e.val.sexp())).collect();
        // the command line as typed: every `--config` argument verbatim, the stray one (no `=`) among them
        let c: Vec<String> = self.cli_args().iter().map(|a| format!("(a {})", q(a))).collect();
        let a: Vec<String> = self.attrs.iter().map(|e| format!("(r {} {})", e.key, q(&e.text))).collect();
        format!("(cfg {} ({}) ({}) ({}))", self.target, f.join(" "), c.join(" "), a.join(" "))
    }
    fn toml_text(&self) -> String {
        let mut s = String::new();
        for e in self.file.iter().filter(|e| e.table.is_none()) {
            s += &format!("{} = {}\n", e.key, e.val.toml());
        }
        let mut tables: Vec<String> = self.file.iter().filter_map(|e| e.table.clone()).collect();
        tables.dedup();
        let mut seen = std::collections::BTreeSet::new();
        for t in tables {
            if !seen.insert(t.clone()) {
                continue;
            }
            s += &format!("[{t}]\n");
            for e in self.file.iter().filter(|e| e.table.as_deref() == Some(&t)) {
                s += &format!("{} = {}\n", e.key, e.val.toml());
            }
        }
        s
    }
    /// the same configuration attributes around a bridge whose acceptance depends on the configuration
    /// (a reference in a callback parameter needs `unsafe_references_in_callbacks`)
    fn source_rich(&self) -> String {
        self.source().replace("impl Thing { pub fn get(&self) -> u8 { 0 } }", "impl Thing { pub fn get(&self) -> u8 { 0 } pub fn each(&self, f: impl Fn(&Thing) -> u8) -> u8 { 0 } }")
    }
    /// the `--config` arguments as given on the command line.  Every third case that has any also gets a stray
    /// argument without `=` somewhere among them: the tool skips it with a notice, the settings around it still count
    /// (so the model's line, which never sees it, stays the same).
    pub fn cli_args(&self) -> Vec<String> {
        let mut v: Vec<String> = self.cli.iter().map(|e| format!("{}={}", e.key, e.text)).collect();
        if !v.is_empty() {
            let h = v.iter().flat_map(|s| s.bytes()).fold(0xcbf29ce484222325u64, |h, b| (h ^ b as u64).wrapping_mul(0x100000001b3));
            if h % 3 == 0 {
                v.insert((h / 3) as usize % (v.len() + 1), "stray-argument".to_string());
            }
        }
        v
    }
    fn source(&self) -> String {
        let mut s = String::new();
        for (i, a) in self.attrs.iter().enumerate() {
            let item = match i % 3 {
                0 => format!("struct Cfg{i};"),
                1 => format!("mod cfgmod{i} {{}}"),
                _ => format!("impl CfgHolder {{}}"),
            };
            s += &format!("#[diplomat::config({} = {})]\n{}\n", a.key, a.text, item);
        }
        s += "struct CfgHolder;\n#[diplomat::bridge]\nmod ffi {\n    #[diplomat::opaque]\n    pub struct Thing;\n    impl Thing { pub fn get(&self) -> u8 { 0 } }\n}\n";
        s
    }
}

/// (full snake key, meant value, well-typed?) per entry, per source — for the documented-rule oracle
fn snake(s: &str) -> String {
    s.replace('-', "_")
}

fn key_type_ok(key: &str, v: &V) -> bool {
    let name = key.rsplit('.').next().unwrap();
    match name {
        "lib_name" | "domain" | "module_name" | "relative_js_path" | "abi" => matches!(v, V::S(_)),
        "unsafe_references_in_callbacks" | "use_finalizers_not_cleaners" | "explicit_generation" | "hide_default_renderer" => matches!(v, V::B(_)),
        _ => true,
    }
}

/// the configuration language a backend reads its scoped keys from
fn config_lang(target: &str) -> &str {
    match target {
        "py-nanobind" => "nanobind",
        t => t.strip_suffix('2').unwrap_or(t),
    }
}

fn documented(case: &Case) -> Option<std::collections::BTreeMap<String, String>> {
    let mut all: Vec<(String, V)> = vec![];
    for e in &case.file {
        let k = match &e.table {
            Some(t) => format!("{}.{}", snake(t), snake(&e.key)),
            None => snake(&e.key),
        };
        all.push((k, e.val.clone()));
    }
    for e in case.cli.iter().chain(case.attrs.iter()) {
        all.push((e.key.clone(), e.val.clone()));
    }
    if all.iter().any(|(k, v)| !key_type_ok(k, v)) {
        return None; // ill-typed values: the documentation does not say; only the model is compared
    }
    let last = |k: &str| all.iter().rev().find(|(kk, _)| kk == k).map(|(_, v)| v.clone());
    let show = |v: Option<V>| match v {
        None => "-".to_string(),
        Some(V::S(s)) => format!("\"{s}\""),
        Some(V::B(b)) => b.to_string(),
        Some(V::I(i)) => i.to_string(),
    };
    let lang = config_lang(&case.target);
    let mut out = std::collections::BTreeMap::new();
    for shared in ["lib_name", "unsafe_references_in_callbacks"] {
        let scoped = if ["kotlin", "demo_gen", "nanobind", "js"].contains(&lang) { last(&format!("{lang}.{shared}")) } else { None };
        out.insert(shared.to_string(), show(scoped.or_else(|| last(shared))));
    }
    out.insert("kotlin.domain".into(), show(last("kotlin.domain")));
    out.insert("kotlin.use_finalizers_not_cleaners".into(), show(last("kotlin.use_finalizers_not_cleaners")));
    out.insert("js.abi".into(), match last("js.abi") { Some(V::S(s)) if s == "spec" => "spec".into(), _ => "legacy".into() });
    for k in ["explicit_generation", "hide_default_renderer", "module_name", "relative_js_path"] {
        out.insert(format!("demo_gen.{k}"), show(last(&format!("demo_gen.{k}"))));
    }
    Some(out)
}

fn show_toml(v: Option<&toml::Value>) -> String {
    match v {
        None => "-".into(),
        Some(toml::Value::String(s)) => format!("\"{s}\""),
        Some(toml::Value::Boolean(b)) => b.to_string(),
        Some(o) => o.to_string(),
    }
}

/// Runs the real pipeline; `Err` = panic location.
fn run_real(case: &Case, dir: &std::path::Path) -> Result<std::collections::BTreeMap<String, String>, String> {
    let path = dir.join("config.toml");
    std::fs::write(&path, case.toml_text()).unwrap();
    let src = case.source();
    let file = syn::parse_file(&src).map_err(|e| format!("parse: {e}"))?;
    let cli: Vec<String> = case.cli_args();
    let target = case.target.clone();
    let cfg = tool::catch(move || {
        let mut config = Config::default();
        config.read_file(&path).expect("Error loading config");
        config.read_cli_settings(cli);
        diplomat_tool::verif_hooks::effective_config(&file, &target, config)
    })?;
    let t = toml::Value::try_from(&cfg).map_err(|e| format!("serialize: {e}"))?;
    let mut out = std::collections::BTreeMap::new();
    out.insert("lib_name".to_string(), show_toml(t.get("lib_name")));
    out.insert("unsafe_references_in_callbacks".to_string(), show_toml(t.get("unsafe_references_in_callbacks")));
    let k = t.get("kotlin");
    out.insert("kotlin.domain".into(), show_toml(k.and_then(|k| k.get("domain"))));
    out.insert("kotlin.use_finalizers_not_cleaners".into(), show_toml(k.and_then(|k| k.get("use_finalizers_not_cleaners"))));
    let abi = t.get("js").and_then(|j| j.get("abi")).and_then(|a| a.as_str()).unwrap_or("?").to_string();
    out.insert("js.abi".into(), if abi == "spec" { "spec".into() } else if abi == "Legacy" { "legacy".into() } else { abi });
    let d = t.get("demo_gen");
    for kk in ["explicit_generation", "hide_default_renderer", "module_name", "relative_js_path"] {
        out.insert(format!("demo_gen.{kk}"), show_toml(d.and_then(|d| d.get(kk))));
    }
    Ok(out)
}

fn line_of(m: &std::collections::BTreeMap<String, String>) -> String {
    format!(
        "lib_name={} unsafe_refs={} domain={} finalizers={} abi={} explicit_generation={} hide_default_renderer={} module_name={} relative_js_path={}",
        m["lib_name"], m["unsafe_references_in_callbacks"], m["kotlin.domain"], m["kotlin.use_finalizers_not_cleaners"], m["js.abi"],
        m["demo_gen.explicit_generation"], m["demo_gen.hide_default_renderer"], m["demo_gen.module_name"], m["demo_gen.relative_js_path"]
    )
}

const TARGETS: [&str; 8] = ["c", "cpp", "js", "dart", "kotlin", "nanobind", "py-nanobind", "demo_gen"];
const STR_KEYS: [&str; 10] = ["lib_name", "kotlin.lib_name", "js.lib_name", "nanobind.lib_name", "demo_gen.lib_name", "kotlin.domain", "js.abi", "demo_gen.module_name", "demo_gen.relative_js_path", "mystery.setting"];
const BOOL_KEYS: [&str; 7] = ["unsafe_references_in_callbacks", "kotlin.unsafe_references_in_callbacks", "js.unsafe_references_in_callbacks", "nanobind.unsafe_references_in_callbacks", "kotlin.use_finalizers_not_cleaners", "demo_gen.explicit_generation", "demo_gen.hide_default_renderer"];

fn gen_kv(rng: &mut Rng, src: &str, ill_typed: bool) -> (String, V) {
    if rng.chance(3, 5) {
        let k = rng.pick(&STR_KEYS).to_string();
        let v = if k == "js.abi" { rng.pick(&["spec", "legacy"]).to_string() } else { format!("{}_{}", k.rsplit('.').next().unwrap().chars().take(3).collect::<String>(), src) };
        if ill_typed && rng.chance(1, 2) { (k, V::B(true)) } else { (k, V::S(v)) }
    } else {
        let k = rng.pick(&BOOL_KEYS).to_string();
        if ill_typed && rng.chance(1, 2) { (k, V::S("yes".into())) } else { (k, V::B(rng.chance(1, 2))) }
    }
}

pub fn gen_case(rng: &mut Rng) -> Case {
    let target = rng.pick(&TARGETS).to_string();
    let ill = rng.chance(1, 12);
    let mut file: Vec<FileEntry> = vec![];
    let nf = rng.below(5);
    let mut seen = std::collections::BTreeSet::new();
    for _ in 0..nf {
        let (k, v) = gen_kv(rng, "file", ill);
        if !seen.insert(k.clone()) {
            continue;
        }
        let kebab = rng.chance(1, 2);
        let sp = |s: &str| if kebab { s.replace('_', "-") } else { s.to_string() };
        let (table, key) = match k.split_once('.') {
            Some((t, n)) => (Some(sp(t)), sp(n)),
            None => (None, sp(&k)),
        };
        file.push(FileEntry { table, key, val: v });
    }
    // tables must be contiguous for TOML: sort by (table, key) as the BTreeMap-backed reader does
    file.sort_by(|a, b| (a.table.is_some(), a.table.clone(), a.key.clone()).cmp(&(b.table.is_some(), b.table.clone(), b.key.clone())));
    let mk_raw = |rng: &mut Rng, src: &str, attr: bool| {
        let (k, v) = gen_kv(rng, src, ill);
        let text = match &v {
            V::S(s) => {
                // CLI: the shell strips quotes (bare) or the user escaped them (quoted); attribute: literal or bare ident
                if rng.chance(1, 2) { format!("\"{s}\"") } else { s.clone() }
            }
            V::B(b) => b.to_string(),
            V::I(i) => i.to_string(),
        };
        let _ = attr;
        Raw { key: k, text, val: v }
    };
    let nc = rng.below(4);
    let cli = (0..nc).map(|_| mk_raw(rng, "cli", false)).collect();
    let na = rng.below(4);
    let attrs = (0..na).map(|_| mk_raw(rng, "attr", true)).collect();
    Case { target, file, cli, attrs }
}

fn hand_cases() -> Vec<Case> {
    let raw = |k: &str, t: &str, v: V| Raw { key: k.into(), text: t.into(), val: v };
    vec![
        // the documented examples (book/src/config.md)
        Case { target: "kotlin".into(), file: vec![FileEntry { table: None, key: "lib-name".into(), val: V::S("MyLibrary".into()) }, FileEntry { table: Some("kotlin".into()), key: "domain".into(), val: V::S("org.myOrganization".into()) }, FileEntry { table: Some("kotlin".into()), key: "lib-name".into(), val: V::S("LibraryNameOverride".into()) }], cli: vec![], attrs: vec![] },
        Case { target: "kotlin".into(), file: vec![], cli: vec![raw("lib_name", "MyLibrary", V::S("MyLibrary".into())), raw("kotlin.domain", "org.myOrganization", V::S("org.myOrganization".into()))], attrs: vec![] },
        Case { target: "kotlin".into(), file: vec![], cli: vec![], attrs: vec![raw("lib_name", "\"MyLibrary\"", V::S("MyLibrary".into())), raw("kotlin.domain", "\"org.myOrganization\"", V::S("org.myOrganization".into()))] },
        Case { target: "js".into(), file: vec![], cli: vec![raw("unsafe_references_in_callbacks", "true", V::B(true)), raw("js.abi", "\"spec\"", V::S("spec".into()))], attrs: vec![] },
        Case { target: "kotlin".into(), file: vec![], cli: vec![raw("kotlin.use_finalizers_not_cleaners", "true", V::B(true))], attrs: vec![raw("unsafe_references_in_callbacks", "false", V::B(false))] },
        Case { target: "py-nanobind".into(), file: vec![], cli: vec![], attrs: vec![raw("lib_name", "shared", V::S("shared".into())), raw("nanobind.lib_name", "somelib", V::S("somelib".into()))] },
        Case { target: "nanobind".into(), file: vec![], cli: vec![], attrs: vec![raw("lib_name", "shared", V::S("shared".into())), raw("nanobind.lib_name", "somelib", V::S("somelib".into()))] },
        // demo_gen: each import-path key from each single source (whether the JS bindings are written next to the
        // demo depends on them), and js.abi from each single source and against each other
        Case { target: "demo_gen".into(), file: vec![], cli: vec![], attrs: vec![raw("demo_gen.module_name", "\"mymod\"", V::S("mymod".into()))] },
        Case { target: "demo_gen".into(), file: vec![], cli: vec![raw("demo_gen.module_name", "mymod", V::S("mymod".into()))], attrs: vec![] },
        Case { target: "demo_gen".into(), file: vec![FileEntry { table: Some("demo_gen".into()), key: "module-name".into(), val: V::S("mymod".into()) }], cli: vec![], attrs: vec![] },
        Case { target: "demo_gen".into(), file: vec![], cli: vec![], attrs: vec![raw("demo_gen.relative_js_path", "\"../js\"", V::S("../js".into()))] },
        Case { target: "demo_gen".into(), file: vec![FileEntry { table: Some("demo-gen".into()), key: "relative-js-path".into(), val: V::S("../js".into()) }], cli: vec![], attrs: vec![] },
        Case { target: "demo_gen".into(), file: vec![], cli: vec![], attrs: vec![] },
        Case { target: "js".into(), file: vec![FileEntry { table: Some("js".into()), key: "abi".into(), val: V::S("spec".into()) }], cli: vec![raw("js.abi", "legacy", V::S("legacy".into()))], attrs: vec![] },
        Case { target: "js".into(), file: vec![], cli: vec![raw("js.abi", "spec", V::S("spec".into()))], attrs: vec![raw("js.abi", "\"legacy\"", V::S("legacy".into()))] },
        Case { target: "js".into(), file: vec![FileEntry { table: Some("js".into()), key: "abi".into(), val: V::S("legacy".into()) }], cli: vec![], attrs: vec![raw("js.abi", "\"spec\"", V::S("spec".into()))] },
        // values that contain `=` themselves (a URL with a query, a quoted assignment): everything after the first `=` is the value
        Case { target: "demo_gen".into(), file: vec![FileEntry { table: Some("demo_gen".into()), key: "module-name".into(), val: V::S("fromfile".into()) }], cli: vec![raw("demo_gen.module_name", "https://cdn.example/greeter.mjs?v=2", V::S("https://cdn.example/greeter.mjs?v=2".into()))], attrs: vec![] },
        Case { target: "kotlin".into(), file: vec![FileEntry { table: None, key: "lib-name".into(), val: V::S("fromfile".into()) }], cli: vec![raw("kotlin.domain", "dev.x", V::S("dev.x".into())), raw("lib_name", "a=b", V::S("a=b".into()))], attrs: vec![] },
        Case { target: "demo_gen".into(), file: vec![], cli: vec![raw("demo_gen.relative_js_path", "../js?x=1&y=2", V::S("../js?x=1&y=2".into()))], attrs: vec![] },
        // the language-scoped variant of the one key lowering itself reads (always tied on the bridge whose acceptance
        // depends on it): scoped against shared in both directions, from each source, and another language's scope
        Case { target: "kotlin".into(), file: vec![], cli: vec![raw("lib_name", "somelib", V::S("somelib".into())), raw("kotlin.domain", "dev.x", V::S("dev.x".into())), raw("unsafe_references_in_callbacks", "false", V::B(false)), raw("kotlin.unsafe_references_in_callbacks", "true", V::B(true))], attrs: vec![] },
        Case { target: "kotlin".into(), file: vec![], cli: vec![raw("lib_name", "somelib", V::S("somelib".into())), raw("kotlin.domain", "dev.x", V::S("dev.x".into()))], attrs: vec![raw("unsafe_references_in_callbacks", "true", V::B(true)), raw("kotlin.unsafe_references_in_callbacks", "false", V::B(false))] },
        Case { target: "kotlin".into(), file: vec![FileEntry { table: Some("kotlin".into()), key: "unsafe-references-in-callbacks".into(), val: V::B(true) }], cli: vec![raw("lib_name", "somelib", V::S("somelib".into())), raw("kotlin.domain", "dev.x", V::S("dev.x".into()))], attrs: vec![] },
        Case { target: "nanobind".into(), file: vec![], cli: vec![raw("lib_name", "somelib", V::S("somelib".into())), raw("nanobind.unsafe_references_in_callbacks", "true", V::B(true))], attrs: vec![] },
        Case { target: "nanobind".into(), file: vec![FileEntry { table: None, key: "unsafe-references-in-callbacks".into(), val: V::B(true) }], cli: vec![raw("lib_name", "somelib", V::S("somelib".into())), raw("kotlin.domain", "dev.x", V::S("dev.x".into()))], attrs: vec![raw("nanobind.unsafe_references_in_callbacks", "false", V::B(false))] },
        Case { target: "py-nanobind".into(), file: vec![], cli: vec![raw("lib_name", "somelib", V::S("somelib".into())), raw("kotlin.domain", "dev.x", V::S("dev.x".into()))], attrs: vec![raw("nanobind.unsafe_references_in_callbacks", "true", V::B(true))] },
        Case { target: "nanobind".into(), file: vec![], cli: vec![raw("lib_name", "somelib", V::S("somelib".into())), raw("kotlin.domain", "dev.x", V::S("dev.x".into())), raw("unsafe_references_in_callbacks", "true", V::B(true)), raw("kotlin.unsafe_references_in_callbacks", "false", V::B(false))], attrs: vec![] },
        Case { target: "js".into(), file: vec![], cli: vec![raw("lib_name", "somelib", V::S("somelib".into())), raw("js.unsafe_references_in_callbacks", "true", V::B(true))], attrs: vec![raw("unsafe_references_in_callbacks", "false", V::B(false))] },
        Case { target: "js".into(), file: vec![FileEntry { table: Some("js".into()), key: "unsafe-references-in-callbacks".into(), val: V::B(false) }], cli: vec![raw("lib_name", "somelib", V::S("somelib".into())), raw("kotlin.domain", "dev.x", V::S("dev.x".into())), raw("unsafe_references_in_callbacks", "true", V::B(true))], attrs: vec![] },
    ]
}

/// Reads the effective values off real generated output (Kotlin package path / Native.load, nanobind module file).
fn output_oracle(case: &Case, expected: &std::collections::BTreeMap<String, String>, rep: &mut Report) {
    let lib = expected["lib_name"].trim_matches('"').to_string();
    let dom = expected["kotlin.domain"].trim_matches('"').to_string();
    if lib == "-" || lib.is_empty() || !lib.chars().all(|c| c.is_alphanumeric() || c == '_') {
        return;
    }
    if case.target == "kotlin" && dom != "-" && dom.chars().all(|c| c.is_alphanumeric() || c == '_' || c == '.') {
        let path = util::workdir("C17out").join("config.toml");
        std::fs::write(&path, case.toml_text()).unwrap();
        let cli: Vec<String> = case.cli_args();
        let src = case.source();
        let r = tool::catch(move || {
            let mut config = Config::default();
            config.read_file(&path).expect("Error loading config");
            config.read_cli_settings(cli);
            tool::run_backend_cfg(&src, "kotlin", config)
        });
        rep.oracle_runs += 1;
        match r {
            Ok(o) if o.ok() => {
                let want = format!("{}/{}/Thing.kt", dom.replace('.', "/"), lib);
                let found = o.files.keys().any(|k| k.ends_with(&want));
                let load = o.files.iter().any(|(k, v)| k.ends_with("Thing.kt") && v.contains(&format!("Native.load(\"{lib}\"")));
                if !found || !load {
                    rep.oracle_fail(&case.sexp(), "kotlin output does not use the documented effective lib_name/domain", json!({"expected_lib_name": lib, "expected_domain": dom, "files": o.files.keys().collect::<Vec<_>>()}));
                }
            }
            Ok(o) => rep.oracle_fail(&case.sexp(), "kotlin backend failed although lib_name and domain are configured", json!(o.status())),
            Err(p) => rep.oracle_fail(&case.sexp(), "kotlin run panicked although lib_name and domain are configured", json!(p)),
        }
    }
    if (case.target == "nanobind" || case.target == "py-nanobind") {
        let path = util::workdir("C17out").join("config.toml");
        std::fs::write(&path, case.toml_text()).unwrap();
        let cli: Vec<String> = case.cli_args();
        let src = case.source();
        let target = case.target.clone();
        let r = tool::catch(move || {
            let mut config = Config::default();
            config.read_file(&path).expect("Error loading config");
            config.read_cli_settings(cli);
            tool::run_backend_cfg(&src, &target, config)
        });
        rep.oracle_runs += 1;
        match r {
            Ok(o) if o.ok() => {
                if !o.files.contains_key(&format!("{lib}_ext.cpp")) {
                    rep.oracle_fail(&case.sexp(), "nanobind module file is not named after the documented effective lib_name", json!({"expected_lib_name": lib, "files": o.files.keys().collect::<Vec<_>>()}));
                }
            }
            Ok(o) => rep.oracle_fail(&case.sexp(), "nanobind backend failed although lib_name is configured", json!(o.status())),
            Err(p) => rep.oracle_fail(&case.sexp(), "nanobind run panicked although lib_name is configured", json!(p)),
        }
    }
}

pub fn main(args: &[String]) {
    let a = util::parse_args(args);
    let mut rep = Report::new("C17");
    let thorough = a.tier == "thorough";
    let mut rng = Rng::new(a.seed);
    let dir = util::workdir("C17");
    let mut cases = hand_cases();
    let n_hand = cases.len();
    rep.count_n("hand_cases", cases.len());
    let n = if a.n > 0 { a.n } else if thorough { 20000 } else { 1500 };
    if let Some(p) = util::arg_value(&a.rest, "--replay") {
        // replays name cases by s-expression only for humans; regenerate deterministically instead
        rep.notes.push(format!("replay of {p}: re-running hand cases and seed {}", a.seed));
    }
    for _ in 0..n {
        cases.push(gen_case(&mut rng));
    }
    let lines: Vec<String> = cases.iter().map(|c| c.sexp()).collect();
    let model = match crate::model::run_model("C17", &lines) {
        Ok(m) => m,
        Err(e) => {
            rep.disagree("*", "model-driver", "", &e);
            rep.print();
            return;
        }
    };
    let mut out_budget = if thorough { 400 } else { 40 };
    let mut tie_budget = if thorough { 1200 } else { 120 };
    for (case_index, ((c, l), m)) in cases.iter().zip(lines.iter()).zip(model.iter()).enumerate() {
        rep.case(l);
        rep.count(&format!("target={}", c.target));
        rep.count(&format!("sources={}{}{}", if c.file.is_empty() { "-" } else { "F" }, if c.cli.is_empty() { "-" } else { "C" }, if c.attrs.is_empty() { "-" } else { "A" }));
        let real = run_real(c, &dir);
        let real_line = match &real {
            Ok(m) => line_of(m),
            Err(p) => {
                rep.count("real_panics");
                format!("panic")
            }
        };
        if &real_line != m {
            rep.disagree(l, "effective-config", &match &real { Ok(_) => real_line.clone(), Err(p) => format!("panic {p}") }, m);
        }
        // the documented rule, independent of the model
        if let Some(doc) = documented(c) {
            rep.count("documented_rule_evaluated");
            match &real {
                Ok(r) => {
                    let diffs: Vec<_> = doc.iter().filter(|(k, v)| r.get(*k) != Some(v)).map(|(k, v)| json!({"key": k, "documented": v, "tool": r.get(k)})).collect();
                    if !diffs.is_empty() {
                        rep.oracle_fail(l, "effective value differs from the documented precedence", json!({"target": c.target, "diffs": diffs}));
                    }
                }
                Err(p) => rep.oracle_fail(l, "tool panics on a well-typed configuration", json!({"target": c.target, "panic": p})),
            }
            rep.oracle_runs += 1;
            if out_budget > 0 && (c.target == "kotlin" || c.target.contains("nanobind")) {
                out_budget -= 1;
                output_oracle(c, &doc, &mut rep);
            }
            // the real command line (main.rs + gen) against the in-process pipeline the other checks look through
            if tie_budget > 0 && (case_index < n_hand || tie_budget % 3 != 0 || c.target == "kotlin" || c.target.contains("nanobind")) {
                tie_budget -= 1;
                rep.oracle_runs += 1;
                rep.count("cli-tie");
                let cli: Vec<String> = c.cli_args();
                let reads_urc = c.cli.iter().map(|e| &e.key).chain(c.attrs.iter().map(|e| &e.key)).any(|k| k.contains("unsafe_references")) || c.file.iter().any(|e| e.key.contains("unsafe"));
                let src = if tie_budget % 2 == 0 || reads_urc { c.source_rich() } else { c.source() };
                if let Some(d) = tool::cli_tie(&dir.join("tie"), &src, &c.target, Some(&c.toml_text()), &cli) {
                    rep.disagree(l, "cli-vs-in-process", &d.to_string(), "same verdict and byte-identical files");
                }
            } else if tie_budget > 0 {
                tie_budget -= 1;
            }
        } else {
            rep.count("ill_typed_cases");
        }
    }
    let _ = std::fs::remove_dir_all(&dir);
    let _ = std::fs::remove_dir_all(util::workdir("C17out"));
    rep.print();
}
