//! C08 — JS struct layout: the real `js::layout::struct_field_info` (cfg hook) vs the Lean model on random
//! structs; rustc `#[repr(C)]` with 32-bit pointer stand-ins as the independent layout oracle; offsets
//! printed into the generated `.mjs` are checked against the same numbers.
use crate::report::Report;
use crate::rng::Rng;
use crate::tool;
use crate::util;
use diplomat_core::hir;
use serde_json::json;
use std::process::Command;

#[derive(Clone, Debug)]
pub enum F {
    Prim(&'static str, usize, usize), // rust name, size, align (wasm32)
    Enum,
    BoxOpaque,
    Slice,
    Struct(usize), // index of an earlier struct
    Opt(Box<F>),
}

const PRIMS: [(&str, usize, usize); 15] = [
    ("bool", 1, 1), ("DiplomatChar", 4, 4), ("i8", 1, 1), ("u8", 1, 1), ("i16", 2, 2), ("u16", 2, 2), ("i32", 4, 4), ("u32", 4, 4),
    ("i64", 8, 8), ("u64", 8, 8), ("isize", 4, 4), ("usize", 4, 4), ("f32", 4, 4), ("f64", 8, 8), ("DiplomatByte", 1, 1),
];

#[derive(Clone, Debug)]
pub struct Case {
    pub structs: Vec<Vec<F>>, // struct k may use structs < k; the last one is the struct under test
    pub discs: (i32, i32), // discriminants of `En::A`, `En::B`
    pub out: bool,        // #[diplomat::out] structs (may hold Box<Opaque>) or input structs (may hold owned slices)
}

impl Case {
    pub fn lty(&self, f: &F) -> String {
        match f {
            F::Prim(_, s, a) => format!("(s {s} {a})"),
            F::Enum | F::BoxOpaque => "(s 4 4)".into(),
            F::Slice => "slice".into(),
            F::Struct(k) => format!("(struct{})", self.structs[*k].iter().map(|x| format!(" {}", self.lty(x))).collect::<String>()),
            F::Opt(t) => format!("(opt {})", self.lty(t)),
        }
    }
    pub fn sexp(&self) -> String {
        let last = self.structs.last().unwrap();
        format!("(layout{})", last.iter().map(|x| format!(" {}", self.lty(x))).collect::<String>())
    }
    fn fty(&self, f: &F) -> String {
        match f {
            F::Prim(n, _, _) => n.to_string(),
            F::Enum => "En".into(),
            F::BoxOpaque => "Box<Op>".into(),
            F::Slice => "DiplomatOwnedSlice<u16>".into(),
            F::Struct(k) => format!("S{k}"),
            F::Opt(t) => match **t {
                F::BoxOpaque => "Option<Box<Op>>".to_string(),
                _ => format!("DiplomatOption<{}>", self.fty(t)),
            },
        }
    }
    /// out-structs: they may hold every field kind (incl. owned opaques)
    pub fn rust(&self) -> String {
        let mut s = String::from("#[diplomat::bridge]\nmod ffi {\n    #[diplomat::opaque]\n    pub struct Op;\n");
        s += &(if self.discs == (0, 1) { "    pub enum En { A, B }\n".to_string() } else { format!("    pub enum En {{ A = {}, B = {} }}\n", self.discs.0, self.discs.1) });
        for (k, fs) in self.structs.iter().enumerate() {
            s += &format!("    {}pub struct S{k} {{ {} }}\n", if self.out { "#[diplomat::out]\n    " } else { "" }, fs.iter().enumerate().map(|(i, f)| format!("pub f{i}: {}", self.fty(f))).collect::<Vec<_>>().join(", "));
        }
        let last = self.structs.len() - 1;
        if self.out {
            s += &format!("    impl Op {{ pub fn get(&self) -> S{last} {{ unimplemented!() }} }}\n}}\n");
        } else {
            s += &format!("    impl Op {{ pub fn take(&self, s: S{last}) {{ }} pub fn give(&self) -> S{last} {{ unimplemented!() }} }}\n}}\n");
        }
        s
    }
    /// the same struct for rustc on the host, pointer-sized things replaced by 32-bit stand-ins
    pub fn host_ty(&self, f: &F) -> String {
        match f {
            F::Prim(n, _, _) => match *n {
                "DiplomatChar" => "u32".into(),
                "DiplomatByte" => "u8".into(),
                "isize" => "i32".into(),
                "usize" => "u32".into(),
                o => o.into(),
            },
            F::Enum => "En".into(),
            F::BoxOpaque => "u32".into(),
            F::Slice => "Sl".into(),
            F::Struct(k) => format!("S{k}"),
            F::Opt(t) => format!("Opt<{}>", self.host_ty(t)),
        }
    }
}

fn gen_field(rng: &mut Rng, n_earlier: usize, depth: usize, out: bool) -> F {
    match rng.below(10) {
        0..=4 => { let p = rng.pick(&PRIMS); F::Prim(p.0, p.1, p.2) }
        5 => F::Enum,
        6 if out => F::BoxOpaque,
        7 if !out => F::Slice,
        8 if n_earlier > 0 => F::Struct(rng.below(n_earlier)),
        9 if depth > 0 => {
            let inner = gen_field(rng, n_earlier, 0, out);
            match inner { F::Slice => F::Prim("u8", 1, 1), F::BoxOpaque => F::BoxOpaque, o => F::Opt(Box::new(o)) }
        }
        _ => { let p = rng.pick(&PRIMS); F::Prim(p.0, p.1, p.2) }
    }
}

pub fn gen_case(rng: &mut Rng) -> Case {
    let ns = 1 + rng.below(3);
    let out = rng.chance(1, 2);
    let mut structs = vec![];
    for k in 0..ns {
        let nf = 1 + rng.below(if k + 1 == ns { 7 } else { 3 });
        structs.push((0..nf).map(|_| gen_field(rng, k, 1, out)).collect());
    }
    let discs = *rng.pick(&[(0, 1), (0, 1), (-2, 1), (-40, 35), (5, 6), (2147483646, 2147483647)]);
    Case { structs, discs, out }
}

fn real_layout(c: &Case) -> Result<(String, Vec<usize>, usize, usize), String> {
    let src = c.rust();
    let file = syn::parse_file(&src).map_err(|e| format!("parse {e}"))?;
    let v = crate::c13::validator("js");
    let name = format!("S{}", c.structs.len() - 1);
    let r = tool::catch(|| {
        let tcx = match hir::TypeContext::from_syn(&file, Default::default(), v) {
            Ok(t) => t,
            Err(e) => return Err(format!("lowering: {:?}", e.iter().map(|(c, m)| format!("{c}: {m}")).collect::<Vec<_>>())),
        };
        let all = diplomat_tool::verif_hooks::js_struct_layouts(&tcx);
        let l = all.get(&name).ok_or("struct not found")?;
        let line = format!(
            "size={} align={} sc={} fields={}",
            l.size, l.align, l.scalars,
            l.fields.iter().map(|f| format!("{}:{}:{}:{}", f.0, f.1, f.2, f.3)).collect::<Vec<_>>().join(",")
        );
        Ok((line, l.fields.iter().map(|f| f.0).collect::<Vec<_>>(), l.size, l.align))
    });
    match r {
        Ok(Ok(x)) => Ok(x),
        Ok(Err(e)) => Err(e),
        Err(p) => Ok((format!("panic {p}"), vec![], 0, 0)),
    }
}

/// rustc: `size_of`, `align_of`, `offset_of!` of the stand-in struct for every case
fn rustc_layouts(cases: &[&Case], dir: &std::path::Path) -> Option<Vec<(usize, usize, Vec<usize>)>> {
    let mut src = String::from("#![allow(dead_code)]\nuse std::mem::{size_of, align_of, offset_of};\n#[repr(C)] #[derive(Clone, Copy)] pub enum En { A, B }\n#[repr(C)] pub struct Sl { p: u32, l: u32 }\n#[repr(C)] pub union OptV<T: Copy> { ok: T, none: () }\n#[repr(C)] pub struct Opt<T: Copy> { v: std::mem::MaybeUninit<T>, is_ok: bool }\n");
    let mut main = String::from("fn main() {\n");
    for (ci, c) in cases.iter().enumerate() {
        src += &format!("mod c{ci} {{\n    use super::*;\n");
        for (k, fs) in c.structs.iter().enumerate() {
            src += &format!("    #[repr(C)] #[derive(Clone, Copy)] pub struct S{k} {{ {} }}\n", fs.iter().enumerate().map(|(i, f)| format!("pub f{i}: {}", c.host_ty(f))).collect::<Vec<_>>().join(", "));
        }
        src += "}\n";
        let last = c.structs.len() - 1;
        let offs: Vec<String> = (0..c.structs[last].len()).map(|i| format!("offset_of!(c{ci}::S{last}, f{i})")).collect();
        main += &format!("    println!(\"{{}} {{}} {{:?}}\", size_of::<c{ci}::S{last}>(), align_of::<c{ci}::S{last}>(), [{}]);\n", offs.join(", "));
    }
    main += "}\n";
    // Sl and Opt must be Copy for nesting
    let src = src.replace("pub struct Sl {", "#[derive(Clone, Copy)] pub struct Sl {").replace("pub struct Opt<T: Copy> {", "#[derive(Clone, Copy)] pub struct Opt<T: Copy> {");
    std::fs::write(dir.join("layout.rs"), format!("{src}{main}")).ok()?;
    let (ok, _, err) = util::run(Command::new("rustc").args(["--edition", "2021", "-o"]).arg(dir.join("layout")).arg(dir.join("layout.rs")));
    if !ok {
        eprintln!("rustc layout oracle failed: {}", err.chars().take(600).collect::<String>());
        return None;
    }
    let (_, out, _) = util::run(&mut Command::new(dir.join("layout")));
    let mut res = vec![];
    for l in out.lines() {
        let mut it = l.splitn(3, ' ');
        let size: usize = it.next()?.parse().ok()?;
        let align: usize = it.next()?.parse().ok()?;
        let offs: Vec<usize> = it.next()?.trim_matches(|c| c == '[' || c == ']').split(',').filter_map(|x| x.trim().parse().ok()).collect();
        res.push((size, align, offs));
    }
    Some(res)
}

pub fn main(args: &[String]) {
    let a = util::parse_args(args);
    let mut rep = Report::new("C08");
    let thorough = a.tier == "thorough";
    let mut rng = Rng::new(a.seed);
    let n = if a.n > 0 { a.n } else if thorough { 20000 } else { 1500 };
    // systematic small shapes first: a two-scalar struct nested among 0..3 further scalars (the padded-direct
    // boundary of the legacy ABI), an option next to it, in every position
    let mut cases: Vec<Case> = vec![];
    // structs that are a single scalar (the wasm C ABI treats them as that scalar)
    cases.push(Case { structs: vec![vec![F::Enum]], discs: (0, 1), out: false });
    cases.push(Case { structs: vec![vec![F::BoxOpaque]], discs: (0, 1), out: true });
    cases.push(Case { structs: vec![vec![F::Prim("bool", 1, 1)]], discs: (0, 1), out: false });
    cases.push(Case { structs: vec![vec![F::Prim("f64", 8, 8)]], discs: (0, 1), out: false });
    cases.push(Case { structs: vec![vec![F::Prim("u8", 1, 1)], vec![F::Struct(0)]], discs: (0, 1), out: false });
    for _ in 0..3 { cases.push(Case { structs: vec![vec![F::Prim("u32", 4, 4)]], discs: (0, 1), out: false }); }
    // single-primitive wrapper structs nested away from offset 0, also a wrapper around a wrapper
    for out in [true, false] {
        cases.push(Case { structs: vec![vec![F::Prim("u16", 2, 2)], vec![F::Prim("u8", 1, 1), F::Struct(0), F::Struct(0)]], discs: (0, 1), out });
        cases.push(Case { structs: vec![vec![F::Prim("i64", 8, 8)], vec![F::Struct(0)], vec![F::Prim("u32", 4, 4), F::Struct(1), F::Prim("u8", 1, 1), F::Struct(0)]], discs: (0, 1), out });
    }
    for inner in [[("u8", 1, 1), ("u32", 4, 4)], [("u16", 2, 2), ("u16", 2, 2)], [("u8", 1, 1), ("u64", 8, 8)], [("i32", 4, 4), ("u8", 1, 1)]] {
        for k in 0..4usize {
            for pos in 0..=k {
                for with_opt in [false, true] {
                    let mut last: Vec<F> = (0..k).map(|j| { let p = PRIMS[(j * 5 + k) % PRIMS.len()]; F::Prim(p.0, p.1, p.2) }).collect();
                    last.insert(pos, F::Struct(0));
                    if with_opt { last.push(F::Opt(Box::new(F::Prim("u16", 2, 2)))); }
                    cases.push(Case { structs: vec![inner.iter().map(|p| F::Prim(p.0, p.1, p.2)).collect(), last], discs: (0, 1), out: false });
                }
            }
        }
    }
    let n_fixed = cases.len();
    cases.extend((0..n).map(|_| gen_case(&mut rng)));
    let lines: Vec<String> = cases.iter().map(|c| c.sexp()).collect();
    let mut reals: Vec<Option<(String, Vec<usize>, usize, usize)>> = vec![];
    match crate::model::run_model("C08", &lines) {
        Ok(model) => {
            for (k, c) in cases.iter().enumerate() {
                rep.case(&lines[k]);
                rep.count(&format!("fields={}", c.structs.last().unwrap().len()));
                match real_layout(c) {
                    Ok(r) => {
                        if r.0 != model[k] {
                            rep.disagree(&format!("{} ;; {}", lines[k], c.rust().lines().filter(|l| l.contains("pub struct S")).collect::<Vec<_>>().join(" ")), "struct_field_info", &r.0, &model[k]);
                        }
                        if r.0.contains("sc=-1") { rep.count("contains_option"); }
                        reals.push(Some(r));
                    }
                    Err(e) => {
                        rep.disagree(&lines[k], "lowering-rejected-generated-struct", &e, &model[k]);
                        reals.push(None);
                    }
                }
            }
        }
        Err(e) => rep.disagree("*", "model-driver", "", &e),
    }
    // rustc oracle on a sample (real numbers vs rustc, independent of the model)
    let k = if thorough { 1500 } else { 150 };
    let idx: Vec<usize> = (0..cases.len().min(k + n_fixed)).filter(|i| reals.get(*i).map(|r| r.is_some()).unwrap_or(false)).collect();
    let dir = util::workdir("C08");
    let sample: Vec<&Case> = idx.iter().map(|i| &cases[*i]).collect();
    if let Some(rl) = rustc_layouts(&sample, &dir) {
        for (j, i) in idx.iter().enumerate() {
            rep.oracle_runs += 1;
            let (_, offs, size, align) = reals[*i].as_ref().unwrap();
            let (rs, ra, ro) = &rl[j];
            if offs != ro || size != rs || align != ra {
                rep.oracle_fail(&format!("{} ;; {}", lines[*i], cases[*i].rust().lines().filter(|l| l.contains("pub struct S")).collect::<Vec<_>>().join(" ")), "JS layout differs from rustc's repr(C) layout with 32-bit pointers",
                    json!({"js_offsets": offs, "rustc_offsets": ro, "js_size": size, "rustc_size": rs, "js_align": align, "rustc_align": ra}));
            }
        }
    } else {
        rep.notes.push("rustc layout oracle could not run".into());
    }
    // the numbers printed into the generated JS are the same numbers
    for i in idx.iter().take(n_fixed + if thorough { 1500 } else { 150 }) {
        let c = &cases[*i];
        let (_, offs, size, align) = reals[*i].as_ref().unwrap();
        let o = tool::run_backend(&c.rust(), "js");
        rep.oracle_runs += 1;
        if !o.ok() {
            rep.oracle_fail(&lines[*i], "js backend failed on a generated struct", json!(o.status()));
            continue;
        }
        let name = format!("S{}.mjs", c.structs.len() - 1);
        let Some(text) = o.files.get(&name) else { continue };
        if offs.len() < 2 {
            continue; // single-scalar structs are passed as that scalar
        }
        for (fi, off) in offs.iter().enumerate() {
            // every field is read back from `ptr + offset` (offset 0 is printed as `ptr`)
            let needle = if *off == 0 { "ptr".to_string() } else { format!("ptr + {off}") };
            if !text.contains(&needle) {
                rep.oracle_fail(&lines[*i], "generated JS never reads a field at its layout offset", json!({"field": fi, "offset": off, "file": name}));
            }
        }
        // the layout-carrying fragments of the generated code: option payload sizes / alignments / flag offsets,
        // the force-padding decision for nested structs, padding slots (model tie, exact text)
        {
            let last = c.structs.last().unwrap();
            let line = format!("(jsfrags {}{})", if c.out { "out" } else { "in" }, last.iter().map(|x| format!(" {}", c.lty(x))).collect::<String>());
            match crate::model::run_model("C08", &[line.clone()]) {
                Ok(m) if m[0] != "panic" && m[0] != "bad-case" => {
                    let norm = tool::norm_ws(text);
                    let mut at = 0;
                    for frag in m[0].split(" ;; ").filter(|f| !f.is_empty()) {
                        rep.count("js-frags");
                        match norm[at..].find(frag) {
                            Some(p) => at += p + frag.len(),
                            None => {
                                rep.disagree(&format!("{} ;; {}", line, c.rust().lines().filter(|l| l.contains("pub struct S")).collect::<Vec<_>>().join(" ")), "js-fragment", &format!("not found (in order) in {name}"), frag);
                                break;
                            }
                        }
                    }
                }
                Ok(m) => rep.disagree(&line, "js-fragment-model", "", &m[0]),
                Err(e) => rep.disagree(&line, "model-driver", "", &e),
            }
        }
        // receive buffer for the returned struct: size and alignment
        if let (Some(op), true) = (o.files.get("Op.mjs"), true) {
            let want = format!("DiplomatReceiveBuf(wasm, {size}, {align}");
            if !op.contains(&want) {
                rep.oracle_fail(&lines[*i], "receive buffer does not have the struct's size/alignment", json!({"expected": want}));
            }
        }
    }
    let _ = std::fs::remove_dir_all(&dir);
    // executing the generated JS in Node: bytes / read-back / receive buffer / argument list (legacy, stubbed exports),
    // and the same through a real wasm32 module built by this sandbox's rustc (spec ABI)
    {
        let k = if thorough { 500 } else { 60 };
        let pick: Vec<&Case> = idx.iter().filter(|i| **i >= n_fixed).take(k).chain(idx.iter().filter(|i| **i < n_fixed).take(if thorough { n_fixed } else { 36 })).map(|i| &cases[*i]).collect();
        crate::jsexec::run(&pick, a.seed, false, &mut rep);
        crate::jsexec::run(&pick, a.seed, true, &mut rep);
    }
    rep.print();
}
