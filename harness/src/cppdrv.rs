//! C++ driver generation for the end-to-end oracle (C02): the same cases and scripts as `e2e.rs`, called
//! through the generated C++ class API (`.hpp` files of the real C++ backend) instead of the C header.
//!
//! The driver relies on the documented C++ API vocabulary only: `std::unique_ptr<T>` for owned opaques,
//! references / pointers for borrowed ones, `std::optional`, `diplomat::result<T, E>` with `is_ok()` / `ok()` /
//! `err()`, `std::string_view` / `std::u16string_view` / `diplomat::span<T>`, struct fields by name, enum
//! enumerators `E::V`, `std::function`, `std::string` for written output, `diplomat::Utf8Error`.
use crate::e2e::{abi_name, enum_discs, env_of, Case, Env, Expected, Val, HELPER_MK, HELPER_TAG};
use crate::tygen::{Def, Enc, Method, Prim, Ty};

fn prim_cpp(p: Prim) -> &'static str {
    match p {
        Prim::Bool => "bool", Prim::Char => "char32_t", Prim::I8 => "int8_t", Prim::U8 | Prim::Byte => "uint8_t", Prim::I16 => "int16_t",
        Prim::U16 => "uint16_t", Prim::I32 => "int32_t", Prim::U32 => "uint32_t", Prim::I64 => "int64_t", Prim::U64 => "uint64_t",
        Prim::Isize => "intptr_t", Prim::Usize => "size_t", Prim::F32 => "float", Prim::F64 => "double", Prim::I128 | Prim::U128 => "__int128",
    }
}

fn is_pointer(t: &Ty) -> bool {
    matches!(t, Ty::Ref(..) | Ty::Box(_))
}

fn lit(p: Prim, v: &Val) -> String {
    match v {
        Val::Bool(b) => b.to_string(),
        Val::F32(b) => format!("f32b(0x{b:08x}u)"),
        Val::F64(b) => format!("f64b(0x{b:016x}ull)"),
        Val::Int(i) => {
            let t = prim_cpp(p);
            if *i == i64::MIN as i128 { format!("({t})(-9223372036854775807LL-1)") } else if *i < 0 { format!("({t})({i}LL)") } else { format!("({t})({i}ULL)") }
        }
        _ => panic!("bad prim {v:?}"),
    }
}

pub struct Gen<'a> {
    env: &'a Env,
    n: usize,
    pub pre: String,
    /// declarations that must precede the statements returned by `show` (values moved out of a result live until the block ends)
    pub hoist: String,
    /// tags of the opaques the driver creates for arguments (dropped when the block ends)
    pub arg_tags: Vec<u32>,
}

impl<'a> Gen<'a> {
    pub fn new(env: &'a Env) -> Self { Gen { env, n: 0, pre: String::new(), hoist: String::new(), arg_tags: vec![] } }
    fn fresh(&mut self, p: &str) -> String { self.n += 1; format!("{p}{}", self.n) }
    fn opaque_name(&self, t: &Ty) -> String {
        match t { Ty::Ref(_, _, x) | Ty::Box(x) => self.opaque_name(x), Ty::Named(n) => n.clone(), _ => panic!("not an opaque") }
    }
    fn elem(&self, ty: &Ty) -> (Prim, &'static str) {
        match ty {
            Ty::Str(_, Enc::UUtf16, _) => (Prim::U16, "char16_t"),
            Ty::Str(..) => (Prim::U8, "char"),
            Ty::PSlice(_, p, _) => (*p, prim_cpp(*p)),
            _ => (Prim::U8, "char"),
        }
    }
    fn array(&mut self, ty: &Ty, vs: &[Val]) -> String {
        let (p, et) = self.elem(ty);
        let a = self.fresh("arr");
        let items: Vec<String> = vs.iter().map(|v| match (ty, v) {
            (Ty::Str(..), Val::Int(i)) => format!("({et}){i}"),
            _ => lit(p, v),
        }).collect();
        // one extra element keeps zero-length arrays legal
        self.pre += &format!("  {et} {a}[{}] = {{ {} }};\n", vs.len() + 1, items.join(", "));
        a
    }
    fn view(&mut self, ty: &Ty, vs: &[Val]) -> String {
        let cpp = self.cpp_ty(ty);
        if vs.is_empty() {
            // an empty string is passed as a default-constructed view (data() == nullptr); an empty span is spelled
            // out, because `diplomat::span`'s default constructor has size `dynamic_extent`, unlike `std::span`
            // (typed null pointer: with C++20 `diplomat::span` is `std::span`, whose constructor wants a pointer type)
            let (_, et) = self.elem(ty);
            let konst = if cpp.contains("<const ") { "const " } else { "" };
            return if matches!(ty, Ty::Str(..)) { format!("{cpp}()") } else if matches!(ty, Ty::Strs(..)) { format!("{cpp}((const {}*)nullptr, 0)", self.cpp_ty(&Ty::Str(Some(crate::tygen::Lt::Anon), crate::tygen::Enc::UUtf8, crate::tygen::Sd::Std))) } else { format!("{cpp}(({konst}{et}*)nullptr, 0)") };
        }
        let a = self.array(ty, vs);
        format!("{cpp}({a}, {})", vs.len())
    }
    /// the C++ API type of a value type (only where the driver has to name it: views, optionals of views)
    fn cpp_ty(&self, ty: &Ty) -> String {
        match ty {
            Ty::Str(_, Enc::UUtf16, _) => "std::u16string_view".into(),
            Ty::Str(..) => "std::string_view".into(),
            Ty::PSlice(Some((_, false)), p, _) => format!("diplomat::span<const {}>", prim_cpp(*p)),
            Ty::PSlice(_, p, _) => format!("diplomat::span<{}>", prim_cpp(*p)),
            Ty::Strs(e, sd) => format!("diplomat::span<const {}>", self.cpp_ty(&Ty::Str(Some(crate::tygen::Lt::Anon), *e, *sd))),
            Ty::Prim(p) => prim_cpp(*p).into(),
            Ty::Named(n) => n.clone(),
            _ => "auto".into(),
        }
    }
    /// an expression of the C++ API type of `ty` (input position) holding `v`
    pub fn init(&mut self, ty: &Ty, v: &Val) -> String {
        match (ty, v) {
            (Ty::Prim(p), v) => lit(*p, v),
            (Ty::Named(n), Val::Struct(vs)) => {
                let Some(Def::Struct { fields, .. }) = self.env.get(n).cloned() else { panic!("no struct") };
                format!("{n}{{ {} }}", fields.iter().zip(vs).map(|((_, t), v)| self.init(t, v)).collect::<Vec<_>>().join(", "))
            }
            (Ty::Named(n), Val::Enum(var, _)) => format!("{n}({n}::{var})"),
            (Ty::Ref(..), Val::Op(tag)) => {
                let n = self.opaque_name(ty);
                let t = self.fresh("op");
                self.pre += &format!("  auto {t} = {n}::{HELPER_MK}({tag});\n");
                self.arg_tags.push(*tag);
                format!("*{t}")
            }
            (Ty::Opt(t, _), v) if is_pointer(t) => match v {
                Val::None => "nullptr".into(),
                Val::Some(x) => { let e = self.init(t, x); format!("&{e}") }
                _ => panic!(),
            },
            (Ty::Opt(t, _), v) => match v {
                Val::None => "std::nullopt".into(),
                Val::Some(x) => {
                    let inner = self.init(t, x);
                    match **t {
                        Ty::Str(..) | Ty::PSlice(..) | Ty::Strs(..) | Ty::Prim(_) => format!("std::optional<{}>({inner})", self.cpp_ty(t)),
                        _ => inner,
                    }
                }
                _ => panic!(),
            },
            (Ty::Str(..), Val::List(vs)) | (Ty::PSlice(..), Val::List(vs)) => self.view(ty, vs),
            (Ty::Strs(e, sd), Val::List(vs)) => {
                let elem_ty = Ty::Str(Some(crate::tygen::Lt::Anon), *e, *sd);
                let views: Vec<String> = vs.iter().map(|v| { let Val::List(x) = v else { panic!() }; self.view(&elem_ty, x) }).collect();
                let a = self.fresh("strs");
                let et = self.cpp_ty(&elem_ty);
                self.pre += &format!("  {et} {a}[{}] = {{ {} }};\n", vs.len() + 1, views.join(", "));
                format!("diplomat::span<const {et}>({a}, {})", vs.len())
            }
            (Ty::Ordering, Val::Int(i)) => format!("(int8_t)({i})"),
            _ => panic!("cpp init: unsupported {ty:?} {v:?}"),
        }
    }

    fn show_prim(p: Prim, e: &str) -> String {
        match p {
            Prim::Bool => format!("std::printf(\"%s\", ({e}) ? \"true\" : \"false\");"),
            Prim::F32 => format!("std::printf(\"f%08x\", bf32({e}));"),
            Prim::F64 => format!("std::printf(\"d%016llx\", (unsigned long long)bf64({e}));"),
            Prim::I8 | Prim::I16 | Prim::I32 | Prim::I64 | Prim::Isize => format!("std::printf(\"%lld\", (long long)({e}));"),
            _ => format!("std::printf(\"%llu\", (unsigned long long)({e}));"),
        }
    }
    fn no_payload(&self, t: &Ty) -> bool {
        match t {
            Ty::Unit => true,
            Ty::Named(n) => matches!(self.env.get(n), Some(Def::Struct { fields, .. }) if fields.is_empty()),
            _ => false,
        }
    }
    /// statements printing the canonical form of the C++ value `e` of Rust type `ty` (output position)
    pub fn show(&mut self, ty: &Ty, e: &str) -> String {
        match ty {
            Ty::Prim(p) => Self::show_prim(*p, e),
            Ty::Ordering => format!("std::printf(\"%d\", (int)({e}));"),
            Ty::Unit => "std::printf(\"()\");".into(),
            Ty::Named(n) => match self.env.get(n).cloned() {
                Some(Def::Struct { fields, .. }) => {
                    let parts: Vec<String> = fields.iter().map(|(f, t)| self.show(t, &format!("({e}).{f}"))).collect();
                    format!("std::printf(\"{{\"); {} std::printf(\"}}\");", parts.join(" std::printf(\",\"); "))
                }
                Some(Def::Enum { variants }) => {
                    let chain: String = enum_discs(&variants).iter().map(|(v, _)| format!("({e}) == {n}::{v} ? \"e{v}\" : ")).collect();
                    format!("std::printf(\"%s\", {chain}\"e?\");")
                }
                _ => panic!("opaque by value"),
            },
            Ty::Ref(..) => format!("std::printf(\"op(%u)\", (unsigned)({e}).{HELPER_TAG}());"),
            Ty::Box(_) => format!("std::printf(\"op(%u)\", (unsigned)({e})->{HELPER_TAG}());"),
            Ty::Opt(t, _) if is_pointer(t) => format!("if ({e}) {{ std::printf(\"some(op(%u))\", (unsigned)({e})->{HELPER_TAG}()); }} else std::printf(\"none\");"),
            Ty::Opt(t, _) => {
                let inner = if self.no_payload(t) { if **t == Ty::Unit { "std::printf(\"()\");".to_string() } else { "std::printf(\"{}\");".to_string() } } else { self.show(t, &format!("({e}).value()")) };
                format!("if (({e}).has_value()) {{ std::printf(\"some(\"); {inner} std::printf(\")\"); }} else std::printf(\"none\");")
            }
            Ty::Res(a, b, _) => {
                let k = self.fresh("isok");
                self.hoist += &format!("  bool {k} = ({e}).is_ok();\n");
                let mut arm = |g: &mut Self, t: &Ty, acc: &str| -> String {
                    if g.no_payload(t) { return if *t == Ty::Unit { "std::printf(\"()\");".into() } else { "std::printf(\"{}\");".into() }; }
                    let v = g.fresh("rv");
                    let get = if matches!(t, Ty::Ref(..)) { ".value().get()" } else { ".value()" };
                    // moved out before anything is printed, alive until the block ends
                    g.hoist += &format!("  auto {v}o = std::move({e}).{acc}();\n");
                    let inner = g.show(t, &v);
                    format!("{{ auto&& {v} = {v}o{get}; {inner} }}")
                };
                let ia = arm(self, a, "ok");
                let ib = arm(self, b, "err");
                format!("if ({k}) {{ std::printf(\"ok(\"); {ia} std::printf(\")\"); }} else {{ std::printf(\"err(\"); {ib} std::printf(\")\"); }}")
            }
            Ty::Str(_, enc, _) => {
                let i = self.fresh("i");
                let cast = if *enc == Enc::UUtf16 { "uint16_t" } else { "uint8_t" };
                format!("std::printf(\"[\"); for (size_t {i} = 0; {i} < ({e}).size(); {i}++) {{ if ({i}) std::printf(\",\"); std::printf(\"%u\", (unsigned)({cast})({e}).data()[{i}]); }} std::printf(\"]\");")
            }
            Ty::PSlice(_, p, _) => {
                let i = self.fresh("i");
                format!("std::printf(\"[\"); for (size_t {i} = 0; {i} < ({e}).size(); {i}++) {{ if ({i}) std::printf(\",\"); {} }} std::printf(\"]\");", Self::show_prim(*p, &format!("({e}).data()[{i}]")))
            }
            _ => panic!("cpp show: unsupported {ty:?}"),
        }
    }
}

pub const CPP_PRELUDE: &str = r#"#include <cstdio>
#include <cstring>
#include <cstdint>
#include <optional>
#include <string>
#include <string_view>
#include <functional>
#include <memory>
extern "C" void vset_salt(uint32_t);
static float f32b(uint32_t b) { float f; std::memcpy(&f, &b, 4); return f; }
static double f64b(uint64_t b) { double f; std::memcpy(&f, &b, 8); return f; }
static uint32_t bf32(float f) { uint32_t b; std::memcpy(&b, &f, 4); return b; }
static uint64_t bf64(double f) { uint64_t b; std::memcpy(&b, &f, 8); return b; }
"#;

/// tags of owned opaques inside a returned value
fn owned_tags(env: &Env, ty: &Ty, v: &Val, out: &mut Vec<u32>) {
    match (ty, v) {
        (Ty::Box(_), Val::Op(t)) => out.push(*t),
        (Ty::Opt(t, _), Val::Some(x)) => owned_tags(env, t, x, out),
        (Ty::Res(a, _, _), Val::Ok(x)) => owned_tags(env, a, x, out),
        (Ty::Res(_, b, _), Val::Err(x)) => owned_tags(env, b, x, out),
        (Ty::Named(n), Val::Struct(vs)) => {
            if let Some(Def::Struct { fields, .. }) = env.get(n) {
                for ((_, t), v) in fields.iter().zip(vs) { owned_tags(env, t, v, out); }
            }
        }
        _ => {}
    }
}

/// does the C++ wrapper of this method validate UTF-8 (a direct `&str` / `Box<str>` parameter)?
pub fn guarded_params(m: &Method) -> Vec<String> {
    m.params.iter().filter(|(_, t)| matches!(t, Ty::Str(_, Enc::Utf8, _))).map(|(n, _)| n.clone()).collect()
}

/// the C++ driver for one case and the transcript it must produce. `corrupt` = on the last salt, a guarded
/// `&str` argument is replaced by bytes that are not UTF-8: the call must be refused before reaching Rust.
pub fn cpp_driver(case: &Case) -> Result<(String, Expected), String> {
    let env = env_of(&case.module);
    let mut src = String::from(CPP_PRELUDE);
    for t in &case.module.types {
        src += &format!("#include \"{}.hpp\"\n", t.name);
    }
    let mut body = String::from("int main() {\n  setvbuf(stdout, NULL, _IONBF, 0);\n");
    let mut exp = vec![];
    for t in &case.module.types {
        for m in &t.methods {
            if m.name == HELPER_MK || m.name == HELPER_TAG { continue; }
            let abi = abi_name(&case.prefix, &t.name, &m.name);
            let scripts = &case.scripts[&(t.name.clone(), m.name.clone())];
            let guarded = guarded_params(m);
            for (salt, sc) in scripts.iter().enumerate() {
                let mut g = Gen::new(&env);
                let mut args = vec![];
                let mut rust_line = format!("rust {abi}:");
                let mut cb_lines = vec![];
                // the last call corrupts the first validated argument; with several validated arguments the call before
                // it corrupts only the second one (each must be rejected on its own)
                let corrupt_idx: Option<usize> = if guarded.is_empty() { None } else if salt + 1 == scripts.len() { Some(0) } else if salt + 2 == scripts.len() && guarded.len() > 1 { Some(1) } else { None };
                let corrupt = corrupt_idx.is_some();
                // receiver
                let recv = match &m.self_param {
                    None => format!("{}::", t.name),
                    Some(sp) => {
                        let sv = sc.self_val.clone().unwrap();
                        rust_line += &format!(" this={}", sv.show());
                        if sp.by_ref {
                            let Val::Op(tag) = sv else { panic!() };
                            let o = g.fresh("self");
                            g.pre += &format!("  auto {o} = {}::{HELPER_MK}({tag});\n", t.name);
                            g.arg_tags.push(tag);
                            format!("{o}->")
                        } else {
                            let init = g.init(&Ty::Named(t.name.clone()), &sv);
                            let o = g.fresh("self");
                            g.pre += &format!("  auto {o} = {init};\n");
                            format!("{o}.")
                        }
                    }
                };
                let mut has_write = false;
                for ((n, pty), v) in m.params.iter().zip(&sc.args) {
                    match pty {
                        Ty::Write => has_write = true,
                        Ty::Fn(ps, r) => {
                            let Val::Cb(cargs, cret) = v else { panic!() };
                            let has_ret = **r != Ty::Unit;
                            let params: Vec<String> = ps.iter().enumerate().map(|(i, p)| format!("{} x{i}", g.cpp_ty(p))).collect();
                            let mut gg = Gen::new(&env);
                            let shows: String = ps.iter().enumerate().map(|(i, p)| format!("std::printf(\" \"); {} ", gg.show(p, &format!("x{i}")))).collect();
                            let ret = if has_ret { let mut gi = Gen::new(&env); format!("return {};", gi.init(r, cret)) } else { String::new() };
                            let sig = format!("{}({})", if has_ret { g.cpp_ty(r) } else { "void".into() }, ps.iter().map(|p| g.cpp_ty(p)).collect::<Vec<_>>().join(", "));
                            // a callable that owns state (captured by value, `mutable`): the call number
                            args.push(format!("std::function<{sig}>([cnt = 0]({}) mutable {{ ++cnt; std::printf(\"cb {abi}.{n}#%d:\", cnt); {shows}std::printf(\"\\n\"); {ret} }})", params.join(", ")));
                            for k in 1..=2 {
                                cb_lines.push(format!("cb {abi}.{n}#{k}:{}", cargs.iter().map(|a| format!(" {}", a.show())).collect::<String>()));
                            }
                            rust_line += &format!(" {n}={}", if has_ret { cret.show() } else { "called".to_string() });
                        }
                        _ => {
                            if corrupt_idx.and_then(|i| guarded.get(i)) == Some(n) {
                                let bad = Val::List(vec![Val::Int(0x41), Val::Int(0xff), Val::Int(0x42)]);
                                args.push(g.init(pty, &bad));
                            } else {
                                args.push(g.init(pty, v));
                                rust_line += &format!(" {n}={}", v.show());
                            }
                        }
                    }
                }
                body += &format!("  {{\n  vset_salt({salt}); std::printf(\"call {abi} salt={salt}\\n\");\n");
                body += &g.pre;
                let call = format!("{recv}{}({})", m.name, args.join(", "));
                let ret_ty = m.ret.clone().unwrap_or(Ty::Unit);
                exp.push(format!("call {abi} salt={salt}"));
                let mut gs = Gen::new(&env);
                // the value expression after the UTF-8 wrapper has been removed
                let unwrap_guard = !guarded.is_empty();
                if corrupt {
                    body += &format!("  auto r0 = {call};\n  if (r0.is_ok()) std::printf(\"c-got accepted-invalid-utf8\\n\"); else std::printf(\"c-got utf8-error\\n\");\n");
                    exp.push("c-got utf8-error".into());
                } else {
                    for l in &cb_lines { exp.push(l.clone()); }
                    exp.push(rust_line);
                    // what the C++ API returns: the written string replaces the unit
                    let plain_void = ret_ty == Ty::Unit && !has_write;
                    if plain_void && !unwrap_guard {
                        body += &format!("  {call};\n  std::printf(\"c-got ()\\n\");\n");
                        exp.push("c-got ()".into());
                    } else {
                        if unwrap_guard {
                            body += &format!("  auto r0 = {call};\n  if (!r0.is_ok()) {{ std::printf(\"c-got utf8-error\\n\"); }} else {{\n");
                            if plain_void {
                                body += "  std::printf(\"c-got ()\\n\");\n";
                            } else {
                                body += &format!("  auto r0o = std::move(r0).ok();\n  auto&& r = r0o.value(){};\n", if matches!(ret_ty, Ty::Ref(..)) { ".get()" } else { "" });
                            }
                        } else {
                            body += &format!("  auto&& r = {call};\n");
                        }
                        if !plain_void {
                            let (show, wexpr) = write_aware_show(&mut gs, &ret_ty, has_write);
                            body += &gs.hoist;
                            body += &format!("  std::printf(\"c-got \"); {show} std::printf(\"\\n\");\n");
                            if has_write {
                                body += &format!("  {wexpr}\n");
                            }
                        }
                        if unwrap_guard { body += "  }\n"; }
                        exp.push(format!("c-got {}", sc.ret.show()));
                        if has_write {
                            let kept = match &sc.ret { Val::Err(_) | Val::None => false, _ => true };
                            exp.push(if kept { format!("write=[{}]", sc.written.iter().map(|b| b.to_string()).collect::<Vec<_>>().join(",")) } else { "write=dropped".into() });
                        }
                    }
                }
                body += "  }\n";
                // everything owned by the block is released when it ends: returned boxes and argument opaques
                let mut drops: Vec<u32> = vec![];
                if !corrupt { owned_tags(&env, &ret_ty, &sc.ret, &mut drops); }
                drops.extend(g.arg_tags.iter().cloned());
                let mut dl: Vec<String> = drops.iter().map(|t| format!("drop op({t})")).collect();
                dl.sort();
                exp.extend(dl);
            }
        }
    }
    body += "  std::printf(\"done\\n\");\n  return 0;\n}\n";
    exp.push("done".into());
    Ok((format!("{src}{body}"), Expected { lines: exp }))
}

/// (statements showing `r`, statements printing the written string) — with a write buffer the C++ API returns
/// the string where Rust returns unit
fn write_aware_show(g: &mut Gen, ret_ty: &Ty, has_write: bool) -> (String, String) {
    let print_str = |e: &str| format!("std::printf(\"write=[\"); for (size_t i = 0; i < ({e}).size(); i++) {{ if (i) std::printf(\",\"); std::printf(\"%u\", (unsigned)(uint8_t)({e})[i]); }} std::printf(\"]\\n\");");
    if !has_write {
        return (g.show(ret_ty, "r"), String::new());
    }
    match ret_ty {
        Ty::Unit => ("std::printf(\"()\");".into(), print_str("r")),
        Ty::Opt(_, _) => (
            "if (r.has_value()) std::printf(\"some(())\"); else std::printf(\"none\");".into(),
            format!("if (r.has_value()) {{ {} }} else std::printf(\"write=dropped\\n\");", print_str("r.value()")),
        ),
        Ty::Res(_, b, _) => {
            g.hoist += "  bool wok = r.is_ok(); std::string wstr; if (wok) { wstr = std::move(r).ok().value(); }\n";
            let err = if g_no_payload(g, b) { if **b == Ty::Unit { "std::printf(\"()\");".to_string() } else { "std::printf(\"{}\");".to_string() } } else {
                let get = if matches!(**b, Ty::Ref(..)) { ".value().get()" } else { ".value()" };
                g.hoist += "  auto evo = std::move(r).err();\n";
                let inner = g.show(b, "ev");
                format!("{{ auto&& ev = evo{get}; {inner} }}")
            };
            (
                format!("if (wok) {{ std::printf(\"ok(())\"); }} else {{ std::printf(\"err(\"); {err} std::printf(\")\"); }}"),
                format!("if (wok) {{ {} }} else std::printf(\"write=dropped\\n\");", print_str("wstr")),
            )
        }
        _ => (g.show(ret_ty, "r"), String::new()),
    }
}

fn g_no_payload(g: &Gen, t: &Ty) -> bool {
    g.no_payload(t)
}

/// sort runs of consecutive `drop …` lines: C++ destroys locals and members in an order the harness does not model
pub fn normalise_drops(lines: &[String]) -> Vec<String> {
    let mut out: Vec<String> = vec![];
    let mut run: Vec<String> = vec![];
    for l in lines {
        if l.starts_with("drop ") {
            run.push(l.clone());
        } else {
            run.sort();
            out.append(&mut run);
            out.push(l.clone());
        }
    }
    run.sort();
    out.append(&mut run);
    out
}
