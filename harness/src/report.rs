//! The JSON report each subcommand prints on stdout for `check`.
use serde_json::{json, Map, Value};
use std::collections::BTreeMap;

#[derive(Default)]
pub struct Report {
    pub id: String,
    pub cases: usize,
    pub distinct: std::collections::BTreeSet<String>,
    pub disagreements: Vec<Value>,
    pub oracle_failures: Vec<Value>,
    pub oracle_runs: usize,
    pub distribution: BTreeMap<String, usize>,
    pub samples: Vec<Value>,
    pub notes: Vec<String>,
    pub extra: Map<String, Value>,
}

impl Report {
    pub fn new(id: &str) -> Self {
        Report {
            id: id.into(),
            ..Default::default()
        }
    }
    pub fn count(&mut self, key: &str) {
        *self.distribution.entry(key.into()).or_insert(0) += 1;
    }
    pub fn count_n(&mut self, key: &str, n: usize) {
        *self.distribution.entry(key.into()).or_insert(0) += n;
    }
    pub fn case(&mut self, case: &str) {
        self.cases += 1;
        self.distinct.insert(case.to_string());
        if self.samples.len() < 5 {
            self.samples.push(json!(case));
        }
    }
    pub fn disagree(&mut self, case: &str, kind: &str, real: &str, model: &str) {
        if self.disagreements.len() < 50 {
            self.disagreements
                .push(json!({"case": case, "kind": kind, "impl": real, "model": model}));
        } else {
            self.count("disagreements_not_listed");
        }
    }
    pub fn oracle_fail(&mut self, case: &str, what: &str, detail: Value) {
        if self.oracle_failures.len() < 400 {
            self.oracle_failures
                .push(json!({"case": case, "what": what, "detail": detail}));
        }
    }
    pub fn print(&self) {
        let v = json!({
            "id": self.id,
            "cases": self.cases,
            "distinct": self.distinct.len(),
            "disagreements": self.disagreements,
            "oracle_failures": self.oracle_failures,
            "oracle_runs": self.oracle_runs,
            "distribution": self.distribution,
            "samples": self.samples,
            "notes": self.notes,
            "extra": self.extra,
        });
        println!("{}", serde_json::to_string(&v).unwrap());
    }
}
