//! One PRNG state drives every random choice so that a disagreement replays exactly.
#[derive(Clone)]
pub struct Rng(pub u64);

impl Rng {
    pub fn new(seed: u64) -> Self {
        Rng(seed.wrapping_mul(0x9E3779B97F4A7C15).wrapping_add(0x1234_5678_9ABC_DEF1))
    }
    pub fn next_u64(&mut self) -> u64 {
        // splitmix64
        self.0 = self.0.wrapping_add(0x9E3779B97F4A7C15);
        let mut z = self.0;
        z = (z ^ (z >> 30)).wrapping_mul(0xBF58476D1CE4E5B9);
        z = (z ^ (z >> 27)).wrapping_mul(0x94D049BB133111EB);
        z ^ (z >> 31)
    }
    pub fn below(&mut self, n: usize) -> usize {
        if n == 0 {
            0
        } else {
            (self.next_u64() % n as u64) as usize
        }
    }
    pub fn range(&mut self, lo: i64, hi: i64) -> i64 {
        lo + (self.next_u64() % ((hi - lo + 1) as u64)) as i64
    }
    pub fn chance(&mut self, num: usize, den: usize) -> bool {
        self.below(den) < num
    }
    pub fn pick<'a, T>(&mut self, xs: &'a [T]) -> &'a T {
        &xs[self.below(xs.len())]
    }
    pub fn shuffle<T>(&mut self, xs: &mut [T]) {
        for i in (1..xs.len()).rev() {
            let j = self.below(i + 1);
            xs.swap(i, j);
        }
    }
    pub fn fork(&mut self) -> Rng {
        Rng(self.next_u64())
    }
}
