//! Shared type-directed generator of bridge modules: one value is printed both as Rust source for the
//! real tool and as an s-expression case for the Lean model, so both sides see one input by construction.
use crate::rng::Rng;

#[derive(Clone, Copy, Debug, PartialEq, Eq)]
pub enum Prim {
    Bool, Char, I8, U8, I16, U16, I32, U32, I64, U64, I128, U128, Isize, Usize, F32, F64, Byte,
}
pub const PRIMS_NO128: [Prim; 15] = [
    Prim::Bool, Prim::Char, Prim::I8, Prim::U8, Prim::I16, Prim::U16, Prim::I32, Prim::U32, Prim::I64, Prim::U64,
    Prim::Isize, Prim::Usize, Prim::F32, Prim::F64, Prim::Byte,
];
impl Prim {
    pub fn rust(&self) -> &'static str {
        match self {
            Prim::Bool => "bool", Prim::Char => "DiplomatChar", Prim::I8 => "i8", Prim::U8 => "u8", Prim::I16 => "i16",
            Prim::U16 => "u16", Prim::I32 => "i32", Prim::U32 => "u32", Prim::I64 => "i64", Prim::U64 => "u64",
            Prim::I128 => "i128", Prim::U128 => "u128", Prim::Isize => "isize", Prim::Usize => "usize",
            Prim::F32 => "f32", Prim::F64 => "f64", Prim::Byte => "DiplomatByte",
        }
    }
    pub fn sexp(&self) -> &'static str {
        match self {
            Prim::Bool => "bool", Prim::Char => "char", Prim::I8 => "i8", Prim::U8 => "u8", Prim::I16 => "i16",
            Prim::U16 => "u16", Prim::I32 => "i32", Prim::U32 => "u32", Prim::I64 => "i64", Prim::U64 => "u64",
            Prim::I128 => "i128", Prim::U128 => "u128", Prim::Isize => "isize", Prim::Usize => "usize",
            Prim::F32 => "f32", Prim::F64 => "f64", Prim::Byte => "byte",
        }
    }
    /// a Rust expression of this type (for method bodies)
    pub fn default_expr(&self) -> &'static str {
        match self {
            Prim::Bool => "false",
            Prim::F32 | Prim::F64 => "0.0",
            _ => "0",
        }
    }
}

#[derive(Clone, Copy, Debug, PartialEq, Eq)]
pub enum Enc { Utf8, UUtf8, UUtf16 }
#[derive(Clone, Copy, Debug, PartialEq, Eq)]
pub enum Sd { Std, Dip }
#[derive(Clone, Debug, PartialEq, Eq)]
pub enum Lt { Static, Named(String), Anon }

impl Lt {
    pub fn sexp(&self) -> String {
        match self { Lt::Static => "static".into(), Lt::Named(n) => n.clone(), Lt::Anon => "_".into() }
    }
    /// `'a ` with trailing space, or empty for an elided lifetime
    pub fn amp(&self) -> String {
        match self { Lt::Static => "'static ".into(), Lt::Named(n) => format!("'{n} "), Lt::Anon => String::new() }
    }
    pub fn generic(&self) -> String {
        match self { Lt::Static => "<'static>".into(), Lt::Named(n) => format!("<'{n}>"), Lt::Anon => String::new() }
    }
    pub fn generic_comma(&self) -> String {
        match self { Lt::Static => "'static, ".into(), Lt::Named(n) => format!("'{n}, "), Lt::Anon => String::new() }
    }
}

#[derive(Clone, Debug, PartialEq)]
pub enum Ty {
    Prim(Prim),
    Named(String),
    Ref(Lt, bool, Box<Ty>),
    Box(Box<Ty>),
    Opt(Box<Ty>, Sd),
    Res(Box<Ty>, Box<Ty>, Sd),
    Write,
    Str(Option<Lt>, Enc, Sd),
    PSlice(Option<(Lt, bool)>, Prim, Sd),
    Strs(Enc, Sd),
    Unit,
    Ordering,
    Fn(Vec<Ty>, Box<Ty>),
}

fn enc_sexp(e: Enc) -> &'static str { match e { Enc::Utf8 => "utf8", Enc::UUtf8 => "uutf8", Enc::UUtf16 => "uutf16" } }
fn sd_sexp(s: Sd) -> &'static str { match s { Sd::Std => "std", Sd::Dip => "dip" } }

impl Ty {
    pub fn sexp(&self) -> String {
        match self {
            Ty::Prim(p) => format!("(prim {})", p.sexp()),
            Ty::Named(n) => format!("(named {n})"),
            Ty::Ref(lt, m, t) => format!("(ref {} {} {})", lt.sexp(), if *m { "mut" } else { "imm" }, t.sexp()),
            Ty::Box(t) => format!("(box {})", t.sexp()),
            Ty::Opt(t, sd) => format!("(opt {} {})", sd_sexp(*sd), t.sexp()),
            Ty::Res(a, b, sd) => format!("(res {} {} {})", sd_sexp(*sd), a.sexp(), b.sexp()),
            Ty::Write => "write".into(),
            Ty::Str(None, e, sd) => format!("(str owned {} {})", enc_sexp(*e), sd_sexp(*sd)),
            Ty::Str(Some(lt), e, sd) => format!("(str {} {} {})", lt.sexp(), enc_sexp(*e), sd_sexp(*sd)),
            Ty::PSlice(None, p, sd) => format!("(pslice owned {} {})", p.sexp(), sd_sexp(*sd)),
            Ty::PSlice(Some((lt, m)), p, sd) => format!("(pslice {} {} {} {})", lt.sexp(), if *m { "mut" } else { "imm" }, p.sexp(), sd_sexp(*sd)),
            Ty::Strs(e, sd) => format!("(strs {} {})", enc_sexp(*e), sd_sexp(*sd)),
            Ty::Unit => "unit".into(),
            Ty::Ordering => "ordering".into(),
            Ty::Fn(ps, r) => format!("(fn {}{})", r.sexp(), ps.iter().map(|p| format!(" {}", p.sexp())).collect::<String>()),
        }
    }
    pub fn rust(&self) -> String {
        match self {
            Ty::Prim(p) => p.rust().into(),
            Ty::Named(n) => n.clone(),
            Ty::Ref(lt, m, t) => format!("&{}{}{}", lt.amp(), if *m { "mut " } else { "" }, t.rust()),
            Ty::Box(t) => format!("Box<{}>", t.rust()),
            Ty::Opt(t, Sd::Std) => format!("Option<{}>", t.rust()),
            Ty::Opt(t, Sd::Dip) => format!("DiplomatOption<{}>", t.rust()),
            Ty::Res(a, b, Sd::Std) => format!("Result<{}, {}>", a.rust(), b.rust()),
            Ty::Res(a, b, Sd::Dip) => format!("DiplomatResult<{}, {}>", a.rust(), b.rust()),
            Ty::Write => "&mut DiplomatWrite".into(),
            Ty::Str(None, e, Sd::Std) => format!("Box<{}>", match e { Enc::Utf8 => "str", Enc::UUtf8 => "DiplomatStr", Enc::UUtf16 => "DiplomatStr16" }),
            Ty::Str(None, e, Sd::Dip) => match e { Enc::Utf8 => "DiplomatOwnedUTF8StrSlice", Enc::UUtf8 => "DiplomatOwnedStrSlice", Enc::UUtf16 => "DiplomatOwnedStr16Slice" }.into(),
            Ty::Str(Some(lt), e, Sd::Std) => format!("&{}{}", lt.amp(), match e { Enc::Utf8 => "str", Enc::UUtf8 => "DiplomatStr", Enc::UUtf16 => "DiplomatStr16" }),
            Ty::Str(Some(lt), e, Sd::Dip) => format!("{}{}", match e { Enc::Utf8 => "DiplomatUtf8StrSlice", Enc::UUtf8 => "DiplomatStrSlice", Enc::UUtf16 => "DiplomatStr16Slice" }, lt.generic()),
            Ty::PSlice(None, p, Sd::Std) => format!("Box<[{}]>", p.rust()),
            Ty::PSlice(None, p, Sd::Dip) => format!("DiplomatOwnedSlice<{}>", p.rust()),
            Ty::PSlice(Some((lt, m)), p, Sd::Std) => format!("&{}{}[{}]", lt.amp(), if *m { "mut " } else { "" }, p.rust()),
            Ty::PSlice(Some((lt, m)), p, Sd::Dip) => format!("{}<{}{}>", if *m { "DiplomatSliceMut" } else { "DiplomatSlice" }, lt.generic_comma(), p.rust()),
            Ty::Strs(e, Sd::Std) => format!("&[{}]", match e { Enc::Utf8 => "DiplomatUtf8StrSlice", Enc::UUtf8 => "DiplomatStrSlice", Enc::UUtf16 => "DiplomatStr16Slice" }),
            Ty::Strs(e, Sd::Dip) => format!("DiplomatSlice<{}>", match e { Enc::Utf8 => "DiplomatUtf8StrSlice", Enc::UUtf8 => "DiplomatStrSlice", Enc::UUtf16 => "DiplomatStr16Slice" }),
            Ty::Unit => "()".into(),
            Ty::Ordering => "core::cmp::Ordering".into(),
            Ty::Fn(ps, r) => {
                let ret = if **r == Ty::Unit { String::new() } else { format!(" -> {}", r.rust()) };
                format!("impl Fn({}){}", ps.iter().map(|p| p.rust()).collect::<Vec<_>>().join(", "), ret)
            }
        }
    }
    pub fn named_lifetimes(&self, out: &mut Vec<String>) {
        let mut push = |lt: &Lt| {
            if let Lt::Named(n) = lt {
                if !out.contains(n) {
                    out.push(n.clone());
                }
            }
        };
        match self {
            Ty::Ref(lt, _, t) => { push(lt); t.named_lifetimes(out) }
            Ty::Box(t) | Ty::Opt(t, _) => t.named_lifetimes(out),
            Ty::Res(a, b, _) => { a.named_lifetimes(out); b.named_lifetimes(out) }
            Ty::Str(Some(lt), _, _) => push(lt),
            Ty::PSlice(Some((lt, _)), _, _) => push(lt),
            Ty::Fn(ps, r) => { for p in ps { p.named_lifetimes(out) } r.named_lifetimes(out) }
            _ => {}
        }
    }
}

#[derive(Clone, Debug)]
pub struct SelfParam { pub ty: String, pub by_ref: bool, pub mutable: bool, pub lt: Lt }

#[derive(Clone, Debug)]
pub struct Method {
    pub name: String,
    pub self_param: Option<SelfParam>,
    pub params: Vec<(String, Ty)>,
    pub ret: Option<Ty>,
}

#[derive(Clone, Debug)]
pub enum Def {
    Struct { out: bool, fields: Vec<(String, Ty)> },
    Opaque,
    Enum { variants: Vec<String> },
}

#[derive(Clone, Debug)]
pub struct TypeDecl { pub name: String, pub def: Def, pub methods: Vec<Method> }

#[derive(Clone, Debug)]
pub struct Module { pub types: Vec<TypeDecl> }

impl Method {
    pub fn sexp(&self) -> String {
        let s = match &self.self_param {
            None => "-".to_string(),
            Some(s) => format!("(self {} {})", s.ty, if s.by_ref { "ref" } else { "val" }),
        };
        let ps: Vec<String> = self.params.iter().map(|(n, t)| format!("({n} {})", t.sexp())).collect();
        let r = match &self.ret { None => "-".to_string(), Some(t) => t.sexp() };
        format!("(method {} {} ({}) {})", self.name, s, ps.join(" "), r)
    }
    pub fn rust(&self) -> String {
        let mut lts = vec![];
        if let Some(s) = &self.self_param {
            if let Lt::Named(n) = &s.lt { lts.push(n.clone()); }
        }
        for (_, t) in &self.params { t.named_lifetimes(&mut lts); }
        if let Some(t) = &self.ret { t.named_lifetimes(&mut lts); }
        let generics = if lts.is_empty() { String::new() } else { format!("<{}>", lts.iter().map(|l| format!("'{l}")).collect::<Vec<_>>().join(", ")) };
        let mut args = vec![];
        if let Some(s) = &self.self_param {
            args.push(if s.by_ref { format!("&{}{}self", s.lt.amp(), if s.mutable { "mut " } else { "" }) } else { "self".to_string() });
        }
        for (n, t) in &self.params { args.push(format!("{n}: {}", t.rust())); }
        let ret = match &self.ret { None => String::new(), Some(t) => format!(" -> {}", t.rust()) };
        format!("pub fn {}{}({}){} {{ unimplemented!() }}", self.name, generics, args.join(", "), ret)
    }
}

impl TypeDecl {
    pub fn sexp(&self) -> String {
        let ms: Vec<String> = self.methods.iter().map(|m| m.sexp()).collect();
        match &self.def {
            Def::Struct { out, fields } => format!(
                "({} {} ({}) ({}))",
                if *out { "outstruct" } else { "struct" },
                self.name,
                fields.iter().map(|(n, t)| format!("({n} {})", t.sexp())).collect::<Vec<_>>().join(" "),
                ms.join(" ")
            ),
            Def::Opaque => format!("(opaque {} ({}))", self.name, ms.join(" ")),
            Def::Enum { .. } => format!("(enum {} ({}))", self.name, ms.join(" ")),
        }
    }
    pub fn rust(&self) -> String {
        let mut s = String::new();
        match &self.def {
            Def::Struct { out, fields } => {
                if *out { s += "    #[diplomat::out]\n"; }
                let mut lts = vec![];
                for (_, t) in fields { t.named_lifetimes(&mut lts); }
                let g = if lts.is_empty() { String::new() } else { format!("<{}>", lts.iter().map(|l| format!("'{l}")).collect::<Vec<_>>().join(", ")) };
                s += &format!("    pub struct {}{} {{ {} }}\n", self.name, g, fields.iter().map(|(n, t)| format!("pub {n}: {}", t.rust())).collect::<Vec<_>>().join(", "));
            }
            Def::Opaque => s += &format!("    #[diplomat::opaque]\n    pub struct {};\n", self.name),
            Def::Enum { variants } => s += &format!("    pub enum {} {{ {} }}\n", self.name, variants.join(", ")),
        }
        if !self.methods.is_empty() {
            s += &format!("    impl {} {{\n", self.name);
            for m in &self.methods { s += &format!("        {}\n", m.rust()); }
            s += "    }\n";
        }
        s
    }
}

impl Module {
    pub fn sexp_decls(&self) -> String {
        self.types.iter().map(|t| t.sexp()).collect::<Vec<_>>().join(" ")
    }
    pub fn rust(&self) -> String {
        format!("#[diplomat::bridge]\nmod ffi {{\n{}}}\n", self.types.iter().map(|t| t.rust()).collect::<String>())
    }
}

/// What a backend profile allows (drives generation so that valid modules stay valid)
#[derive(Clone, Copy, Debug)]
pub struct Profile { pub option: bool, pub callbacks: bool, pub static_slices: bool, pub unsafe_refs: bool }

impl Profile {
    pub fn sexp(&self) -> String {
        format!("(sup {} {} {} {})", self.option as u8, self.callbacks as u8, self.static_slices as u8, self.unsafe_refs as u8)
    }
}

pub struct Names { pub opaques: Vec<String>, pub structs: Vec<String>, pub outstructs: Vec<String>, pub enums: Vec<String>, pub zsts: Vec<String> }

/// shapes to stay away from (used to look *behind* known findings)
#[derive(Clone, Copy, Debug, Default)]
pub struct Avoid { pub noncustom_result_err: bool, pub byte_slices: bool, pub callbacks_on_methods_with_self: bool, pub more_zst: bool, pub opt_unit_write: bool, pub owned_slices: bool, pub strs_params: bool }

pub struct Gen<'a> { pub rng: &'a mut Rng, pub prof: Profile, pub names: Names, pub avoid: Avoid }

impl<'a> Gen<'a> {
    fn prim(&mut self) -> Prim {
        loop {
            let p = *self.rng.pick(&PRIMS_NO128);
            if !(self.avoid.byte_slices && p == Prim::Byte) { return p; }
        }
    }
    fn enc(&mut self) -> Enc { *self.rng.pick(&[Enc::Utf8, Enc::UUtf8, Enc::UUtf16]) }
    fn sd(&mut self) -> Sd { if self.rng.chance(1, 2) { Sd::Std } else { Sd::Dip } }
    fn opaque(&mut self) -> Ty { Ty::Named(self.rng.pick(&self.names.opaques.clone()).clone()) }
    fn in_lt(&mut self) -> Lt { if self.rng.chance(1, 2) { Lt::Named("a".into()) } else { Lt::Anon } }

    /// a type valid as a method parameter
    pub fn valid_param(&mut self, depth: usize) -> Ty {
        loop {
            match self.rng.below(16) {
                0 | 1 => return Ty::Prim(self.prim()),
                2 if !self.names.enums.is_empty() => return Ty::Named(self.rng.pick(&self.names.enums.clone()).clone()),
                3 if !self.names.structs.is_empty() => return Ty::Named(self.rng.pick(&self.names.structs.clone()).clone()),
                4 | 5 => { let lt = self.in_lt(); let m = self.rng.chance(1, 4); return Ty::Ref(lt, m, Box::new(self.opaque())) }
                6 => { let lt = self.in_lt(); return Ty::Opt(Box::new(Ty::Ref(lt, false, Box::new(self.opaque()))), Sd::Std) }
                7 if self.prof.option => { let sd = self.sd(); return Ty::Opt(Box::new(Ty::Prim(self.prim())), sd) }
                8 if self.prof.option && !self.names.enums.is_empty() => { let sd = self.sd(); return Ty::Opt(Box::new(Ty::Named(self.rng.pick(&self.names.enums.clone()).clone())), sd) }
                9 => { let lt = self.in_lt(); let e = self.enc(); let sd = self.sd(); return Ty::Str(Some(lt), e, sd) }
                10 => { let lt = self.in_lt(); let m = self.rng.chance(1, 4); let p = self.prim(); let sd = self.sd(); return Ty::PSlice(Some((lt, m)), p, sd) }
                11 if !self.avoid.owned_slices => { let e = self.enc(); let sd = self.sd(); return if self.rng.chance(1, 2) { Ty::Str(None, e, sd) } else { Ty::PSlice(None, self.prim(), sd) } }
                12 if !self.avoid.strs_params => { let e = self.enc(); let sd = self.sd(); return Ty::Strs(e, sd) }
                13 if depth > 0 && self.prof.option => {
                    let lt = self.in_lt(); let e = self.enc(); let sd = self.sd(); let osd = self.sd();
                    return Ty::Opt(Box::new(if self.rng.chance(1, 2) { Ty::Str(Some(lt), e, sd) } else { Ty::PSlice(Some((lt, false)), self.prim(), sd) }), osd)
                }
                14 if self.prof.callbacks && depth > 0 => {
                    let n = self.rng.below(3);
                    let ps = (0..n).map(|_| if self.rng.chance(3, 4) { Ty::Prim(self.prim()) } else if !self.names.enums.is_empty() { Ty::Named(self.rng.pick(&self.names.enums.clone()).clone()) } else { Ty::Prim(Prim::U8) }).collect();
                    let r = if self.rng.chance(1, 2) { Ty::Unit } else { Ty::Prim(self.prim()) };
                    return Ty::Fn(ps, Box::new(r));
                }
                15 if self.prof.static_slices => { let e = self.enc(); let sd = self.sd(); return Ty::Str(Some(Lt::Static), e, sd) }
                _ => continue,
            }
        }
    }

    /// a type valid as a plain (infallible) return value; borrowed outputs use the named lifetime `a`
    pub fn valid_out(&mut self, in_res_opt: bool) -> Ty {
        loop {
            match self.rng.below(12) {
                0 | 1 => return Ty::Prim(self.prim()),
                2 if !self.names.enums.is_empty() => return Ty::Named(self.rng.pick(&self.names.enums.clone()).clone()),
                3 if !self.names.structs.is_empty() => return Ty::Named(self.rng.pick(&self.names.structs.clone()).clone()),
                4 if !self.names.outstructs.is_empty() => return Ty::Named(self.rng.pick(&self.names.outstructs.clone()).clone()),
                5 => return Ty::Box(Box::new(self.opaque())),
                6 => return Ty::Ref(Lt::Named("a".into()), false, Box::new(self.opaque())),
                7 => return Ty::Opt(Box::new(Ty::Box(Box::new(self.opaque()))), Sd::Std),
                8 => return Ty::Opt(Box::new(Ty::Ref(Lt::Named("a".into()), false, Box::new(self.opaque()))), Sd::Std),
                9 => { let e = self.enc(); let sd = self.sd(); return Ty::Str(Some(Lt::Named("a".into())), e, sd) }
                10 => { let p = self.prim(); let sd = self.sd(); return Ty::PSlice(Some((Lt::Named("a".into()), false)), p, sd) }
                11 if in_res_opt && !self.names.zsts.is_empty() => return Ty::Named(self.rng.pick(&self.names.zsts.clone()).clone()),
                11 if in_res_opt && self.prof.option => { let sd = self.sd(); return Ty::Opt(Box::new(Ty::Prim(self.prim())), sd) }
                _ => continue,
            }
        }
    }

    pub fn valid_ret(&mut self) -> Option<Ty> {
        match self.rng.below(10) {
            0 => None,
            1 => Some(Ty::Unit),
            2 | 3 => {
                let ok = if self.rng.chance(1, 4) { Ty::Unit } else { self.valid_out(true) };
                let err = if self.rng.chance(1, 3) { Ty::Unit } else {
                    loop {
                        let e = self.valid_out(true);
                        if !(self.avoid.noncustom_result_err && (matches!(e, Ty::Prim(_) | Ty::Str(..) | Ty::PSlice(..)) || matches!(&e, Ty::Opt(i, _) if !matches!(**i, Ty::Box(_) | Ty::Ref(..))))) { break e; }
                    }
                };
                let sd = self.sd();
                Some(Ty::Res(Box::new(ok), Box::new(err), sd))
            }
            4 => {
                // Option of a non-pointer payload: Nullable
                let sd = self.sd();
                let inner = if self.rng.chance(1, 5) { Ty::Unit } else if self.rng.chance(1, 2) { Ty::Prim(self.prim()) } else if !self.names.structs.is_empty() { Ty::Named(self.rng.pick(&self.names.structs.clone()).clone()) } else { Ty::Prim(Prim::I32) };
                Some(Ty::Opt(Box::new(inner), sd))
            }
            5 => Some(Ty::Ordering),
            _ => Some(self.valid_out(false)),
        }
    }

    fn valid_struct_field(&mut self, earlier_structs: &[String]) -> Ty {
        loop {
            match self.rng.below(8) {
                0..=2 => return Ty::Prim(self.prim()),
                3 if !self.names.enums.is_empty() => return Ty::Named(self.rng.pick(&self.names.enums.clone()).clone()),
                4 if !earlier_structs.is_empty() => return Ty::Named(self.rng.pick(earlier_structs).clone()),
                5 if self.prof.option => return Ty::Opt(Box::new(Ty::Prim(self.prim())), Sd::Dip),
                6 if self.prof.option && !self.names.enums.is_empty() => return Ty::Opt(Box::new(Ty::Named(self.rng.pick(&self.names.enums.clone()).clone())), Sd::Dip),
                7 if !self.avoid.owned_slices => { let e = self.enc(); return if self.rng.chance(1, 2) { Ty::Str(None, e, Sd::Dip) } else { Ty::PSlice(None, self.prim(), Sd::Dip) } }
                _ => continue,
            }
        }
    }

    fn valid_outstruct_field(&mut self) -> Ty {
        loop {
            match self.rng.below(7) {
                0..=2 => return Ty::Prim(self.prim()),
                3 if !self.names.enums.is_empty() => return Ty::Named(self.rng.pick(&self.names.enums.clone()).clone()),
                4 if !self.names.structs.is_empty() => return Ty::Named(self.rng.pick(&self.names.structs.clone()).clone()),
                5 => return Ty::Box(Box::new(self.opaque())),
                6 => return Ty::Opt(Box::new(Ty::Box(Box::new(self.opaque()))), Sd::Std),
                _ => continue,
            }
        }
    }

    pub fn valid_method(&mut self, owner: &str, owner_def: &Def, idx: usize) -> Method {
        let name = format!("m{}", crate::util::letters(idx));
        let self_param = match owner_def {
            Def::Opaque => if self.rng.chance(4, 5) { Some(SelfParam { ty: owner.into(), by_ref: true, mutable: self.rng.chance(1, 5), lt: if self.rng.chance(1, 2) { Lt::Named("a".into()) } else { Lt::Anon } }) } else { None },
            Def::Struct { out: false, .. } | Def::Enum { .. } => if self.rng.chance(1, 2) { Some(SelfParam { ty: owner.into(), by_ref: false, mutable: false, lt: Lt::Anon }) } else { None },
            Def::Struct { out: true, .. } => None,
        };
        let np = self.rng.below(4);
        let mut params: Vec<(String, Ty)> = (0..np).map(|i| (format!("p{i}"), self.valid_param(1))).collect();
        if self.avoid.callbacks_on_methods_with_self && self_param.is_some() {
            for p in params.iter_mut() {
                if matches!(p.1, Ty::Fn(..)) { p.1 = Ty::Prim(Prim::U8); }
            }
        }
        let mut ret = self.valid_ret();
        let opt_unit = self.avoid.opt_unit_write && matches!(&ret, Some(Ty::Opt(i, _)) if **i == Ty::Unit);
        let takes_write = (self.rng.chance(1, 6) && matches!(ret, None | Some(Ty::Unit) | Some(Ty::Res(..)))) || (opt_unit && self.rng.chance(1, 2));
        if takes_write {
            if let Some(Ty::Res(ok, _, _)) = &mut ret { **ok = Ty::Unit; }
            params.push(("write".into(), Ty::Write));
        }
        // a returned borrow `'a` needs an input carrying `'a` (so that rustc accepts the signature too)
        let mut ret_lts = vec![];
        if let Some(t) = &ret { t.named_lifetimes(&mut ret_lts); }
        if !ret_lts.is_empty() {
            let has_a = self_param.as_ref().map(|s| s.lt == Lt::Named("a".into())).unwrap_or(false) || {
                let mut l = vec![];
                for (_, t) in &params { t.named_lifetimes(&mut l); }
                !l.is_empty()
            };
            if !has_a {
                let pos = if takes_write { params.len() - 1 } else { params.len() };
                params.insert(pos, ("src".into(), Ty::Ref(Lt::Named("a".into()), false, Box::new(self.opaque()))));
            }
        }
        Method { name, self_param, params, ret }
    }

    pub fn valid_module(rng: &'a mut Rng, prof: Profile) -> Module {
        Self::valid_module_avoiding(rng, prof, Avoid::default())
    }

    pub fn valid_module_avoiding(rng: &'a mut Rng, prof: Profile, avoid: Avoid) -> Module {
        let n_op = 1 + rng.below(2);
        let n_st = rng.below(3);
        let n_out = rng.below(2);
        let n_en = rng.below(2);
        let has_zst = if avoid.more_zst { rng.chance(1, 2) } else { rng.chance(1, 6) };
        let names = Names {
            opaques: (0..n_op).map(|i| format!("Op{}", crate::util::letters(i))).collect(),
            structs: (0..n_st).map(|i| format!("St{}", crate::util::letters(i))).collect(),
            outstructs: (0..n_out).map(|i| format!("Ou{}", crate::util::letters(i))).collect(),
            enums: (0..n_en).map(|i| format!("En{}", crate::util::letters(i))).collect(),
            zsts: if has_zst { vec!["Zs".into()] } else { vec![] },
        };
        let mut g = Gen { rng, prof, names, avoid };
        let mut types = vec![];
        for e in g.names.enums.clone() {
            let def = Def::Enum { variants: vec!["Va".into(), "Vb".into()] };
            let nm = g.rng.below(2);
            let methods = (0..nm).map(|i| g.valid_method(&e, &def, i)).collect();
            types.push(TypeDecl { name: e, def, methods });
        }
        let mut earlier: Vec<String> = vec![];
        for s in g.names.structs.clone() {
            let nf = 1 + g.rng.below(3);
            let fields = (0..nf).map(|i| (format!("f{i}"), g.valid_struct_field(&earlier))).collect();
            let def = Def::Struct { out: false, fields };
            let nm = g.rng.below(3);
            let methods = (0..nm).map(|i| g.valid_method(&s, &def, i)).collect();
            types.push(TypeDecl { name: s.clone(), def, methods });
            earlier.push(s);
        }
        for z in g.names.zsts.clone() {
            types.push(TypeDecl { name: z, def: Def::Struct { out: false, fields: vec![] }, methods: vec![] });
        }
        for o in g.names.outstructs.clone() {
            let nf = 1 + g.rng.below(3);
            let fields = (0..nf).map(|i| (format!("f{i}"), g.valid_outstruct_field())).collect();
            let def = Def::Struct { out: true, fields };
            let nm = g.rng.below(2);
            let methods = (0..nm).map(|i| g.valid_method(&o, &def, i)).collect();
            types.push(TypeDecl { name: o, def, methods });
        }
        for o in g.names.opaques.clone() {
            let def = Def::Opaque;
            let nm = 1 + g.rng.below(4);
            let methods = (0..nm).map(|i| g.valid_method(&o, &def, i)).collect();
            types.push(TypeDecl { name: o, def, methods });
        }
        Module { types }
    }
}

/// single-fault mutants: each breaks one documented rule at one position; returns (rule tag, mutant)
pub fn mutants(m: &Module, rng: &mut Rng) -> Vec<(String, Module)> {
    mutants_ctx(m, rng, Profile { option: true, callbacks: true, static_slices: true, unsafe_refs: false }).into_iter().map(|(a, b, _)| (a, b)).collect()
}

/// like `mutants`, with the context (`Type` or `Type::method`) the resulting error must carry
pub fn mutants_ctx(m: &Module, rng: &mut Rng, prof: Profile) -> Vec<(String, Module, String)> {
    let base = mutants_inner(m, rng, prof);
    base.into_iter()
        .map(|(tag, mm)| {
            // the faulty position is the one declaration that differs from the original
            let mut ctx = String::new();
            for (a, b) in m.types.iter().zip(mm.types.iter()) {
                if a.sexp() == b.sexp() {
                    continue;
                }
                ctx = b.name.clone();
                for (ma, mb) in a.methods.iter().zip(b.methods.iter()) {
                    if ma.sexp() != mb.sexp() {
                        ctx = format!("{}::{}", b.name, mb.name);
                    }
                }
            }
            (tag, mm, ctx)
        })
        .collect()
}

fn mutants_inner(m: &Module, rng: &mut Rng, prof: Profile) -> Vec<(String, Module)> {
    let mut out = vec![];
    let op = m.types.iter().find(|t| matches!(t.def, Def::Opaque)).map(|t| t.name.clone()).unwrap();
    let st = m.types.iter().find(|t| matches!(&t.def, Def::Struct { out: false, fields } if !fields.is_empty())).map(|t| t.name.clone());
    let ou = m.types.iter().find(|t| matches!(t.def, Def::Struct { out: true, .. })).map(|t| t.name.clone());
    let zs = m.types.iter().find(|t| matches!(&t.def, Def::Struct { out: false, fields } if fields.is_empty())).map(|t| t.name.clone());
    let opq = |n: &str| Ty::Named(n.to_string());
    // positions: (type index, method index)
    let mut sites = vec![];
    for (ti, t) in m.types.iter().enumerate() {
        for (mi, _) in t.methods.iter().enumerate() {
            sites.push((ti, mi));
        }
    }
    if sites.is_empty() {
        return out;
    }
    let bad_params: Vec<(&str, Ty)> = {
        let mut v = vec![
            ("opaque-by-value-param", opq(&op)),
            ("box-opaque-param", Ty::Box(Box::new(opq(&op)))),
            ("box-prim-param", Ty::Box(Box::new(Ty::Prim(Prim::U8)))),
            ("result-param", Ty::Res(Box::new(Ty::Prim(Prim::U8)), Box::new(Ty::Unit), Sd::Std)),
            ("option-opaque-by-value-param", Ty::Opt(Box::new(opq(&op)), Sd::Std)),
            ("dipoption-ref-param", Ty::Opt(Box::new(Ty::Ref(Lt::Anon, false, Box::new(opq(&op)))), Sd::Dip)),
            ("option-box-param", Ty::Opt(Box::new(Ty::Box(Box::new(opq(&op)))), Sd::Std)),
            ("unit-param", Ty::Unit),
            ("ordering-param", Ty::Ordering),
            ("ref-prim-param", Ty::Ref(Lt::Anon, false, Box::new(Ty::Prim(Prim::U8)))),
            ("option-option-param", Ty::Opt(Box::new(Ty::Opt(Box::new(Ty::Prim(Prim::U8)), Sd::Dip)), Sd::Dip)),
        ];
        if let Some(s) = &st {
            v.push(("ref-struct-param", Ty::Ref(Lt::Anon, false, Box::new(opq(s)))));
            v.push(("box-struct-param", Ty::Box(Box::new(opq(s)))));
        }
        if let Some(o) = &ou {
            v.push(("outstruct-param", opq(o)));
        }
        if let Some(z) = &zs {
            v.push(("zst-param", opq(z)));
        }
        v
    };
    for (tag, ty) in bad_params {
        let (ti, mi) = *rng.pick(&sites);
        let mut mm = m.clone();
        let me = &mut mm.types[ti].methods[mi];
        let pos = if matches!(me.params.last(), Some((_, Ty::Write))) { me.params.len() - 1 } else { me.params.len() };
        me.params.insert(pos, ("bad".into(), ty));
        out.push((tag.to_string(), mm));
    }
    // write not last
    {
        let (ti, mi) = *rng.pick(&sites);
        let mut mm = m.clone();
        let me = &mut mm.types[ti].methods[mi];
        me.params.insert(0, ("w0".into(), Ty::Write));
        me.params.push(("after".into(), Ty::Prim(Prim::U8)));
        out.push(("write-not-last".into(), mm));
    }
    let bad_rets: Vec<(&str, Ty)> = {
        let mut v = vec![
            ("opaque-by-value-ret", opq(&op)),
            ("box-prim-ret", Ty::Box(Box::new(Ty::Prim(Prim::U8)))),
            ("owned-str-ret", Ty::Str(None, Enc::Utf8, Sd::Std)),
            ("owned-slice-ret", Ty::PSlice(None, Prim::U8, Sd::Dip)),
            ("strs-ret", Ty::Strs(Enc::Utf8, Sd::Std)),
            ("nested-result-ret", Ty::Opt(Box::new(Ty::Res(Box::new(Ty::Prim(Prim::U8)), Box::new(Ty::Unit), Sd::Std)), Sd::Std)),
            ("result-in-result-ret", Ty::Res(Box::new(Ty::Res(Box::new(Ty::Prim(Prim::U8)), Box::new(Ty::Unit), Sd::Std)), Box::new(Ty::Unit), Sd::Std)),
            ("dipoption-box-ret", Ty::Opt(Box::new(Ty::Box(Box::new(opq(&op)))), Sd::Dip)),
            ("write-ret", Ty::Write),
            ("option-opaque-by-value-ret", Ty::Opt(Box::new(opq(&op)), Sd::Std)),
        ];
        if let Some(s) = &st {
            v.push(("ref-struct-ret", Ty::Ref(Lt::Named("a".into()), false, Box::new(opq(s)))));
            v.push(("box-struct-ret", Ty::Box(Box::new(opq(s)))));
        }
        if let Some(z) = &zs {
            v.push(("zst-plain-ret", opq(z)));
        }
        v
    };
    for (tag, ty) in bad_rets {
        let (ti, mi) = *rng.pick(&sites);
        let mut mm = m.clone();
        mm.types[ti].methods[mi].ret = Some(ty);
        // keep the write parameter consistent with the new return type
        if matches!(mm.types[ti].methods[mi].params.last(), Some((_, Ty::Write))) {
            mm.types[ti].methods[mi].params.pop();
        }
        out.push((tag.to_string(), mm));
    }
    // elided lifetime in the return type with no or two candidates
    {
        let (ti, mi) = *rng.pick(&sites);
        let mut mm = m.clone();
        let me = &mut mm.types[ti].methods[mi];
        me.self_param = None;
        me.params = vec![("x".into(), Ty::Ref(Lt::Anon, false, Box::new(opq(&op)))), ("y".into(), Ty::Ref(Lt::Anon, false, Box::new(opq(&op))))];
        me.ret = Some(Ty::Ref(Lt::Anon, false, Box::new(opq(&op))));
        out.push(("elided-return-two-candidates".into(), mm));
        let mut mm = m.clone();
        let me = &mut mm.types[ti].methods[mi];
        me.self_param = None;
        me.params = vec![("x".into(), Ty::Prim(Prim::U8))];
        me.ret = Some(Ty::Ref(Lt::Anon, false, Box::new(opq(&op))));
        out.push(("elided-return-no-candidate".into(), mm));
        // accepted by rustc (elision through &self / a single input), still to be spelled out for Diplomat
        let opaque_sites: Vec<(usize, usize)> = sites.iter().cloned().filter(|(ti, _)| matches!(m.types[*ti].def, Def::Opaque)).collect();
        if !opaque_sites.is_empty() {
            let (ti, mi) = *rng.pick(&opaque_sites);
            let mut mm = m.clone();
            let owner = mm.types[ti].name.clone();
            let me = &mut mm.types[ti].methods[mi];
            me.self_param = Some(SelfParam { ty: owner, by_ref: true, mutable: false, lt: Lt::Anon });
            me.params = vec![("x".into(), Ty::Prim(Prim::U8))];
            me.ret = Some(Ty::Ref(Lt::Anon, false, Box::new(opq(&op))));
            out.push(("elided-return-through-self".into(), mm));
            let mut mm = m.clone();
            let me = &mut mm.types[ti].methods[mi];
            me.self_param = None;
            me.params = vec![("x".into(), Ty::Str(Some(Lt::Anon), Enc::Utf8, Sd::Std))];
            me.ret = Some(Ty::Str(Some(Lt::Anon), Enc::Utf8, Sd::Std));
            out.push(("elided-return-single-input".into(), mm));
        }
    }
    // elided lifetime in one arm of a Result whose other arm carries a value
    {
        let opaque_sites: Vec<(usize, usize)> = sites.iter().cloned().filter(|(ti, _)| matches!(m.types[*ti].def, Def::Opaque)).collect();
        if !opaque_sites.is_empty() {
            for (tag, ok, err) in [
                ("elided-in-err-arm", Ty::Prim(Prim::U8), Ty::Ref(Lt::Anon, false, Box::new(opq(&op)))),
                ("elided-in-ok-arm", Ty::Ref(Lt::Anon, false, Box::new(opq(&op))), Ty::Prim(Prim::U8)),
                ("elided-in-err-arm-unit-ok", Ty::Unit, Ty::Ref(Lt::Anon, false, Box::new(opq(&op)))),
                ("elided-in-err-arm-unit-ok-write", Ty::Unit, Ty::Ref(Lt::Anon, false, Box::new(opq(&op)))),
                ("elided-in-ok-arm-unit-err", Ty::Ref(Lt::Anon, false, Box::new(opq(&op))), Ty::Unit),
            ] {
                let (ti, mi) = *rng.pick(&opaque_sites);
                let mut mm = m.clone();
                let owner = mm.types[ti].name.clone();
                let me = &mut mm.types[ti].methods[mi];
                me.self_param = Some(SelfParam { ty: owner, by_ref: true, mutable: false, lt: Lt::Anon });
                me.params = if tag.ends_with("-write") { vec![("write".into(), Ty::Write)] } else { vec![] };
                me.ret = Some(Ty::Res(Box::new(ok), Box::new(err), Sd::Std));
                out.push((tag.to_string(), mm));
            }
        }
    }
    // a backend without `option` support must reject Option payloads wherever they appear
    if !prof.option {
        let (ti, mi) = *rng.pick(&sites);
        let mut mm = m.clone();
        let me = &mut mm.types[ti].methods[mi];
        let pos = if matches!(me.params.last(), Some((_, Ty::Write))) { me.params.len() - 1 } else { me.params.len() };
        me.params.insert(pos, ("bad".into(), Ty::Opt(Box::new(Ty::Prim(Prim::U8)), Sd::Dip)));
        out.push(("option-unsupported-param".into(), mm));
        for (tag, ret) in [
            ("option-unsupported-ok-arm", Ty::Res(Box::new(Ty::Opt(Box::new(Ty::Prim(Prim::U8)), Sd::Std)), Box::new(Ty::Unit), Sd::Std)),
            ("option-unsupported-err-arm", Ty::Res(Box::new(Ty::Unit), Box::new(Ty::Opt(Box::new(Ty::Prim(Prim::I32)), Sd::Dip)), Sd::Std)),
        ] {
            let (ti, mi) = *rng.pick(&sites);
            let mut mm = m.clone();
            mm.types[ti].methods[mi].ret = Some(ret);
            if matches!(mm.types[ti].methods[mi].params.last(), Some((_, Ty::Write))) {
                mm.types[ti].methods[mi].params.pop();
            }
            out.push((tag.to_string(), mm));
        }
        let (ti, mi) = *rng.pick(&sites);
        let mut mm = m.clone();
        let me = &mut mm.types[ti].methods[mi];
        let pos = if matches!(me.params.last(), Some((_, Ty::Write))) { me.params.len() - 1 } else { me.params.len() };
        me.params.insert(pos, ("bad".into(), Ty::Opt(Box::new(Ty::Str(Some(Lt::Anon), Enc::Utf8, Sd::Std)), Sd::Std)));
        out.push(("option-unsupported-str-param".into(), mm));
    }
    // self rules
    for (ti, t) in m.types.iter().enumerate() {
        if t.methods.is_empty() {
            continue;
        }
        match &t.def {
            Def::Opaque => {
                let mut mm = m.clone();
                mm.types[ti].methods[0].self_param = Some(SelfParam { ty: t.name.clone(), by_ref: false, mutable: false, lt: Lt::Anon });
                out.push(("self-opaque-by-value".into(), mm));
            }
            Def::Struct { out: false, .. } => {
                let mut mm = m.clone();
                mm.types[ti].methods[0].self_param = Some(SelfParam { ty: t.name.clone(), by_ref: true, mutable: false, lt: Lt::Anon });
                out.push(("self-ref-struct".into(), mm));
            }
            Def::Struct { out: true, .. } => {
                let mut mm = m.clone();
                mm.types[ti].methods[0].self_param = Some(SelfParam { ty: t.name.clone(), by_ref: false, mutable: false, lt: Lt::Anon });
                out.push(("self-outstruct".into(), mm));
            }
            Def::Enum { .. } => {
                // an enum is a value on the wire; `&self` would make the exported function take a pointer (F44)
                let mut mm = m.clone();
                mm.types[ti].methods[0].self_param = Some(SelfParam { ty: t.name.clone(), by_ref: true, mutable: false, lt: Lt::Anon });
                out.push(("self-ref-enum".into(), mm));
            }
            _ => {}
        }
    }
    // a write parameter next to a returned value (F45): the bindings return the string *or* the value
    {
        let opaque_sites: Vec<(usize, usize)> = sites.iter().cloned().filter(|(ti, _)| matches!(m.types[*ti].def, Def::Opaque)).collect();
        if !opaque_sites.is_empty() {
            for (tag, ret) in [
                ("write-with-value-return", Ty::Prim(Prim::U32)),
                ("write-with-value-in-result", Ty::Res(Box::new(Ty::Prim(Prim::U8)), Box::new(Ty::Unit), Sd::Std)),
                ("write-with-value-in-option", Ty::Opt(Box::new(Ty::Prim(Prim::I16)), Sd::Std)),
            ] {
                let (ti, mi) = *rng.pick(&opaque_sites);
                let mut mm = m.clone();
                let owner = mm.types[ti].name.clone();
                let me = &mut mm.types[ti].methods[mi];
                me.self_param = Some(SelfParam { ty: owner, by_ref: true, mutable: false, lt: Lt::Anon });
                me.params = vec![("x".into(), Ty::Prim(Prim::U8)), ("write".into(), Ty::Write)];
                me.ret = Some(ret);
                out.push((tag.to_string(), mm));
            }
        }
    }
    // struct field rules
    for (ti, t) in m.types.iter().enumerate() {
        if let Def::Struct { out: is_out, fields } = &t.def {
            if fields.is_empty() {
                continue;
            }
            let bads: Vec<(&str, Ty)> = if *is_out {
                vec![
                    ("std-option-in-outstruct-field", Ty::Opt(Box::new(Ty::Prim(Prim::U8)), Sd::Std)),
                    ("ordering-in-outstruct-field", Ty::Ordering),
                    ("result-in-outstruct-field", Ty::Res(Box::new(Ty::Prim(Prim::U8)), Box::new(Ty::Unit), Sd::Dip)),
                    ("opaque-by-value-outstruct-field", opq(&op)),
                    ("std-slice-in-outstruct-field", Ty::PSlice(Some((Lt::Static, false)), Prim::U8, Sd::Std)),
                    ("std-str-in-outstruct-field", Ty::Str(Some(Lt::Static), Enc::Utf8, Sd::Std)),
                    ("std-option-of-runtime-slice-in-outstruct-field", Ty::Opt(Box::new(Ty::PSlice(Some((Lt::Static, false)), Prim::U8, Sd::Dip)), Sd::Std)),
                    ("std-option-of-runtime-str-in-outstruct-field", Ty::Opt(Box::new(Ty::Str(Some(Lt::Static), Enc::Utf8, Sd::Dip)), Sd::Std)),
                ]
            } else {
                vec![
                    ("std-option-in-struct-field", Ty::Opt(Box::new(Ty::Prim(Prim::U8)), Sd::Std)),
                    ("std-owned-str-in-struct-field", Ty::Str(None, Enc::Utf8, Sd::Std)),
                    ("box-opaque-in-struct-field", Ty::Box(Box::new(opq(&op)))),
                    ("opaque-by-value-struct-field", opq(&op)),
                    ("result-in-struct-field", Ty::Res(Box::new(Ty::Prim(Prim::U8)), Box::new(Ty::Unit), Sd::Dip)),
                    ("std-option-of-runtime-slice-in-struct-field", Ty::Opt(Box::new(Ty::PSlice(Some((Lt::Static, false)), Prim::U16, Sd::Dip)), Sd::Std)),
                    ("std-option-of-runtime-str-in-struct-field", Ty::Opt(Box::new(Ty::Str(Some(Lt::Static), Enc::Utf8, Sd::Dip)), Sd::Std)),
                    ("std-option-of-runtime-str16-in-struct-field", Ty::Opt(Box::new(Ty::Str(Some(Lt::Static), Enc::UUtf16, Sd::Dip)), Sd::Std)),
                ]
            };
            for (tag, ty) in bads {
                let mut mm = m.clone();
                if let Def::Struct { fields, .. } = &mut mm.types[ti].def {
                    fields.push(("bad".into(), ty));
                }
                out.push((tag.to_string(), mm));
            }
        }
    }
    out
}
