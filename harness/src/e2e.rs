//! End-to-end oracle shared by C01 / C10 / C03: a generated bridge module is compiled with the *real*
//! `#[diplomat::bridge]` into a staticlib whose method bodies log the arguments they received and return
//! scripted values; a generated C driver includes the *real* generated headers, calls every function with
//! boundary values and prints what came back.  Both logs are compared with what the harness computed from
//! the values themselves — no model involved.
//!
//! The driver uses no type name of the generated API: parameter types are copied from the prototypes in the
//! generated header, aggregates are brace-initialised positionally, results are held in `__auto_type`.  What it
//! relies on is the documented vocabulary of the C API: `.ok/.err/.is_ok`, `.data/.len`, field names, the
//! symbol names, `diplomat_buffer_write_*`.
use crate::rng::Rng;
use crate::tygen::{Def, Enc, Lt, Method, Module, Prim, Sd, Ty, TypeDecl};
use crate::util;
use std::collections::BTreeMap;
use std::path::{Path, PathBuf};
use std::process::Command;

#[derive(Clone, Debug, PartialEq)]
pub enum Val {
    Int(i128),
    F32(u32),
    F64(u64),
    Bool(bool),
    Struct(Vec<Val>),
    /// (variant name, discriminant)
    Enum(String, i64),
    Op(u32),
    Some(Box<Val>),
    None,
    Ok(Box<Val>),
    Err(Box<Val>),
    Unit,
    List(Vec<Val>),
    /// a callback: (arguments Rust passes to it, value the foreign side returns)
    Cb(Vec<Val>, Box<Val>),
}

impl Val {
    pub fn show(&self) -> String {
        match self {
            Val::Int(i) => i.to_string(),
            Val::F32(b) => format!("f{b:08x}"),
            Val::F64(b) => format!("d{b:016x}"),
            Val::Bool(b) => b.to_string(),
            Val::Struct(fs) => format!("{{{}}}", fs.iter().map(|f| f.show()).collect::<Vec<_>>().join(",")),
            Val::Enum(n, _) => format!("e{n}"),
            Val::Op(t) => format!("op({t})"),
            Val::Some(v) => format!("some({})", v.show()),
            Val::None => "none".into(),
            Val::Ok(v) => format!("ok({})", v.show()),
            Val::Err(v) => format!("err({})", v.show()),
            Val::Unit => "()".into(),
            Val::List(vs) => format!("[{}]", vs.iter().map(|f| f.show()).collect::<Vec<_>>().join(",")),
            Val::Cb(args, ret) => format!("cb({})->{}", args.iter().map(|f| f.show()).collect::<Vec<_>>().join(","), ret.show()),
        }
    }
}

pub type Env = BTreeMap<String, Def>;

/// `(name, discriminant)` of every variant; a variant is written `Name` or `Name = N` (rustc's rule: explicit, else previous + 1)
pub fn enum_discs(variants: &[String]) -> Vec<(String, i64)> {
    let mut out = vec![];
    let mut next = 0i64;
    for v in variants {
        let (name, d) = match v.split_once('=') {
            Some((n, d)) => (n.trim().to_string(), d.trim().parse::<i64>().unwrap_or(next)),
            None => (v.trim().to_string(), next),
        };
        out.push((name, d));
        next = d + 1;
    }
    out
}

pub fn env_of(m: &Module) -> Env {
    m.types.iter().map(|t| (t.name.clone(), t.def.clone())).collect()
}

fn prim_c(p: Prim) -> &'static str {
    match p {
        Prim::Bool => "bool", Prim::Char => "uint32_t", Prim::I8 => "int8_t", Prim::U8 | Prim::Byte => "uint8_t", Prim::I16 => "int16_t",
        Prim::U16 => "uint16_t", Prim::I32 => "int32_t", Prim::U32 => "uint32_t", Prim::I64 => "int64_t", Prim::U64 => "uint64_t",
        Prim::Isize => "intptr_t", Prim::Usize => "size_t", Prim::F32 => "float", Prim::F64 => "double", Prim::I128 | Prim::U128 => "__int128",
    }
}

fn prim_range(p: Prim) -> (i128, i128) {
    match p {
        Prim::I8 => (i8::MIN as i128, i8::MAX as i128),
        Prim::U8 | Prim::Byte => (0, u8::MAX as i128),
        Prim::I16 => (i16::MIN as i128, i16::MAX as i128),
        Prim::U16 => (0, u16::MAX as i128),
        Prim::I32 => (i32::MIN as i128, i32::MAX as i128),
        Prim::U32 | Prim::Char => (0, u32::MAX as i128),
        Prim::I64 | Prim::Isize => (i64::MIN as i128, i64::MAX as i128),
        Prim::U64 | Prim::Usize => (0, u64::MAX as i128),
        _ => (0, 0),
    }
}

pub fn prim_val(p: Prim, rng: &mut Rng) -> Val {
    match p {
        Prim::Bool => Val::Bool(rng.chance(1, 2)),
        Prim::F32 => Val::F32(*rng.pick(&[0x3fc00000u32, 0xbf800000, 0x7fc00001, 0x7f800000, 0x00000001, 0x80000000, 0x4b189680, 0xffc12345])),
        Prim::F64 => Val::F64(*rng.pick(&[0x3ff8000000000000u64, 0xbff0000000000000, 0x7ff8000000000001, 0x7ff0000000000000, 1, 0x8000000000000000, 0xfff8000000012345])),
        Prim::Char => Val::Int(*rng.pick(&[0x41i128, 0x10FFFF, 0xD800, 0xFFFF_FFFF, 0, 0x1F600, 0x110000])),
        _ => {
            let (lo, hi) = prim_range(p);
            match rng.below(5) {
                0 => Val::Int(lo),
                1 => Val::Int(hi),
                2 => Val::Int(if lo < 0 { -1 } else { hi - 1 }),
                _ => {
                    // a value with every byte different, so that truncation and byte order show
                    let span = (hi - lo) as u128;
                    let r = ((rng.next_u64() as u128) << 64 | rng.next_u64() as u128) % (span + 1);
                    Val::Int(lo + r as i128)
                }
            }
        }
    }
}

fn utf8_samples() -> Vec<Vec<u8>> {
    vec![vec![], b"a".to_vec(), "héllo".as_bytes().to_vec(), "日本".as_bytes().to_vec(), "😀!".as_bytes().to_vec(), b"\0x".to_vec()]
}

pub fn gen_val(env: &Env, ty: &Ty, rng: &mut Rng) -> Val {
    match ty {
        Ty::Prim(p) => prim_val(*p, rng),
        Ty::Named(n) => match env.get(n) {
            Some(Def::Struct { fields, .. }) => Val::Struct(fields.iter().map(|(_, t)| gen_val(env, t, rng)).collect()),
            Some(Def::Enum { variants }) => { let ds = enum_discs(variants); let (n, d) = ds[rng.below(ds.len())].clone(); Val::Enum(n, d) }
            _ => Val::Op(1 + rng.below(900) as u32),
        },
        Ty::Ref(_, _, _) | Ty::Box(_) => Val::Op(1 + rng.below(900) as u32),
        Ty::Opt(t, _) => {
            if rng.chance(2, 5) { Val::None } else { Val::Some(Box::new(gen_val(env, t, rng))) }
        }
        Ty::Res(a, b, _) => {
            if rng.chance(1, 2) { Val::Ok(Box::new(gen_val(env, a, rng))) } else { Val::Err(Box::new(gen_val(env, b, rng))) }
        }
        Ty::Str(_, Enc::Utf8, _) => Val::List(rng.pick(&utf8_samples()).iter().map(|b| Val::Int(*b as i128)).collect()),
        Ty::Str(_, Enc::UUtf8, _) => {
            if rng.chance(1, 2) {
                Val::List(rng.pick(&utf8_samples()).iter().map(|b| Val::Int(*b as i128)).collect())
            } else {
                let n = rng.below(4);
                Val::List((0..n).map(|_| Val::Int(*rng.pick(&[0xffi128, 0xc0, 0x80, 0x41, 0xed, 0xa0, 0]))).collect())
            }
        }
        Ty::Str(_, Enc::UUtf16, _) => {
            let n = rng.below(4);
            Val::List((0..n).map(|_| Val::Int(*rng.pick(&[0x41i128, 0xd800, 0xdc00, 0xffff, 0, 0x3042]))).collect())
        }
        Ty::PSlice(_, p, _) => {
            let n = rng.below(4);
            Val::List((0..n).map(|_| prim_val(*p, rng)).collect())
        }
        Ty::Strs(e, sd) => {
            let n = rng.below(3);
            Val::List((0..n).map(|_| gen_val(env, &Ty::Str(Some(Lt::Anon), *e, *sd), rng)).collect())
        }
        Ty::Unit => Val::Unit,
        Ty::Ordering => Val::Int(rng.range(-1, 1) as i128),
        Ty::Write => Val::Unit,
        Ty::Fn(ps, r) => Val::Cb(ps.iter().map(|p| gen_val(env, p, rng)).collect(), Box::new(gen_val(env, r, rng))),
    }
}

fn is_opaque(env: &Env, t: &Ty) -> bool {
    matches!(t, Ty::Named(n) if matches!(env.get(n), Some(Def::Opaque)))
}
fn is_pointer(t: &Ty) -> bool {
    matches!(t, Ty::Ref(..) | Ty::Box(_))
}
fn elem_c(ty: &Ty) -> &'static str {
    match ty {
        Ty::Str(_, Enc::UUtf16, _) => "uint16_t",
        Ty::Str(..) => "uint8_t",
        Ty::PSlice(_, p, _) => prim_c(*p),
        _ => "uint8_t",
    }
}
fn elem_prim(ty: &Ty) -> Prim {
    match ty {
        Ty::Str(_, Enc::UUtf16, _) => Prim::U16,
        Ty::Str(..) => Prim::U8,
        Ty::PSlice(_, p, _) => *p,
        _ => Prim::U8,
    }
}

// ---------------------------------------------------------------------------------------------------
// Rust side

fn rust_prim_expr(p: Prim, v: &Val) -> String {
    match (p, v) {
        (Prim::Bool, Val::Bool(b)) => b.to_string(),
        (Prim::F32, Val::F32(b)) => format!("f32::from_bits(0x{b:08x}u32)"),
        (Prim::F64, Val::F64(b)) => format!("f64::from_bits(0x{b:016x}u64)"),
        (_, Val::Int(i)) => {
            let t = match p { Prim::Char => "u32", Prim::Byte => "u8", o => o.rust() };
            format!("({i}i128 as {t})")
        }
        _ => panic!("bad prim value {p:?} {v:?}"),
    }
}

fn vec_expr(elem: Prim, vs: &[Val]) -> String {
    let t = match elem { Prim::Char => "u32", Prim::Byte => "u8", o => o.rust() };
    format!("Vec::<{t}>::from([{}])", vs.iter().map(|v| rust_prim_expr(elem, v)).collect::<Vec<_>>().join(", "))
}

/// a Rust expression of the user-facing type `ty` holding `v` (inside the bridge module)
pub fn rust_expr(env: &Env, ty: &Ty, v: &Val) -> String {
    match (ty, v) {
        (Ty::Prim(p), v) => rust_prim_expr(*p, v),
        (Ty::Named(n), Val::Struct(vs)) => {
            let Some(Def::Struct { fields, .. }) = env.get(n) else { panic!("no struct {n}") };
            format!("{n} {{ {} }}", fields.iter().zip(vs).map(|((f, t), v)| format!("{f}: {}", rust_expr(env, t, v))).collect::<Vec<_>>().join(", "))
        }
        (Ty::Named(n), Val::Enum(v, _)) => format!("{n}::{v}"),
        (Ty::Ref(_, _, t), Val::Op(tag)) => format!("&*Box::leak(Box::new({} {{ tag: {tag} }}))", t.rust()),
        (Ty::Box(t), Val::Op(tag)) => format!("Box::new({} {{ tag: {tag} }})", t.rust()),
        (Ty::Opt(t, sd), v) => {
            let inner = match v {
                Val::None => format!("Option::<{}>::None", t.rust()),
                Val::Some(x) => format!("Option::<{}>::Some({})", t.rust(), rust_expr(env, t, x)),
                _ => panic!("bad option value"),
            };
            if *sd == Sd::Std { inner } else { format!("<{}>::from({inner})", ty.rust()) }
        }
        (Ty::Res(a, b, sd), v) => {
            let inner = match v {
                Val::Ok(x) => format!("Result::<{}, {}>::Ok({})", a.rust(), b.rust(), rust_expr(env, a, x)),
                Val::Err(x) => format!("Result::<{}, {}>::Err({})", a.rust(), b.rust(), rust_expr(env, b, x)),
                _ => panic!("bad result value"),
            };
            if *sd == Sd::Std { inner } else { format!("<{}>::from({inner})", ty.rust()) }
        }
        (Ty::Str(lt, enc, sd), Val::List(vs)) => {
            let vec = vec_expr(elem_prim(ty), vs);
            let std = match (lt, enc) {
                (Some(_), Enc::Utf8) => format!("core::str::from_utf8(crate::vleak({vec})).unwrap()"),
                (Some(_), _) => format!("crate::vleak({vec})"),
                (None, Enc::Utf8) => format!("String::from_utf8({vec}).unwrap().into_boxed_str()"),
                (None, _) => format!("{vec}.into_boxed_slice()"),
            };
            if *sd == Sd::Std { std } else { format!("<{}>::from({std})", ty.rust()) }
        }
        (Ty::PSlice(ltm, p, sd), Val::List(vs)) => {
            let vec = vec_expr(*p, vs);
            let std = match ltm {
                Some((_, false)) => format!("crate::vleak({vec})"),
                Some((_, true)) => format!("crate::vleak_mut({vec})"),
                None => format!("{vec}.into_boxed_slice()"),
            };
            if *sd == Sd::Std { std } else { format!("<{}>::from({std})", ty.rust()) }
        }
        (Ty::Unit, _) => "()".into(),
        (Ty::Ordering, Val::Int(i)) => format!("core::cmp::Ordering::{}", if *i < 0 { "Less" } else if *i == 0 { "Equal" } else { "Greater" }),
        _ => panic!("rust_expr: unsupported {ty:?} {v:?}"),
    }
}

pub const HELPER_MK: &str = "vmk";
pub const HELPER_TAG: &str = "vtag";

/// what every call of one method does, per salt
#[derive(Clone, Debug)]
pub struct Script {
    pub args: Vec<Val>,
    pub self_val: Option<Val>,
    pub ret: Val,
    pub written: Vec<u8>,
}

pub const SALTS: usize = 3;

pub fn gen_scripts(env: &Env, owner: &TypeDecl, m: &Method, rng: &mut Rng) -> Vec<Script> {
    (0..SALTS)
        .map(|s| Script {
            args: m.params.iter().map(|(_, t)| gen_val(env, t, rng)).collect(),
            self_val: m.self_param.as_ref().map(|sp| if sp.by_ref { Val::Op(1 + rng.below(900) as u32) } else { gen_val(env, &Ty::Named(owner.name.clone()), rng) }),
            ret: m.ret.as_ref().map(|t| gen_val(env, t, rng)).unwrap_or(Val::Unit),
            written: if m.params.iter().any(|(_, t)| *t == Ty::Write) { format!("w{s}-h\u{e9}llo").into_bytes() } else { vec![] },
        })
        .collect()
}

fn rust_method(env: &Env, abi: &str, m: &Method, scripts: &[Script], plain: bool, self_as: Option<&str>) -> String {
    let mut lts = vec![];
    if let Some(s) = &m.self_param {
        if let Lt::Named(n) = &s.lt { lts.push(n.clone()); }
    }
    for (_, t) in &m.params { t.named_lifetimes(&mut lts); }
    if let Some(t) = &m.ret { t.named_lifetimes(&mut lts); }
    let generics = if lts.is_empty() { String::new() } else { format!("<{}>", lts.iter().map(|l| format!("'{l}")).collect::<Vec<_>>().join(", ")) };
    let mut args = vec![];
    if let Some(s) = &m.self_param {
        args.push(if s.by_ref { format!("&{}{}self", s.lt.amp(), if s.mutable { "mut " } else { "" }) } else { "self".to_string() });
    }
    // the owner's name spelled `Self` in the signature (parsed as `TypeName::SelfType`)
    let spell = |t: String| -> String {
        match self_as {
            None => t,
            Some(owner) => {
                let mut out = String::new();
                let b = t.as_bytes();
                let mut i = 0;
                while i < t.len() {
                    if t[i..].starts_with(owner)
                        && (i == 0 || !(b[i - 1].is_ascii_alphanumeric() || b[i - 1] == b'_'))
                        && (i + owner.len() >= t.len() || !(b[i + owner.len()].is_ascii_alphanumeric() || b[i + owner.len()] == b'_'))
                    {
                        out += "Self";
                        i += owner.len();
                    } else {
                        out.push(b[i] as char);
                        i += 1;
                    }
                }
                out
            }
        }
    };
    for (n, t) in &m.params { args.push(format!("{n}: {}", spell(t.rust()))); }
    let ret = match &m.ret { None => String::new(), Some(t) => format!(" -> {}", spell(t.rust())) };
    if plain {
        return format!("        pub fn {}{generics}({}){ret} {{ unimplemented!() }}\n", m.name, args.join(", "));
    }
    let mut body = String::from("let mut s = String::new();\n");
    if m.self_param.is_some() {
        body += "            s.push_str(\" this=\"); crate::VShow::vshow(&self, &mut s);\n";
    }
    for (k, (n, t)) in m.params.iter().enumerate() {
        match t {
            Ty::Write => {}
            Ty::Fn(ps, r) => {
                // call the callback with the scripted arguments, log what it returned
                body += &format!("            s.push_str(\" {n}=\");\n            match crate::salt() {{\n");
                for (si, sc) in scripts.iter().enumerate() {
                    let Val::Cb(cargs, _) = &sc.args[k] else { panic!("bad cb value") };
                    let call = format!("{n}({})", ps.iter().zip(cargs).map(|(t, v)| rust_expr(env, t, v)).collect::<Vec<_>>().join(", "));
                    let pat = if si + 1 == scripts.len() { "_".to_string() } else { si.to_string() };
                    // every callback is invoked twice: a callable with state must be the same object both times
                    if **r == Ty::Unit {
                        body += &format!("                {pat} => {{ {call}; {call}; s.push_str(\"called\"); }}\n");
                    } else {
                        body += &format!("                {pat} => {{ let _ = {call}; let r = {call}; crate::VShow::vshow(&r, &mut s); }}\n");
                    }
                }
                body += "            }\n";
            }
            _ => body += &format!("            s.push_str(\" {n}=\"); crate::VShow::vshow(&{n}, &mut s);\n"),
        }
    }
    body += &format!("            crate::vlog(\"{abi}\", &s);\n");
    if let Some((w, _)) = m.params.iter().find(|(_, t)| *t == Ty::Write) {
        // written in two pieces, so that a growable buffer grows while non-empty
        body += &format!("            let (wa, wb): (&str, &str) = match crate::salt() {{ {} }};\n            let _ = core::fmt::Write::write_fmt({w}, format_args!(\"{{}}{{}}\", wa, wb));\n",
            scripts.iter().enumerate().map(|(si, sc)| {
                let t = String::from_utf8_lossy(&sc.written).to_string();
                let cut = t.char_indices().nth(3).map(|(i, _)| i).unwrap_or(0);
                format!("{} => ({:?}, {:?})", if si + 1 == scripts.len() { "_".to_string() } else { si.to_string() }, &t[..cut], &t[cut..])
            }).collect::<Vec<_>>().join(", "));
    }
    if let Some(rt) = &m.ret {
        body += "            match crate::salt() {\n";
        for (si, sc) in scripts.iter().enumerate() {
            let pat = if si + 1 == scripts.len() { "_".to_string() } else { si.to_string() };
            body += &format!("                {pat} => {},\n", rust_expr(env, rt, &sc.ret));
        }
        body += "            }\n";
    }
    format!("        pub fn {}{generics}({}){ret} {{\n            {body}        }}\n", m.name, args.join(", "))
}

pub struct Case {
    pub module: Module,
    pub prefix: String,
    /// (type, method) → scripts
    pub scripts: BTreeMap<(String, String), Vec<Script>>,
}

pub fn abi_name(prefix: &str, ty: &str, m: &str) -> String {
    format!("{prefix}{ty}_{m}")
}

/// make the module fit for the end-to-end run: F22 shapes avoided, helper methods on opaques
pub fn prepare(m: &mut Module, rng: &mut Rng) {
    fn fix(t: &mut Ty) {
        match t {
            Ty::Opt(inner, sd) => {
                fix(inner);
                // `DiplomatOption<&[T]>` with a std-spelled slice does not compile (known finding F22, C09)
                if *sd == Sd::Dip && matches!(**inner, Ty::Str(_, _, Sd::Std) | Ty::PSlice(_, _, Sd::Std) | Ty::Strs(_, Sd::Std)) {
                    *sd = Sd::Std;
                }
            }
            Ty::Res(a, b, _) => { fix(a); fix(b) }
            Ty::Ref(_, _, x) | Ty::Box(x) => fix(x),
            Ty::Fn(ps, r) => { for p in ps { fix(p) } fix(r) }
            _ => {}
        }
    }
    for t in &mut m.types {
        if let Def::Enum { variants } = &mut t.def {
            // explicit, negative, gapped and implicit-after-explicit discriminants
            let shapes: [&[&str]; 8] = [&["Va", "Vb"], &["Va = 3", "Vb"], &["Va", "Vb = 404", "Vc"], &["Va = -2", "Vb = 7"], &["Va = 1", "Vb", "Vc = 100", "Vd"], &["Va = 2147483646", "Vb"],
                // not in ascending order: the first and last declared values are not the smallest and largest
                &["Va = 0", "Vb = 5", "Vc = 2"], &["Va = 2", "Vb = 1", "Vc = 0"]];
            *variants = rng.pick(&shapes).iter().map(|s| s.to_string()).collect();
        }
        if let Def::Struct { fields, .. } = &mut t.def {
            for (_, f) in fields {
                fix(f);
                // `DiplomatOwnedStr16Slice<'a>` is an alias with an unused lifetime parameter: it cannot be
                // written without one in a struct field; the equivalent `DiplomatOwnedSlice<u16>` can
                if matches!(f, Ty::Str(None, Enc::UUtf16, Sd::Dip)) {
                    *f = Ty::PSlice(None, Prim::U16, Sd::Dip);
                }
            }
        }
        for me in &mut t.methods {
            for (_, p) in &mut me.params { fix(p) }
            if let Some(r) = &mut me.ret { fix(r) }
        }
        if matches!(t.def, Def::Opaque) {
            t.methods.push(Method { name: HELPER_MK.into(), self_param: None, params: vec![("tag".into(), Ty::Prim(Prim::U32))], ret: Some(Ty::Box(Box::new(Ty::Named(t.name.clone())))) });
            t.methods.push(Method { name: HELPER_TAG.into(), self_param: Some(crate::tygen::SelfParam { ty: t.name.clone(), by_ref: true, mutable: false, lt: Lt::Anon }), params: vec![], ret: Some(Ty::Prim(Prim::U32)) });
        }
    }
}

pub fn make_case(mut module: Module, k: usize, rng: &mut Rng) -> Case {
    prepare(&mut module, rng);
    let env = env_of(&module);
    let mut scripts = BTreeMap::new();
    for t in &module.types {
        for m in &t.methods {
            if m.name == HELPER_MK || m.name == HELPER_TAG { continue; }
            scripts.insert((t.name.clone(), m.name.clone()), gen_scripts(&env, t, m, rng));
        }
    }
    Case { module, prefix: format!("c{k}_"), scripts }
}

impl Case {
    /// the bridge module with logging bodies, plus `VShow`/`Drop` impls and the layout printer
    pub fn rust(&self) -> String {
        self.rust_inner(false)
    }
    /// only the `#[diplomat::bridge]` module (what the proc macro sees)
    pub fn rust_bridge(&self) -> String {
        self.rust_inner(true)
    }
    fn rust_inner(&self, bridge_only: bool) -> String {
        let env = env_of(&self.module);
        let mut s = format!("#[diplomat::bridge]\n#[diplomat::abi_rename = \"{}{{0}}\"]\nmod ffi {{\n", self.prefix);
        let mut impls = String::new();
        let mut layouts = String::new();
        for t in &self.module.types {
            match &t.def {
                Def::Struct { out, fields } => {
                    if *out { s += "    #[diplomat::out]\n"; }
                    let mut lts = vec![];
                    for (_, f) in fields { f.named_lifetimes(&mut lts); }
                    let g = if lts.is_empty() { String::new() } else { format!("<{}>", lts.iter().map(|l| format!("'{l}")).collect::<Vec<_>>().join(", ")) };
                    s += &format!("    pub struct {}{g} {{ {} }}\n", t.name, fields.iter().map(|(n, t)| format!("pub {n}: {}", t.rust())).collect::<Vec<_>>().join(", "));
                    let shows: Vec<String> = fields.iter().map(|(n, _)| format!("crate::VShow::vshow(&self.{n}, o);")).collect();
                    impls += &format!("impl{g} crate::VShow for ffi::{}{g} {{ fn vshow(&self, o: &mut String) {{ o.push('{{'); {} o.push('}}'); }} }}\n", t.name, shows.join(" o.push(','); "));
                    if !fields.is_empty() && lts.is_empty() {
                        layouts += &format!("    println!(\"layout {} {{}} {{}}{}\", core::mem::size_of::<ffi::{}>(), core::mem::align_of::<ffi::{}>(){});\n",
                            t.name, " {}".repeat(fields.len()), t.name, t.name,
                            fields.iter().map(|(n, _)| format!(", core::mem::offset_of!(ffi::{}, {n})", t.name)).collect::<String>());
                    }
                }
                Def::Opaque => {
                    s += &format!("    #[diplomat::opaque]\n    pub struct {} {{ pub tag: u32 }}\n", t.name);
                    impls += &format!("impl crate::VShow for ffi::{} {{ fn vshow(&self, o: &mut String) {{ o.push_str(&format!(\"op({{}})\", self.tag)); }} }}\n", t.name);
                    impls += &format!("impl Drop for ffi::{} {{ fn drop(&mut self) {{ crate::vdrop(self.tag); }} }}\n", t.name);
                }
                Def::Enum { variants } => {
                    s += &format!("    pub enum {} {{ {} }}\n", t.name, variants.join(", "));
                    let arms: String = enum_discs(variants).iter().map(|(v, _)| format!("ffi::{}::{v} => \"e{v}\", ", t.name)).collect();
                    impls += &format!("impl crate::VShow for ffi::{} {{ fn vshow(&self, o: &mut String) {{ o.push_str(match self {{ {arms} }}); }} }}\n", t.name);
                    layouts += &format!("    println!(\"layout {} {{}} {{}}\", core::mem::size_of::<ffi::{}>(), core::mem::align_of::<ffi::{}>());\n", t.name, t.name, t.name);
                }
            }
            if !t.methods.is_empty() {
                s += &format!("    impl {} {{\n", t.name);
                for (mi, m) in t.methods.iter().enumerate() {
                    if m.name == HELPER_MK {
                        s += &format!("        pub fn {HELPER_MK}(tag: u32) -> Box<{}> {{ Box::new({} {{ tag }}) }}\n", t.name, t.name);
                    } else if m.name == HELPER_TAG {
                        s += &format!("        pub fn {HELPER_TAG}(&self) -> u32 {{ self.tag }}\n");
                    } else {
                        let abi = abi_name(&self.prefix, &t.name, &m.name);
                        // every other method spells its own type `Self`
                        let self_as = if mi % 2 == 1 || m.name.starts_with("vos") { Some(t.name.as_str()) } else { None };
                        // a condition that is false for the backends driven here (C, C++): the method stays bound and
                        // must stay exported
                        if mi % 3 == 2 {
                            s += "        #[diplomat::attr(not(any(c, cpp)), disable)]\n";
                        }
                        s += &rust_method(&env, &abi, m, &self.scripts[&(t.name.clone(), m.name.clone())], bridge_only, self_as);
                    }
                }
                s += "    }\n";
            }
        }
        s += "}\n";
        if bridge_only {
            return s;
        }
        s += &impls;
        s += &format!("#[no_mangle]\npub extern \"C\" fn {}vlayouts() {{\n{layouts}}}\n", self.prefix);
        s
    }
}


/// a module in the grammar of the Lean models (`AbiGen.parseDeclA`): `(HEAD PREFIX DECL…)`
pub fn module_sexp(module: &Module, head: &str, prefix: &str) -> String {
    let mut decls = vec![];
    for t in &module.types {
        let ms: Vec<String> = t
            .methods
            .iter()
            .map(|m| {
                let s = match &m.self_param {
                    None => "-".to_string(),
                    Some(s) if !s.by_ref => "(self val)".to_string(),
                    Some(s) => format!("(self ref {} {})", s.lt.sexp(), if s.mutable { "mut" } else { "imm" }),
                };
                let ps: Vec<String> = m.params.iter().map(|(n, t)| format!("({n} {})", t.sexp())).collect();
                let r = match &m.ret { None => "-".to_string(), Some(t) => t.sexp() };
                format!("(m {} {} ({}) {})", m.name, s, ps.join(" "), r)
            })
            .collect();
        decls.push(match &t.def {
            Def::Struct { out, fields } => format!("({} {} ({}) ({}))", if *out { "outstruct" } else { "struct" }, t.name, fields.iter().map(|(n, t)| format!("({n} {})", t.sexp())).collect::<Vec<_>>().join(" "), ms.join(" ")),
            Def::Opaque => format!("(opaque {} ({}))", t.name, ms.join(" ")),
            Def::Enum { .. } => format!("(enum {} ({}))", t.name, ms.join(" ")),
        });
    }
    format!("({head} {} {})", if prefix.is_empty() { "\"\"" } else { prefix }, decls.join(" "))
}

impl Case {
    /// the case in the grammar of the Lean model (`AbiGen.runLine`)
    pub fn sexp(&self) -> String {
        module_sexp(&self.module, "c01", &self.prefix)
    }
}

pub const RUST_PRELUDE: &str = r#"#![allow(warnings)]
use diplomat_runtime::*;
use std::sync::atomic::{AtomicU32, Ordering};
static SALT: AtomicU32 = AtomicU32::new(0);
#[no_mangle] pub extern "C" fn vset_salt(s: u32) { SALT.store(s, Ordering::SeqCst) }
pub fn salt() -> u32 { SALT.load(Ordering::SeqCst) }
pub fn vlog(abi: &str, s: &str) { println!("rust {abi}:{s}"); }
pub fn vdrop(tag: u32) { println!("drop op({tag})"); }
pub fn vleak<T>(v: Vec<T>) -> &'static [T] { Box::leak(v.into_boxed_slice()) }
pub fn vleak_mut<T>(v: Vec<T>) -> &'static mut [T] { Box::leak(v.into_boxed_slice()) }
pub trait VShow { fn vshow(&self, o: &mut String); }
macro_rules! ints { ($($t:ty),*) => { $(impl VShow for $t { fn vshow(&self, o: &mut String) { o.push_str(&self.to_string()); } })* } }
ints!(i8, u8, i16, u16, i32, u32, i64, u64, isize, usize, bool);
impl VShow for f32 { fn vshow(&self, o: &mut String) { o.push_str(&format!("f{:08x}", self.to_bits())); } }
impl VShow for f64 { fn vshow(&self, o: &mut String) { o.push_str(&format!("d{:016x}", self.to_bits())); } }
impl<T: VShow> VShow for [T] { fn vshow(&self, o: &mut String) { o.push('['); for (i, x) in self.iter().enumerate() { if i > 0 { o.push(','); } x.vshow(o); } o.push(']'); } }
impl VShow for str { fn vshow(&self, o: &mut String) { self.as_bytes().vshow(o) } }
impl<T: VShow + ?Sized> VShow for &T { fn vshow(&self, o: &mut String) { (**self).vshow(o) } }
impl<T: VShow + ?Sized> VShow for &mut T { fn vshow(&self, o: &mut String) { (**self).vshow(o) } }
impl<T: VShow + ?Sized> VShow for Box<T> { fn vshow(&self, o: &mut String) { (**self).vshow(o) } }
impl<T: VShow> VShow for Option<T> { fn vshow(&self, o: &mut String) { match self { Some(x) => { o.push_str("some("); x.vshow(o); o.push(')'); } None => o.push_str("none") } } }
impl<T: VShow> VShow for DiplomatResult<T, ()> { fn vshow(&self, o: &mut String) { match self.as_ref() { Ok(x) => { o.push_str("some("); x.vshow(o); o.push(')'); } Err(_) => o.push_str("none") } } }
impl<T: VShow> VShow for DiplomatSlice<'_, T> { fn vshow(&self, o: &mut String) { (**self).vshow(o) } }
impl<T: VShow> VShow for DiplomatSliceMut<'_, T> { fn vshow(&self, o: &mut String) { (**self).vshow(o) } }
impl<T: VShow> VShow for DiplomatOwnedSlice<T> { fn vshow(&self, o: &mut String) { (**self).vshow(o) } }
impl VShow for DiplomatUtf8StrSlice<'_> { fn vshow(&self, o: &mut String) { (**self).vshow(o) } }
impl VShow for DiplomatOwnedUTF8StrSlice { fn vshow(&self, o: &mut String) { (**self).vshow(o) } }
impl VShow for core::cmp::Ordering { fn vshow(&self, o: &mut String) { o.push_str(&(*self as i8).to_string()); } }
"#;

// ---------------------------------------------------------------------------------------------------
// C side

pub struct CGen<'a> {
    pub env: &'a Env,
    pub prefix: &'a str,
    n: usize,
    pub pre: String,
    pub post: String,
    /// opaque tags destroyed by the driver after the call, in order
    pub drops: Vec<u32>,
}

fn c_int(i: i128) -> String {
    if i == i64::MIN as i128 { "(-9223372036854775807LL-1)".into() } else if i < 0 { format!("({i}LL)") } else { format!("{i}ULL") }
}

fn c_prim_init(v: &Val) -> String {
    match v {
        Val::Bool(b) => if *b { "1".into() } else { "0".into() },
        Val::F32(b) => format!("f32b(0x{b:08x}u)"),
        Val::F64(b) => format!("f64b(0x{b:016x}ull)"),
        Val::Int(i) => c_int(*i),
        _ => panic!("bad prim {v:?}"),
    }
}

impl<'a> CGen<'a> {
    pub fn new(env: &'a Env, prefix: &'a str) -> Self {
        CGen { env, prefix, n: 0, pre: String::new(), post: String::new(), drops: vec![] }
    }
    fn fresh(&mut self, p: &str) -> String {
        self.n += 1;
        format!("{p}{}", self.n)
    }
    fn opaque_name(&self, t: &Ty) -> String {
        match t {
            Ty::Ref(_, _, x) | Ty::Box(x) => self.opaque_name(x),
            Ty::Named(n) => n.clone(),
            _ => panic!("not an opaque {t:?}"),
        }
    }
    fn array(&mut self, elem_ty: &str, vs: &[Val]) -> String {
        let a = self.fresh("arr");
        self.pre += &format!("  {elem_ty} {a}[] = {{ {} }};\n", vs.iter().map(c_prim_init).collect::<Vec<_>>().join(", "));
        a
    }
    /// `{ptr, len}` initialiser for a borrowed or owned view
    fn view_init(&mut self, ty: &Ty, vs: &[Val], owned: bool) -> String {
        if vs.is_empty() {
            return "{ 0, 0 }".into();
        }
        let et = elem_c(ty);
        let a = self.array(et, vs);
        if owned {
            let o = self.fresh("own");
            self.pre += &format!("  {et}* {o} = ({et}*)diplomat_alloc(sizeof({a}), _Alignof({et})); memcpy({o}, {a}, sizeof({a}));\n");
            format!("{{ (void*){o}, {} }}", vs.len())
        } else {
            format!("{{ (void*){a}, {} }}", vs.len())
        }
    }
    /// initialiser for a value of the C type that `ty` has in input position; `cty` is the declared C type when known
    pub fn init(&mut self, ty: &Ty, v: &Val, cty: Option<&str>) -> String {
        match (ty, v) {
            (Ty::Prim(_), v) => c_prim_init(v),
            (Ty::Ordering, Val::Int(i)) => c_int(*i),
            (Ty::Named(_), Val::Struct(vs)) => {
                let Ty::Named(n) = ty else { unreachable!() };
                let Some(Def::Struct { fields, .. }) = self.env.get(n) else { panic!("no struct") };
                let fields = fields.clone();
                format!("{{ {} }}", fields.iter().zip(vs).map(|((_, t), v)| self.init(t, v, None)).collect::<Vec<_>>().join(", "))
            }
            (Ty::Named(n), Val::Enum(v, _)) => format!("{n}_{v}"),
            (Ty::Ref(..), Val::Op(tag)) | (Ty::Box(_), Val::Op(tag)) => {
                let n = self.opaque_name(ty);
                let t = self.fresh("op");
                self.pre += &format!("  {n}* {t} = {}{n}_{HELPER_MK}({tag});\n", self.prefix);
                if matches!(ty, Ty::Ref(..)) {
                    self.post += &format!("  {}{n}_destroy({t});\n", self.prefix);
                    self.drops.push(*tag);
                }
                t
            }
            (Ty::Opt(t, _), v) if is_pointer(t) => match v {
                Val::None => "0".into(),
                Val::Some(x) => self.init(t, x, None),
                _ => panic!(),
            },
            (Ty::Opt(t, _), v) => match v {
                Val::None => "{ {0}, 0 }".into(),
                Val::Some(x) => format!("{{ {{ {} }}, 1 }}", self.init(t, x, None)),
                _ => panic!(),
            },
            (Ty::Str(lt, ..), Val::List(vs)) => self.view_init(ty, vs, lt.is_none()),
            (Ty::PSlice(ltm, ..), Val::List(vs)) => self.view_init(ty, vs, ltm.is_none()),
            (Ty::Strs(e, sd), Val::List(vs)) => {
                if vs.is_empty() {
                    return "{ 0, 0 }".into();
                }
                let cty = cty.expect("strs need their declared type");
                let elem_ty = Ty::Str(Some(Lt::Anon), *e, *sd);
                let inits: Vec<String> = vs.iter().map(|v| { let Val::List(x) = v else { panic!() }; self.view_init(&elem_ty, x, false) }).collect();
                let a = self.fresh("strs");
                self.pre += &format!("  __typeof__(*(({cty}*)0)->data) {a}[] = {{ {} }};\n", inits.join(", "));
                format!("{{ {a}, {} }}", vs.len())
            }
            _ => panic!("c init: unsupported {ty:?} {v:?}"),
        }
    }

    fn show_prim(p: Prim, e: &str) -> String {
        match p {
            Prim::Bool => format!("printf(\"%s\", ({e}) ? \"true\" : \"false\");"),
            Prim::F32 => format!("printf(\"f%08x\", bf32({e}));"),
            Prim::F64 => format!("printf(\"d%016llx\", (unsigned long long)bf64({e}));"),
            Prim::I8 | Prim::I16 | Prim::I32 | Prim::I64 | Prim::Isize => format!("printf(\"%lld\", (long long)({e}));"),
            _ => format!("printf(\"%llu\", (unsigned long long)({e}));"),
        }
    }

    /// statements printing the canonical form of the C value `e` whose Rust type is `ty` (output position)
    pub fn show(&mut self, ty: &Ty, e: &str) -> String {
        match ty {
            Ty::Prim(p) => Self::show_prim(*p, e),
            Ty::Ordering => format!("printf(\"%d\", (int)({e}));"),
            Ty::Unit => "printf(\"()\");".into(),
            Ty::Named(n) => match self.env.get(n).cloned() {
                Some(Def::Struct { fields, .. }) => {
                    let parts: Vec<String> = fields.iter().map(|(f, t)| self.show(t, &format!("({e}).{f}"))).collect();
                    format!("printf(\"{{\"); {} printf(\"}}\");", parts.join(" printf(\",\"); "))
                }
                Some(Def::Enum { variants }) => {
                    let chain: String = enum_discs(&variants).iter().map(|(v, _)| format!("({e}) == {n}_{v} ? \"e{v}\" : ")).collect();
                    format!("printf(\"%s\", {chain}\"e?\");")
                }
                _ => panic!("opaque by value"),
            },
            Ty::Ref(..) | Ty::Box(_) => {
                let n = self.opaque_name(ty);
                format!("printf(\"op(%u)\", (unsigned){}{n}_{HELPER_TAG}({e}));", self.prefix)
            }
            Ty::Opt(t, _) if is_pointer(t) => {
                let inner = self.show(t, e);
                format!("if ({e}) {{ printf(\"some(\"); {inner} printf(\")\"); }} else printf(\"none\");")
            }
            Ty::Opt(t, _) => {
                let inner = if self.no_payload(t) { self.show_empty(t) } else { self.show(t, &format!("({e}).ok")) };
                format!("if (({e}).is_ok) {{ printf(\"some(\"); {inner} printf(\")\"); }} else printf(\"none\");")
            }
            Ty::Res(a, b, _) => {
                let ia = if self.no_payload(a) { self.show_empty(a) } else { self.show(a, &format!("({e}).ok")) };
                let ib = if self.no_payload(b) { self.show_empty(b) } else { self.show(b, &format!("({e}).err")) };
                format!("if (({e}).is_ok) {{ printf(\"ok(\"); {ia} printf(\")\"); }} else {{ printf(\"err(\"); {ib} printf(\")\"); }}")
            }
            Ty::Str(..) | Ty::PSlice(..) => {
                let p = elem_prim(ty);
                let i = self.fresh("i");
                let cast = format!("(({})(({e}).data[{i}]))", prim_c(p));
                format!("printf(\"[\"); for (size_t {i} = 0; {i} < ({e}).len; {i}++) {{ if ({i}) printf(\",\"); {} }} printf(\"]\");", Self::show_prim(p, &cast))
            }
            _ => panic!("c show: unsupported {ty:?}"),
        }
    }
    /// unit and zero-sized structs contribute no union member
    fn no_payload(&self, t: &Ty) -> bool {
        match t {
            Ty::Unit => true,
            Ty::Named(n) => matches!(self.env.get(n), Some(Def::Struct { fields, .. }) if fields.is_empty()),
            _ => false,
        }
    }
    fn show_empty(&self, t: &Ty) -> String {
        if *t == Ty::Unit { "printf(\"()\");".into() } else { "printf(\"{}\");".into() }
    }

    /// statements destroying the owned opaques inside a returned value (and the tags they carry, in order)
    pub fn destroy(&mut self, ty: &Ty, v: &Val, e: &str) -> String {
        match (ty, v) {
            (Ty::Box(_), Val::Op(tag)) => {
                let n = self.opaque_name(ty);
                self.drops.push(*tag);
                format!("{}{n}_destroy({e});", self.prefix)
            }
            (Ty::Opt(t, _), Val::Some(x)) if is_pointer(t) => self.destroy(t, x, e),
            (Ty::Opt(t, _), Val::Some(x)) => self.destroy(t, x, &format!("({e}).ok")),
            (Ty::Res(a, _, _), Val::Ok(x)) => self.destroy(a, x, &format!("({e}).ok")),
            (Ty::Res(_, b, _), Val::Err(x)) => self.destroy(b, x, &format!("({e}).err")),
            (Ty::Named(n), Val::Struct(vs)) => {
                let Some(Def::Struct { fields, .. }) = self.env.get(n).cloned() else { return String::new() };
                fields.iter().zip(vs).map(|((f, t), v)| self.destroy(t, v, &format!("({e}).{f}"))).collect::<Vec<_>>().join(" ")
            }
            _ => String::new(),
        }
    }
}

pub const C_PRELUDE: &str = r#"#include <stdio.h>
#include <string.h>
#include <stdint.h>
#include <stdbool.h>
#include <stddef.h>
void vset_salt(uint32_t);
uint8_t* diplomat_alloc(size_t, size_t);
static float f32b(uint32_t b) { float f; memcpy(&f, &b, 4); return f; }
static double f64b(uint64_t b) { double f; memcpy(&f, &b, 8); return f; }
static uint32_t bf32(float f) { uint32_t b; memcpy(&b, &f, 4); return b; }
static uint64_t bf64(double f) { uint64_t b; memcpy(&b, &f, 8); return b; }
"#;

/// parameter types of `abi` as declared in the generated header text (`ret abi(T0 a, T1 b);`)
pub fn declared_param_types(header: &str, abi: &str) -> Option<Vec<String>> {
    let pat = format!(" {abi}(");
    let at = header.find(&pat)?;
    let rest = &header[at + pat.len()..];
    let end = rest.find(')')?;
    let inner = rest[..end].trim();
    if inner == "void" || inner.is_empty() {
        return Some(vec![]);
    }
    Some(
        inner
            .split(',')
            .map(|p| {
                let p = p.trim();
                let cut = p.rfind(|c: char| !(c.is_alphanumeric() || c == '_')).map(|i| i + 1).unwrap_or(0);
                p[..cut].trim().to_string()
            })
            .collect(),
    )
}

/// functions whose return type is a per-method `{abi}_result` struct
pub fn result_struct_fns(case: &Case) -> Vec<String> {
    let mut v = vec![];
    for t in &case.module.types {
        for m in &t.methods {
            let is_rs = match &m.ret {
                Some(Ty::Res(..)) => true,
                Some(Ty::Opt(inner, _)) => !is_pointer(inner),
                _ => false,
            };
            if is_rs { v.push(abi_name(&case.prefix, &t.name, &m.name)); }
        }
    }
    v
}

/// a C++ translation unit that includes the C headers and prints the size and flag offset of every result struct:
/// the header must mean the same to a C++ compiler as to a C compiler
pub fn cpp_layout_probe(case: &Case) -> String {
    let mut s = String::from("#include <cstdio>\n#include <cstddef>\nextern \"C\" {\n");
    for t in &case.module.types { s += &format!("#include \"{}.h\"\n", t.name); }
    s += "}\nint main() {\n";
    for abi in result_struct_fns(case) {
        s += &format!("  std::printf(\"rs {abi} %zu %zu\\n\", sizeof({abi}_result), offsetof({abi}_result, is_ok));\n");
    }
    s += "  return 0;\n}\n";
    s
}

pub struct Expected {
    pub lines: Vec<String>,
}

/// the C driver for one case and the transcript it must produce
pub fn c_driver(case: &Case, headers: &BTreeMap<String, String>) -> Result<(String, Expected), String> {
    let env = env_of(&case.module);
    let mut src = String::from(C_PRELUDE);
    for t in &case.module.types {
        src += &format!("#include \"{}.h\"\n", t.name);
    }
    src += &format!("void {}vlayouts(void);\n", case.prefix);
    let mut callbacks = String::new();
    let mut body = String::from("int main(void) {\n  setvbuf(stdout, NULL, _IONBF, 0);\n");
    let mut exp = vec![];
    // layouts: C prints its view, Rust prints its own
    for t in &case.module.types {
        match &t.def {
            Def::Struct { fields, .. } if !fields.is_empty() && !fields.iter().any(|(_, f)| { let mut l = vec![]; f.named_lifetimes(&mut l); !l.is_empty() }) => {
                body += &format!("  printf(\"layout {} %zu %zu{}\\n\", sizeof({}), _Alignof({}){});\n", t.name, " %zu".repeat(fields.len()), t.name, t.name,
                    fields.iter().map(|(f, _)| format!(", offsetof({}, {f})", t.name)).collect::<String>());
            }
            Def::Enum { .. } => body += &format!("  printf(\"layout {} %zu %zu\\n\", sizeof({}), _Alignof({}));\n", t.name, t.name, t.name),
            _ => {}
        }
    }
    for abi in result_struct_fns(case) {
        body += &format!("  printf(\"rs {abi} %zu %zu\\n\", sizeof({abi}_result), offsetof({abi}_result, is_ok));\n");
    }
    body += &format!("  printf(\"--\\n\");\n  {}vlayouts();\n  printf(\"--\\n\");\n", case.prefix);
    for t in &case.module.types {
        let header = headers.get(&format!("{}.h", t.name)).ok_or_else(|| format!("no header {}.h", t.name))?;
        for m in &t.methods {
            if m.name == HELPER_MK || m.name == HELPER_TAG { continue; }
            let abi = abi_name(&case.prefix, &t.name, &m.name);
            let ptys = declared_param_types(header, &abi).ok_or_else(|| format!("no prototype for {abi} in {}.h", t.name))?;
            let scripts = &case.scripts[&(t.name.clone(), m.name.clone())];
            for (salt, sc) in scripts.iter().enumerate() {
                let mut g = CGen::new(&env, &case.prefix);
                let mut call_args = vec![];
                let mut decls = String::new();
                let mut rust_line = format!("rust {abi}:");
                let mut pi = 0;
                let mut write_var = None;
                let mut cb_lines = vec![];
                let mut cb_destroy: Vec<String> = vec![];
                if let Some(sp) = &m.self_param {
                    let sv = sc.self_val.clone().unwrap();
                    let sty = if sp.by_ref { Ty::Ref(Lt::Anon, sp.mutable, Box::new(Ty::Named(t.name.clone()))) } else { Ty::Named(t.name.clone()) };
                    let cty = ptys.get(pi).ok_or("missing self parameter in prototype")?;
                    let init = g.init(&sty, &sv, Some(cty));
                    decls += &format!("  {cty} a{pi} = {init};\n");
                    call_args.push(format!("a{pi}"));
                    rust_line += &format!(" this={}", sv.show());
                    pi += 1;
                }
                for ((n, pty), v) in m.params.iter().zip(&sc.args) {
                    let cty = ptys.get(pi).ok_or_else(|| format!("prototype of {abi} has fewer parameters than the method"))?;
                    match pty {
                        Ty::Write => {
                            if salt == 1 {
                                // a caller-owned buffer that fits exactly (text + NUL)
                                decls += &format!("  char wb{pi}[{}]; DiplomatWrite ws{pi} = diplomat_simple_write(wb{pi}, sizeof(wb{pi})); DiplomatWrite* a{pi} = &ws{pi};\n", sc.written.len() + 1);
                                write_var = Some(format!("=a{pi}"));
                            } else {
                                decls += &format!("  DiplomatWrite* a{pi} = diplomat_buffer_write_create({});\n", if salt == 2 { 3 } else { 0 });
                                write_var = Some(format!("a{pi}"));
                            }
                        }
                        Ty::Fn(ps, r) => {
                            let Val::Cb(cargs, cret) = v else { panic!() };
                            // the C function the callback struct points to; its types are the harness's own
                            // reading of the callback's signature (primitives and enums only)
                            let fname = format!("cb_{abi}_{n}_{salt}");
                            let has_ret = **r != Ty::Unit;
                            let mut f = format!("static {} {fname}(const void* data", if has_ret { format!("CBRET_{abi}_{n}") } else { "void".to_string() });
                            for (i, _) in ps.iter().enumerate() { f += &format!(", CBARG_{abi}_{n}_{i} x{i}"); }
                            f += &format!(") {{\n  static int fallback_count = 0; int* cnt = data ? (int*)data : &fallback_count; if (!data && fallback_count >= 2) fallback_count = 0; ++*cnt;\n  printf(\"cb {abi}.{n}#%d:\", *cnt);\n");
                            let mut gg = CGen::new(&env, &case.prefix);
                            for (i, p) in ps.iter().enumerate() {
                                f += &format!("  printf(\" \"); {}\n", gg.show(p, &format!("x{i}")));
                            }
                            f += "  printf(\"\\n\");\n";
                            if has_ret {
                                let mut gi = CGen::new(&env, &case.prefix);
                                let init = gi.init(r, cret, None);
                                f += &gi.pre;
                                f += &format!("  CBRET_{abi}_{n} r = {init};\n  return r;\n");
                            }
                            f += "}\n";
                            if salt == 0 {
                                f += &format!("static void cbd_{abi}_{n}(const void* data) {{ printf(\"cb-destroy {abi}.{n}\\n\"); }}\n");
                            }
                            callbacks += &f;
                            if salt == 0 {
                                decls += &format!("  {cty} a{pi} = {{ 0, (void*){fname}, (void*)cbd_{abi}_{n} }};\n");
                            } else {
                                decls += &format!("  int cnt{pi} = 0; {cty} a{pi} = {{ &cnt{pi}, (void*){fname}, (void*)cbd_{abi}_{n} }};\n");
                            }
                            cb_destroy.push(format!("cb-destroy {abi}.{n}"));
                            for k in 1..=2 {
                                cb_lines.push(format!("cb {abi}.{n}#{k}:{}", cargs.iter().map(|a| format!(" {}", a.show())).collect::<String>()));
                            }
                            rust_line += &format!(" {n}={}", if has_ret { cret.show() } else { "called".to_string() });
                        }
                        _ => {
                            let init = g.init(pty, v, Some(cty));
                            decls += &format!("  {cty} a{pi} = {init};\n");
                            rust_line += &format!(" {n}={}", v.show());
                        }
                    }
                    call_args.push(format!("a{pi}"));
                    pi += 1;
                }
                if ptys.len() != pi {
                    return Err(format!("prototype of {abi} has {} parameters, the method has {pi}", ptys.len()));
                }
                body += &format!("  {{\n  vset_salt({salt}); printf(\"call {abi} salt={salt}\\n\");\n");
                body += &g.pre;
                body += &decls;
                let call = format!("{abi}({})", call_args.join(", "));
                let ret_ty = m.ret.clone().unwrap_or(Ty::Unit);
                let mut gs = CGen::new(&env, &case.prefix);
                if ret_ty == Ty::Unit {
                    body += &format!("  {call};\n  printf(\"c-got ()\\n\");\n");
                } else {
                    let show = gs.show(&ret_ty, "r");
                    body += &format!("  __auto_type r = {call};\n  printf(\"c-got \"); {show} printf(\"\\n\");\n");
                }
                exp.push(format!("call {abi} salt={salt}"));
                for l in cb_lines { exp.push(l); }
                exp.push(rust_line);
                // the callback wrappers are dropped when the extern fn returns, later parameters first
                for l in cb_destroy.iter().rev() { exp.push(l.clone()); }
                // owned arguments are dropped by Rust at the end of the method — nothing is logged for slices
                exp.push(format!("c-got {}", sc.ret.show()));
                if let Some(w) = &write_var {
                    if let Some(w) = w.strip_prefix('=') {
                        body += &format!("  printf(\"write=[\"); for (size_t i = 0; i < {w}->len; i++) {{ if (i) printf(\",\"); printf(\"%u\", (unsigned)(uint8_t){w}->buf[i]); }} printf(\"]%s\\n\", {w}->grow_failed ? \" grow_failed\" : \"\");\n");
                    } else {
                    body += &format!("  printf(\"write=[\"); for (size_t i = 0; i < diplomat_buffer_write_len({w}); i++) {{ if (i) printf(\",\"); printf(\"%u\", (unsigned)(uint8_t)diplomat_buffer_write_get_bytes({w})[i]); }} printf(\"]\\n\"); diplomat_buffer_write_destroy({w});\n");
                    }
                    exp.push(format!("write=[{}]", sc.written.iter().map(|b| b.to_string()).collect::<Vec<_>>().join(",")));
                }
                let d = gs.destroy(&ret_ty, &sc.ret, "r");
                if !d.is_empty() { body += &format!("  {d}\n"); }
                for tag in &gs.drops { exp.push(format!("drop op({tag})")); }
                body += &g.post;
                for tag in &g.drops { exp.push(format!("drop op({tag})")); }
                body += "  }\n";
            }
        }
    }
    body += "  printf(\"done\\n\");\n  return 0;\n}\n";
    exp.push("done".into());
    // callback typedef plumbing: CBARG_/CBRET_ are derived from the generated struct's function pointer type
    let mut cbdefs = String::new();
    for t in &case.module.types {
        for m in &t.methods {
            let abi = abi_name(&case.prefix, &t.name, &m.name);
            for (n, pty) in &m.params {
                if let Ty::Fn(ps, r) = pty {
                    for (i, p) in ps.iter().enumerate() {
                        cbdefs += &format!("typedef {} CBARG_{abi}_{n}_{i};\n", c_value_type(&env, p).ok_or_else(|| format!("callback parameter type {p:?} has no driver-side C type"))?);
                    }
                    if **r != Ty::Unit {
                        cbdefs += &format!("typedef {} CBRET_{abi}_{n};\n", c_value_type(&env, r).ok_or_else(|| format!("callback return type {r:?} has no driver-side C type"))?);
                    }
                }
            }
        }
    }
    Ok((format!("{src}{cbdefs}{callbacks}{body}"), Expected { lines: exp }))
}

/// C type of simple callback parameter / return types (primitives and enums only)
fn c_value_type(env: &Env, t: &Ty) -> Option<String> {
    match t {
        Ty::Prim(Prim::Char) => Some("char32_t".into()),
        Ty::Prim(p) => Some(prim_c(*p).into()),
        Ty::Named(n) if matches!(env.get(n), Some(Def::Enum { .. })) => Some(n.clone()),
        _ => None,
    }
}

// ---------------------------------------------------------------------------------------------------
// building and running

pub fn crate_dir(id: &str) -> PathBuf {
    let root = std::env::var("VERIF_WORK").unwrap_or_else(|_| "/verif/work".into());
    PathBuf::from(root).join(format!("e2e-{id}"))
}

fn ensure_crate(id: &str) -> PathBuf {
    let d = crate_dir(id);
    std::fs::create_dir_all(d.join("src")).unwrap();
    let toml = "[package]\nname = \"ve2e\"\nversion = \"0.1.0\"\nedition = \"2021\"\n\n[workspace]\n\n[lib]\ncrate-type = [\"staticlib\"]\n\n[dependencies]\ndiplomat = { path = \"/repo/macro\" }\ndiplomat-runtime = { path = \"/repo/runtime\" }\n\n[profile.dev]\ndebug = false\nopt-level = 0\n";
    if std::fs::read_to_string(d.join("Cargo.toml")).unwrap_or_default() != toml {
        std::fs::write(d.join("Cargo.toml"), toml).unwrap();
    }
    let _ = std::fs::copy("/repo/Cargo.lock", d.join("Cargo.lock"));
    d
}

/// build the staticlib holding all cases; `Err` carries rustc's error lines
pub fn build_lib(id: &str, cases: &[&Case]) -> Result<PathBuf, String> {
    let d = ensure_crate(id);
    let mut lib = String::from(RUST_PRELUDE);
    for (k, c) in cases.iter().enumerate() {
        lib += &format!("pub mod case_{k} {{\nuse diplomat_runtime::*;\n{}\n}}\n", c.rust());
    }
    std::fs::write(d.join("src/lib.rs"), &lib).unwrap();
    let o = Command::new("cargo")
        .args(["build", "--offline", "--lib", "--message-format=short"])
        .env("CARGO_TARGET_DIR", d.join("target"))
        .env_remove("RUSTFLAGS")
        .env("CARGO_ENCODED_RUSTFLAGS", "")
        .current_dir(&d)
        .output()
        .map_err(|e| format!("cannot run cargo: {e}"))?;
    if !o.status.success() {
        let e = String::from_utf8_lossy(&o.stderr);
        return Err(e.lines().filter(|l| l.contains("error")).take(8).collect::<Vec<_>>().join(" | "));
    }
    Ok(d.join("target/debug/libve2e.a"))
}

/// like `build_lib`, dropping (and reporting) the cases that do not build
pub fn build_lib_bisect<'a>(id: &str, cases: Vec<&'a Case>, bad: &mut Vec<(&'a Case, String)>) -> Option<(PathBuf, Vec<&'a Case>)> {
    fn find_bad<'a>(id: &str, cs: &[&'a Case], bad: &mut Vec<(&'a Case, String)>) -> Vec<&'a Case> {
        if cs.is_empty() { return vec![]; }
        match build_lib(id, cs) {
            Ok(_) => cs.to_vec(),
            Err(e) => {
                if cs.len() == 1 { bad.push((cs[0], e)); return vec![]; }
                let mid = cs.len() / 2;
                let mut a = find_bad(id, &cs[..mid], bad);
                a.extend(find_bad(id, &cs[mid..], bad));
                a
            }
        }
    }
    match build_lib(id, &cases) {
        Ok(p) => Some((p, cases)),
        Err(_) => {
            let good = find_bad(id, &cases, bad);
            if good.is_empty() { return None; }
            build_lib(id, &good).ok().map(|p| (p, good))
        }
    }
}

pub struct RunResult {
    pub ok: bool,
    pub stage: String,
    pub detail: String,
    pub transcript: Vec<String>,
}

/// compile `driver.c` in `dir` (which holds the generated headers) against `lib` and run it
pub fn compile_and_run(dir: &Path, lib: &Path, sanitize: bool) -> RunResult {
    let exe = dir.join("driver");
    let mut cmd = Command::new("gcc");
    cmd.args(["-std=gnu11", "-w", "-I", "."]).arg("driver.c").arg(lib).args(["-lpthread", "-ldl", "-lm", "-o"]).arg(&exe).current_dir(dir);
    if sanitize {
        cmd.args(["-fsanitize=address", "-fno-omit-frame-pointer", "-g"]);
    }
    let (ok, _o, e) = util::run(&mut cmd);
    if !ok {
        return RunResult { ok: false, stage: "compile".into(), detail: e.lines().filter(|l| l.contains("error")).take(6).collect::<Vec<_>>().join(" | "), transcript: vec![] };
    }
    let out = Command::new(&exe).env("ASAN_OPTIONS", "detect_leaks=0:abort_on_error=0").current_dir(dir).output();
    match out {
        Err(e) => RunResult { ok: false, stage: "run".into(), detail: e.to_string(), transcript: vec![] },
        Ok(o) => {
            let transcript: Vec<String> = String::from_utf8_lossy(&o.stdout).lines().map(|l| l.to_string()).collect();
            let err = String::from_utf8_lossy(&o.stderr);
            RunResult {
                ok: o.status.success(),
                stage: "run".into(),
                detail: if o.status.success() { String::new() } else { format!("{} {}", o.status, err.lines().filter(|l| l.contains("ERROR") || l.contains("panicked") || l.contains("SUMMARY")).take(4).collect::<Vec<_>>().join(" | ")) },
                transcript,
            }
        }
    }
}

/// compare the driver's transcript with the expected one; returns human-readable differences
pub fn compare(transcript: &[String], exp: &Expected) -> Vec<String> {
    let mut problems = vec![];
    // layout section: "C lines" -- "Rust lines" --
    let mut it = transcript.iter();
    let mut c_lay = vec![];
    let mut r_lay = vec![];
    for l in it.by_ref() { if l == "--" { break; } if !l.starts_with("rs ") { c_lay.push(l.clone()); } }
    for l in it.by_ref() { if l == "--" { break; } r_lay.push(l.clone()); }
    c_lay.sort();
    r_lay.sort();
    if c_lay != r_lay {
        for (a, b) in c_lay.iter().zip(r_lay.iter()) {
            if a != b { problems.push(format!("layout differs: C sees `{a}`, Rust has `{b}`")); }
        }
        if c_lay.len() != r_lay.len() { problems.push(format!("layout line counts differ: {} vs {}", c_lay.len(), r_lay.len())); }
    }
    let rest: Vec<&String> = it.collect();
    let mut cur_call = String::new();
    for (i, e) in exp.lines.iter().enumerate() {
        if e.starts_with("call ") { cur_call = e.clone(); }
        match rest.get(i) {
            None => { problems.push(format!("transcript ends before `{e}` ({cur_call})")); break; }
            Some(l) if *l != e => {
                problems.push(format!("{cur_call}: expected `{e}`, got `{l}`"));
                if problems.len() > 6 { break; }
                // resynchronise is not attempted: later lines of the same call are reported too
            }
            _ => {}
        }
    }
    if rest.len() > exp.lines.len() && problems.is_empty() {
        problems.push(format!("transcript has {} extra lines, first `{}`", rest.len() - exp.lines.len(), rest[exp.lines.len()]));
    }
    problems
}
