//! C10 — Option and Result use one consistent wire encoding everywhere; std and Diplomat spellings of the
//! same parameter / return type give identical C declarations and identical behaviour.
//!
//! Every generated method that mentions a spelling-sensitive type gets a twin with every spelling flipped
//! (`Option<T>` ↔ `DiplomatOption<T>`, `Result` ↔ `DiplomatResult`, `&str` ↔ `DiplomatUtf8StrSlice`, …).
//! Oracle: the twins' prototypes in the real header are the same text up to the function name, and calling
//! both through the real header with the same values gives the same transcript up to the name.
//! Model tie: the C01 correspondence (macro signatures, prototypes) on the twin modules.
use crate::e2e;
use crate::report::Report;
use crate::rng::Rng;
use crate::tool;
use crate::tygen::{Def, Gen, Lt, Method, Module, Prim, SelfParam, Sd, Ty};
use crate::util;
use serde_json::json;

fn flip(sd: &mut Sd) {
    *sd = if *sd == Sd::Std { Sd::Dip } else { Sd::Std };
}

/// every spelling flipped where both spellings are legal (`Option<&T>` / `Option<Box<T>>` stay std)
fn respell(t: &mut Ty) -> bool {
    match t {
        Ty::Opt(inner, sd) => {
            let c = respell(inner);
            if matches!(**inner, Ty::Ref(..) | Ty::Box(_)) {
                c
            } else {
                flip(sd);
                true
            }
        }
        Ty::Res(a, b, sd) => {
            respell(a);
            respell(b);
            flip(sd);
            true
        }
        Ty::Str(_, _, sd) | Ty::PSlice(_, _, sd) | Ty::Strs(_, sd) => {
            flip(sd);
            true
        }
        Ty::Ref(_, _, x) | Ty::Box(x) => respell(x),
        // callbacks keep their spelling: their parameters are written once, inside `impl Fn(..)`
        _ => false,
    }
}

/// adds `<m>_t` twins; returns (type, original, twin)
pub fn add_twins(m: &mut Module) -> Vec<(String, String, String)> {
    let mut pairs = vec![];
    for t in &mut m.types {
        let mut twins: Vec<Method> = vec![];
        for me in &t.methods {
            let mut tw = me.clone();
            let mut changed = false;
            for (_, p) in &mut tw.params {
                changed |= respell(p);
            }
            if let Some(r) = &mut tw.ret {
                changed |= respell(r);
            }
            if changed {
                tw.name = format!("{}_t", me.name);
                pairs.push((t.name.clone(), me.name.clone(), tw.name.clone()));
                twins.push(tw);
            }
        }
        t.methods.extend(twins);
    }
    pairs
}

fn proto_of(header: &str, abi: &str) -> Option<String> {
    // the prototype line, with the result typedef printed on the line before it when there is one
    let key = format!(" {abi}(");
    let lines: Vec<&str> = header.lines().collect();
    let i = lines.iter().position(|l| l.contains(&key))?;
    let mut out = String::new();
    if i > 0 && lines[i - 1].trim_start().starts_with(&format!("typedef struct {abi}_result")) {
        out += lines[i - 1].trim();
        out.push(' ');
    }
    out += lines[i].trim();
    Some(tool::norm_ws(&out))
}


/// JS: a method returning `Result<T, E>` through memory allocates a return slot and reads `is_ok` from its last byte.
/// The slot must be Rust's `DiplomatResult<T, E>`: the flag directly behind the `#[repr(C)]` union of the two payloads
/// (as aligned as the more aligned one, its size rounded up to that), the slot at least as aligned.  The expected
/// numbers come from the real runtime type, instantiated here over a grid of payload shapes (no pointer-sized
/// members, so host and wasm32 agree).
fn js_result_slot_probe(rep: &mut Report) {
    use diplomat_runtime::DiplomatResult;
    #[repr(C)] #[derive(Default, Clone, Copy)] struct Tiny { a: u8 }
    #[repr(C)] #[derive(Default, Clone, Copy)] struct Two { a: u8, b: u8 }
    #[repr(C)] #[derive(Default, Clone, Copy)] struct Half { a: u16 }
    #[repr(C)] #[derive(Default, Clone, Copy)] struct Five { a: u8, b: u8, c: u8, d: u8, e: u8 }
    #[repr(C)] #[derive(Default, Clone, Copy)] struct Four { x: u32 }
    #[repr(C)] #[derive(Default, Clone, Copy)] struct Six { a: u16, b: u16, c: u16 }
    #[repr(C)] #[derive(Default, Clone, Copy)] struct Wide { x: u64 }
    #[repr(C)] #[derive(Default, Clone, Copy)] struct Mix { a: u8, x: u64 }
    #[repr(C)] #[derive(Default, Clone, Copy)] struct Nine { x: f64, a: u8 }
    #[repr(C)] #[derive(Default, Clone, Copy)] struct Twelve { a: u32, b: u32, c: u32 }
    #[repr(C)] #[derive(Default, Clone, Copy)] struct Ten { a: u16, b: u16, c: u16, d: u16, e: u16 }
    fn lay<T: Default, E: Default>() -> (usize, usize, usize) {
        let r: DiplomatResult<T, E> = Err::<T, E>(E::default()).into();
        let base = &r as *const _ as usize;
        let flag = &r.is_ok as *const bool as usize - base;
        let out = (flag, std::mem::size_of_val(&r), std::mem::align_of_val(&r));
        std::mem::forget(r);
        out
    }
    let mut grid: Vec<(&str, &str, (usize, usize, usize))> = vec![];
    macro_rules! row { ($on:expr, $ot:ty) => {
        grid.push(($on, "Tiny", lay::<$ot, Tiny>())); grid.push(($on, "Two", lay::<$ot, Two>())); grid.push(($on, "Half", lay::<$ot, Half>()));
        grid.push(($on, "Five", lay::<$ot, Five>())); grid.push(($on, "Four", lay::<$ot, Four>())); grid.push(($on, "Six", lay::<$ot, Six>()));
        grid.push(($on, "Wide", lay::<$ot, Wide>())); grid.push(($on, "Mix", lay::<$ot, Mix>())); grid.push(($on, "Nine", lay::<$ot, Nine>()));
        grid.push(($on, "Twelve", lay::<$ot, Twelve>())); grid.push(($on, "Ten", lay::<$ot, Ten>()));
    } }
    row!("write", ()); // the success value is a string that travels through the write buffer: on the wire `Result<(), E>`
    row!("()", ()); row!("u8", u8); row!("i16", i16); row!("u32", u32); row!("f64", f64); row!("bool", bool);
    row!("Tiny", Tiny); row!("Two", Two); row!("Half", Half); row!("Five", Five); row!("Four", Four); row!("Six", Six); row!("Wide", Wide); row!("Mix", Mix); row!("Nine", Nine); row!("Twelve", Twelve); row!("Ten", Ten); row!("u64", u64);
    let mut src = String::from("#[diplomat::bridge]\nmod ffi {\n    #[diplomat::out] pub struct Tiny { pub a: u8 }\n    #[diplomat::out] pub struct Two { pub a: u8, pub b: u8 }\n    #[diplomat::out] pub struct Half { pub a: u16 }\n    #[diplomat::out] pub struct Five { pub a: u8, pub b: u8, pub c: u8, pub d: u8, pub e: u8 }\n    #[diplomat::out] pub struct Four { pub x: u32 }\n    #[diplomat::out] pub struct Six { pub a: u16, pub b: u16, pub c: u16 }\n    #[diplomat::out] pub struct Wide { pub x: u64 }\n    #[diplomat::out] pub struct Mix { pub a: u8, pub x: u64 }\n    #[diplomat::out] pub struct Nine { pub x: f64, pub a: u8 }\n    #[diplomat::out] pub struct Twelve { pub a: u32, pub b: u32, pub c: u32 }\n    #[diplomat::out] pub struct Ten { pub a: u16, pub b: u16, pub c: u16, pub d: u16, pub e: u16 }\n    #[diplomat::opaque]\n    pub struct Src;\n    impl Src {\n");
    for (i, (ok, err, _)) in grid.iter().enumerate() {
        if *ok == "write" {
            src += &format!("        pub fn m{i}x(&self, w: &mut DiplomatWrite) -> Result<(), {err}> {{ unimplemented!() }}\n");
        } else {
            src += &format!("        pub fn m{i}x(&self) -> Result<{ok}, {err}> {{ unimplemented!() }}\n");
        }
    }
    src += "    }\n}\n";
    // the model of the slot computation (JsSlot.lean; Props/C10 proves it is the wire layout) on the same grid
    let wty = |n: &str| -> String { match n {
        "()" => "unit".into(), "write" => "write".into(), "u8" | "bool" => "(s 1)".into(), "i16" => "(s 2)".into(), "u32" => "(s 4)".into(), "f64" => "(s 8)".into(),
        "Tiny" => "(st (s 1))".into(), "Two" => "(st (s 1) (s 1))".into(), "Half" => "(st (s 2))".into(), "Five" => "(st (s 1) (s 1) (s 1) (s 1) (s 1))".into(),
        "Four" => "(st (s 4))".into(), "Six" => "(st (s 2) (s 2) (s 2))".into(), "Wide" => "(st (s 8))".into(), "Mix" => "(st (s 1) (s 8))".into(), "Nine" => "(st (s 8) (s 1))".into(), "Twelve" => "(st (s 4) (s 4) (s 4))".into(), "Ten" => "(st (s 2) (s 2) (s 2) (s 2) (s 2))".into(), "u64" => "(s 8)".into(),
        o => panic!("{o}") } };
    let mlines: Vec<String> = grid.iter().map(|(ok, err, _)| format!("(c10slot {} {})", wty(ok), wty(err))).collect();
    let model: Vec<String> = match crate::model::run_model("C10", &mlines) {
        Ok(m) => m,
        Err(e) => { rep.disagree("js-result-slot", "model-driver", "", &e); vec![] }
    };
    for abi in ["legacy", "spec"] {
        let mut cfg = diplomat_tool::config::Config::default();
        cfg.set("js.abi", toml::Value::String(abi.into()));
        let o = crate::tool::run_backend_cfg(&src, "js", cfg);
        rep.oracle_runs += 1;
        let Some(text) = o.files.get("Src.mjs") else {
            rep.oracle_fail("(c10 probe js-result-slot)", "the JS backend does not generate the result grid", json!({"status": o.status()}));
            return;
        };
        for (i, (ok, err, (flag, size, align))) in grid.iter().enumerate() {
            rep.count("probe:js-result-slot");
            let Some(at) = text.find(&format!("m{i}x(")) else { continue };
            let body = &text[at..];
            let end = body[1..].find("\n    m").map(|e| e + 1).unwrap_or(body.len());
            let body = &body[..end];
            let Some(p) = body.find("DiplomatReceiveBuf(wasm, ") else {
                rep.oracle_fail(&format!("(c10 probe js-result-slot Result<{ok}, {err}> js.abi={abi})"), "no return slot is allocated for a result that Rust returns through memory", json!({"rust_size": size}));
                continue;
            };
            let nums: Vec<usize> = body[p + 25..].split(|c: char| !c.is_ascii_digit()).filter(|x| !x.is_empty()).take(2).filter_map(|x| x.parse().ok()).collect();
            if nums.len() != 2 { continue; }
            let (js_size, js_align) = (nums[0], nums[1]);
            if let Some(m) = model.get(i) {
                rep.count("js-result-slot-model-tie");
                if *m != format!("{js_size} {js_align}") {
                    rep.disagree(&format!("{} js.abi={abi} ;; Result<{ok}, {err}>", mlines[i]), "js-result-slot", &format!("{js_size} {js_align}"), m);
                }
            }
            if js_size - 1 != *flag || js_align < *align {
                rep.oracle_fail(&format!("(c10 probe js-result-slot Result<{ok}, {err}> js.abi={abi})"), "the JS return slot of a result is not Rust's DiplomatResult: is_ok is read from another byte than Rust writes it to, or the slot is less aligned than the value", json!({"js_reads_is_ok_at": js_size - 1, "rust_is_ok_at": flag, "js_slot_size": js_size, "rust_size": size, "js_slot_align": js_align, "rust_align": align}));
            }
        }
    }
}


/// Dart and Kotlin declare one helper record per option / result shape and share it between all functions using
/// that shape.  In a library that has many shapes whose payloads look alike in the binding's own language (all
/// integers are `int` in Dart) but differ in width on the wire, every function must still get the record of its own
/// payload: compared with the C header, per function, by the C07 comparator.
fn helper_record_probe(rep: &mut Report) {
    let prims = ["i8", "u16", "i16", "i32", "u32", "i64", "u64", "f32", "f64"];
    let mut src = String::from("#[diplomat::bridge]\nmod ffi {\n    pub enum Mode { A, B }\n    #[diplomat::opaque]\n    pub struct Src;\n    impl Src {\n");
    let mut abis = vec![];
    for (i, p) in prims.iter().enumerate() {
        src += &format!("        pub fn opt_{p}(&self) -> Option<{p}> {{ unimplemented!() }}\n        pub fn res_{p}(&self) -> Result<{p}, ()> {{ unimplemented!() }}\n        pub fn err_{p}(&self) -> Result<(), {p}> {{ unimplemented!() }}\n");
        let q = prims[(i + 4) % prims.len()];
        src += &format!("        pub fn both_{p}(&self) -> Result<{p}, {q}> {{ unimplemented!() }}\n");
        for k in ["opt", "res", "err", "both"] { abis.push(format!("Src_{k}_{p}")); }
    }
    src += "        pub fn opt_mode(&self) -> Option<Mode> { unimplemented!() }\n        pub fn res_mode(&self) -> Result<Mode, i64> { unimplemented!() }\n    }\n}\n";
    abis.push("Src_opt_mode".into());
    abis.push("Src_res_mode".into());
    for backend in ["dart", "kotlin"] {
        rep.oracle_runs += 1;
        rep.count("probe:helper-records");
        match crate::c07::compare_functions(&src, backend, &abis) {
            Err(e) => rep.notes.push(format!("helper-record probe ({backend}): {e}")),
            Ok(diffs) => {
                for (f, pos, c, b) in diffs {
                    rep.oracle_fail(&format!("(c10 probe helper-records {backend} {f})"), "the option / result record a native declaration uses is not the C function's `{payload, is_ok}` struct", json!({"backend": backend, "function": f, "position": pos, "c": c, "binding": b}));
                }
            }
        }
    }
}

pub fn main(args: &[String]) {
    let a = util::parse_args(args);
    let mut rep = Report::new("C10");
    let thorough = a.tier == "thorough";
    let mut rng = Rng::new(a.seed);
    let n = if a.n > 0 { a.n } else if thorough { 300 } else { 50 };
    let prof = crate::c01::c_profile();
    let mut cases = vec![];
    let mut labels = vec![];
    let mut all_pairs = vec![];
    let mut k = 0;
    while cases.len() < n && k < n * 3 {
        k += 1;
        let mut m = Gen::valid_module_avoiding(&mut rng, prof, crate::tygen::Avoid { more_zst: true, opt_unit_write: true, ..Default::default() });
        // an optional parameter of the method's own type, written `Option<Self>` (see `rust_method`): one value
        // type per module gets it
        if let Some(t) = m.types.iter_mut().find(|t| matches!(&t.def, Def::Struct { out: false, .. } | Def::Enum { .. })) {
            let owner = t.name.clone();
            t.methods.push(Method {
                name: "vos".into(),
                self_param: Some(SelfParam { ty: owner.clone(), by_ref: false, mutable: false, lt: Lt::Anon }),
                params: vec![("o".into(), Ty::Opt(Box::new(Ty::Named(owner)), Sd::Std))],
                ret: Some(Ty::Prim(Prim::U8)),
            });
        }
        // twins are added before the helper methods; the spelling fixes of `prepare` apply to both
        let pairs = add_twins(&mut m);
        let mut case = e2e::make_case(m, cases.len(), &mut rng);
        // a twin is called with its original's values and returns its original's values
        for (ty, orig, twin) in &pairs {
            let s = case.scripts[&(ty.clone(), orig.clone())].clone();
            case.scripts.insert((ty.clone(), twin.clone()), s);
        }
        let o = tool::run_backend(&case.rust(), "c");
        if !o.ok() {
            rep.count(&format!("generated:{}", o.status().split(':').next().unwrap_or("?")));
            continue;
        }
        rep.count("generated:accepted");
        rep.count_n("pairs", pairs.len());
        labels.push(format!("(c10 seed={} module={})", a.seed, cases.len()));
        all_pairs.push(pairs);
        cases.push(case);
    }
    for l in &labels {
        rep.case(l);
    }
    // model tie (shared with C01): macro signatures and prototypes of both spellings
    crate::c01::correspondence(&cases, &labels, &mut rep);
    // declarations: identical text up to the name
    for ((case, label), pairs) in cases.iter().zip(&labels).zip(&all_pairs) {
        let o = tool::run_backend(&case.rust(), "c");
        for (ty, orig, twin) in pairs {
            rep.oracle_runs += 1;
            let Some(h) = o.files.get(&format!("{ty}.h")) else { continue };
            let a1 = e2e::abi_name(&case.prefix, ty, orig);
            let a2 = e2e::abi_name(&case.prefix, ty, twin);
            match (proto_of(h, &a1), proto_of(h, &a2)) {
                (Some(p1), Some(p2)) => {
                    if p1.replace(&a1, "F") != p2.replace(&a2, "F") {
                        rep.count("decl:differ");
                        rep.oracle_fail(label, "the std and Diplomat spellings of one method produce different C declarations", json!({"std_or_original": p1, "respelled": p2, "source": case.rust_bridge()}));
                    } else {
                        rep.count("decl:identical");
                    }
                }
                _ => rep.oracle_fail(label, "a prototype is missing from the generated header", json!({"functions": [a1, a2]})),
            }
        }
    }
    // behaviour: the end-to-end run; the twins' transcripts must be equal up to the name
    for chunk_start in (0..cases.len()).step_by(40) {
        let chunk = &cases[chunk_start..(chunk_start + 40).min(cases.len())];
        let lab2 = |k: usize| labels[chunk_start + k].clone();
        let outs = crate::c01::run_e2e("C10", chunk, &mut rep, false, &lab2);
        for o in outs {
            rep.oracle_runs += 1;
            rep.count(&format!("e2e:{}", if o.problems.is_empty() { "ok" } else { o.stage.as_str() }));
            let c = &chunk[o.case_idx];
            if !o.problems.is_empty() {
                rep.oracle_fail(&lab2(o.case_idx), "an Option / Result value does not cross the boundary as {payload, is_ok} with the arm the Rust side chose", json!({"problems": o.problems, "source": c.rust(), "transcript": o.transcript.iter().take(60).collect::<Vec<_>>()}));
                continue;
            }
            // group the call sections by function
            let mut sections: std::collections::BTreeMap<String, Vec<String>> = Default::default();
            let mut cur = String::new();
            for l in &o.transcript {
                if let Some(r) = l.strip_prefix("call ") {
                    cur = r.split(' ').next().unwrap_or("").to_string();
                }
                if l == "done" {
                    break;
                }
                if !cur.is_empty() {
                    sections.entry(cur.clone()).or_default().push(l.clone());
                }
            }
            for (ty, orig, twin) in &all_pairs[chunk_start + o.case_idx] {
                let a1 = e2e::abi_name(&c.prefix, ty, orig);
                let a2 = e2e::abi_name(&c.prefix, ty, twin);
                let s1: Vec<String> = sections.get(&a1).cloned().unwrap_or_default().iter().map(|l| l.replace(&a1, "F")).collect();
                let s2: Vec<String> = sections.get(&a2).cloned().unwrap_or_default().iter().map(|l| l.replace(&a2, "F")).collect();
                if s1 != s2 || s1.is_empty() {
                    rep.count("behaviour:differ");
                    rep.oracle_fail(&lab2(o.case_idx), "the std and Diplomat spellings of one method behave differently through the C API", json!({"original": s1, "respelled": s2, "source": c.rust_bridge()}));
                } else {
                    rep.count("behaviour:identical");
                }
            }
        }
    }
    // the runtime's own conversions and copies: the arm and the payload survive `into`, `clone` and the way back
    {
        use diplomat_runtime::{DiplomatOption, DiplomatResult};
        let mut bad: Vec<String> = vec![];
        for v in [Ok::<u32, i16>(7), Err(-3), Ok(0), Err(0)] {
            let w: DiplomatResult<u32, i16> = v.into();
            if w.is_ok != v.is_ok() { bad.push(format!("into: {v:?} has is_ok={}", w.is_ok)); }
            let c = w.clone();
            if c.is_ok != v.is_ok() { bad.push(format!("clone: {v:?} cloned with is_ok={}", c.is_ok)); }
            let back: Result<u32, i16> = c.into();
            if back != v { bad.push(format!("clone + into: {v:?} came back as {back:?}")); }
            let back2: Result<u32, i16> = w.into();
            if back2 != v { bad.push(format!("into: {v:?} came back as {back2:?}")); }
        }
        for v in [Some(9u16), None, Some(0)] {
            let w: DiplomatOption<u16> = v.into();
            if w.is_ok != v.is_some() { bad.push(format!("into: {v:?} has is_ok={}", w.is_ok)); }
            let c = w.clone();
            if c.is_ok != v.is_some() { bad.push(format!("clone: {v:?} cloned with is_ok={}", c.is_ok)); }
            if c.into_option() != v { bad.push(format!("clone + into_option: {v:?} changed")); }
            if w.into_option() != v { bad.push(format!("into_option: {v:?} changed")); }
        }
        for v in [Ok::<String, String>("ok".into()), Err("err".into())] {
            let w: DiplomatResult<String, String> = v.clone().into();
            let c = w.clone();
            let back: Result<String, String> = c.into();
            if back != v { bad.push(format!("clone + into: {v:?} came back as {back:?}")); }
        }
        rep.oracle_runs += 1;
        rep.count("probe:runtime-arms");
        if !bad.is_empty() {
            rep.oracle_fail("(c10 probe runtime-result-option-arms)", "is_ok / payload of a runtime result or option do not survive conversion or copying", json!({"problems": bad}));
        }
    }
    // JS: option fields of structs travelling through memory, payloads including zero and false (generated .mjs in Node
    // against rustc's bytes, and against a real wasm32 module)
    {
        use crate::c08::{Case, F};
        let p = |n: &'static str, s: usize| F::Opt(Box::new(F::Prim(n, s, s)));
        let mut cases = vec![];
        for out in [true, false] {
            cases.push(Case { structs: vec![vec![p("u8", 1), p("bool", 1), p("i64", 8), p("f64", 8)]], discs: (0, 1), out });
            cases.push(Case { structs: vec![vec![p("u32", 4), F::Opt(Box::new(F::Enum)), p("i16", 2), p("f32", 4), F::Prim("u8", 1, 1)]], discs: (0, 3), out });
            cases.push(Case { structs: vec![vec![F::Prim("u16", 2, 2), F::Prim("u8", 1, 1)], vec![F::Opt(Box::new(F::Struct(0))), p("u64", 8), p("DiplomatChar", 4)]], discs: (0, 1), out });
        }
        let refs: Vec<&Case> = cases.iter().collect();
        for salt in 0..6u64 {
            crate::jsexec::run(&refs, a.seed.wrapping_mul(131).wrapping_add(salt), false, &mut rep);
        }
        crate::jsexec::run(&refs, a.seed, true, &mut rep);
    }
    // `Option<()>` / `Result<(), E>` of a writing method: the flag is all that is returned, the write buffer stays a parameter
    crate::c01::write_param_probe(&mut rep);
    js_result_slot_probe(&mut rep);
    helper_record_probe(&mut rep);
    rep.print();
}
