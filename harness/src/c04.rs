//! C04 — borrow edges: signatures with declared / implied lifetime bounds; the real
//! `BorrowingParamVisitor` (public API) vs the Lean model; rustc as oracle for "must outlive".
use crate::report::Report;
use crate::rng::Rng;
use crate::tool;
use crate::util;
use diplomat_core::hir;
use serde_json::json;
use std::collections::{BTreeMap, BTreeSet};

/// a lifetime at a use site
#[derive(Clone, Debug, PartialEq)]
pub enum L { Static, Anon, Named(usize) }

/// type definitions available to signatures: (name, number of lifetime params, is struct)
const OPAQUES: [(&str, usize); 3] = [("Op0", 0), ("Op1", 1), ("Op2", 2)];
const STRUCTS: [(&str, usize); 2] = [("St1", 1), ("St2", 2)];

#[derive(Clone, Debug)]
pub enum PTy {
    Prim,
    RefOpaque { lt: L, ty: usize, args: Vec<L>, optional: bool },
    Slice { lt: L, optional: bool },
    Struct { ty: usize, args: Vec<L>, optional: bool },
}

#[derive(Clone, Debug)]
pub enum RTy {
    Unit,
    RefOpaque { lt: L, ty: usize, args: Vec<L> },
    BoxOpaque { ty: usize, args: Vec<L> },
    Struct { ty: usize, args: Vec<L> },
    Slice { lt: L },
}

#[derive(Clone, Debug)]
pub struct Sig {
    owner: usize,            // index into OPAQUES: impl<'m..> OpK<'m..>
    n_method: usize,         // method lifetimes
    bounds: Vec<(usize, usize, bool)>, // (long, short, in where-clause)
    self_lt: Option<L>,      // None = static method
    params: Vec<PTy>,
    ret: RTy,
    fallible: bool,
    err: Option<RTy>,        // the error type of a fallible method when it is not `()`
}

fn lt_name(i: usize, n_impl: usize) -> String {
    if i < n_impl { format!("m{i}") } else { util::letters(i - n_impl) }
}

impl Sig {
    fn n_impl(&self) -> usize { OPAQUES[self.owner].1 }
    fn n(&self) -> usize { self.n_impl() + self.n_method }
    fn l(&self, l: &L) -> String {
        match l { L::Static => "'static".into(), L::Anon => "'_".into(), L::Named(i) => format!("'{}", lt_name(*i, self.n_impl())) }
    }
    fn amp(&self, l: &L) -> String {
        match l { L::Anon => "&".into(), o => format!("&{} ", self.l(o)) }
    }
    fn generics(&self, args: &[L]) -> String {
        if args.is_empty() { String::new() } else { format!("<{}>", args.iter().map(|a| self.l(a)).collect::<Vec<_>>().join(", ")) }
    }
    fn pty(&self, p: &PTy) -> String {
        match p {
            PTy::Prim => "u8".into(),
            PTy::RefOpaque { lt, ty, args, optional } => {
                let t = format!("{}{}{}", self.amp(lt), OPAQUES[*ty].0, self.generics(args));
                if *optional { format!("Option<{t}>") } else { t }
            }
            PTy::Slice { lt, optional } => {
                let t = format!("{}[u8]", self.amp(lt));
                if *optional { format!("Option<{t}>") } else { t }
            }
            PTy::Struct { ty, args, optional } => {
                let t = format!("{}{}", STRUCTS[*ty].0, self.generics(args));
                if *optional { format!("DiplomatOption<{t}>") } else { t }
            }
        }
    }
    fn rty(&self) -> String {
        let t = match &self.ret {
            RTy::Unit => "()".to_string(),
            RTy::RefOpaque { lt, ty, args } => format!("{}{}{}", self.amp(lt), OPAQUES[*ty].0, self.generics(args)),
            RTy::BoxOpaque { ty, args } => format!("Box<{}{}>", OPAQUES[*ty].0, self.generics(args)),
            RTy::Struct { ty, args } => format!("{}{}", STRUCTS[*ty].0, self.generics(args)),
            RTy::Slice { lt } => format!("{}DiplomatStr", self.amp(lt)),
        };
        let e = match &self.err {
            Some(RTy::RefOpaque { lt, ty, args }) => format!("{}{}{}", self.amp(lt), OPAQUES[*ty].0, self.generics(args)),
            _ => "()".to_string(),
        };
        if self.fallible { format!("Result<{t}, {e}>") } else { t }
    }
    fn method_generics(&self) -> (String, String) {
        let ni = self.n_impl();
        let mut parts = vec![];
        for k in 0..self.n_method {
            let i = ni + k;
            let bs: Vec<String> = self.bounds.iter().filter(|(l, _, w)| *l == i && !*w).map(|(_, s, _)| format!("'{}", lt_name(*s, ni))).collect();
            parts.push(if bs.is_empty() { format!("'{}", lt_name(i, ni)) } else { format!("'{}: {}", lt_name(i, ni), bs.join(" + ")) });
        }
        let wh: Vec<String> = self.bounds.iter().filter(|(l, _, w)| *w || *l < ni).map(|(l, s, _)| format!("'{}: '{}", lt_name(*l, ni), lt_name(*s, ni))).collect();
        (
            if parts.is_empty() { String::new() } else { format!("<{}>", parts.join(", ")) },
            if wh.is_empty() { String::new() } else { format!(" where {}", wh.join(", ")) },
        )
    }
    fn signature_types(&self) -> Vec<String> {
        // types whose well-formedness rustc may assume inside the body (for the probe oracle)
        let mut v = vec![];
        let owner = OPAQUES[self.owner].0;
        let owner_args: Vec<L> = (0..self.n_impl()).map(L::Named).collect();
        if let Some(lt) = &self.self_lt {
            v.push(format!("{}{}{}", self.amp(lt), owner, self.generics(&owner_args)));
        }
        for p in &self.params { v.push(self.pty(p)); }
        v
    }
    pub fn rust_method(&self) -> String {
        let (g, w) = self.method_generics();
        let mut args = vec![];
        if let Some(lt) = &self.self_lt { args.push(format!("{}self", self.amp(lt))); }
        for (k, p) in self.params.iter().enumerate() { args.push(format!("p{k}: {}", self.pty(p))); }
        let ret = if matches!(self.ret, RTy::Unit) && !self.fallible { String::new() } else { format!(" -> {}", self.rty()) };
        format!("pub fn f{g}({}){ret}{w} {{ unimplemented!() }}", args.join(", "))
    }
    pub fn rust_module(&self) -> String {
        let ni = self.n_impl();
        let impl_g = if ni == 0 { String::new() } else { format!("<{}>", (0..ni).map(|i| format!("'{}", lt_name(i, ni))).collect::<Vec<_>>().join(", ")) };
        format!(
            "#[diplomat::bridge]\nmod ffi {{\n    #[diplomat::opaque]\n    pub struct Op0;\n    #[diplomat::opaque]\n    pub struct Op1<'x>(&'x u8);\n    #[diplomat::opaque]\n    pub struct Op2<'x, 'y>(&'x u8, &'y u8);\n    pub struct St1<'p> {{ pub s: DiplomatStrSlice<'p> }}\n    pub struct St2<'p, 'q> {{ pub a: &'p Op0, pub b: DiplomatSlice<'q, u8> }}\n    impl{impl_g} {}{impl_g} {{\n        {}\n    }}\n}}\n",
            OPAQUES[self.owner].0,
            self.rust_method()
        )
    }
    fn idx(l: &L) -> String { match l { L::Named(i) => i.to_string(), _ => "-".into() } }
    fn aty_ref_named(lt: &L, args: &[L]) -> String {
        format!("(ref {} (named{}))", Self::idx(lt), args.iter().map(|a| format!(" {}", Self::idx(a))).collect::<String>())
    }
    pub fn sexp(&self) -> String {
        let bounds: Vec<String> = {
            // declaration order: generic-parameter bounds first (in parameter order), then where-clause predicates
            let ni = self.n_impl();
            let mut v = vec![];
            for k in 0..self.n_method {
                let i = ni + k;
                for (l, s, w) in &self.bounds { if *l == i && !*w { v.push(format!("({l} {s})")); } }
            }
            for (l, s, w) in &self.bounds { if *w || *l < ni { v.push(format!("({l} {s})")); } }
            v
        };
        let owner_args: Vec<L> = (0..self.n_impl()).map(L::Named).collect();
        let mut tys = vec![];
        let mut params = vec![];
        if let Some(lt) = &self.self_lt {
            tys.push(Self::aty_ref_named(lt, &owner_args));
            let mut lts = vec![Self::idx(lt)];
            lts.extend(owner_args.iter().map(Self::idx));
            params.push(format!("(this opaque {})", lts.join(" ")));
        }
        for (k, p) in self.params.iter().enumerate() {
            match p {
                PTy::Prim => { tys.push("other".into()); params.push(format!("(p{k} other)")); }
                PTy::RefOpaque { lt, args, optional, .. } => {
                    let t = Self::aty_ref_named(lt, args);
                    tys.push(if *optional { format!("(opt {t})") } else { t });
                    let mut lts = vec![Self::idx(lt)];
                    lts.extend(args.iter().map(Self::idx));
                    params.push(format!("(p{k} opaque {})", lts.join(" ")));
                }
                PTy::Slice { lt, optional } => {
                    tys.push("other".into());
                    params.push(format!("(p{k} {} {})", if *optional { "optslice" } else { "slice" }, Self::idx(lt)));
                }
                PTy::Struct { args, optional, .. } => {
                    let t = format!("(named{})", args.iter().map(|a| format!(" {}", Self::idx(a))).collect::<String>());
                    tys.push(if *optional { format!("(opt {t})") } else { t });
                    params.push(format!("(p{k} {}{})", if *optional { "optstruct" } else { "struct" }, args.iter().map(|a| format!(" {}", Self::idx(a))).collect::<String>()));
                }
            }
        }
        let (rt, used): (String, Vec<&L>) = match &self.ret {
            RTy::Unit => ("other".into(), vec![]),
            RTy::RefOpaque { lt, args, .. } => (Self::aty_ref_named(lt, args), std::iter::once(lt).chain(args.iter()).collect()),
            RTy::BoxOpaque { args, .. } | RTy::Struct { args, .. } => (format!("(named{})", args.iter().map(|a| format!(" {}", Self::idx(a))).collect::<String>()), args.iter().collect()),
            RTy::Slice { lt } => ("other".into(), vec![lt]),
        };
        let mut used = used;
        let et = match (&self.err, self.fallible) {
            (Some(RTy::RefOpaque { lt, args, .. }), true) => { used.push(lt); used.extend(args.iter()); Self::aty_ref_named(lt, args) }
            _ => "other".to_string(),
        };
        tys.push(if self.fallible { format!("(res {rt} {et})") } else { rt });
        let used: BTreeSet<usize> = used.into_iter().filter_map(|l| if let L::Named(i) = l { Some(*i) } else { None }).collect();
        format!(
            "(c04 {} (bounds{}) (tys {}) (used{}) (params{}))",
            self.n(),
            bounds.iter().map(|b| format!(" {b}")).collect::<String>(),
            tys.join(" "),
            used.iter().map(|u| format!(" {u}")).collect::<String>(),
            params.iter().map(|p| format!(" {p}")).collect::<String>()
        )
    }
}

fn gen_l(rng: &mut Rng, n: usize, allow_anon: bool) -> L {
    if n > 0 && rng.chance(4, 5) { L::Named(rng.below(n)) } else if allow_anon && rng.chance(2, 3) { L::Anon } else { L::Static }
}

pub fn gen_sig(rng: &mut Rng, max_lts: usize, allow_optional: bool) -> Sig {
    let owner = rng.below(3);
    let n_impl = OPAQUES[owner].1;
    let n_method = rng.below(max_lts + 1 - n_impl.min(max_lts));
    let n = n_impl + n_method;
    let mut bounds = vec![];
    if n >= 2 {
        let nb = rng.below(n + 1);
        for _ in 0..nb {
            let l = rng.below(n);
            let s = rng.below(n);
            if l != s && !bounds.iter().any(|(a, b, _)| *a == l && *b == s) {
                bounds.push((l, s, rng.chance(1, 3)));
            }
        }
    }
    let self_lt = if rng.chance(3, 4) { Some(gen_l(rng, n, true)) } else { None };
    let self_lt = match self_lt { Some(L::Static) => Some(L::Anon), o => o };
    let np = rng.below(4);
    let mut params = vec![];
    for _ in 0..np {
        let optional = allow_optional && rng.chance(1, 8);
        params.push(match rng.below(6) {
            0 => PTy::Prim,
            1 | 2 => {
                let ty = rng.below(3);
                let lt = gen_l(rng, n, true);
                // `&'static T<'x>` would force `'x: 'static` (see known finding F12): keep such arguments 'static
                let args = (0..OPAQUES[ty].1).map(|_| if lt == L::Static { L::Static } else { gen_l(rng, n, false) }).collect();
                PTy::RefOpaque { lt, ty, args, optional: rng.chance(1, 5) }
            }
            3 => PTy::Slice { lt: gen_l(rng, n, true), optional },
            _ => { let ty = rng.below(2); PTy::Struct { ty, args: (0..STRUCTS[ty].1).map(|_| gen_l(rng, n, false)).collect(), optional } }
        });
    }
    let ret = match rng.below(7) {
        0 => RTy::Unit,
        1 | 2 => {
            let ty = rng.below(3);
            let lt = gen_l(rng, n, false);
            let args = (0..OPAQUES[ty].1).map(|_| if lt == L::Static { L::Static } else { gen_l(rng, n, false) }).collect();
            RTy::RefOpaque { lt, ty, args }
        }
        3 => { let ty = 1 + rng.below(2); RTy::BoxOpaque { ty, args: (0..OPAQUES[ty].1).map(|_| gen_l(rng, n, false)).collect() } }
        4 | 5 => { let ty = rng.below(2); RTy::Struct { ty, args: (0..STRUCTS[ty].1).map(|_| gen_l(rng, n, false)).collect() } }
        _ => RTy::Slice { lt: gen_l(rng, n, false) },
    };
    let fallible = rng.chance(1, 4);
    // an error type that borrows too (its lifetimes are used by the return type like the success type's)
    let err = if fallible && rng.chance(1, 2) {
        let ty = rng.below(3);
        let lt = gen_l(rng, n, false);
        let args = (0..OPAQUES[ty].1).map(|_| if lt == L::Static { L::Static } else { gen_l(rng, n, false) }).collect();
        Some(RTy::RefOpaque { lt, ty, args })
    } else { None };
    Sig { owner, n_method, bounds, self_lt, params, ret, fallible, err }
}

/// the real analysis, printed in the model's format; `Err` = lowering rejected the signature
fn real_borrow(sig: &Sig) -> Result<String, String> {
    let src = sig.rust_module();
    let file = syn::parse_file(&src).map_err(|e| format!("parse {e}"))?;
    let v = crate::c13::validator("c");
    let r = tool::catch(|| hir::TypeContext::from_syn(&file, Default::default(), v));
    let tcx = match r {
        Err(p) => return Ok(format!("panic-lowering {p}")),
        Ok(Err(e)) => return Err(e.iter().map(|(c, m)| format!("{c}: {m}")).collect::<Vec<_>>().join(" | ")),
        Ok(Ok(t)) => t,
    };
    let ni = sig.n_impl();
    let name_to_idx = |name: &str| -> usize { (0..sig.n()).find(|i| lt_name(*i, ni) == name).unwrap_or(usize::MAX) };
    let out = tool::catch(|| {
        let mut lines = vec![];
        for (_, def) in tcx.all_types() {
            if def.name().as_str() != OPAQUES[sig.owner].0 {
                continue;
            }
            for m in def.methods() {
                let mut visitor = m.borrowing_param_visitor(&tcx, false);
                if let Some(s) = &m.param_self {
                    visitor.visit_param(&s.ty.clone().into(), "this");
                }
                for p in &m.params {
                    visitor.visit_param(&p.ty, p.name.as_str());
                }
                let mut per: BTreeMap<usize, String> = BTreeMap::new();
                for (lt, info) in visitor.borrow_map() {
                    let l = name_to_idx(&m.lifetime_env.fmt_lifetime(lt));
                    let mut longer: Vec<usize> = info.all_longer_lifetimes.iter().map(|x| name_to_idx(&m.lifetime_env.fmt_lifetime(x))).collect();
                    longer.sort();
                    let edges: Vec<String> = info
                        .incoming_edges
                        .iter()
                        .map(|e| {
                            format!(
                                "{}:{}",
                                e.param_name,
                                match e.kind {
                                    hir::borrowing_param::LifetimeEdgeKind::OpaqueParam => "opaque".to_string(),
                                    hir::borrowing_param::LifetimeEdgeKind::SliceParam => "slice".to_string(),
                                    hir::borrowing_param::LifetimeEdgeKind::StructLifetime(env, def_lt, _) => {
                                        let n = env.fmt_lifetime(def_lt).to_string();
                                        format!("struct.{}", if n == "p" { 0 } else { 1 })
                                    }
                                    _ => "?".to_string(),
                                }
                            )
                        })
                        .collect();
                    per.insert(l, format!("lt={l} longer={} edges={}", longer.iter().map(|x| x.to_string()).collect::<Vec<_>>().join(","), edges.join(",")));
                }
                lines.push(per.into_values().collect::<Vec<_>>().join("; "));
            }
        }
        lines.join(" || ")
    });
    match out {
        Ok(s) => Ok(s),
        Err(p) => Ok(if p.contains("borrowing_param.rs") { "panic".to_string() } else { format!("panic {p}") }),
    }
}

/// nanobind numbers call arguments from 1 (0 is the return value); a constructor has no return value, its nurse is
/// the object under construction (argument 1) and every parameter sits one position further right.
fn nanobind_position_probe(rep: &mut Report) {
    let src = "#[diplomat::bridge]\nmod ffi {\n    #[diplomat::opaque]\n    pub struct Op0;\n    #[diplomat::opaque]\n    pub struct Op1<'x>(&'x u8);\n    impl<'m0> Op1<'m0> {\n        #[diplomat::attr(auto, constructor)]\n        pub fn f(p0: u8, p1: &'m0 Op0, p2: &'m0 [u8]) -> Box<Op1<'m0>> { unimplemented!() }\n        pub fn g(p0: u8, p1: &'m0 Op0) -> Box<Op1<'m0>> { unimplemented!() }\n        pub fn h<'a>(&'a self, p0: u8, p1: &'a Op0) -> Box<Op1<'a>> { unimplemented!() }\n    }\n}\n";
    let o = tool::run_backend(src, "nanobind");
    rep.oracle_runs += 1;
    rep.count("probe:nanobind-positions");
    let case = "(c04 probe nanobind-keep-alive-positions)";
    if !o.ok() {
        rep.oracle_fail(case, "nanobind backend failed on the keep_alive position probe", json!(o.status()));
        return;
    }
    let text = o.files.iter().find(|(k, _)| k.ends_with("_ext.cpp")).map(|(_, v)| v.clone()).unwrap_or_default();
    let want: [(&str, &[&str], &[&str]); 3] = [
        ("nb::new_(&Op1::f)", &["nb::keep_alive<1, 3>()", "nb::keep_alive<1, 4>()"], &["nb::keep_alive<1, 2>()", "nb::keep_alive<0,"]),
        ("&Op1::g", &["nb::keep_alive<0, 2>()"], &["nb::keep_alive<0, 1>()", "nb::keep_alive<1,"]),
        ("&Op1::h", &["nb::keep_alive<0, 1>()", "nb::keep_alive<0, 3>()"], &["nb::keep_alive<0, 2>()", "nb::keep_alive<1,"]),
    ];
    for (key, must, must_not) in want {
        let Some(line) = text.lines().find(|l| l.contains(key)) else {
            rep.oracle_fail(case, "a method of the probe has no nanobind binding", json!({"binding": key}));
            continue;
        };
        let missing: Vec<&&str> = must.iter().filter(|m| !line.contains(**m)).collect();
        let extra: Vec<&&str> = must_not.iter().filter(|m| line.contains(**m)).collect();
        if !missing.is_empty() || !extra.is_empty() {
            rep.oracle_fail(case, "nanobind keeps the wrong argument alive for a returned object that borrows from its inputs", json!({"binding": line.trim(), "missing": missing, "unexpected": extra, "source": src}));
        }
    }
}

/// A borrowing struct nested in a borrowing struct: the outer struct's `_fieldsForLifetimeX` getter (JS, Dart) has to
/// gather, for every field, the inner getters of *all* definition lifetimes instantiated with `X` — also when one outer
/// lifetime fills several parameters (`Pair<'a, 'a>`) or they are crossed (`Pair<'b, 'a>`) — and it has to evaluate.

/// The JS runtime's side of a borrow edge for slices: generated code calls `CleanupArena.createWith(...edgeArrays)`
/// once per slice field with the edge arrays of every lifetime that field must outlive; the arena that owns the wasm
/// buffer must then be reachable from *each* of those arrays (that is what keeps the buffer alive while any holder
/// of the array lives), whatever calls came before.  Executed in Node on the runtime file as generated.

/// A parameter spelled `&'x Self` on a type with a lifetime parameter implies `'a: 'x` just like `&'x Cursor<'a>`:
/// either the method is refused for not restating the bound, or — when it is restated — the receiver (which carries
/// `'a`) is on the `'x` edges of what is returned.  Accepting the unrestated form would lose the receiver.
fn self_ref_edges_probe(rep: &mut Report) {
    let src = |bound: &str| format!("#[diplomat::bridge]\nmod ffi {{\n    #[diplomat::opaque]\n    pub struct Token(u8);\n    #[diplomat::opaque]\n    pub struct Cursor<'a>(&'a Token);\n    impl<'a> Cursor<'a> {{\n        pub fn first_of<'x>(&self, other: &'x Self) -> &'x Token {bound} {{ unimplemented!() }}\n    }}\n}}\n");
    for backend in ["js", "dart", "kotlin"] {
        for (what, s) in [("unrestated", src("")), ("restated", src("where 'a: 'x"))] {
            let o = tool::run_backend(&s, backend);
            rep.oracle_runs += 1;
            rep.count("probe:self-ref-edges");
            if !o.lowering_errors.is_empty() {
                if what == "restated" { rep.oracle_fail(&format!("(c04 probe self-ref-edges {backend} {what})"), "a method that restates the implied bound is refused", json!({"errors": o.lowering_errors})); }
                continue;
            }
            if !o.ok() { continue; }
            let text: String = o.files.iter().filter(|(k, _)| k.contains("Cursor")).map(|(_, v)| tool::norm_ws(v)).collect::<Vec<_>>().join(" ");
            // the edge list of 'x in the generated method: `xEdges = [...]`
            let edges = if backend == "kotlin" {
                // `val selfEdges: List<Any> = listOf(this) + listOf(other)` in the method body
                text.find("val selfEdges: List<Any> = ").map(|p| { let r = &text[p + 27..]; r[..r.find(" val ").unwrap_or(r.len().min(80))].to_string() })
            } else {
                text.find("xEdges = [").map(|p| { let r = &text[p + 10..]; r[..r.find(']').unwrap_or(r.len())].to_string() })
            };
            match edges {
                Some(e) if e.contains("this") && e.contains("other") => {}
                other => rep.oracle_fail(&format!("(c04 probe self-ref-edges {backend} {what})"), "the value returned with lifetime 'x does not hold on to both the receiver and the parameter it may borrow from", json!({"backend": backend, "x_edges": other, "source": s})),
            }
        }
    }
}

fn js_arena_probe(rep: &mut Report, seed: u64) {
    let o = tool::run_backend("#[diplomat::bridge]\nmod ffi { #[diplomat::opaque] pub struct O; impl O { pub fn f<'a>(&'a self, s: &'a DiplomatStr) -> &'a DiplomatStr { s } } }", "js");
    let Some(rt) = o.files.get("diplomat-runtime.mjs") else { rep.notes.push("js arena probe: no diplomat-runtime.mjs".into()); return };
    let dir = util::workdir("C04arena");
    let _ = std::fs::remove_dir_all(&dir);
    std::fs::create_dir_all(&dir).unwrap();
    std::fs::write(dir.join("diplomat-runtime.mjs"), rt).unwrap();
    // call sequences: which of four arrays each call names (in order), `n` standing for a null entry
    let mut rng = crate::rng::Rng::new(seed ^ 0xA7E7A);
    let mut seqs: Vec<Vec<Vec<i8>>> = vec![
        vec![vec![0], vec![0, 1]],                 // second call's list starts like the first one
        vec![vec![0, 1], vec![0]],
        vec![vec![0, 1], vec![0, 1], vec![1, 0]],
        vec![vec![0], vec![0], vec![0, 2, 1]],
        vec![vec![-1, 0], vec![0, -1, 1]],
        vec![vec![], vec![1]],
    ];
    for _ in 0..40 {
        let n = 2 + rng.below(5);
        seqs.push((0..n).map(|_| { let k = rng.below(4); (0..k).map(|_| if rng.chance(1, 8) { -1 } else { rng.below(4) as i8 }).collect() }).collect());
    }
    let js_seqs = seqs.iter().map(|s| format!("[{}]", s.iter().map(|c| format!("[{}]", c.iter().map(|x| x.to_string()).collect::<Vec<_>>().join(","))).collect::<Vec<_>>().join(","))).collect::<Vec<_>>().join(",");
    let prog = format!(r#"import {{ CleanupArena }} from './diplomat-runtime.mjs';
const seqs = [{js_seqs}];
seqs.forEach((seq, si) => {{
  const arrays = [[], [], [], []];
  const fn = new CleanupArena();
  seq.forEach((call, ci) => {{
    const args = call.map(i => i < 0 ? null : arrays[i]);
    for (const how of ['createWith', 'maybeCreateWith']) {{
      const arena = how === 'createWith' ? CleanupArena.createWith(...args) : CleanupArena.maybeCreateWith(fn, ...args);
      const missing = call.filter(i => i >= 0 && !arrays[i].includes(arena));
      const local = how === 'maybeCreateWith' && call.length === 0;
      if (missing.length > 0 && !local) console.log('missing ' + si + ' ' + ci + ' ' + how + ' ' + JSON.stringify(call) + ' ' + JSON.stringify(missing));
      if (local && arena !== fn) console.log('notlocal ' + si + ' ' + ci);
      if (!local && arena === fn) console.log('local ' + si + ' ' + ci + ' ' + how);
    }}
  }});
}});
seqs.forEach((seq, si) => {{
  const arrays = [[], [], [], []]; const ids = new Map();
  seq.forEach(call => {{ const a = CleanupArena.createWith(...call.map(i => i < 0 ? null : arrays[i])); ids.set(a, ids.size); }});
  console.log('arrays ' + si + ' ' + arrays.map(a => a.map(x => ids.get(x)).join(' ')).join(';'));
}});
console.log('done ' + seqs.length);
"#);
    std::fs::write(dir.join("main.mjs"), prog).unwrap();
    let (ok, out, err) = util::run(std::process::Command::new("node").arg(dir.join("main.mjs")));
    rep.oracle_runs += 1;
    rep.count_n("probe:js-arena-sequences", seqs.len());
    if !ok || !out.contains("done ") {
        if err.contains("No such file") { rep.notes.push("js arena probe: node not available".into()); return; }
        rep.oracle_fail("(c04 probe js-arena)", "the JS runtime's CleanupArena helpers throw", json!({"stderr": err.lines().take(5).collect::<Vec<_>>()}));
        return;
    }
    // the model of `createWith` (JsArena.lean; Props/C04 proves the arena is on every array given and stays there)
    let mlines: Vec<String> = seqs.iter().map(|s| format!("(arena 4 {})", s.iter().map(|c| format!("({})", c.iter().map(|x| if *x < 0 { "n".to_string() } else { x.to_string() }).collect::<Vec<_>>().join(" "))).collect::<Vec<_>>().join(" "))).collect();
    match crate::model::run_model("C04", &mlines) {
        Ok(model) => {
            for l in out.lines().filter(|l| l.starts_with("arrays ")) {
                let mut it = l.splitn(3, ' ');
                let (_, si, rest) = (it.next(), it.next().and_then(|x| x.parse::<usize>().ok()).unwrap_or(0), it.next().unwrap_or(""));
                rep.count("js-arena-model-tie");
                if model.get(si).map(|m| m.as_str()) != Some(rest) {
                    rep.disagree(&mlines[si], "js-arena", rest, model.get(si).map(|m| m.as_str()).unwrap_or("?"));
                }
            }
        }
        Err(e) => rep.disagree("js-arena", "model-driver", "", &e),
    }
    for l in out.lines().filter(|l| !l.starts_with("done") && !l.starts_with("arrays ")) {
        let f: Vec<&str> = l.splitn(5, ' ').collect();
        let si: usize = f.get(1).and_then(|x| x.parse().ok()).unwrap_or(0);
        rep.oracle_fail(&format!("(c04 probe js-arena calls={:?})", seqs.get(si)), "an arena created for a borrowed slice is not appended to every edge array it was created with: a holder of that array does not keep the buffer alive", json!({"line": l}));
    }
    let _ = std::fs::remove_dir_all(&dir);
}

fn nested_struct_probe(rep: &mut Report) {
    let src = "#[diplomat::bridge]\nmod ffi {\n    use diplomat_runtime::DiplomatStrSlice;\n    #[diplomat::opaque]\n    pub struct Node(pub u32);\n    pub struct Pair<'p, 'q> { pub first: &'p Node, pub first_label: DiplomatStrSlice<'p>, pub second: &'q Node, pub second_label: DiplomatStrSlice<'q> }\n    pub struct Wrapper<'a> { pub pair: Pair<'a, 'a>, pub tag: u8 }\n    pub struct Cross<'a, 'b> { pub pair: Pair<'b, 'a>, pub other: Pair<'a, 'a> }\n    #[diplomat::opaque]\n    pub struct View<'a>(pub &'a Node, pub &'a Node);\n    impl<'a> View<'a> {\n        pub fn from_wrapper(w: Wrapper<'a>) -> Box<View<'a>> { unimplemented!() }\n        pub fn from_cross<'b>(c: Cross<'a, 'b>) -> Box<View<'a>> { unimplemented!() }\n    }\n}\n";
    let case = "(c04 probe nested-borrowing-structs)";
    // (struct, outer lifetime, expected `field.DEF` items)
    let want: [(&str, &str, &[&str]); 3] = [
        ("Wrapper", "A", &["pair._fieldsForLifetimeP", "pair._fieldsForLifetimeQ"]),
        ("Cross", "A", &["pair._fieldsForLifetimeQ", "other._fieldsForLifetimeP", "other._fieldsForLifetimeQ"]),
        ("Cross", "B", &["pair._fieldsForLifetimeP"]),
    ];
    for backend in ["js", "dart"] {
        let o = tool::run_backend(src, backend);
        rep.oracle_runs += 1;
        rep.count(&format!("probe:nested-structs:{backend}"));
        if !o.ok() {
            rep.oracle_fail(case, "backend failed on nested borrowing structs", json!({"backend": backend, "status": o.status()}));
            continue;
        }
        for (st, lt, items) in want {
            let file = if backend == "js" { format!("{st}.mjs") } else { format!("{st}.g.dart") };
            let text = tool::norm_ws(o.files.get(&file).map(|s| s.as_str()).unwrap_or(""));
            let head = if backend == "js" { format!("get _fieldsForLifetime{lt}() {{ return [") } else { format!("get _fieldsForLifetime{lt} => [") };
            let Some(at) = text.find(&head) else {
                rep.oracle_fail(case, "no lifetime getter on a nested borrowing struct", json!({"backend": backend, "struct": st, "lifetime": lt}));
                continue;
            };
            let list = &text[at + head.len()..];
            let list = &list[..list.find(']').unwrap_or(list.len())];
            let mut got: Vec<String> = list.split(',').map(|x| x.trim().trim_start_matches("...").trim_start_matches("this.#").trim_start_matches("this.").to_string()).filter(|x| !x.is_empty()).collect();
            got.sort();
            let mut exp: Vec<String> = items.iter().map(|x| x.to_string()).collect();
            exp.sort();
            if got != exp {
                rep.oracle_fail(case, "a garbage-collected backend does not attach an input the returned value borrows from", json!({"backend": backend, "struct": st, "lifetime": lt, "getter_lists": got, "expected": exp, "source": src}));
            }
        }
        if backend == "js" && util::run(std::process::Command::new("node").arg("--version")).0 {
            // evaluate the getters: every inner getter of `Pair` yields two objects
            let dir = util::workdir("C04nested");
            for (k, v) in &o.files { if k.ends_with(".mjs") && k != "diplomat-wasm.mjs" { std::fs::write(dir.join(k), v).unwrap(); } }
            std::fs::write(dir.join("diplomat-wasm.mjs"), "const memory = new WebAssembly.Memory({ initial: 4 });\nexport default new Proxy({ memory, diplomat_alloc() { return 1024; }, diplomat_free() {} }, { get(t, k) { if (k in t) return t[k]; return (...a) => 0; } });\n").unwrap();
            std::fs::write(dir.join("t.mjs"), "import * as rt from './diplomat-runtime.mjs';\nimport { Node } from './Node.mjs'; import { Wrapper } from './Wrapper.mjs'; import { Cross } from './Cross.mjs';\nconst n = (p) => new Node(rt.internalConstructor, p, [null]);\nconst pair = (a, b) => ({ first: n(a), firstLabel: 'x', second: n(b), secondLabel: 'y' });\nconst show = (name, f) => { try { console.log(name + ' ' + f().length); } catch (e) { console.log(name + ' threw ' + String(e).split('\\n')[0]); } };\nconst w = Wrapper.fromFields({ pair: pair(16, 32), tag: 1 });\nconst c = Cross.fromFields({ pair: pair(48, 64), other: pair(80, 96) });\nshow('Wrapper.A', () => w._fieldsForLifetimeA); show('Cross.A', () => c._fieldsForLifetimeA); show('Cross.B', () => c._fieldsForLifetimeB);\n").unwrap();
            let (_ok, out, err) = util::run(std::process::Command::new("node").arg("t.mjs").current_dir(&dir));
            rep.oracle_runs += 1;
            let expect = "Wrapper.A 4\nCross.A 6\nCross.B 2\n";
            if out != expect {
                rep.oracle_fail(case, "evaluating the lifetime getters of a nested borrowing struct in Node does not give the borrowed-from objects", json!({"backend": "js", "output": out, "expected": expect, "stderr": err.lines().take(3).collect::<Vec<_>>()}));
            }
            let _ = std::fs::remove_dir_all(&dir);
        }
    }
}

/// Random nestings: an outer struct with 1–3 lifetimes whose fields are inner borrowing structs instantiated with any
/// of them (repeated, crossed, `'static`); the getters the JS and Dart backends print against the model (`nestedGetter`).
fn nested_random(rep: &mut Report, rng: &mut Rng, n: usize) {
    let inner_defs = "    pub struct In1<'p> { pub a: &'p Node }\n    pub struct In2<'p, 'q> { pub a: &'p Node, pub b: DiplomatStrSlice<'q> }\n    pub struct In3<'p, 'q, 'r> { pub a: &'p Node, pub b: DiplomatStrSlice<'q>, pub c: &'r Node }\n";
    let lt = ["a", "b", "c"];
    for k in 0..n {
        let nl = 1 + rng.below(3);
        let nf = 1 + rng.below(3);
        // (inner arity, args: Some(outer index) | None = 'static)
        let fields: Vec<(usize, Vec<Option<usize>>)> = (0..nf).map(|_| { let m = 1 + rng.below(3); (m, (0..m).map(|_| if rng.chance(1, 24) { None } else { Some(rng.below(nl)) }).collect()) }).collect();
        let generics = (0..nl).map(|i| format!("'{}", lt[i])).collect::<Vec<_>>().join(", ");
        let mut body = String::new();
        for (i, (m, args)) in fields.iter().enumerate() {
            body += &format!("pub f{i}: In{m}<{}>, ", args.iter().map(|a| match a { Some(x) => format!("'{}", lt[*x]), None => "'static".into() }).collect::<Vec<_>>().join(", "));
        }
        for i in 0..nl { body += &format!("pub z{i}: &'{} Node, ", lt[i]); }
        let src = format!("#[diplomat::bridge]\nmod ffi {{\n    use diplomat_runtime::DiplomatStrSlice;\n    #[diplomat::opaque]\n    pub struct Node(pub u32);\n{inner_defs}    pub struct Outer<{generics}> {{ {body}}}\n    impl Node {{ pub fn take<{generics}>(&self, o: Outer<{generics}>) -> u8 {{ 0 }} }}\n}}\n");
        let line = format!("(c04nest {nl}{})", fields.iter().enumerate().map(|(i, (_, args))| format!(" (f{i}{})", args.iter().map(|a| match a { Some(x) => format!(" {x}"), None => " -".into() }).collect::<String>())).collect::<String>());
        let model = match crate::model::run_model("C04", &[line.clone()]) { Ok(m) => m[0].clone(), Err(e) => { rep.disagree(&line, "model-driver", "", &e); return; } };
        for backend in ["js", "dart"] {
            let o = tool::run_backend(&src, backend);
            if !o.ok() {
                rep.count(&format!("nested-random:{backend}:{}", o.status().split(':').next().unwrap_or("?")));
                if let Some(p) = &o.panic {
                    let key = format!("nested-random-panic:{backend}:{}", p.split(": ").next().unwrap_or("?"));
                    if !rep.notes.iter().any(|n| n.starts_with(&key)) { rep.notes.push(format!("{key} — {p} — {line}")); }
                }
                continue;
            }
            rep.count(&format!("nested-random:{backend}:checked"));
            let file = if backend == "js" { "Outer.mjs" } else { "Outer.g.dart" };
            let text = tool::norm_ws(o.files.get(file).map(|s| s.as_str()).unwrap_or(""));
            let mut real = vec![];
            for x in 0..nl {
                let up = lt[x].to_uppercase();
                let head = if backend == "js" { format!("get _fieldsForLifetime{up}() {{ return [") } else { format!("get _fieldsForLifetime{up} => [") };
                let items: Vec<String> = match text.find(&head) {
                    None => vec!["<no getter>".into()],
                    Some(at) => {
                        let list = &text[at + head.len()..];
                        let list = &list[..list.find(']').unwrap_or(list.len())];
                        list.split(',').map(|i| i.trim()).filter(|i| i.starts_with("...")).map(|i| {
                            let i = i.trim_start_matches("...").trim_start_matches("this.#").trim_start_matches("this.");
                            let (f, g) = i.split_once("._fieldsForLifetime").unwrap_or((i, "?"));
                            format!("{f}.{}", match g { "P" => "0", "Q" => "1", "R" => "2", o => o })
                        }).collect()
                    }
                };
                real.push(format!("lt={x} {}", items.join(",")));
            }
            let real = real.join("; ");
            if real != model {
                rep.disagree(&format!("{line} backend={backend}"), "nested-struct-getters", &real, &model);
                rep.oracle_fail(&format!("{line} backend={backend}"), "a garbage-collected backend does not attach an input the returned value borrows from", json!({"backend": backend, "getters": real, "expected": model, "source": src}));
            }
        }
        let _ = k;
    }
}

/// Dart returns a borrowed primitive slice either as a copy or as a typed-list *view* onto Rust memory; a view has to
/// keep the lifetime edges (what it borrows from) alive for as long as it lives.
fn dart_slice_view_probe(rep: &mut Report) {
    let prims = ["bool", "u8", "i8", "u16", "i16", "u32", "i32", "u64", "i64", "usize", "isize", "f32", "f64", "DiplomatChar"];
    let methods: String = prims.iter().enumerate().map(|(i, p)| format!("        pub fn s{i}<'a>(&'a self) -> &'a [{p}] {{ unimplemented!() }}\n")).collect();
    let src = format!("#[diplomat::bridge]\nmod ffi {{\n    #[diplomat::opaque]\n    pub struct Buf;\n    impl Buf {{\n{methods}    }}\n}}\n");
    let case = "(c04 probe dart-borrowed-slice-views)";
    let o = tool::run_backend(&src, "dart");
    rep.oracle_runs += 1;
    rep.count("probe:dart-slice-views");
    if !o.ok() {
        rep.oracle_fail(case, "dart backend failed on borrowed primitive slices", json!(o.status()));
        return;
    }
    let text: String = o.files.values().cloned().collect::<Vec<_>>().join("\n");
    let mut seen = 0;
    let mut from = 0;
    while let Some(i) = text[from..].find(" _toDart(core.List<Object> lifetimeEdges") {
        let start = from + i;
        let end = text[start..].find("return r;").map(|e| start + e).unwrap_or(text.len());
        let body = &text[start..end];
        // the class the helper belongs to, for the report
        let class = text[..start].rfind("final class ").map(|c| text[c + 12..].split_whitespace().next().unwrap_or("?").to_string()).unwrap_or_default();
        if body.contains("asTypedList(") {
            seen += 1;
            if !body.contains("attach(r, lifetimeEdges)") {
                rep.oracle_fail(case, "a garbage-collected backend does not attach an input the returned value borrows from", json!({"backend": "dart", "helper": class, "detail": "the borrowed branch of _toDart returns a typed-list view without attaching the lifetime edges"}));
            }
        }
        from = end;
    }
    if seen < 8 {
        rep.oracle_fail(case, "fewer typed-list slice helpers than expected were generated", json!({"seen": seen}));
    }
}

/// Backend emission: what the analysis lists as borrowed-from must be attached to the returned object by the
/// generated JS / Dart code (edge list + routing of slice copies of struct fields into it) and kept alive by
/// nanobind. `real` is the analysis' own answer (public API), not the model's.
fn check_emission(sig: &Sig, real: &str, case: &str, rep: &mut Report) {
    let src = sig.rust_module();
    let ni = sig.n_impl();
    let owner = OPAQUES[sig.owner].0;
    // (lifetime name, [(param, kind)])
    let mut per_lt: Vec<(String, Vec<(String, String)>)> = vec![];
    for part in real.split("; ") {
        let Some(l) = part.split(' ').find_map(|t| t.strip_prefix("lt=")).and_then(|x| x.parse::<usize>().ok()) else { continue };
        let edges: Vec<(String, String)> = part.split("edges=").nth(1).unwrap_or("").split(',').filter(|e| !e.is_empty()).filter_map(|e| e.split_once(':').map(|(a, b)| (a.to_string(), b.to_string()))).collect();
        per_lt.push((lt_name(l, ni), edges));
    }
    if per_lt.iter().all(|(_, e)| e.is_empty()) {
        return;
    }
    // which definition slots hold a slice (whose native copy has to live as long as the edge array)
    let struct_of = |p: &str| -> Option<usize> {
        let k: usize = p.strip_prefix('p')?.parse().ok()?;
        match sig.params.get(k)? { PTy::Struct { ty, .. } => Some(*ty), _ => None }
    };
    // STRUCTS[0] = St1<'p> { s: slice<'p> }, STRUCTS[1] = St2<'p, 'q> { a: &'p Op0, b: slice<'q> }
    let slot_has_slice = |ty: usize, slot: usize| -> bool { (STRUCTS[ty].0 == "St1" && slot == 0) || (STRUCTS[ty].0 == "St2" && slot == 1) };
    let slot_name = |slot: usize| if slot == 0 { "p" } else { "q" };
    for backend in ["js", "dart", "nanobind"] {
        let o = tool::run_backend(&src, backend);
        if !o.ok() {
            rep.count(&format!("emission:{backend}:{}", o.status().split(':').next().unwrap_or("?")));
            if let Some(p) = &o.panic {
                let key = format!("emission-panic:{backend}:{}", p.split(": ").next().unwrap_or("?"));
                rep.count(&key);
                if !rep.notes.iter().any(|n| n.starts_with(&key)) {
                    rep.notes.push(format!("{key} e.g. {} — {}", sig.rust_method(), p));
                }
            }
            continue;
        }
        rep.oracle_runs += 1;
        rep.count(&format!("emission:{backend}:checked"));
        let mut missing: Vec<String> = vec![];
        if backend == "nanobind" {
            // a returned slice / string is copied into a Python object, a returned struct is converted field by
            // field: keep_alive is only meaningful (and only emitted) for returned opaques
            if !matches!(sig.ret, RTy::RefOpaque { .. } | RTy::BoxOpaque { .. }) {
                continue;
            }
            let Some(text) = o.files.iter().find(|(k, _)| k.ends_with("_ext.cpp")).map(|(_, v)| v) else { continue };
            let Some(line) = text.lines().find(|l| l.contains(&format!("&{owner}::f"))) else { continue };
            let mut keep: BTreeSet<usize> = BTreeSet::new();
            for (_, edges) in &per_lt {
                for (p, _) in edges {
                    let idx = if p == "this" { 1 } else { p[1..].parse::<usize>().unwrap_or(0) + 1 + sig.self_lt.is_some() as usize };
                    keep.insert(idx);
                }
            }
            for idx in &keep {
                if !line.contains(&format!("nb::keep_alive<0, {idx}>()")) {
                    missing.push(format!("nb::keep_alive<0, {idx}>() for a borrowed-from parameter"));
                }
            }
            // the same method as a constructor: the nurse is the object under construction (argument 1), so every
            // patient moves one position up
            if sig.self_lt.is_none() && !sig.fallible && matches!(&sig.ret, RTy::BoxOpaque { ty, .. } if *ty == sig.owner) {
                let ctor_src = src.replace("pub fn f", "#[diplomat::attr(auto, constructor)]\n        pub fn f");
                let oc = tool::run_backend(&ctor_src, "nanobind");
                if oc.ok() {
                    rep.count("emission:nanobind:constructor");
                    if let Some(cl) = oc.files.iter().find(|(k, _)| k.ends_with("_ext.cpp")).and_then(|(_, v)| v.lines().find(|l| l.contains(&format!("nb::new_(&{owner}::f)")))) {
                        for idx in &keep {
                            if !cl.contains(&format!("nb::keep_alive<1, {}>()", idx + 1)) {
                                missing.push(format!("as a constructor: nb::keep_alive<1, {}>() for a borrowed-from parameter (binding: {})", idx + 1, cl.trim()));
                            }
                        }
                    } else {
                        missing.push("as a constructor: no nb::new_ binding was generated".into());
                    }
                }
            }
        } else {
            let file = if backend == "js" { format!("{owner}.mjs") } else { format!("{owner}.g.dart") };
            let Some(text) = o.files.get(&file) else { continue };
            let text = tool::norm_ws(text);
            for (lt, edges) in &per_lt {
                if edges.is_empty() { continue; }
                let decl = if backend == "js" { format!("let {lt}Edges = [") } else { format!("core.List<Object> {lt}Edges = [") };
                let Some(at) = text.find(&decl) else { missing.push(format!("no `{decl}…]` although `'{lt}` has incoming edges")); continue };
                let list = &text[at + decl.len()..];
                let list = &list[..list.find("];").unwrap_or(list.len())];
                let items: Vec<&str> = list.split(',').map(|x| x.trim()).collect();
                for (p, kind) in edges {
                    let ok = match kind.as_str() {
                        "opaque" => items.iter().any(|i| *i == p),
                        "slice" => items.iter().any(|i| *i == format!("{p}Slice") || *i == format!("{p}Arena")),
                        k if k.starts_with("struct.") => {
                            let slot: usize = k[7..].parse().unwrap_or(0);
                            let want = format!("_fieldsForLifetime{}", slot_name(slot).to_uppercase());
                            let in_list = items.iter().any(|i| i.contains(&format!("{p}.{want}")) || i.contains(&format!("{p}?.{want}")));
                            // routing of the slice copies
                            let routed = match struct_of(p) {
                                Some(ty) if slot_has_slice(ty, slot) => {
                                    let needle = if backend == "js" { format!(", {p})._") } else { format!("{p}._toFfi(") };
                                    let needle_opt = if backend == "js" { format!("optionToArgsForCalling({p},") } else { format!("{p}._toFfi(") };
                                    let seg_at = text.find(&needle).or_else(|| text.find(&needle_opt));
                                    match seg_at {
                                        Some(s) => {
                                            let seg = &text[s..(s + 600).min(text.len())];
                                            // one native copy, attached to every edge array it is borrowed through
                                            let key = format!("{}AppendArray: [", slot_name(slot));
                                            match seg.find(&key) {
                                                Some(k) => {
                                                    let l = &seg[k + key.len()..];
                                                    let l = &l[..l.find(']').unwrap_or(l.len())];
                                                    l.split(',').any(|x| x.trim() == format!("{lt}Edges"))
                                                }
                                                None => false,
                                            }
                                        }
                                        None => false,
                                    }
                                }
                                _ => true,
                            };
                            if in_list && !routed {
                                missing.push(format!("the slice field of `{p}` (slot '{}) is not allocated into `{lt}Edges` (`{}AppendArray: [{lt}Edges]` missing)", slot_name(slot), slot_name(slot)));
                            }
                            in_list
                        }
                        _ => true,
                    };
                    if !ok {
                        missing.push(format!("`{lt}Edges` does not contain the {kind} edge of `{p}`: [{list}]"));
                    }
                }
            }
        }
        if !missing.is_empty() {
            rep.oracle_fail(case, "a garbage-collected backend does not attach an input the returned value borrows from", json!({"backend": backend, "missing": missing, "analysis": real, "method": sig.rust_method()}));
        }
    }
}

/// rustc decides `'x: 'y` for every ordered pair under the signature's declared + implied bounds.
/// Returns for each signature the set of (x, y) that rustc proves.
fn rustc_outlives(sigs: &[&Sig], dir: &std::path::Path) -> Option<Vec<BTreeSet<(usize, usize)>>> {
    let mut src = String::from("#![allow(warnings)]\npub struct Op0;\npub struct Op1<'x>(&'x u8);\npub struct Op2<'x, 'y>(&'x u8, &'y u8);\npub struct St1<'p> { pub s: &'p [u8] }\npub struct St2<'p, 'q> { pub a: &'p Op0, pub b: &'q [u8] }\nfn outlives<'l: 's, 's>() {}\n");
    let mut probe_lines: Vec<(usize, usize, usize, usize)> = vec![]; // (line, sig, x, y)
    for (si, s) in sigs.iter().enumerate() {
        let ni = s.n_impl();
        let n = s.n();
        if n == 0 {
            continue;
        }
        let all: Vec<String> = (0..n).map(|i| {
            let bs: Vec<String> = s.bounds.iter().filter(|(l, _, _)| *l == i).map(|(_, sh, _)| format!("'{}", lt_name(*sh, ni))).collect();
            if bs.is_empty() { format!("'{}", lt_name(i, ni)) } else { format!("'{}: {}", lt_name(i, ni), bs.join(" + ")) }
        }).collect();
        let tys: Vec<String> = s.signature_types().iter().enumerate().map(|(k, t)| format!("_a{k}: {}", t.replace("DiplomatOption<", "Option<").replace("'_", ""))).collect();
        for x in 0..n {
            for y in 0..n {
                if x == y { continue; }
                let line = src.lines().count() + 1;
                let ret = s.rty().replace("DiplomatStr", "[u8]");
                src += &format!("pub fn probe_{si}_{x}_{y}<{}>({}) -> {} {{ outlives::<'{}, '{}>(); loop {{}} }}\n", all.join(", "), tys.join(", "), ret, lt_name(x, ni), lt_name(y, ni));
                probe_lines.push((line, si, x, y));
            }
        }
    }
    std::fs::write(dir.join("probes.rs"), &src).ok()?;
    let o = std::process::Command::new("rustc")
        .args(["--edition", "2021", "--crate-type", "lib", "--emit", "metadata", "--error-format", "json", "-o"])
        .arg(dir.join("probes.rmeta"))
        .arg(dir.join("probes.rs"))
        .output()
        .ok()?;
    let stderr = String::from_utf8_lossy(&o.stderr);
    let mut failed: BTreeSet<usize> = BTreeSet::new();
    for l in stderr.lines() {
        if let Ok(v) = serde_json::from_str::<serde_json::Value>(l) {
            if v.get("level").and_then(|x| x.as_str()) == Some("error") {
                if let Some(spans) = v.get("spans").and_then(|s| s.as_array()) {
                    for sp in spans {
                        if let Some(ln) = sp.get("line_start").and_then(|x| x.as_u64()) {
                            failed.insert(ln as usize);
                        }
                    }
                }
            }
        }
    }
    let mut out = vec![BTreeSet::new(); sigs.len()];
    for (line, si, x, y) in probe_lines {
        if !failed.contains(&line) {
            out[si].insert((x, y));
        }
    }
    Some(out)
}

fn parse_longer(line: &str) -> BTreeMap<usize, BTreeSet<usize>> {
    let mut m = BTreeMap::new();
    for part in line.split("; ") {
        let mut lt = None;
        let mut longer = BTreeSet::new();
        for f in part.split(' ') {
            if let Some(v) = f.strip_prefix("lt=") { lt = v.parse::<usize>().ok(); }
            if let Some(v) = f.strip_prefix("longer=") { longer = v.split(',').filter_map(|x| x.parse().ok()).collect(); }
        }
        if let Some(l) = lt { m.insert(l, longer); }
    }
    m
}

pub fn main(args: &[String]) {
    let a = util::parse_args(args);
    let mut rep = Report::new("C04");
    let thorough = a.tier == "thorough";
    let mut rng = Rng::new(a.seed);
    nanobind_position_probe(&mut rep);
    nested_struct_probe(&mut rep);
    dart_slice_view_probe(&mut rep);
    js_arena_probe(&mut rep, a.seed);
    self_ref_edges_probe(&mut rep);
    { let mut r2 = Rng::new(a.seed ^ 0x6e65); nested_random(&mut rep, &mut r2, if thorough { 400 } else { 40 }); }
    let n = if a.n > 0 { a.n } else if thorough { 20000 } else { 2000 };
    let sigs: Vec<Sig> = (0..n).map(|i| gen_sig(&mut rng, if thorough && i % 4 == 0 { 6 } else { 4 }, true)).collect();
    let lines: Vec<String> = sigs.iter().map(|s| s.sexp()).collect();
    let mut accepted: Vec<(usize, String)> = vec![];
    match crate::model::run_model("C04", &lines) {
        Ok(model) => {
            for (k, s) in sigs.iter().enumerate() {
                rep.case(&lines[k]);
                match real_borrow(s) {
                    Err(_e) => { rep.count("rejected_by_lowering"); rep.cases -= 1; rep.distinct.remove(&lines[k]); }
                    Ok(real) => {
                        rep.count(if real == "panic" { "visitor_panics" } else if real.contains("edges=") && !real.ends_with("edges=") { "has_edges" } else { "no_edges" });
                        if real != model[k] {
                            rep.disagree(&format!("{} ;; {}", lines[k], s.rust_method()), "borrow-map", &real, &model[k]);
                        }
                        if real.starts_with("panic") {
                            rep.oracle_fail(&format!("{} ;; {}", lines[k], s.rust_method()), "the borrow analysis panics on an accepted signature", json!({"method": s.rust_method()}));
                        }
                        accepted.push((k, real));
                    }
                }
            }
        }
        Err(e) => rep.disagree("*", "model-driver", "", &e),
    }
    // backend emission on a sample of signatures with edges
    {
        let ne = if thorough { 2500 } else { 250 };
        let with_edges: Vec<&(usize, String)> = accepted.iter().filter(|(_, r)| r.contains("edges=") && r.split("edges=").skip(1).any(|e| !e.is_empty() && !e.starts_with(';') && !e.starts_with(' '))).take(ne).collect();
        for (i, real) in with_edges {
            check_emission(&sigs[*i], real, &format!("{} ;; {}", lines[*i], sigs[*i].rust_method()), &mut rep);
        }
    }
    // rustc oracle: every lifetime the analysis lists as "longer" really must outlive, and vice versa
    let k = if thorough { 400 } else { 40 };
    // fixed probe re-confirming known finding F12 on every run (a 'static reference to a type with
    // non-'static lifetime arguments makes those arguments 'static for rustc; the graph cannot express it)
    let probe = Sig {
        owner: 0, n_method: 2, bounds: vec![], self_lt: None,
        params: vec![PTy::RefOpaque { lt: L::Named(0), ty: 0, args: vec![], optional: false }],
        ret: RTy::RefOpaque { lt: L::Static, ty: 2, args: vec![L::Named(0), L::Named(1)] },
        fallible: false,
        err: None,
    };
    let mut sigs = sigs;
    let mut lines = lines;
    if let Ok(real) = real_borrow(&probe) {
        sigs.push(probe.clone());
        lines.push(probe.sexp());
        accepted.insert(0, (sigs.len() - 1, real));
    }
    let sample: Vec<&(usize, String)> = accepted.iter().filter(|(_, r)| r.contains("lt=")).take(k + 1).collect();
    let dir = util::workdir("C04");
    let refs: Vec<&Sig> = sample.iter().map(|(i, _)| &sigs[*i]).collect();
    if let Some(proved) = rustc_outlives(&refs, &dir) {
        for (j, (i, real)) in sample.iter().enumerate() {
            rep.oracle_runs += 1;
            let longer = parse_longer(real);
            for (lt, set) in longer {
                for x in 0..sigs[*i].n() {
                    if x == lt { continue; }
                    let says = set.contains(&x);
                    let rustc = proved[j].contains(&(x, lt));
                    if says != rustc {
                        rep.oracle_fail(&format!("{} ;; {}", lines[*i], sigs[*i].rust_method()),
                            if rustc { "rustc proves an outlives relation the analysis misses (a borrowed-from parameter may be dropped too early)" } else { "the analysis claims an outlives relation rustc cannot prove" },
                            json!({"longer": lt_name(x, sigs[*i].n_impl()), "shorter": lt_name(lt, sigs[*i].n_impl()), "analysis": says, "rustc": rustc}));
                    }
                }
            }
        }
    } else {
        rep.notes.push("rustc probe oracle could not run".into());
    }
    let _ = std::fs::remove_dir_all(&dir);
    rep.print();
}
