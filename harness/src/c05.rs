//! C05 — the lowering gate: real `TypeContext::from_syn` per backend profile on grammar-generated valid
//! modules (must be accepted) and single-fault mutants (must be rejected), compared with the Lean model
//! on acceptance and on the set of error contexts.
use crate::report::Report;
use crate::rng::Rng;
use crate::tool;
use crate::tygen::{self, Gen, Module, Profile};
use crate::util;
use diplomat_core::hir;
use serde_json::json;
use std::collections::BTreeSet;

pub const BACKENDS: [&str; 7] = ["c", "cpp", "js", "dart", "kotlin", "nanobind", "demo_gen"];

pub fn profile_of(target: &str, unsafe_refs: bool) -> Profile {
    let (sup, _) = diplomat_tool::verif_hooks::attr_support(target).unwrap();
    Profile { option: sup.option, callbacks: sup.callbacks, static_slices: sup.static_slices, unsafe_refs }
}

/// `accept` or `reject ctx1,ctx2` (sorted distinct contexts), or `panic …`
pub fn real_gate(src: &str, target: &str, unsafe_refs: bool) -> String {
    let file = match syn::parse_file(src) {
        Ok(f) => f,
        Err(e) => return format!("parse-error {e}"),
    };
    let v = crate::c13::validator(target);
    let mut cfg = hir::LoweringConfig::default();
    cfg.unsafe_references_in_callbacks = unsafe_refs;
    match tool::catch(|| hir::TypeContext::from_syn(&file, cfg, v)) {
        Err(p) => format!("panic {p}"),
        Ok(Ok(_)) => "accept".into(),
        Ok(Err(errs)) => {
            let ctxs: BTreeSet<String> = errs.iter().map(|(c, _)| c.to_string()).collect();
            format!("reject {}", ctxs.into_iter().collect::<Vec<_>>().join(","))
        }
    }
}

fn strip_rules(model: &str) -> String {
    match model.find(" rules=") {
        Some(p) => model[..p].to_string(),
        None => model.to_string(),
    }
}

/// The proc macro's own early check of struct fields ("struct fields FFI-safe", "std Option of non-pointers never in
/// struct fields"): whatever other attributes the struct carries, a field that is not FFI-safe stops the expansion.

/// "Every lifetime bound implied by a used type is spelled out on the method": the bounds a type's definition
/// declares (`Span<'lo, 'hi: 'lo>`) and the one a reference to a borrowing type implies (`&'a Token<'b>` needs
/// `'b: 'a`) — also when the type is written `Self`, in parameters and inside `Option` / `Result` returns.  The
/// generated modules have no lifetime parameters on types, so these shapes are written out; each is a single
/// method whose verdict follows from the rule, with its spelled-out twin as the control.
fn implied_bound_probe(rep: &mut Report) {
    let head = "#[diplomat::bridge]\nmod ffi {\n    #[diplomat::opaque]\n    pub struct Arena;\n    #[diplomat::opaque]\n    pub struct Token<'b>(&'b str);\n    #[diplomat::opaque]\n    pub struct Span<'lo, 'hi: 'lo>(&'lo str, &'hi str);\n    pub struct Pair<'p, 'q: 'p> { pub a: &'p Arena, pub b: &'q Arena }\n";
    // (name, impl header, method, expected rejection context)
    let cases: [(&str, &str, &str, Option<&str>); 14] = [
        ("named-ref-auto-bound", "impl<'b> Token<'b>", "pub fn same<'a>(&self, other: &'a Token<'b>) -> bool { true }", None),
        ("self-ref-param", "impl<'b> Token<'b>", "pub fn same<'a>(&self, other: &'a Self) -> bool { true }", Some("Token::same")),
        ("self-ref-param-spelled", "impl<'b> Token<'b>", "pub fn same<'a>(&self, other: &'a Self) -> bool where 'b: 'a { true }", None),
        ("self-ref-option-return", "impl<'b> Token<'b>", "pub fn lookup<'a>(arena: &'a Arena, index: usize) -> Option<&'a Self> { None }", Some("Token::lookup")),
        ("self-ref-option-return-spelled", "impl<'b> Token<'b>", "pub fn lookup<'a>(arena: &'a Arena, index: usize) -> Option<&'a Self> where 'b: 'a { None }", None),
        ("self-ref-result-return", "impl<'b> Token<'b>", "pub fn find<'a>(arena: &'a Arena) -> Result<&'a Self, ()> { Err(()) }", Some("Token::find")),
        ("self-ref-result-err", "impl<'b> Token<'b>", "pub fn other<'a>(arena: &'a Arena) -> Result<(), &'a Self> { Ok(()) }", Some("Token::other")),
        ("def-bound-missing", "impl Arena", "pub fn widen<'x, 'y>(&self, span: &Span<'x, 'y>) -> u32 { 0 }", Some("Arena::widen")),
        ("def-bound-spelled", "impl Arena", "pub fn widen<'x, 'y: 'x>(&self, span: &Span<'x, 'y>) -> u32 { 0 }", None),
        ("def-bound-missing-in-return", "impl Arena", "pub fn span<'x, 'y>(&self, a: &'x Arena, b: &'y Arena) -> Box<Span<'x, 'y>> { unimplemented!() }", Some("Arena::span")),
        ("def-bound-spelled-in-return", "impl Arena", "pub fn span<'x, 'y: 'x>(&self, a: &'x Arena, b: &'y Arena) -> Box<Span<'x, 'y>> { unimplemented!() }", None),
        ("struct-def-bound-missing", "impl Arena", "pub fn pair<'x, 'y>(&self, p: Pair<'x, 'y>) -> u8 { 0 }", Some("Arena::pair")),
        ("struct-def-bound-spelled", "impl Arena", "pub fn pair<'x, 'y: 'x>(&self, p: Pair<'x, 'y>) -> u8 { 0 }", None),
        ("same-lifetime-twice", "impl Arena", "pub fn both<'x>(&self, span: &Span<'x, 'x>) -> u32 { 0 }", None),
    ];
    // an elided borrow in the return type stays elided whatever generic arguments the type carries — also a
    // `'static` one in front of it (js / dart are left out: they stop on a returned `'static` argument, finding F9)
    {
        let src = "#[diplomat::bridge]\nmod ffi {\n    #[diplomat::opaque]\n    pub struct Entry<'k>(&'k str);\n    #[diplomat::opaque]\n    pub struct Table(u8);\n    impl Table {\n        pub fn builtin(&self) -> &Entry<'static> { unimplemented!() }\n        pub fn maybe_builtin(&self) -> Option<&Entry<'static>> { unimplemented!() }\n        pub fn named<'a>(&'a self) -> &'a Entry<'static> { unimplemented!() }\n    }\n}\n";
        for target in ["c", "cpp", "kotlin"] {
            let o = tool::run_backend(src, target);
            rep.oracle_runs += 1;
            rep.count("probe:implied-bounds");
            let ctxs: Vec<&str> = o.lowering_errors.iter().map(|(c, _)| c.as_str()).collect();
            if !(ctxs.contains(&"Table::builtin") && ctxs.contains(&"Table::maybe_builtin")) || ctxs.contains(&"Table::named") {
                rep.oracle_fail(&format!("(c05 probe elided-behind-static {target})"), "an elided lifetime in a return type is not refused (or a spelled-out one is) when the returned type also has a 'static argument", json!({"backend": target, "lowering_errors": o.lowering_errors, "source": src}));
            }
        }
    }
    // the context an error is reported under is the item it belongs to — also when the previous item lowered has the
    // same name (two bridge modules) and had methods
    {
        let src = "#[diplomat::bridge]\nmod first {\n    pub struct Settings { pub a: u8 }\n    impl Settings {\n        pub fn is_default(self) -> bool { true }\n    }\n}\n#[diplomat::bridge]\nmod second {\n    pub struct Settings { pub depth: Option<u8> }\n}\n";
        for target in ["c", "cpp", "js", "dart"] {
            let o = tool::run_backend(src, target);
            rep.oracle_runs += 1;
            rep.count("probe:error-context");
            let ctxs: Vec<&str> = o.lowering_errors.iter().map(|(c, _)| c.as_str()).collect();
            if ctxs != vec!["Settings"] {
                rep.oracle_fail(&format!("(c05 probe error-context {target})"), "a type-level lowering error is not reported under the type it belongs to", json!({"backend": target, "contexts": ctxs, "expected": ["Settings"], "source": src}));
            }
        }
    }
    for (name, imp, method, expect) in cases {
        let src = format!("{head}    {imp} {{\n        {method}\n    }}\n}}\n");
        for target in ["c", "js", "dart", "kotlin"] {
            let o = tool::run_backend(&src, target);
            rep.oracle_runs += 1;
            rep.count("probe:implied-bounds");
            let ctxs: Vec<&str> = o.lowering_errors.iter().map(|(c, _)| c.as_str()).collect();
            let ok = match expect { None => ctxs.is_empty(), Some(c) => ctxs.contains(&c) };
            if !ok || o.panic.is_some() || o.parse_error.is_some() {
                rep.oracle_fail(&format!("(c05 probe implied-bound {name} {target})"), if expect.is_some() { "a method that leaves out a lifetime bound implied by a type it uses is accepted" } else { "a method that spells out every implied lifetime bound is rejected" }, json!({"backend": target, "expected_rejection": expect, "lowering_errors": o.lowering_errors, "panic": o.panic, "source": src}));
            }
        }
    }
}

fn macro_struct_gate_probe(rep: &mut Report) {
    let wrap = |attrs: &str, field: &str| format!("#[diplomat::bridge]\nmod ffi {{\n    use diplomat_runtime::DiplomatOption;\n    {attrs}\n    pub struct Rec {{ pub a: u8, pub f: {field} }}\n    #[diplomat::opaque]\n    pub struct Op;\n    impl Op {{ pub fn get(&self) -> u8 {{ 0 }} }}\n}}\n");
    // (attributes on the struct, field type, must the macro refuse it)
    let cases: [(&str, &str, bool); 8] = [
        ("", "Option<u8>", true),
        ("#[repr(C)]", "Option<u8>", true),
        ("#[repr(C)]", "Option<u32>", true),
        ("#[diplomat::out]\n    #[repr(C)]", "Option<u16>", true),
        ("#[derive(Clone, Copy)]\n    #[repr(C)]", "Option<bool>", true),
        ("#[diplomat::out]", "Option<i64>", true),
        ("#[repr(C)]", "DiplomatOption<u8>", false),
        ("", "DiplomatOption<u8>", false),
    ];
    for (attrs, field, must_reject) in cases {
        let src = wrap(attrs, field);
        let r = crate::expand::expand_each(&[src.clone()]);
        rep.oracle_runs += 1;
        rep.count("probe:macro-struct-gate");
        let case = format!("(c05 probe macro-struct-gate attrs={:?} field={field})", attrs.replace('\n', " "));
        match (&r[0], must_reject) {
            (Err(e), true) if e.contains("non-FFI safe") => {}
            (Err(e), true) => rep.oracle_fail(&case, "the proc macro refuses a struct with a non-FFI-safe field, but not with its own diagnostic", json!({"rustc": e, "source": src})),
            (Ok(_), true) => rep.oracle_fail(&case, "a module breaking a documented rule is accepted", json!({"rule": "struct fields FFI-safe (proc-macro side)", "tool": "the #[diplomat::bridge] expansion compiles", "source": src})),
            (Ok(_), false) => {}
            (Err(e), false) => rep.oracle_fail(&case, "a module within the documented rules is rejected", json!({"rule": "struct fields FFI-safe (proc-macro side)", "tool": e, "source": src})),
        }
    }
}

pub fn main(args: &[String]) {
    let a = util::parse_args(args);
    let cli_budget = if a.tier == "thorough" { 1500 } else { 150 };

    let mut rep = Report::new("C05");
    macro_struct_gate_probe(&mut rep);
    implied_bound_probe(&mut rep);
    let thorough = a.tier == "thorough";
    let mut rng = Rng::new(a.seed);
    let n_valid = if a.n > 0 { a.n } else if thorough { 1200 } else { 120 };
    // (case line, real outcome, expectation: Some(true)=must accept, Some(false)=must reject, tag)
    let mut lines: Vec<String> = vec![];
    let mut srcs: Vec<String> = vec![];
    let mut meta: Vec<(String, bool, String, bool, String)> = vec![]; // (target, unsafe_refs, tag, expect_accept, expected context)
    for i in 0..n_valid {
        let target = BACKENDS[i % BACKENDS.len()];
        let unsafe_refs = i % 5 == 0;
        let prof = profile_of(target, unsafe_refs);
        let m: Module = Gen::valid_module(&mut rng, prof);
        let push = |m: &Module, tag: &str, expect: bool, ctx: &str, lines: &mut Vec<String>, srcs: &mut Vec<String>, meta: &mut Vec<(String, bool, String, bool, String)>| {
            lines.push(format!("(c05 {} {})", prof.sexp(), m.sexp_decls()));
            srcs.push(m.rust());
            meta.push((target.to_string(), unsafe_refs, tag.to_string(), expect, ctx.to_string()));
        };
        push(&m, "valid", true, "", &mut lines, &mut srcs, &mut meta);
        if i % 2 == 0 {
            for (tag, mm, ctx) in tygen::mutants_ctx(&m, &mut rng, prof) {
                push(&mm, &tag, false, &ctx, &mut lines, &mut srcs, &mut meta);
            }
        }
    }
    match crate::model::run_model("C05", &lines) {
        Ok(model) => {
            for k in 0..lines.len() {
                let (target, unsafe_refs, tag, expect, want_ctx) = &meta[k];
                rep.case(&lines[k]);
                rep.count(&format!("kind={}", if tag == "valid" { "valid" } else { "mutant" }));
                if tag != "valid" {
                    rep.count(&format!("mutant:{tag}"));
                }
                let real = real_gate(&srcs[k], target, *unsafe_refs);
                let m = strip_rules(&model[k]);
                let real_cmp = if real.starts_with("panic core/src/hir/elision.rs") { "panic".to_string() } else { real.clone() };
                if real_cmp != m {
                    rep.disagree(&lines[k], &format!("gate[{target}]"), &real, &model[k]);
                }
                rep.count(if real == "accept" { "real_accept" } else { "real_reject" });
                // the same verdict from the real command line (its own choice of attribute support and lowering config)
                if (real == "accept" || real.starts_with("reject ")) && rep.distribution.get("cli-gate").copied().unwrap_or(0) < cli_budget && k % 3 == 0 {
                    rep.count("cli-gate");
                    let mut flags = vec!["lib_name=somelib".to_string(), "kotlin.domain=dev.diplomattest".to_string()];
                    if *unsafe_refs { flags.push("unsafe_references_in_callbacks=true".into()); }
                    match tool::cli_gate(&util::workdir("C05cli"), &srcs[k], target, &flags) {
                        Err(e) => rep.disagree(&lines[k], "cli-gate", &e, "runnable"),
                        Ok(None) if real == "accept" => {}
                        Ok(Some(c)) if real.starts_with("reject ") => {
                            let got = c.into_iter().collect::<Vec<_>>().join(",");
                            if format!("reject {got}") != real {
                                rep.disagree(&lines[k], &format!("cli-gate-context[{target}]"), &format!("reject {got}"), &real);
                            }
                        }
                        Ok(o) => rep.disagree(&lines[k], &format!("cli-gate[{target}]"), &format!("{o:?}"), &real),
                    }
                }
                // the documented rules, through the generator: valid modules are accepted, mutants rejected
                rep.oracle_runs += 1;
                let accepted = real == "accept";
                if accepted != *expect {
                    rep.oracle_fail(
                        &lines[k],
                        if *expect { "a module within the documented rules is rejected" } else { "a module breaking a documented rule is accepted" },
                        json!({"backend": target, "rule": tag, "tool": real, "source": srcs[k]}),
                    );
                }
                // the error of a single-fault mutant must carry exactly the faulty type (and method) as context
                if !*expect && real.starts_with("reject ") && !want_ctx.is_empty() {
                    let got = real.trim_start_matches("reject ");
                    if got != want_ctx {
                        rep.oracle_fail(&lines[k], "a lowering error is reported with the wrong type/method context", json!({"backend": target, "rule": tag, "expected_context": want_ctx, "reported_contexts": got, "source": srcs[k]}));
                    }
                }
            }
        }
        Err(e) => rep.disagree("*", "model-driver", "", &e),
    }
    rep.print();
}
