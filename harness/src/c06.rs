//! C06 — symbols: names computed by the real AST, identifiers emitted by the real proc macro (rustc
//! expansion), symbols referenced by each real backend's output — vs the Lean model; `nm` oracle in thorough.
use crate::c13::{attrs_rust, attrs_sexp, gen_attrs, validator, Attr, Meta, NAMES};
use crate::report::Report;
use crate::rng::Rng;
use crate::tool;
use crate::util;
use serde_json::json;
use std::collections::BTreeSet;

#[derive(Clone, Debug, PartialEq)]
pub enum Kind {
    Opaque,
    Struct,
    Enum,
}
#[derive(Clone, Debug)]
pub struct Method {
    name: String,
    abi: Option<String>,
    attrs: Vec<Attr>,
    is_static: bool,
}
#[derive(Clone, Debug)]
pub struct Impl {
    abi: Option<String>,
    attrs: Vec<Attr>,
    methods: Vec<Method>,
}
#[derive(Clone, Debug)]
pub struct Type {
    kind: Kind,
    name: String,
    abi: Option<String>,
    attrs: Vec<Attr>,
    impls: Vec<Impl>,
}
#[derive(Clone, Debug)]
pub struct Module {
    abi: Option<String>,
    attrs: Vec<Attr>,
    types: Vec<Type>,
}

fn abi_sexp(a: &Option<String>) -> String {
    match a {
        None => "-".into(),
        Some(p) => format!("\"{p}\""),
    }
}
fn abi_rust(a: &Option<String>, indent: &str, k: usize) -> String {
    match a {
        None => String::new(),
        Some(p) => {
            if k % 2 == 0 {
                format!("{indent}#[diplomat::abi_rename = \"{p}\"]\n")
            } else {
                format!("{indent}#[diplomat::abi_rename(\"{p}\")]\n")
            }
        }
    }
}

impl Module {
    pub fn sexp(&self) -> String {
        let ts: Vec<String> = self
            .types
            .iter()
            .map(|t| {
                let is: Vec<String> = t
                    .impls
                    .iter()
                    .map(|i| {
                        format!(
                            "(impl6 {} {}{})",
                            abi_sexp(&i.abi),
                            attrs_sexp(&i.attrs),
                            i.methods.iter().map(|m| format!(" (method6 {} {} {})", m.name, abi_sexp(&m.abi), attrs_sexp(&m.attrs))).collect::<String>()
                        )
                    })
                    .collect();
                let k = match t.kind {
                    Kind::Opaque => "opaque",
                    Kind::Struct => "struct",
                    Kind::Enum => "enum",
                };
                format!("(type6 {k} {} {} {}{})", t.name, abi_sexp(&t.abi), attrs_sexp(&t.attrs), is.iter().map(|i| format!(" {i}")).collect::<String>())
            })
            .collect();
        format!("(mod6 {} {}{})", abi_sexp(&self.abi), attrs_sexp(&self.attrs), ts.iter().map(|t| format!(" {t}")).collect::<String>())
    }
    pub fn rust(&self) -> String {
        let mut s = String::from("#[diplomat::bridge]\n");
        s += &abi_rust(&self.abi, "", 0);
        s += &attrs_rust(&self.attrs, "");
        s += "mod ffi {\n";
        for (ti, t) in self.types.iter().enumerate() {
            s += &abi_rust(&t.abi, "    ", ti);
            s += &attrs_rust(&t.attrs, "    ");
            match t.kind {
                // an opaque type may be written as a struct or as an enum
                Kind::Opaque if ti % 2 == 1 => s += &format!("    #[diplomat::opaque]\n    pub enum {} {{ Xa, Xb }}\n", t.name),
                Kind::Opaque => s += &format!("    #[diplomat::opaque]\n    pub struct {};\n", t.name),
                Kind::Struct => s += &format!("    pub struct {} {{ pub a: u8 }}\n", t.name),
                Kind::Enum => s += &format!("    pub enum {} {{ Va, Vb }}\n", t.name),
            }
            for (ii, i) in t.impls.iter().enumerate() {
                s += &abi_rust(&i.abi, "    ", ii + 1);
                s += &attrs_rust(&i.attrs, "    ");
                s += &format!("    impl {} {{\n", t.name);
                for (mi, m) in i.methods.iter().enumerate() {
                    s += &abi_rust(&m.abi, "        ", mi);
                    s += &attrs_rust(&m.attrs, "        ");
                    let recv = if m.is_static { "" } else if t.kind == Kind::Opaque { "&self, " } else { "self, " };
                    s += &format!("        pub fn {}({}x: u8) -> u8 {{ x }}\n", m.name, recv);
                }
                s += "    }\n";
            }
        }
        s += "}\n";
        s
    }
}

const PATTERNS: [&str; 7] = ["pre_{0}", "{0}_suf", "ns_{0}_x", "{0}", "icu4x_{0}_mv1", "Z{0}", "{0}{0}"];

fn gen_abi(rng: &mut Rng, p_num: usize, p_den: usize) -> Option<String> {
    if rng.chance(p_num, p_den) {
        let p = rng.pick(&PATTERNS).to_string();
        // `{0}{0}` keeps a literal `{0}` → not an identifier; the macro would panic. Replace by a legal two-sided pattern.
        Some(if p == "{0}{0}" { "a_{0}_b".into() } else { p })
    } else {
        None
    }
}

pub fn gen_module(rng: &mut Rng, with_cfg: bool) -> Module {
    let nt = 1 + rng.below(3);
    let mut types = vec![];
    let mut fixed = 0;
    for ti in 0..nt {
        let name = format!("T{}", util::letters(ti));
        let kind = match rng.below(5) {
            0 => Kind::Struct,
            1 => Kind::Enum,
            _ => Kind::Opaque,
        };
        let ni = 1 + rng.below(2);
        let mut impls = vec![];
        let mut mcount = 0;
        for _ in 0..ni {
            let nm = 1 + rng.below(3);
            let mut methods = vec![];
            for _ in 0..nm {
                let mut abi = gen_abi(rng, 1, 4);
                if rng.chance(1, 12) {
                    fixed += 1;
                    abi = Some(format!("fixed_symbol_{fixed}")); // no placeholder: a pure rename
                }
                methods.push(Method { name: format!("m{}", util::letters(mcount)), abi, attrs: if with_cfg { gen_attrs(rng, 1, 4, true, &format!("Me{ti}x{mcount}")) } else { vec![] }, is_static: rng.chance(1, 4) });
                mcount += 1;
            }
            impls.push(Impl { abi: gen_abi(rng, 1, 4), attrs: if with_cfg { gen_attrs(rng, 1, 6, false, "") } else { vec![] }, methods });
        }
        types.push(Type { kind, name, abi: gen_abi(rng, 1, 4), attrs: if with_cfg { gen_attrs(rng, 1, 3, true, &format!("Ty{ti}")) } else { vec![] }, impls });
    }
    Module { abi: gen_abi(rng, 1, 3), attrs: if with_cfg { gen_attrs(rng, 1, 8, false, "") } else { vec![] }, types }
}

/// `name` occurs in `text` as a whole identifier
pub fn contains_word(text: &str, name: &str) -> bool {
    let mut from = 0;
    while let Some(i) = text[from..].find(name) {
        let s = from + i;
        let e = s + name.len();
        let before = text[..s].chars().next_back().map(is_ident_char).unwrap_or(false);
        let after = text[e..].chars().next().map(is_ident_char).unwrap_or(false);
        if !before && !after { return true; }
        from = e;
    }
    false
}

fn is_ident_char(c: char) -> bool {
    c.is_alphanumeric() || c == '_'
}

/// identifiers immediately followed by `(` on lines that look like declarations `… name(args);`
fn c_prototypes(text: &str) -> BTreeSet<String> {
    let mut out = BTreeSet::new();
    for line in text.lines() {
        let l = line.trim();
        if !l.ends_with(");") || l.starts_with("typedef") || l.starts_with('#') || l.starts_with("//") || l.starts_with("static_assert") {
            continue;
        }
        if let Some(p) = l.find('(') {
            let name: String = l[..p].chars().rev().take_while(|c| is_ident_char(*c)).collect::<String>().chars().rev().collect();
            if !name.is_empty() {
                out.insert(name);
            }
        }
    }
    out
}

fn after_all(text: &str, pat: &str, stop: impl Fn(char) -> bool) -> BTreeSet<String> {
    let mut out = BTreeSet::new();
    let mut start = 0;
    while let Some(p) = text[start..].find(pat) {
        let s = start + p + pat.len();
        let name: String = text[s..].chars().take_while(|c| !stop(*c)).collect();
        if !name.is_empty() {
            out.insert(name);
        }
        start = s;
    }
    out
}

pub fn backend_symbols(target: &str, files: &std::collections::BTreeMap<String, String>) -> BTreeSet<String> {
    let mut out = BTreeSet::new();
    for (name, text) in files {
        let base = name.rsplit('/').next().unwrap();
        if base.starts_with("diplomat_runtime") || base.starts_with("diplomat-") || base == "lib.g.dart" && false {
            continue;
        }
        match target {
            "c" => {
                if base.ends_with(".h") && !base.ends_with(".d.h") {
                    out.extend(c_prototypes(text));
                }
            }
            "cpp" | "nanobind" => {
                if base.ends_with(".hpp") && !base.ends_with(".d.hpp") {
                    // declarations inside the extern "C" block
                    let mut inside = false;
                    let mut block = String::new();
                    for l in text.lines() {
                        if l.contains("extern \"C\" {") {
                            inside = true;
                            continue;
                        }
                        if l.contains("} // extern \"C\"") {
                            inside = false;
                        }
                        if inside {
                            block.push_str(l);
                            block.push('\n');
                        }
                    }
                    out.extend(c_prototypes(&block));
                }
            }
            "js" => {
                if base.ends_with(".mjs") {
                    for pre in [" wasm.", "(wasm.", "\twasm.", "=wasm.", "!wasm.", ",wasm.", "\nwasm."] {
                        out.extend(after_all(text, pre, |c| !is_ident_char(c)));
                    }
                }
            }
            "dart" => {
                if base.ends_with(".g.dart") {
                    out.extend(after_all(text, "symbol: '", |c| c == '\''));
                }
            }
            "kotlin" => {
                if base.ends_with(".kt") && base != "Lib.kt" {
                    // `fun NAME(` lines inside `interface XLib: Library { … }`
                    let mut inside = false;
                    for l in text.lines() {
                        if l.contains("Lib: Library {") {
                            inside = true;
                            continue;
                        }
                        if inside && l.trim() == "}" {
                            inside = false;
                        }
                        if inside {
                            out.extend(after_all(l, "fun ", |c| !is_ident_char(c)));
                        }
                    }
                    // the call sites: `lib.NAME(` (methods, destructors in cleaners and in finalizers)
                    for pre in [" lib.", "(lib.", "=lib.", "\tlib."] {
                        out.extend(after_all(text, pre, |c| !is_ident_char(c)).into_iter().filter(|n| text.contains(&format!("lib.{n}("))));
                    }
                }
            }
            _ => {}
        }
    }
    out.into_iter().filter(|s| !s.starts_with("diplomat_") && s != "memory").collect()
}

fn real_ast_names(src: &str) -> Result<Vec<String>, String> {
    let file = syn::parse_file(src).map_err(|e| e.to_string())?;
    tool::catch(|| {
        let f = diplomat_core::ast::File::from(&file);
        let mut v = vec![];
        for (_, m) in f.modules.iter() {
            for (_, t) in m.declared_types.iter() {
                if let diplomat_core::ast::CustomType::Opaque(o) = t {
                    v.push(o.dtor_abi_name.as_str().to_string());
                }
                for me in t.methods() {
                    v.push(me.abi_name.as_str().to_string());
                }
            }
        }
        v.sort();
        v
    })
}

const SYM_TARGETS: [&str; 6] = ["c", "cpp", "js", "dart", "kotlin", "nanobind"];

fn parse_model(line: &str) -> (String, String) {
    let mut ex = String::new();
    let mut us = String::new();
    for f in line.split(' ') {
        if let Some(v) = f.strip_prefix("exported=") {
            ex = v.to_string();
        }
        if let Some(v) = f.strip_prefix("used=") {
            us = v.to_string();
        }
    }
    (ex, us)
}

/// build the module as a staticlib with the real macro and list its defined global symbols
fn nm_oracle(mods: &[Module], rep: &mut Report) {
    let d = crate::expand::crate_dir();
    for m in mods {
        let src = m.rust();
        let case = m.sexp();
        // expansion writes lib.rs; here we need a real build
        let _ = crate::expand::expand_batch(&[src.clone()]);
        let o = std::process::Command::new("cargo")
            .args(["build", "--offline", "--lib"])
            .env("CARGO_TARGET_DIR", d.join("target"))
            .env_remove("RUSTFLAGS")
            .env("CARGO_ENCODED_RUSTFLAGS", "")
            .current_dir(&d)
            .output();
        let Ok(o) = o else { continue };
        if !o.status.success() {
            rep.oracle_fail(&case, "module does not build with the real macro", json!(String::from_utf8_lossy(&o.stderr).chars().take(500).collect::<String>()));
            continue;
        }
        let lib = d.join("target/debug/libvexpand.a");
        let (ok, out, _) = util::run(std::process::Command::new("nm").args(["-g", "--defined-only"]).arg(&lib));
        if !ok {
            continue;
        }
        let syms: BTreeSet<String> = out.lines().filter_map(|l| l.split_whitespace().nth(2)).map(|s| s.to_string()).collect();
        rep.oracle_runs += 1;
        for t in SYM_TARGETS {
            let o = tool::run_backend(&src, t);
            if !o.ok() {
                continue;
            }
            for s in backend_symbols(t, &o.files) {
                if !syms.contains(&s) {
                    rep.oracle_fail(&case, "backend refers to a symbol the built library does not export", json!({"backend": t, "symbol": s}));
                }
            }
        }
    }
}

/// A bridge module inside a bridge module: rustc expands each `#[diplomat::bridge]` on its own, so the symbols the
/// inner module exports are named by the inner module's attributes alone; the tool reads the whole file.
fn nested_module_probe(rep: &mut Report) {
    let src = "#[diplomat::bridge]\n#[diplomat::abi_rename = \"outerlib_{0}\"]\npub mod outer {\n    #[diplomat::opaque]\n    pub struct Top;\n    impl Top { pub fn make() -> Box<Top> { Box::new(Top) } }\n    #[diplomat::bridge]\n    pub mod inner {\n        #[diplomat::opaque]\n        pub struct Inner;\n        impl Inner { pub fn make() -> Box<Inner> { Box::new(Inner) } pub fn get(&self) -> u8 { 0 } }\n        pub struct Pair { pub a: u8, pub b: u8 }\n        impl Pair { pub fn sum(self) -> u8 { self.a + self.b } }\n    }\n}\n";
    let case = "(c06 probe nested-bridge-modules)";
    rep.count("probe:nested-modules");
    let ex = crate::expand::expand_each(&[src.to_string()]);
    let exported: Vec<String> = match &ex[0] {
        Ok(e) => e.extern_fns.iter().map(|f| f.name.clone()).collect(),
        Err(e) => {
            rep.notes.push(format!("nested-module probe: the macro expansion does not build ({})", e.chars().take(200).collect::<String>()));
            return;
        }
    };
    for t in SYM_TARGETS {
        let o = tool::run_backend(src, t);
        rep.oracle_runs += 1;
        if !o.ok() {
            rep.count(&format!("probe:nested-modules:{t}:{}", o.status().split(':').next().unwrap_or("?")));
            continue;
        }
        let used = backend_symbols(t, &o.files);
        for s in &used {
            if !exported.contains(s) {
                rep.oracle_fail(case, "backend refers to a symbol the proc macro does not export", json!({"backend": t, "symbol": s, "exported": exported, "source": src}));
            }
        }
        for s in &exported {
            if !used.contains(s) && !s.ends_with("_destroy") {
                rep.oracle_fail(case, "an exported method is not used by the backend's bindings", json!({"backend": t, "symbol": s, "used": used, "source": src}));
            }
        }
    }
}


/// Only `#[diplomat::bridge]` modules are compiled by the proc macro, so only their methods are exported.  A module
/// that carries another tool's attribute ending in `bridge` (`#[cxx::bridge]`, `#[uniffi::bridge(..)]`) exports
/// nothing through Diplomat, and no backend may refer to symbols for its items.
fn foreign_bridge_probe(rep: &mut Report) {
    let src = "#[diplomat::bridge]\nmod ffi {\n    #[diplomat::opaque]\n    pub struct Real(u8);\n    impl Real {\n        pub fn get(&self) -> u8 { self.0 }\n    }\n}\n#[diplomat::bridge]\nmod outer {\n    #[diplomat::opaque]\n    pub struct Outer(u8);\n    impl Outer {\n        pub fn get(&self) -> u8 { self.0 }\n    }\n    mod inner {\n        pub struct Step { pub a: u8 }\n        pub enum StepKind { A, B }\n        impl Step {\n            pub fn unit() -> Step { Step { a: 1 } }\n            pub fn scaled(self, k: u8) -> u8 { self.a * k }\n        }\n    }\n}\n#[cxx::bridge]\nmod cxxside {\n    pub struct Stats { pub a: u8 }\n    pub enum StatMode { A, B }\n    impl Stats {\n        pub fn total(self) -> u8 { 0 }\n        pub fn zero() -> Stats { Stats { a: 0 } }\n    }\n}\n#[other::tool::bridge(option)]\nmod third {\n    #[diplomat::opaque]\n    pub struct Foreign(u8);\n    impl Foreign {\n        pub fn peek(&self) -> u8 { 0 }\n    }\n}\n";
    // (`inner` is a plain module nested in a bridge module: the macro passes it through untouched)
    let foreign = ["Stats_total", "Stats_zero", "Foreign_peek", "Foreign_destroy", "StatMode", "Stats", "Foreign", "Step_unit", "Step_scaled", "StepKind", "Step"];
    for t in tool::BACKENDS {
        let o = tool::run_backend(src, t);
        rep.oracle_runs += 1;
        rep.count("probe:foreign-bridge");
        if !o.ok() {
            rep.oracle_fail(&format!("(c06 probe foreign-bridge {t})"), "a crate with another tool's `bridge` module is not generated", json!({"status": o.status()}));
            continue;
        }
        if t != "demo_gen" && !o.files.values().any(|v| contains_word(v, "Real_get")) {
            rep.oracle_fail(&format!("(c06 probe foreign-bridge {t})"), "the Diplomat bridge's own method is not referred to", json!({"files": o.files.keys().collect::<Vec<_>>()}));
        }
        for (name, text) in &o.files {
            for w in foreign {
                if contains_word(text, w) || name.contains(w) {
                    rep.oracle_fail(&format!("(c06 probe foreign-bridge {t})"), "a backend refers to items of a module the proc macro does not compile (no such symbol is exported)", json!({"backend": t, "file": name, "name": w, "source": src}));
                    break;
                }
            }
        }
    }
}

pub fn main(args: &[String]) {
    let a = util::parse_args(args);
    let mut rep = Report::new("C06");
    nested_module_probe(&mut rep);
    let thorough = a.tier == "thorough";
    let mut rng = Rng::new(a.seed);
    // rename patterns: model vs real RenameAttr (through a one-method module's abi name)
    let n = if a.n > 0 { a.n } else if thorough { 1500 } else { 150 };
    let mods: Vec<Module> = (0..n).map(|i| gen_module(&mut rng, i % 3 != 0)).collect();
    let srcs: Vec<String> = mods.iter().map(|m| m.rust()).collect();
    // the real proc macro
    let expanded = crate::expand::expand_each(&srcs);
    let mut lines = vec![];
    for m in &mods {
        for t in SYM_TARGETS {
            lines.push(format!("(c06 {t} {})", m.sexp()));
        }
    }
    match crate::model::run_model("C06", &lines) {
        Ok(model) => {
            let mut k = 0;
            for (mi, m) in mods.iter().enumerate() {
                let src = &srcs[mi];
                let ast = real_ast_names(src);
                let mac: Result<Vec<String>, String> = expanded[mi].as_ref().map(|e| {
                    let mut v: Vec<String> = e.extern_fns.iter().map(|f| f.name.clone()).collect();
                    v.sort();
                    v
                }).map_err(|e| e.clone());
                for t in SYM_TARGETS {
                    let l = &lines[k];
                    rep.case(l);
                    let (mex, mus) = parse_model(&model[k]);
                    if t == "c" {
                        match &ast {
                            Ok(v) => {
                                if v.join(",") != mex {
                                    rep.disagree(l, "ast-abi-names", &v.join(","), &mex);
                                }
                            }
                            Err(p) => rep.disagree(l, "ast-panic", p, &mex),
                        }
                        match &mac {
                            Ok(v) => {
                                if v.join(",") != mex {
                                    rep.disagree(l, "macro-extern-fn-names", &v.join(","), &mex);
                                }
                            }
                            Err(e) => {
                                rep.disagree(l, "macro-expansion-failed", e, &mex);
                                rep.oracle_fail(l, "the proc-macro expansion of an accepted module does not compile, so nothing is exported", json!({"rustc": e, "source": src}));
                            }
                        }
                    }
                    // Kotlin has two ways of releasing an opaque (Cleaner / finalize()), chosen by configuration
                    if t == "kotlin" && mi % 2 == 0 {
                        let cfg = tool::config_from(&[("lib_name", toml::Value::String("somelib".into())), ("kotlin.domain", toml::Value::String("dev.diplomattest".into())), ("kotlin.use_finalizers_not_cleaners", toml::Value::Boolean(true))]);
                        let of = tool::run_backend_cfg(src, t, cfg);
                        if of.ok() {
                            rep.count("kotlin:finalizers");
                            let used = backend_symbols(t, &of.files).into_iter().collect::<Vec<_>>().join(",");
                            if used != mus {
                                rep.disagree(l, "backend-symbol-uses[kotlin.use_finalizers_not_cleaners]", &used, &mus);
                            }
                        }
                    }
                    let o = tool::run_backend(src, t);
                    let real_used = if o.ok() {
                        backend_symbols(t, &o.files).into_iter().collect::<Vec<_>>().join(",")
                    } else if !o.lowering_errors.is_empty() {
                        "error".to_string()
                    } else {
                        o.status()
                    };
                    if real_used != mus {
                        rep.disagree(l, "backend-symbol-uses", &real_used, &mus);
                    }
                    // property-level: every symbol a backend uses is exported by the macro
                    if let (Ok(v), true) = (&mac, o.ok()) {
                        for s in backend_symbols(t, &o.files) {
                            if !v.contains(&s) {
                                rep.oracle_fail(l, "backend refers to a symbol the proc macro does not export", json!({"backend": t, "symbol": s, "exported": v}));
                            }
                        }
                        rep.oracle_runs += 1;
                    }
                    rep.count(&format!("backend={t}"));
                    k += 1;
                }
                if m.abi.is_some() { rep.count("module_abi_rename"); }
                if m.types.iter().any(|t| t.abi.is_some()) { rep.count("type_abi_rename"); }
                if m.types.iter().any(|t| t.impls.iter().any(|i| i.abi.is_some())) { rep.count("impl_abi_rename"); }
                if m.types.iter().any(|t| t.impls.iter().any(|i| i.methods.iter().any(|me| me.abi.is_some()))) { rep.count("method_abi_rename"); }
            }
        }
        Err(e) => rep.disagree("*", "model-driver", "", &e),
    }
    if thorough {
        nm_oracle(&mods[..8.min(mods.len())], &mut rep);
    }
    let _ = (Meta::Disable, NAMES, validator as fn(&str) -> _);
    // the repository's own bridges: what the bindings refer to is what the built libraries export
    crate::repo_tests::symbols(&mut rep);
    foreign_bridge_probe(&mut rep);
    crate::tool::alias_probe(&mut rep, "C06", crate::tool::ALIAS_SRC);
    rep.print();
}
