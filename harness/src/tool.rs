//! Running the real diplomat-tool pipeline in-process through the cfg-guarded hook.
use diplomat_tool::config::Config;
use std::collections::BTreeMap;
use std::panic::{catch_unwind, AssertUnwindSafe};
use std::sync::Mutex;

pub const BACKENDS: [&str; 7] = ["c", "cpp", "js", "dart", "kotlin", "nanobind", "demo_gen"];

#[derive(Default, Debug, Clone)]
pub struct Outcome {
    pub files: BTreeMap<String, String>,
    pub lowering_errors: Vec<(String, String)>,
    pub backend_errors: Vec<(String, String)>,
    /// `file:line: message` of a caught panic
    pub panic: Option<String>,
    pub parse_error: Option<String>,
}

impl Outcome {
    pub fn ok(&self) -> bool {
        self.panic.is_none()
            && self.parse_error.is_none()
            && self.lowering_errors.is_empty()
            && self.backend_errors.is_empty()
    }
    pub fn status(&self) -> String {
        if let Some(p) = &self.panic {
            format!("panic:{p}")
        } else if let Some(p) = &self.parse_error {
            format!("parse-error:{p}")
        } else if !self.lowering_errors.is_empty() {
            "lowering-error".into()
        } else if !self.backend_errors.is_empty() {
            "backend-error".into()
        } else {
            "ok".into()
        }
    }
}

static LAST_PANIC: Mutex<Option<String>> = Mutex::new(None);

pub fn install_panic_hook() {
    std::panic::set_hook(Box::new(|info| {
        let loc = info
            .location()
            .map(|l| {
                let f = l.file();
                let f = f.strip_prefix("/repo/").unwrap_or(f);
                format!("{}:{}", f, l.line())
            })
            .unwrap_or_else(|| "?".into());
        let msg = if let Some(s) = info.payload().downcast_ref::<&str>() {
            s.to_string()
        } else if let Some(s) = info.payload().downcast_ref::<String>() {
            s.clone()
        } else {
            "<non-string panic>".into()
        };
        let msg: String = msg.chars().take(200).collect();
        *LAST_PANIC.lock().unwrap() = Some(format!("{loc}: {}", msg.replace('\n', " ")));
    }));
}

pub fn take_panic() -> Option<String> {
    LAST_PANIC.lock().unwrap().take()
}

pub fn catch<T>(f: impl FnOnce() -> T) -> Result<T, String> {
    match catch_unwind(AssertUnwindSafe(f)) {
        Ok(v) => Ok(v),
        Err(_) => Err(take_panic().unwrap_or_else(|| "?: panic".into())),
    }
}

pub fn config_from(pairs: &[(&str, toml::Value)]) -> Config {
    let mut c = Config::default();
    for (k, v) in pairs {
        c.set(k, v.clone());
    }
    c
}

pub fn default_config() -> Config {
    config_from(&[
        ("lib_name", toml::Value::String("somelib".into())),
        ("kotlin.domain", toml::Value::String("dev.diplomattest".into())),
    ])
}

/// Parse `src` as a crate root and run the real pipeline for `target`.
pub fn run_backend_cfg(src: &str, target: &str, config: Config) -> Outcome {
    let file = match syn::parse_file(src) {
        Ok(f) => f,
        Err(e) => {
            return Outcome {
                parse_error: Some(e.to_string()),
                ..Default::default()
            }
        }
    };
    let r = catch(|| {
        diplomat_tool::verif_hooks::gen_in_memory(
            &file,
            std::path::Path::new("/nonexistent-verif/src/lib.rs"),
            target,
            config,
        )
    });
    match r {
        Ok(g) => Outcome {
            files: g.files,
            lowering_errors: g.lowering_errors,
            backend_errors: g.backend_errors,
            panic: None,
            parse_error: None,
        },
        Err(p) => Outcome {
            panic: Some(p),
            ..Default::default()
        },
    }
}

pub fn run_backend(src: &str, target: &str) -> Outcome {
    run_backend_cfg(src, target, default_config())
}

/// Collapse whitespace runs to one space and trim: the canonical text form shared with the model.
pub fn norm_ws(s: &str) -> String {
    let mut out = String::with_capacity(s.len());
    let mut sp = false;
    for c in s.chars() {
        if c == ' ' || c == '\n' || c == '\t' || c == '\r' {
            sp = true;
        } else {
            if sp && !out.is_empty() {
                out.push(' ');
            }
            sp = false;
            out.push(c);
        }
    }
    out
}

/// Find the generated file a model fragment key (`backend/File.ext`) refers to.
pub fn find_file<'a>(files: &'a BTreeMap<String, String>, key: &str) -> Option<&'a String> {
    if key == "ext.cpp" {
        return files
            .iter()
            .find(|(k, _)| k.ends_with("_ext.cpp"))
            .map(|(_, v)| v);
    }
    files
        .iter()
        .find(|(k, _)| k.as_str() == key || k.ends_with(&format!("/{key}")))
        .map(|(_, v)| v)
}

/// Ordered containment of whitespace-normalised fragments, per file.
/// Returns a description of the first fragment of each file that is missing.
pub fn check_frags(
    outs: &BTreeMap<String, Outcome>,
    frags: &[(String, String)],
) -> Vec<String> {
    let mut cursor: BTreeMap<String, (String, usize)> = BTreeMap::new();
    let mut problems = vec![];
    for (key, text) in frags {
        let (backend, file) = match key.split_once('/') {
            Some(x) => x,
            None => {
                problems.push(format!("bad fragment key {key}"));
                continue;
            }
        };
        let out = match outs.get(backend) {
            Some(o) => o,
            None => {
                problems.push(format!("no run for backend {backend}"));
                continue;
            }
        };
        if !out.ok() {
            problems.push(format!("{backend}: {}", out.status()));
            continue;
        }
        let entry = cursor.entry(key.clone()).or_insert_with(|| {
            (
                find_file(&out.files, file).map(|s| norm_ws(s)).unwrap_or_default(),
                0,
            )
        });
        if entry.0.is_empty() {
            problems.push(format!("{key}: file not generated"));
            continue;
        }
        match entry.0[entry.1..].find(text.as_str()) {
            Some(pos) => entry.1 += pos + text.len(),
            None => {
                // show where the longest matching prefix diverges
                let hay = &entry.0[entry.1..];
                let mut best = 0;
                let mut best_at = 0;
                let probe: String = text.chars().take(24).collect();
                if let Some(p) = hay.find(probe.as_str()) {
                    let a = hay[p..].as_bytes();
                    let b = text.as_bytes();
                    let mut i = 0;
                    while i < a.len() && i < b.len() && a[i] == b[i] {
                        i += 1;
                    }
                    best = i;
                    best_at = p;
                }
                let lo = best.saturating_sub(30);
                let ctx_model: String = String::from_utf8_lossy(&text.as_bytes()[lo..(best + 60).min(text.len())]).into();
                let ctx_real: String = String::from_utf8_lossy(
                    &hay.as_bytes()[(best_at + lo).min(hay.len())..(best_at + best + 60).min(hay.len())],
                )
                .into();
                problems.push(format!(
                    "{key}: fragment not found (after offset {}): model `…{}…` vs real `…{}…`",
                    entry.1, ctx_model, ctx_real
                ));
            }
        }
    }
    problems
}

// ---------------------------------------------------------------------------------------------------------
// The real command line: `diplomat-tool` built from /repo without the verification cfg.  `gen_in_memory`
// repeats the statements at the top of `diplomat_tool::gen` (add-only hook); the tie below runs the same input
// through the real binary — `main.rs` option handling, `Config::read_file` / `read_cli_settings`, `gen` itself,
// file writing — and demands the same verdict and byte-identical files.

pub fn cli_path() -> String {
    std::env::var("DIPLOMAT_CLI").unwrap_or_else(|_| "/verif/harness/target/cli/debug/diplomat-tool".into())
}

#[derive(Debug, Default)]
pub struct CliOutcome {
    pub ran: bool,
    pub code: Option<i32>,
    pub files: BTreeMap<String, String>,
    pub stderr: String,
}

fn read_tree(root: &std::path::Path, dir: &std::path::Path, out: &mut BTreeMap<String, String>) {
    let Ok(rd) = std::fs::read_dir(dir) else { return };
    for e in rd.flatten() {
        let p = e.path();
        if p.is_dir() {
            read_tree(root, &p, out);
        } else if let Ok(t) = std::fs::read_to_string(&p) {
            out.insert(p.strip_prefix(root).unwrap().to_string_lossy().replace('\\', "/"), t);
        }
    }
}

/// Run the real CLI in `dir` (created, emptied): `src` as `src/lib.rs`, `toml` as `config.toml` when given, every
/// `cli` entry as one `--config k=v`.
pub fn cli_gen(dir: &std::path::Path, src: &str, target: &str, toml: Option<&str>, cli: &[String]) -> CliOutcome {
    cli_gen_args(dir, src, target, toml, cli, &[])
}

/// as `cli_gen`, with further command-line arguments (e.g. `-u crate:url` docs base URLs)
pub fn cli_gen_args(dir: &std::path::Path, src: &str, target: &str, toml: Option<&str>, cli: &[String], extra: &[String]) -> CliOutcome {
    let _ = std::fs::remove_dir_all(dir);
    std::fs::create_dir_all(dir.join("src")).unwrap();
    std::fs::write(dir.join("src/lib.rs"), src).unwrap();
    if let Some(t) = toml {
        std::fs::write(dir.join("config.toml"), t).unwrap();
    }
    let mut cmd = std::process::Command::new(cli_path());
    cmd.arg(target).arg("out").arg("--entry").arg("src/lib.rs").arg("-s").current_dir(dir);
    for c in cli {
        cmd.arg("--config").arg(c);
    }
    cmd.args(extra);
    match cmd.output() {
        Err(e) => CliOutcome { ran: false, stderr: format!("cannot run {}: {e}", cli_path()), ..Default::default() },
        Ok(o) => {
            let mut files = BTreeMap::new();
            read_tree(&dir.join("out"), &dir.join("out"), &mut files);
            CliOutcome { ran: true, code: o.status.code(), files, stderr: String::from_utf8_lossy(&o.stderr).chars().take(1500).collect() }
        }
    }
}

/// The same input through the hook, with the configuration assembled by the real `Config::read_file` and
/// `Config::read_cli_settings` in the order `main.rs` applies them.
pub fn hook_gen_like_cli(dir: &std::path::Path, src: &str, target: &str, toml: Option<&str>, cli: &[String]) -> Outcome {
    let mut config = Config::default();
    if let Some(t) = toml {
        let p = dir.join("hook-config.toml");
        std::fs::create_dir_all(dir).unwrap();
        std::fs::write(&p, t).unwrap();
        let _ = config.read_file(&p);
    }
    config.read_cli_settings(cli.to_vec());
    run_backend_cfg(src, target, config)
}

/// `None` when both paths agree; otherwise what differs.
pub fn cli_tie(dir: &std::path::Path, src: &str, target: &str, toml: Option<&str>, cli: &[String]) -> Option<serde_json::Value> {
    cli_tie_spelled(dir, src, target, target, toml, cli)
}

/// Other spellings the command line accepts for a backend: the pre-HIR names with a trailing `2`, and `py-nanobind`.
pub fn spellings(target: &str) -> Vec<String> {
    let mut v = vec![format!("{target}2")];
    if target == "nanobind" {
        v.push("py-nanobind".into());
        v.push("py-nanobind2".into());
    }
    v
}

/// as `cli_tie`, with the backend spelled `spelled` on the command line and `target` (its canonical name) in process
pub fn cli_tie_spelled(dir: &std::path::Path, src: &str, target: &str, spelled: &str, toml: Option<&str>, cli: &[String]) -> Option<serde_json::Value> {
    use serde_json::json;
    let real = cli_gen(&dir.join("cli"), src, spelled, toml, cli);
    if !real.ran {
        return Some(json!({"problem": "the diplomat-tool binary could not be run", "detail": real.stderr}));
    }
    let mut hook = hook_gen_like_cli(&dir.join("hook"), src, target, toml, cli);
    let mut hook_status = hook.status();
    if target == "demo_gen" && hook.ok() {
        // `gen` first writes the JS bindings next to the demo unless an import path is configured
        let configured = |t: &str| t.contains("module_name") || t.contains("relative_js_path") || t.contains("module-name") || t.contains("relative-js-path");
        let has_path = cli.iter().any(|c| configured(c)) || toml.map(configured).unwrap_or(false) || src.lines().any(|l| l.contains("diplomat::config") && configured(l));
        if !has_path {
            let js = hook_gen_like_cli(&dir.join("hook"), src, "js", toml, cli);
            if js.ok() {
                for (k, v) in js.files {
                    hook.files.insert(format!("js/{k}"), v);
                }
            } else {
                hook_status = format!("js bindings for the demo: {}", js.status());
                hook = js;
            }
        }
    }
    let real_ok = real.code == Some(0);
    // a panic in the hook is a panic (exit 101) in the binary; lowering and backend errors are exit 1 with no files
    if hook.ok() != real_ok {
        return Some(json!({"problem": "the command line and the in-process pipeline disagree on accepting the input", "cli_exit": real.code, "cli_stderr": real.stderr.lines().take(4).collect::<Vec<_>>(), "in_process": hook_status}));
    }
    if hook.ok() && real_ok {
        let names_a: Vec<&String> = hook.files.keys().collect();
        let names_b: Vec<&String> = real.files.keys().collect();
        if names_a != names_b {
            let only_cli: Vec<&&String> = names_b.iter().filter(|n| !hook.files.contains_key(**n)).take(5).collect();
            let only_hook: Vec<&&String> = names_a.iter().filter(|n| !real.files.contains_key(**n)).take(5).collect();
            return Some(json!({"problem": "the command line writes a different set of files than the in-process pipeline", "only_cli": only_cli, "only_in_process": only_hook}));
        }
        for (k, v) in &hook.files {
            if real.files.get(k) != Some(v) {
                let other = real.files.get(k).cloned().unwrap_or_default();
                let (la, lb) = v.lines().zip(other.lines()).find(|(a, b)| a != b).map(|(a, b)| (a.to_string(), b.to_string())).unwrap_or_default();
                return Some(json!({"problem": "a file written by the command line differs from the in-process pipeline's", "file": k, "in_process_line": la, "cli_line": lb}));
            }
        }
    }
    None
}

/// `cli_tie` under the configuration `default_config()` gives the in-process runs
/// Every other spelling of every backend on a bridge whose attributes name backends: the binary under the alias
/// must produce what the pipeline produces under the canonical name (same disabled items, same renames, same symbols).
pub fn alias_probe(rep: &mut crate::report::Report, id: &str, src: &str) {
    for t in BACKENDS {
        for sp in spellings(t) {
            rep.oracle_runs += 1;
            rep.count("probe:backend-spellings");
            if let Some(mut d) = cli_tie_spelled(&crate::util::workdir(&format!("{id}alias")), src, t, &sp, None, &["lib_name=somelib".to_string(), "kotlin.domain=dev.diplomattest".to_string()]) {
                d["source"] = serde_json::json!(src);
                rep.oracle_fail(&format!("({} probe backend-spelling {sp} for {t})", id.to_lowercase()), "under another accepted spelling of the backend name the tool does not produce the backend's output (attribute conditions, symbols)", d);
            }
        }
    }
}

pub const ALIAS_SRC: &str = "#[diplomat::bridge]\nmod ffi {\n    #[diplomat::opaque]\n    pub struct Gauge(u8);\n    impl Gauge {\n        pub fn read(&self) -> u8 { self.0 }\n        #[diplomat::attr(any(c, cpp), disable)]\n        pub fn not_in_c(&self) -> u8 { 1 }\n        #[diplomat::attr(js, disable)]\n        pub fn not_in_js(&self) -> u8 { 2 }\n        #[diplomat::attr(not(dart), disable)]\n        pub fn only_dart(&self) -> u8 { 3 }\n        #[diplomat::attr(any(kotlin, nanobind), disable)]\n        pub fn not_in_kt_py(&self) -> u8 { 4 }\n        #[diplomat::attr(any(cpp, js, dart, nanobind), rename = \"renamed_{0}\")]\n        pub fn plain(&self) -> u8 { 5 }\n    }\n    #[diplomat::attr(not(any(js, demo_gen)), disable)]\n    #[diplomat::opaque]\n    pub struct WebOnly(u8);\n    impl WebOnly {\n        pub fn get(&self) -> u8 { self.0 }\n    }\n    #[diplomat::attr(nanobind, disable)]\n    pub enum NotPy { A, B }\n}\n";

pub fn cli_tie_default(dir: &std::path::Path, src: &str, target: &str) -> Option<serde_json::Value> {
    cli_tie(dir, src, target, None, &["lib_name=somelib".to_string(), "kotlin.domain=dev.diplomattest".to_string()])
}

/// The gate as the command line applies it: `Some(contexts)` of the reported lowering errors, `None` when lowering
/// passed (whatever the backend did afterwards).  `Err` when the binary could not be run.
pub fn cli_gate(dir: &std::path::Path, src: &str, target: &str, cli: &[String]) -> Result<Option<std::collections::BTreeSet<String>>, String> {
    let real = cli_gen(dir, src, target, None, cli);
    if !real.ran {
        return Err(real.stderr);
    }
    let ctxs: std::collections::BTreeSet<String> = real
        .stderr
        .lines()
        .filter_map(|l| l.strip_prefix("Lowering error in "))
        .filter_map(|l| l.split_once(": ").map(|(c, _)| c.to_string()))
        .collect();
    if ctxs.is_empty() { Ok(None) } else { Ok(Some(ctxs)) }
}
