//! Running the real diplomat-tool pipeline in-process through the cfg-guarded hook.
use diplomat_tool::config::Config;
use std::collections::BTreeMap;
use std::panic::{catch_unwind, AssertUnwindSafe};
use std::sync::Mutex;

pub const BACKENDS: [&str; 7] = ["c", "cpp", "js", "dart", "kotlin", "nanobind", "demo_gen"];

#[derive(Default, Debug, Clone)]
pub struct Outcome {
    pub files: BTreeMap<String, String>,
    pub lowering_errors: Vec<(String, String)>,
    pub backend_errors: Vec<(String, String)>,
    /// `file:line: message` of a caught panic
    pub panic: Option<String>,
    pub parse_error: Option<String>,
}

impl Outcome {
    pub fn ok(&self) -> bool {
        self.panic.is_none()
            && self.parse_error.is_none()
            && self.lowering_errors.is_empty()
            && self.backend_errors.is_empty()
    }
    pub fn status(&self) -> String {
        if let Some(p) = &self.panic {
            format!("panic:{p}")
        } else if let Some(p) = &self.parse_error {
            format!("parse-error:{p}")
        } else if !self.lowering_errors.is_empty() {
            "lowering-error".into()
        } else if !self.backend_errors.is_empty() {
            "backend-error".into()
        } else {
            "ok".into()
        }
    }
}

static LAST_PANIC: Mutex<Option<String>> = Mutex::new(None);

pub fn install_panic_hook() {
    std::panic::set_hook(Box::new(|info| {
        let loc = info
            .location()
            .map(|l| {
                let f = l.file();
                let f = f.strip_prefix("/repo/").unwrap_or(f);
                format!("{}:{}", f, l.line())
            })
            .unwrap_or_else(|| "?".into());
        let msg = if let Some(s) = info.payload().downcast_ref::<&str>() {
            s.to_string()
        } else if let Some(s) = info.payload().downcast_ref::<String>() {
            s.clone()
        } else {
            "<non-string panic>".into()
        };
        let msg: String = msg.chars().take(200).collect();
        *LAST_PANIC.lock().unwrap() = Some(format!("{loc}: {}", msg.replace('\n', " ")));
    }));
}

pub fn take_panic() -> Option<String> {
    LAST_PANIC.lock().unwrap().take()
}

pub fn catch<T>(f: impl FnOnce() -> T) -> Result<T, String> {
    match catch_unwind(AssertUnwindSafe(f)) {
        Ok(v) => Ok(v),
        Err(_) => Err(take_panic().unwrap_or_else(|| "?: panic".into())),
    }
}

pub fn config_from(pairs: &[(&str, toml::Value)]) -> Config {
    let mut c = Config::default();
    for (k, v) in pairs {
        c.set(k, v.clone());
    }
    c
}

pub fn default_config() -> Config {
    config_from(&[
        ("lib_name", toml::Value::String("somelib".into())),
        ("kotlin.domain", toml::Value::String("dev.diplomattest".into())),
    ])
}

/// Parse `src` as a crate root and run the real pipeline for `target`.
pub fn run_backend_cfg(src: &str, target: &str, config: Config) -> Outcome {
    let file = match syn::parse_file(src) {
        Ok(f) => f,
        Err(e) => {
            return Outcome {
                parse_error: Some(e.to_string()),
                ..Default::default()
            }
        }
    };
    let r = catch(|| {
        diplomat_tool::verif_hooks::gen_in_memory(
            &file,
            std::path::Path::new("/nonexistent-verif/src/lib.rs"),
            target,
            config,
        )
    });
    match r {
        Ok(g) => Outcome {
            files: g.files,
            lowering_errors: g.lowering_errors,
            backend_errors: g.backend_errors,
            panic: None,
            parse_error: None,
        },
        Err(p) => Outcome {
            panic: Some(p),
            ..Default::default()
        },
    }
}

pub fn run_backend(src: &str, target: &str) -> Outcome {
    run_backend_cfg(src, target, default_config())
}

/// Collapse whitespace runs to one space and trim: the canonical text form shared with the model.
pub fn norm_ws(s: &str) -> String {
    let mut out = String::with_capacity(s.len());
    let mut sp = false;
    for c in s.chars() {
        if c == ' ' || c == '\n' || c == '\t' || c == '\r' {
            sp = true;
        } else {
            if sp && !out.is_empty() {
                out.push(' ');
            }
            sp = false;
            out.push(c);
        }
    }
    out
}

/// Find the generated file a model fragment key (`backend/File.ext`) refers to.
pub fn find_file<'a>(files: &'a BTreeMap<String, String>, key: &str) -> Option<&'a String> {
    if key == "ext.cpp" {
        return files
            .iter()
            .find(|(k, _)| k.ends_with("_ext.cpp"))
            .map(|(_, v)| v);
    }
    files
        .iter()
        .find(|(k, _)| k.as_str() == key || k.ends_with(&format!("/{key}")))
        .map(|(_, v)| v)
}

/// Ordered containment of whitespace-normalised fragments, per file.
/// Returns a description of the first fragment of each file that is missing.
pub fn check_frags(
    outs: &BTreeMap<String, Outcome>,
    frags: &[(String, String)],
) -> Vec<String> {
    let mut cursor: BTreeMap<String, (String, usize)> = BTreeMap::new();
    let mut problems = vec![];
    for (key, text) in frags {
        let (backend, file) = match key.split_once('/') {
            Some(x) => x,
            None => {
                problems.push(format!("bad fragment key {key}"));
                continue;
            }
        };
        let out = match outs.get(backend) {
            Some(o) => o,
            None => {
                problems.push(format!("no run for backend {backend}"));
                continue;
            }
        };
        if !out.ok() {
            problems.push(format!("{backend}: {}", out.status()));
            continue;
        }
        let entry = cursor.entry(key.clone()).or_insert_with(|| {
            (
                find_file(&out.files, file).map(|s| norm_ws(s)).unwrap_or_default(),
                0,
            )
        });
        if entry.0.is_empty() {
            problems.push(format!("{key}: file not generated"));
            continue;
        }
        match entry.0[entry.1..].find(text.as_str()) {
            Some(pos) => entry.1 += pos + text.len(),
            None => {
                // show where the longest matching prefix diverges
                let hay = &entry.0[entry.1..];
                let mut best = 0;
                let mut best_at = 0;
                let probe: String = text.chars().take(24).collect();
                if let Some(p) = hay.find(probe.as_str()) {
                    let a = hay[p..].as_bytes();
                    let b = text.as_bytes();
                    let mut i = 0;
                    while i < a.len() && i < b.len() && a[i] == b[i] {
                        i += 1;
                    }
                    best = i;
                    best_at = p;
                }
                let lo = best.saturating_sub(30);
                let ctx_model: String = String::from_utf8_lossy(&text.as_bytes()[lo..(best + 60).min(text.len())]).into();
                let ctx_real: String = String::from_utf8_lossy(
                    &hay.as_bytes()[(best_at + lo).min(hay.len())..(best_at + best + 60).min(hay.len())],
                )
                .into();
                problems.push(format!(
                    "{key}: fragment not found (after offset {}): model `…{}…` vs real `…{}…`",
                    entry.1, ctx_model, ctx_real
                ));
            }
        }
    }
    problems
}
