//! A global allocator that can be switched into book-keeping mode for the duration of a probe: every block handed
//! out while tracking is remembered; releasing a block a second time is counted and *not* passed on to the system
//! allocator (so the probe survives to report it); blocks never released are counted as leaks at the end.
//! Outside a probe it forwards to the system allocator.  The tables are fixed-size statics: the allocator itself
//! must not allocate.
use std::alloc::{GlobalAlloc, Layout, System};
use std::sync::atomic::{AtomicBool, AtomicUsize, Ordering};

pub struct Tracking;

const N: usize = 4096;
static ON: AtomicBool = AtomicBool::new(false);
static LOCK: AtomicBool = AtomicBool::new(false);
static LIVE: [AtomicUsize; N] = [const { AtomicUsize::new(0) }; N];
static DEAD: [AtomicUsize; N] = [const { AtomicUsize::new(0) }; N];
static DOUBLE: AtomicUsize = AtomicUsize::new(0);
static OVERFLOW: AtomicUsize = AtomicUsize::new(0);

fn lock() { while LOCK.compare_exchange(false, true, Ordering::Acquire, Ordering::Relaxed).is_err() { std::hint::spin_loop(); } }
fn unlock() { LOCK.store(false, Ordering::Release); }
fn put(t: &[AtomicUsize; N], p: usize) -> bool {
    for s in t.iter() { if s.load(Ordering::Relaxed) == 0 { s.store(p, Ordering::Relaxed); return true; } }
    false
}
fn take(t: &[AtomicUsize; N], p: usize) -> bool {
    for s in t.iter() { if s.load(Ordering::Relaxed) == p { s.store(0, Ordering::Relaxed); return true; } }
    false
}

unsafe impl GlobalAlloc for Tracking {
    unsafe fn alloc(&self, l: Layout) -> *mut u8 {
        let p = System.alloc(l);
        if ON.load(Ordering::Relaxed) && !p.is_null() {
            lock();
            take(&DEAD, p as usize); // the system may hand the same address out again
            if !put(&LIVE, p as usize) { OVERFLOW.fetch_add(1, Ordering::Relaxed); }
            unlock();
        }
        p
    }
    unsafe fn dealloc(&self, p: *mut u8, l: Layout) {
        if ON.load(Ordering::Relaxed) {
            lock();
            let was_live = take(&LIVE, p as usize);
            let was_dead = !was_live && DEAD.iter().any(|s| s.load(Ordering::Relaxed) == p as usize);
            if was_live {
                // keep the block: a later release of the same address is then unambiguous
                if !put(&DEAD, p as usize) { OVERFLOW.fetch_add(1, Ordering::Relaxed); }
                unlock();
                return;
            }
            if was_dead { DOUBLE.fetch_add(1, Ordering::Relaxed); unlock(); return; }
            unlock();
        }
        System.dealloc(p, l)
    }
}

pub struct Outcome { pub double_frees: usize, pub leaked: usize, pub overflow: usize }

/// Runs `f` (on this thread; other threads should be quiet) with tracking on.
pub fn tracked(f: impl FnOnce()) -> Outcome {
    for s in LIVE.iter().chain(DEAD.iter()) { s.store(0, Ordering::Relaxed); }
    DOUBLE.store(0, Ordering::Relaxed);
    OVERFLOW.store(0, Ordering::Relaxed);
    ON.store(true, Ordering::SeqCst);
    f();
    ON.store(false, Ordering::SeqCst);
    let leaked = LIVE.iter().filter(|s| s.load(Ordering::Relaxed) != 0).count();
    // blocks parked in DEAD were withheld from the system allocator; they stay parked (a few hundred bytes per probe)
    Outcome { double_frees: DOUBLE.load(Ordering::Relaxed), leaked, overflow: OVERFLOW.load(Ordering::Relaxed) }
}
