//! C15 — after successful lowering no backend panics: accepted generated modules × 7 backends ×
//! config variants, in-process with catch_unwind; panic sites scanned from source are tied to a catalogue.
use crate::report::Report;
use crate::rng::Rng;
use crate::tool;
use crate::tygen::{Avoid, Def, Gen, Lt, Method, Module, Prim, Sd, SelfParam, Ty, TypeDecl};
use crate::util;
use serde_json::json;

pub const BACKENDS: [&str; 7] = ["c", "cpp", "js", "dart", "kotlin", "nanobind", "demo_gen"];

fn configs(target: &str) -> Vec<(String, diplomat_tool::config::Config)> {
    let base = || vec![("lib_name", toml::Value::String("somelib".into())), ("kotlin.domain", toml::Value::String("dev.diplomattest".into()))];
    let mut v = vec![("default".to_string(), tool::config_from(&base()))];
    match target {
        "js" | "demo_gen" => {
            let mut b = base();
            b.push(("js.abi", toml::Value::String("spec".into())));
            v.push(("js.abi=spec".into(), tool::config_from(&b)));
        }
        "kotlin" => {
            let mut b = base();
            b.push(("kotlin.use_finalizers_not_cleaners", toml::Value::Boolean(true)));
            v.push(("kotlin.finalizers".into(), tool::config_from(&b)));
        }
        _ => {}
    }
    if target == "demo_gen" {
        let mut b = base();
        b.push(("demo_gen.module_name", toml::Value::String("somelib".into())));
        v.push(("demo_gen.module_name".into(), tool::config_from(&b)));
    }
    v
}

fn panic_class(backend: &str, p: &str) -> Option<&'static str> {
    if backend == "kotlin" && p.starts_with("tool/src/kotlin/mod.rs:") && p.contains("Option::unwrap()") {
        Some("kotlin-callback-with-self")
    } else if (backend == "js" || backend == "demo_gen") && p.starts_with("tool/src/js/converter.rs:") && p.contains("Option::unwrap()") {
        Some("js-noncustom-result-error")
    } else if backend == "dart" && p.starts_with("tool/src/dart/formatter.rs:") && p.contains("custom handling") {
        Some("dart-byte-slice")
    } else {
        None
    }
}

pub fn main(args: &[String]) {
    let a = util::parse_args(args);
    let mut rep = Report::new("C15");
    let thorough = a.tier == "thorough";
    let mut rng = Rng::new(a.seed);
    let n = if a.n > 0 { a.n } else if thorough { 4200 } else { 280 };
    let mut mods: Vec<(String, bool, Module)> = vec![];
    let mut extra: Vec<Option<(String, String)>> = vec![None; 3];
    // hand-written witnesses of the recorded findings run first (they re-confirm them on every run)
    let opa = |methods: Vec<Method>| Module { types: vec![TypeDecl { name: "Opa".into(), def: Def::Opaque, methods }] };
    let this = || Some(SelfParam { ty: "Opa".into(), by_ref: true, mutable: false, lt: Lt::Anon });
    mods.push(("kotlin".into(), false, opa(vec![Method { name: "ma".into(), self_param: this(), params: vec![("f".into(), Ty::Fn(vec![Ty::Prim(Prim::U8)], Box::new(Ty::Unit)))], ret: None }])));
    mods.push(("js".into(), false, opa(vec![Method { name: "ma".into(), self_param: this(), params: vec![], ret: Some(Ty::Res(Box::new(Ty::Prim(Prim::U8)), Box::new(Ty::Prim(Prim::I8)), Sd::Std)) }])));
    mods.push(("dart".into(), false, opa(vec![Method { name: "ma".into(), self_param: this(), params: vec![("p".into(), Ty::PSlice(Some((Lt::Anon, false)), Prim::Byte, Sd::Std))], ret: None }])));
    // F9: a `'static` lifetime *argument* of a returned opaque / struct type (not gated by any support flag)
    for t in ["js", "dart"] {
        mods.push((t.into(), false, opa(vec![])));
        extra.push(Some(("static-lifetime-argument".into(), "    #[diplomat::opaque]\n    pub struct XtHolder<'x>(&'x u8);\n    #[diplomat::opaque]\n    pub struct XtSrc;\n    impl XtSrc {\n        pub fn hold<'a>(&'a self) -> Box<XtHolder<'static>> { unimplemented!() }\n    }\n".into())));
    }
    // an enum without variants passes lowering in every backend (F40: kotlin indexes its first variant)
    for t in BACKENDS {
        mods.push((t.to_string(), false, opa(vec![])));
        extra.push(Some(("empty-enum".into(), "    pub enum XtNever {}\n    impl XtNever {\n        pub fn describe(self) -> u8 { unimplemented!() }\n    }\n".into())));
    }
    // a type whose name JS cannot use, disabled for JS (and for the demo that sits on the JS bindings): nothing to name
    for t in BACKENDS {
        mods.push((t.to_string(), false, opa(vec![])));
        extra.push(Some(("reserved-name-disabled".into(), "    #[diplomat::attr(any(js, demo_gen), disable)]\n    #[diplomat::opaque]\n    pub struct NaN(u8);\n    impl NaN {\n        pub fn get(&self) -> u8 { unimplemented!() }\n    }\n    #[diplomat::attr(js, disable)]\n    pub enum Infinity { A, B }\n".into())));
    }
    // an indexer keyed by a string (C++ and Python index by anything; F46: kotlin insists on an integer by panicking)
    for t in BACKENDS {
        mods.push((t.to_string(), false, opa(vec![])));
        extra.push(Some(("string-indexer".into(), "    #[diplomat::opaque]\n    pub struct XtShelf(u8);\n    impl XtShelf {\n        #[diplomat::attr(auto, indexer)]\n        pub fn at<'a>(&'a self, key: &'a DiplomatStr) -> Option<u8> { unimplemented!() }\n    }\n".into())));
    }
    for i in 0..n {
        let target = BACKENDS[i % BACKENDS.len()];
        let unsafe_refs = i % 5 == 0;
        let prof = crate::c05::profile_of(target, unsafe_refs);
        // every second module stays away from the shapes of the recorded findings, to look behind them
        let avoid = if i % 2 == 1 {
            Avoid { noncustom_result_err: target == "js" || target == "demo_gen", byte_slices: target == "dart", callbacks_on_methods_with_self: target == "kotlin", ..Default::default() }
        } else {
            Avoid::default()
        };
        let m = Gen::valid_module_avoiding(&mut rng, prof, avoid);
        extra.push(if i % 3 != 0 { Some(crate::extras::extras_with(&mut rng, &m, prof.option, &[i / 5 + i])) } else { None });
        mods.push((target.to_string(), unsafe_refs, m));
    }
    let lines: Vec<String> = mods.iter().map(|(t, _, m)| format!("(c15 {t} {})", m.sexp_decls())).collect();
    let model = match crate::model::run_model("C15", &lines) {
        Ok(m) => m,
        Err(e) => {
            rep.disagree("*", "model-driver", "", &e);
            rep.print();
            return;
        }
    };
    for (k, (target, unsafe_refs, m)) in mods.iter().enumerate() {
        let plain = m.rust();
        let predicted: Vec<&str> = model[k].strip_prefix("may-panic: ").map(|s| s.split(',').collect()).unwrap_or_default();
        for (cname, mut cfg) in configs(target) {
            if *unsafe_refs {
                cfg.set("unsafe_references_in_callbacks", toml::Value::Boolean(true));
            }
            let mut case = lines[k].clone();
            let mut src = plain.clone();
            let mut o = None;
            if let Some((tag, items)) = &extra[k] {
                let with = crate::extras::splice(&plain, items);
                let r = tool::run_backend_cfg(&with, target, cfg.clone());
                if r.lowering_errors.is_empty() {
                    rep.count(&format!("extras:{tag}"));
                    case = format!("{} extras={tag}", lines[k]);
                    src = with;
                    o = Some(r);
                } else {
                    rep.count(&format!("extras-rejected:{target}:{tag}"));
                }
            }
            let case = &case;
            rep.case(&format!("{case} {cname}"));
            let o = match o { Some(o) => o, None => tool::run_backend_cfg(&src, target, cfg) };
            rep.oracle_runs += 1;
            rep.count(&format!("{target}:{}", if o.ok() { "ok".to_string() } else if o.panic.is_some() { "panic".into() } else if !o.lowering_errors.is_empty() { "lowering-error".into() } else { "backend-error".into() }));
            if let Some(p) = &o.panic {
                let class = panic_class(target, p);
                let is_predicted = class.map(|c| predicted.contains(&c)).unwrap_or(false);
                if !is_predicted {
                    rep.disagree(&format!("{case} {cname}"), "unpredicted-panic", &format!("panic {p}"), &model[k]);
                }
                rep.oracle_fail(
                    &format!("{case} {cname}"),
                    "backend panicked on an accepted module",
                    json!({"backend": target, "config": cname, "panic": p, "class": class, "predicted_by_catalogue": is_predicted, "source": src}),
                );
            }
            if !o.lowering_errors.is_empty() {
                rep.disagree(&format!("{case} {cname}"), "generator-profile-mismatch", &format!("{:?}", o.lowering_errors), "accepted");
            }
            // the same module and configuration through the real command line
            if rep.distribution.get("cli-tie").copied().unwrap_or(0) < (if thorough { 600 } else { 60 }) && (k % 2 == 0 || cname != "default") {
                rep.count("cli-tie");
                let mut flags = vec!["lib_name=somelib".to_string(), "kotlin.domain=dev.diplomattest".to_string()];
                if *unsafe_refs { flags.push("unsafe_references_in_callbacks=true".into()); }
                match cname.as_str() {
                    "js.abi=spec" => flags.push("js.abi=spec".into()),
                    "kotlin.finalizers" => flags.push("kotlin.use_finalizers_not_cleaners=true".into()),
                    "demo_gen.module_name" => flags.push("demo_gen.module_name=somelib".into()),
                    _ => {}
                }
                if let Some(d) = tool::cli_tie(&util::workdir("C15tie"), &src, target, None, &flags) {
                    rep.disagree(&format!("{case} {cname}"), "cli-vs-in-process", &d.to_string(), "same verdict and byte-identical files");
                }
            }
        }
        for c in &predicted {
            rep.count(&format!("predicted:{c}"));
        }
    }
    // the repository's own bridges through the real binary, every backend
    crate::repo_tests::all_backends_terminate(&mut rep);
    rep.print();
}
