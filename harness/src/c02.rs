//! C02 — C++ bindings preserve values and outcomes in both directions; a `&str` parameter that is not valid
//! UTF-8 is rejected on the C++ side and never reaches Rust.
//!
//! Oracle: the end-to-end run of `e2e.rs` with the C++ driver of `cppdrv.rs` (real macro → staticlib, real
//! `.hpp` files → g++ driver, C++17 and C++20).  Model tie: which parameters the generated wrapper validates
//! (`diplomat_is_str`) and the wrapper's return type, against the Lean model's guard list.
use crate::cppdrv;
use crate::e2e;
use crate::report::Report;
use crate::rng::Rng;
use crate::tool;
use crate::tygen::{Avoid, Gen};
use crate::util;
use serde_json::json;
use std::sync::Mutex;

fn run_cpp(dir: &std::path::Path, lib: &std::path::Path, std: &str) -> (bool, String, Vec<String>) {
    run_cpp_opts(dir, lib, std, false)
}

fn run_cpp_opts(dir: &std::path::Path, lib: &std::path::Path, std: &str, asan: bool) -> (bool, String, Vec<String>) {
    let exe = dir.join(format!("driver_{}", std.replace('+', "p")));
    let mut cmd = std::process::Command::new("g++");
    cmd.args([&format!("-std={std}"), "-w", "-I", ".", "driver.cpp"]).arg(lib).args(["-lpthread", "-ldl", "-lm", "-o"]).arg(&exe).current_dir(dir);
    if asan { cmd.args(["-fsanitize=address", "-fno-omit-frame-pointer", "-g"]); }
    let (ok, _o, e) = util::run(&mut cmd);
    if !ok {
        return (false, format!("compile ({std}): {}", e.lines().filter(|l| l.contains("error")).take(4).collect::<Vec<_>>().join(" | ")), vec![]);
    }
    match std::process::Command::new(&exe).env("ASAN_OPTIONS", "detect_leaks=0:detect_stack_use_after_return=1").current_dir(dir).output() {
        Err(e) => (false, format!("run: {e}"), vec![]),
        Ok(o) => {
            let t: Vec<String> = String::from_utf8_lossy(&o.stdout).lines().map(|l| l.to_string()).collect();
            let err = String::from_utf8_lossy(&o.stderr);
            (o.status.success(), if o.status.success() { String::new() } else { format!("run: {} {}", o.status, err.lines().take(3).collect::<Vec<_>>().join(" | ")) }, t)
        }
    }
}

/// the input behind the recorded finding F28, re-run on every run: a slice of strings passed through the C++ API
fn strs_probe(rep: &mut Report, seed: u64) {
    use crate::tygen::{Def, Enc, Lt, Method, Module, Sd, SelfParam, Ty, TypeDecl};
    let m = Module { types: vec![TypeDecl { name: "Opa".into(), def: Def::Opaque, methods: vec![Method {
        name: "ma".into(),
        self_param: Some(SelfParam { ty: "Opa".into(), by_ref: true, mutable: false, lt: Lt::Anon }),
        params: vec![("p0".into(), Ty::Strs(Enc::UUtf8, Sd::Std)), ("p1".into(), Ty::Prim(crate::tygen::Prim::U8))],
        ret: Some(Ty::Prim(crate::tygen::Prim::U16)),
    }] }] };
    let mut rng = Rng::new(seed ^ 0x5eed);
    let mut case = e2e::make_case(m, 0, &mut rng);
    case.prefix = "pr_".into();
    // non-empty strings in every call
    for sc in case.scripts.values_mut() {
        for s in sc.iter_mut() {
            s.args[0] = e2e::Val::List(vec![e2e::Val::List(vec![e2e::Val::Int(104), e2e::Val::Int(105)]), e2e::Val::List(vec![e2e::Val::Int(33)])]);
        }
    }
    let label = "(c02 probe slice-of-strings)";
    rep.oracle_runs += 1;
    let Ok(lib) = e2e::build_lib("C02p", &[&case]) else { rep.count("probe:strs:build-failed"); return };
    let dir = e2e::crate_dir("C02p").join("drv");
    let _ = std::fs::remove_dir_all(&dir);
    std::fs::create_dir_all(&dir).unwrap();
    let o = tool::run_backend(&case.rust(), "cpp");
    util::write_files(&dir, &o.files);
    let Ok((drv, exp)) = cppdrv::cpp_driver(&case) else { return };
    std::fs::write(dir.join("driver.cpp"), &drv).unwrap();
    let (ok, detail, t) = run_cpp(&dir, &lib, "c++17");
    let mut full = vec!["--".to_string(), "--".to_string()];
    full.extend(cppdrv::normalise_drops(&t));
    let problems = e2e::compare(&full, &e2e::Expected { lines: cppdrv::normalise_drops(&exp.lines) });
    if !ok || !problems.is_empty() {
        rep.count("probe:strs:broken");
        rep.oracle_fail(label, "a slice of strings passed through the C++ API does not arrive unchanged", json!({"class": "cpp-strs-reinterpret-cast", "run": detail, "problems": problems.iter().take(4).collect::<Vec<_>>(), "source": case.rust_bridge()}));
    } else {
        rep.count("probe:strs:ok");
    }
}

const SPECIAL_LIB: &str = r#"#[diplomat::bridge]
#[diplomat::abi_rename = "sp_{0}"]
mod ffi {
    use diplomat_runtime::DiplomatWrite;
    #[diplomat::opaque]
    pub struct Num { pub v: i32 }
    impl Num {
        #[diplomat::attr(auto, constructor)]
        pub fn new(v: i32) -> Box<Num> { Box::new(Num { v }) }
        #[diplomat::attr(auto, comparison)]
        pub fn cmp(&self, other: &Num) -> core::cmp::Ordering { self.v.cmp(&other.v) }
        #[diplomat::attr(auto, getter = "value")]
        pub fn value(&self) -> i32 { self.v }
        #[diplomat::attr(auto, setter = "value")]
        pub fn set_value(&mut self, v: i32) { self.v = v }
        #[diplomat::attr(auto, indexer)]
        pub fn at(&self, i: usize) -> Option<u8> { if i < 4 { Some((self.v as u32 >> (8 * i)) as u8) } else { None } }
        #[diplomat::attr(auto, stringifier)]
        pub fn to_string(&self, w: &mut DiplomatWrite) { use core::fmt::Write; let _ = write!(w, "num({})", self.v); }
    }
    #[diplomat::opaque]
    pub struct Counter { pub step: Option<Box<dyn Fn(i32) -> i32>>, pub v: i32 }
    impl Counter {
        pub fn new() -> Box<Counter> { Box::new(Counter { step: None, v: 1 }) }
        pub fn set_step(&mut self, f: impl Fn(i32) -> i32 + 'static) { self.step = Some(Box::new(f)); }
        pub fn clear_step(&mut self) { self.step = None; }
        pub fn advance(&mut self) -> i32 { if let Some(f) = &self.step { self.v = f(self.v); } self.v }
        // a callback next to a validated string: when the string is refused nothing may be left behind
        // a borrowed opaque in the error arm
        pub fn find<'a>(&'a self, ok: bool) -> Result<i32, &'a Counter> { if ok { Ok(self.v) } else { Err(self) } }
        pub fn visit(&self, f: impl Fn(i32) -> i32, label: &str) -> i32 { f(label.len() as i32) }
        pub fn visit_after(&self, label: &str, f: impl Fn(i32) -> i32) -> i32 { f(label.len() as i32) }
    }
    // discriminants neither ascending nor gap-free
    pub enum Level { Off = 0, High = 5, Low = 2 }
    impl Level {
        pub fn nth(k: u8) -> Level { match k { 0 => Level::Off, 1 => Level::High, _ => Level::Low } }
        pub fn code(self) -> i32 { self as i32 }
        pub fn maybe(k: u8) -> Option<Level> { if k < 3 { Some(Level::nth(k)) } else { None } }
    }
    pub enum Sign { Pos = 1, Neg = -3, Zero = 0 }
    impl Sign {
        pub fn nth(k: u8) -> Sign { match k { 0 => Sign::Pos, 1 => Sign::Neg, _ => Sign::Zero } }
        pub fn code(self) -> i32 { self as i32 }
    }
    pub struct Vec2 { pub x: i32, pub y: i32 }
    impl Vec2 {
        #[diplomat::attr(auto, add)]
        pub fn add(self, o: Vec2) -> Vec2 { Vec2 { x: self.x + o.x, y: self.y + o.y } }
        #[diplomat::attr(auto, sub)]
        pub fn sub(self, o: Vec2) -> Vec2 { Vec2 { x: self.x - o.x, y: self.y - o.y } }
        #[diplomat::attr(auto, mul)]
        pub fn mul(self, o: Vec2) -> Vec2 { Vec2 { x: self.x * o.x, y: self.y * o.y } }
        #[diplomat::attr(auto, div)]
        pub fn div(self, o: Vec2) -> Vec2 { Vec2 { x: self.x / o.x, y: self.y / o.y } }
    }
}
"#;

const SPECIAL_DRIVER: &str = r#"#include <cstdio>
#include <memory>
#include "Num.hpp"
#include "Vec2.hpp"
#include "Counter.hpp"
#include "Level.hpp"
#include "Sign.hpp"
int main() {
  // enum values in both directions, every variant
  for (int k = 0; k < 3; k++) { Level l = Level::nth(k); std::printf("level %d %d %d\n", k, (int)l.AsFFI(), l.code()); }
  for (int k = 0; k < 3; k++) { Sign l = Sign::nth(k); std::printf("sign %d %d %d\n", k, (int)l.AsFFI(), l.code()); }
  std::printf("level codes %d %d %d %d\n", Level(Level::Off).code(), Level(Level::High).code(), Level(Level::Low).code(), Sign(Sign::Neg).code());
  { auto m = Level::maybe(1); auto n = Level::maybe(9); std::printf("level maybe %d %d\n", m.has_value() ? m.value().code() : -99, n.has_value() ? 1 : 0); }
  // a callback that Rust stores and calls later: it must stay alive exactly as long as Rust holds it
  auto token = std::make_shared<int>(7);
  {
    auto c = Counter::new_();
    c->set_step([token](int32_t x) { return x + *token; });
    std::printf("token after set %ld\n", (long)token.use_count());
    int a1 = c->advance(); int a2 = c->advance();
    std::printf("advance %d %d\n", a1, a2);
    c->clear_step();
    std::printf("token after clear %ld\n", (long)token.use_count());
    c->set_step([token](int32_t x) { return x * 2; });
    std::printf("advance %d\n", c->advance());
  }
  std::printf("token after drop %ld\n", (long)token.use_count());
  {
    auto c = Counter::new_();
    std::string_view bad("a\xff" "b", 3);
    auto r1 = c->visit([token](int32_t x) { return x + *token; }, "four");
    auto r2 = c->visit([token](int32_t x) { return x + *token; }, bad);
    auto r3 = c->visit_after(bad, [token](int32_t x) { return x + *token; });
    auto r4 = c->visit_after("sixsix", [token](int32_t x) { return x + *token; });
    std::printf("visit %d %d %d %d\n", r1.is_ok() ? std::move(r1).ok().value() : -1, r2.is_ok() ? 1 : 0, r3.is_ok() ? 1 : 0, r4.is_ok() ? std::move(r4).ok().value() : -1);
    std::printf("token after refused strings %ld\n", (long)token.use_count());
    auto fe = c->find(false);
    auto fo = c->find(true);
    bool fe_err = fe.is_err(), fo_ok = fo.is_ok();
    auto fee = std::move(fe).err();
    auto foo = std::move(fo).ok();
    std::printf("find %d %d %d %d\n", (int)fe_err, (int)fo_ok, fee.has_value() ? (int)(&fee.value().get() == c.get()) : -1, foo.has_value() ? foo.value() : -1);
  }
  int vals[3] = {1, 2, 3};
  for (int a : vals) {
    auto x = Num::new_(a); auto y = Num::new_(2);
    std::printf("cmp %d 2: %d == %d != %d < %d <= %d > %d >= %d\n", a, (int)x->cmp(*y), *x == *y, *x != *y, *x < *y, *x <= *y, *x > *y, *x >= *y);
  }
  auto n = Num::new_(0x04030201);
  std::printf("value %d\n", n->value());
  n->set_value(0x0a0b0c0d);
  std::printf("value %d\n", n->value());
  for (size_t i = 0; i < 5; i++) { auto b = (*n)[i]; if (b.has_value()) std::printf("at %zu some(%u)\n", i, (unsigned)b.value()); else std::printf("at %zu none\n", i); }
  std::printf("str %s\n", n->to_string().c_str());
  Vec2 p{7, 12}, q{2, 3};
  Vec2 s = p + q, d = p - q, m = p * q, v = p / q;
  std::printf("arith %d,%d %d,%d %d,%d %d,%d\n", s.x, s.y, d.x, d.y, m.x, m.y, v.x, v.y);
  Vec2 acc{7, 12}; acc += q; std::printf("+= %d,%d\n", acc.x, acc.y); acc -= q; acc -= q; std::printf("-= %d,%d\n", acc.x, acc.y);
  acc *= q; std::printf("*= %d,%d\n", acc.x, acc.y); acc /= q; std::printf("/= %d,%d\n", acc.x, acc.y);
  return 0;
}
"#;

const SPECIAL_EXPECTED: &str = "level 0 0 0\nlevel 1 5 5\nlevel 2 2 2\nsign 0 1 1\nsign 1 -3 -3\nsign 2 0 0\nlevel codes 0 5 2 -3\nlevel maybe 5 0\ntoken after set 2\nadvance 8 15\ntoken after clear 1\nadvance 30\ntoken after drop 1\nvisit 11 0 0 13\ntoken after refused strings 1\nfind 1 1 1 1\ncmp 1 2: -1 == 0 != 1 < 1 <= 1 > 0 >= 0\ncmp 2 2: 0 == 1 != 0 < 0 <= 1 > 0 >= 1\ncmp 3 2: 1 == 0 != 1 < 0 <= 0 > 1 >= 1\nvalue 67305985\nvalue 168496141\nat 0 some(13)\nat 1 some(12)\nat 2 some(11)\nat 3 some(10)\nat 4 none\nstr num(168496141)\narith 9,15 5,9 14,36 3,4\n+= 9,15\n-= 5,9\n*= 10,27\n/= 5,9\n";

/// special methods of the C++ API (comparison operators, accessors, indexer, stringifier, arithmetic and compound
/// assignment): a fixed module with real bodies, called through the generated operators
pub fn special_methods_probe(rep: &mut Report) {
    let label = "(c02 probe special-methods)";
    rep.oracle_runs += 1;
    let d = e2e::crate_dir("C02s");
    std::fs::create_dir_all(d.join("src")).unwrap();
    let toml = "[package]\nname = \"ve2e\"\nversion = \"0.1.0\"\nedition = \"2021\"\n\n[workspace]\n\n[lib]\ncrate-type = [\"staticlib\"]\n\n[dependencies]\ndiplomat = { path = \"/repo/macro\" }\ndiplomat-runtime = { path = \"/repo/runtime\" }\n\n[profile.dev]\ndebug = false\n";
    std::fs::write(d.join("Cargo.toml"), toml).unwrap();
    let _ = std::fs::copy("/repo/Cargo.lock", d.join("Cargo.lock"));
    std::fs::write(d.join("src/lib.rs"), format!("#![allow(warnings)]\n{SPECIAL_LIB}")).unwrap();
    let (ok, _o, e) = util::run(std::process::Command::new("cargo").args(["build", "--offline", "--lib", "--message-format=short"]).env("CARGO_TARGET_DIR", d.join("target")).env_remove("RUSTFLAGS").env("CARGO_ENCODED_RUSTFLAGS", "").current_dir(&d));
    if !ok {
        rep.oracle_fail(label, "the special-methods module does not build with the real proc macro", json!({"diagnostics": e.lines().filter(|l| l.contains("error")).take(4).collect::<Vec<_>>()}));
        return;
    }
    let o = tool::run_backend(SPECIAL_LIB, "cpp");
    if !o.ok() {
        rep.oracle_fail(label, "the C++ backend rejects the special-methods module", json!({"status": o.status()}));
        return;
    }
    let dir = d.join("drv");
    let _ = std::fs::remove_dir_all(&dir);
    std::fs::create_dir_all(&dir).unwrap();
    util::write_files(&dir, &o.files);
    std::fs::write(dir.join("driver.cpp"), SPECIAL_DRIVER).unwrap();
    let (ok, detail, t) = run_cpp_opts(&dir, &d.join("target/debug/libve2e.a"), "c++17", true);
    let got = t.join("\n") + "\n";
    if !ok || got != SPECIAL_EXPECTED {
        let diffs: Vec<String> = SPECIAL_EXPECTED.lines().zip(got.lines()).filter(|(a, b)| a != b).map(|(a, b)| format!("expected `{a}`, got `{b}`")).take(6).collect();
        rep.count("probe:special:broken");
        rep.oracle_fail(label, "an operator / accessor of the generated C++ class does not give the result of the Rust method it wraps", json!({"run": detail, "differences": diffs, "source": SPECIAL_LIB}));
    } else {
        rep.count("probe:special:ok");
    }
}

pub fn main(args: &[String]) {
    let a = util::parse_args(args);
    let mut rep = Report::new("C02");
    let thorough = a.tier == "thorough";
    let mut rng = Rng::new(a.seed);
    let n = if a.n > 0 { a.n } else if thorough { 240 } else { 30 };
    let prof = crate::c05::profile_of("cpp", false);
    let mut cases = vec![];
    let mut labels = vec![];
    let mut tries = 0;
    while cases.len() < n && tries < n * 3 {
        tries += 1;
        let m = Gen::valid_module_avoiding(&mut rng, prof, Avoid { more_zst: true, opt_unit_write: true, owned_slices: true, strs_params: true, ..Default::default() });
        let mut m = m;
        // one method with several directly passed strings: each validated argument has to be checked on its own
        if let Some(t) = m.types.iter_mut().find(|t| matches!(t.def, crate::tygen::Def::Opaque)) {
            use crate::tygen::{Enc, Lt, Method, Sd, SelfParam, Ty};
            let owner = t.name.clone();
            t.methods.push(Method {
                name: "vutf".into(),
                self_param: Some(SelfParam { ty: owner, by_ref: true, mutable: false, lt: Lt::Anon }),
                params: vec![
                    ("a".into(), Ty::Str(Some(Lt::Anon), Enc::Utf8, Sd::Std)),
                    ("b".into(), Ty::Str(Some(Lt::Anon), Enc::UUtf8, Sd::Std)),
                    ("c".into(), Ty::Str(Some(Lt::Anon), Enc::Utf8, if cases.len() % 2 == 0 { Sd::Std } else { Sd::Dip })),
                    ("d".into(), Ty::Prim(crate::tygen::Prim::U8)),
                ],
                ret: Some(Ty::Prim(crate::tygen::Prim::U16)),
            });
        }
        let case = e2e::make_case(m, cases.len(), &mut rng);
        let o = tool::run_backend(&case.rust(), "cpp");
        if !o.ok() {
            rep.count(&format!("generated:{}", o.status().split(':').next().unwrap_or("?")));
            continue;
        }
        rep.count("generated:accepted");
        labels.push(format!("(c02 seed={} module={})", a.seed, cases.len()));
        cases.push(case);
    }
    for l in &labels { rep.case(l); }
    strs_probe(&mut rep, a.seed);
    special_methods_probe(&mut rep);
    // model tie: the guard list of every method
    let lines: Vec<String> = cases.iter().map(|c| c.sexp().replacen("(c01 ", "(c02 ", 1)).collect();
    match crate::model::run_model("C02", &lines) {
        Err(e) => rep.disagree("*", "model-driver", "", &e),
        Ok(model) => {
            for ((case, label), m) in cases.iter().zip(&labels).zip(&model) {
                let o = tool::run_backend(&case.rust(), "cpp");
                // model line: `Type.method=p0,p1;ret …` per method, space separated
                for item in m.split(' ').filter(|x| !x.is_empty()) {
                    let Some((key, val)) = item.split_once('=') else { continue };
                    let Some((ty, me)) = key.split_once('.') else { continue };
                    let (guards, wrapped) = val.split_once(';').unwrap_or((val, ""));
                    rep.count("guard-rows");
                    let Some(hpp) = o.files.get(&format!("{ty}.hpp")) else { rep.disagree(label, "cpp-file", &format!("{ty}.hpp missing"), ""); continue };
                    // the implementation of the method: from `Type::method(` to the next `\n}`
                    let needle = format!(" {ty}::{me}(");
                    let Some(at) = hpp.find(&needle) else { rep.disagree(label, "cpp-method", &format!("no implementation of {ty}::{me} in {ty}.hpp"), item); continue };
                    let end = hpp[at..].find("\n}").map(|e| at + e).unwrap_or(hpp.len());
                    let body = &hpp[at..end];
                    let mut real: Vec<String> = vec![];
                    let mut from = 0;
                    while let Some(i) = body[from..].find("diplomat_is_str(") {
                        let s = from + i + "diplomat_is_str(".len();
                        let name: String = body[s..].chars().take_while(|c| c.is_alphanumeric() || *c == '_').collect();
                        real.push(name);
                        from = s;
                    }
                    let real_guards = real.join(",");
                    // the declared return type: text before ` Type::method(` on that line
                    let line_start = hpp[..at].rfind('\n').map(|i| i + 1).unwrap_or(0);
                    let decl_ret = hpp[line_start..at].trim().trim_start_matches("inline ").to_string();
                    let real_wrapped = if decl_ret.ends_with(", diplomat::Utf8Error>") { "utf8-result" } else { "plain" };
                    if real_guards != guards || real_wrapped != wrapped {
                        rep.disagree(label, "utf8-guards", &format!("{ty}.{me}={real_guards};{real_wrapped}"), item);
                    }
                }
            }
        }
    }
    // model tie: the whole implementation of every method (types, argument expressions, return expression)
    let lines: Vec<String> = cases.iter().map(|c| c.sexp().replacen("(c01 ", "(c02cpp ", 1)).collect();
    match crate::model::run_model("C02", &lines) {
        Err(e) => rep.disagree("*", "model-driver", "", &e),
        Ok(model) => {
            for ((case, label), m) in cases.iter().zip(&labels).zip(&model) {
                if m == "bad-case" {
                    rep.disagree(label, "cpp-method-model", "", m);
                    continue;
                }
                let o = tool::run_backend(&case.rust(), "cpp");
                let mut norm: std::collections::BTreeMap<String, String> = Default::default();
                for frag in m.split(" ;; ").filter(|f| !f.is_empty()) {
                    let Some((file, text)) = frag.split_once(" => ") else { continue };
                    let file = file.trim_start_matches("cpp/");
                    rep.count("cpp-method-rows");
                    if !norm.contains_key(file) {
                        norm.insert(file.to_string(), o.files.get(file).map(|t| tool::norm_ws(t)).unwrap_or_default());
                    }
                    if !norm[file].contains(text) {
                        // what the backend printed for that method, for the report
                        let key = text.split('(').next().unwrap_or("").rsplit(' ').next().unwrap_or("").to_string();
                        let real = norm[file].find(&format!(" {key}(")).map(|at| {
                            let start = norm[file][..at].rfind("inline ").unwrap_or(at);
                            let end = norm[file][at..].find(" } inline ").map(|e| at + e + 2).unwrap_or((at + 600).min(norm[file].len()));
                            norm[file][start..end].to_string()
                        }).unwrap_or_else(|| "<method not found>".into());
                        rep.disagree(label, "cpp-method", &real, text);
                    }
                }
            }
        }
    }
    // end to end
    for chunk_start in (0..cases.len()).step_by(40) {
        let chunk = &cases[chunk_start..(chunk_start + 40).min(cases.len())];
        let mut bad = vec![];
        let refs: Vec<&e2e::Case> = chunk.iter().collect();
        let built = e2e::build_lib_bisect("C02", refs, &mut bad);
        for (c, e) in &bad {
            let k = chunk.iter().position(|x| std::ptr::eq(x, *c)).unwrap();
            rep.oracle_runs += 1;
            rep.oracle_fail(&labels[chunk_start + k], "the module does not build with the real proc macro (end-to-end crate)", json!({"diagnostics": e, "source": c.rust()}));
        }
        let Some((lib, good)) = built else { continue };
        let work = e2e::crate_dir("C02");
        let jobs: Vec<(usize, &e2e::Case)> = good.iter().map(|c| (chunk.iter().position(|x| std::ptr::eq(x, *c)).unwrap(), *c)).collect();
        let q = Mutex::new(jobs.into_iter().rev().collect::<Vec<_>>());
        let out: Mutex<Vec<(usize, Vec<String>, Vec<String>, String)>> = Mutex::new(vec![]);
        std::thread::scope(|s| {
            for _ in 0..12 {
                s.spawn(|| loop {
                    let job = { q.lock().unwrap().pop() };
                    let Some((k, case)) = job else { break };
                    let dir = work.join(format!("drv{k}"));
                    let _ = std::fs::remove_dir_all(&dir);
                    std::fs::create_dir_all(&dir).unwrap();
                    let o = tool::run_backend(&case.rust(), "cpp");
                    util::write_files(&dir, &o.files);
                    let mut problems = vec![];
                    let mut transcript = vec![];
                    let mut driver = String::new();
                    match cppdrv::cpp_driver(case) {
                        Err(e) => problems.push(e),
                        Ok((drv, exp)) => {
                            std::fs::write(dir.join("driver.cpp"), &drv).unwrap();
                            driver = drv;
                            let stds: &[&str] = if thorough { &["c++17", "c++20"] } else { &["c++17"] };
                            for std in stds {
                                let (ok, detail, t) = run_cpp(&dir, &lib, std);
                                if !ok { problems.push(detail); }
                                if !t.is_empty() || ok {
                                    let mut full = vec!["--".to_string(), "--".to_string()];
                                    full.extend(cppdrv::normalise_drops(&t));
                                    let e2 = e2e::Expected { lines: cppdrv::normalise_drops(&exp.lines) };
                                    problems.extend(e2e::compare(&full, &e2).into_iter().map(|p| format!("{std}: {p}")));
                                    transcript = t;
                                }
                            }
                        }
                    }
                    out.lock().unwrap().push((k, problems, transcript, driver));
                });
            }
        });
        for (k, problems, transcript, driver) in out.into_inner().unwrap() {
            rep.oracle_runs += 1;
            rep.count(if problems.is_empty() { "e2e-cpp:ok" } else { "e2e-cpp:problem" });
            rep.count_n("e2e-cpp:transcript-lines", transcript.len());
            if !problems.is_empty() {
                rep.oracle_fail(&labels[chunk_start + k], "calling through the generated C++ API does not give the result of the Rust method (or an invalid &str reached Rust)", json!({"problems": problems.iter().take(8).collect::<Vec<_>>(), "source": chunk[k].rust(), "driver": driver, "transcript": transcript.iter().take(60).collect::<Vec<_>>()}));
            }
        }
    }
    // the project's own C++ test programs against regenerated bindings and freshly built libraries
    crate::repo_tests::native_tests(&mut rep, true, false);
    rep.print();
}
