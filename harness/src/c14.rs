//! C14 — output is a deterministic, order-independent, local function of the bridge.
//!
//! (a) model tie: random file shapes (bridge / plain modules, type declarations, impl blocks, other items,
//!     impls before their type) — the real `ast::File::from` (module order, type order, method order, panic)
//!     vs the Lean environment model; and the HIR id order vs the model's sorted order;
//! (b) metamorphic oracle on every backend: the same bridge rendered twice (in process and in a fresh
//!     process), with its items interleaved differently, with an unrelated type added, with non-bridge code
//!     around it and with a second bridge module before / after it — compared byte-wise as C14 demands.
use crate::report::Report;
use crate::rng::Rng;
use crate::tool;
use crate::tygen::Gen;
use crate::util;
use quote::ToTokens;
use serde_json::json;
use std::collections::{BTreeMap, BTreeSet};

pub const BACKENDS: [&str; 7] = ["c", "cpp", "js", "dart", "kotlin", "nanobind", "demo_gen"];

/// files that list every type of the library by design (index / module-registration / library-loader files)
fn is_aggregate(backend: &str, file: &str) -> bool {
    let base = file.rsplit('/').next().unwrap_or(file);
    match backend {
        "js" => base == "index.mjs" || base == "index.d.ts",
        "dart" => base == "lib.g.dart",
        "kotlin" => base == "Lib.kt",
        "nanobind" => base.ends_with("_ext.cpp") || base == "somelib_ext.cpp",
        "demo_gen" => base == "index.mjs" || base == "index.d.ts",
        _ => false,
    }
}

// ---------------------------------------------------------------- (a) shapes

#[derive(Clone, Debug)]
enum SItem {
    Ty(String, u8),            // name, kind: 0 opaque, 1 enum
    Impl(String, Vec<String>), // self type, method names
    Other(u8),
}

#[derive(Clone, Debug)]
enum STop {
    Bridge(String, Vec<SItem>),
    Plain(String),
    Other(u8),
}

fn gen_shape(rng: &mut Rng) -> Vec<STop> {
    let mod_names = ["ffi", "alpha", "zeta", "beta", "Mid", "a_b", "a"];
    let ty_names = ["Aa", "Zz", "Mm", "B", "Ba", "Ab", "a_t", "Q1", "Q10", "Q2"];
    let n_tops = 1 + rng.below(5);
    let mut used_mods: Vec<&str> = vec![];
    let mut used_tys: Vec<&str> = vec![];
    let mut tops = vec![];
    let mut mcount = 0usize;
    for _ in 0..n_tops {
        match rng.below(8) {
            0 => tops.push(STop::Other(rng.below(4) as u8)),
            1 => {
                let cands: Vec<&str> = mod_names.iter().copied().filter(|m| !used_mods.contains(m)).collect();
                if let Some(&m) = cands.get(rng.below(cands.len().max(1))) {
                    used_mods.push(m);
                    tops.push(STop::Plain(m.to_string()));
                }
            }
            _ => {
                let cands: Vec<&str> = mod_names.iter().copied().filter(|m| !used_mods.contains(m)).collect();
                let Some(&m) = cands.get(rng.below(cands.len().max(1))) else { continue };
                used_mods.push(m);
                // declarations and impl blocks of 1-4 types, interleaved at random; type names are unique in
                // the file (rustc would accept the same name in two modules, diplomat's C ABI would clash)
                let nt = 1 + rng.below(4);
                let mut queues: Vec<Vec<SItem>> = vec![];
                for _ in 0..nt {
                    let cands: Vec<&str> = ty_names.iter().copied().filter(|t| !used_tys.contains(t)).collect();
                    let Some(&t) = cands.get(rng.below(cands.len().max(1))) else { break };
                    used_tys.push(t);
                    let mut q = vec![SItem::Ty(t.to_string(), rng.below(2) as u8)];
                    for _ in 0..rng.below(3) {
                        let nm = rng.below(3);
                        let ms = (0..nm).map(|_| { mcount += 1; format!("m{}", util::letters(mcount)) }).collect();
                        q.push(SItem::Impl(t.to_string(), ms));
                    }
                    // rarely: an impl block in front of its type (the real code panics)
                    if q.len() > 1 && rng.chance(1, 30) {
                        q.swap(0, 1);
                    }
                    queues.push(q);
                }
                let mut items = vec![];
                while queues.iter().any(|q| !q.is_empty()) {
                    if rng.chance(1, 8) {
                        items.push(SItem::Other(rng.below(3) as u8));
                        continue;
                    }
                    let live: Vec<usize> = (0..queues.len()).filter(|&i| !queues[i].is_empty()).collect();
                    let i = *rng.pick(&live);
                    items.push(queues[i].remove(0));
                }
                tops.push(STop::Bridge(m.to_string(), items));
            }
        }
    }
    tops
}

fn shape_sexp(tops: &[STop]) -> String {
    let mut s = String::from("(c14");
    for t in tops {
        match t {
            STop::Other(_) => s += " other",
            STop::Plain(n) => s += &format!(" (plain {n})"),
            STop::Bridge(n, items) => {
                s += &format!(" (bridge {n}");
                for i in items {
                    match i {
                        SItem::Ty(t, k) => s += &format!(" (ty {t} k{k})"),
                        SItem::Impl(t, ms) => s += &format!(" (impl {t}{})", ms.iter().map(|m| format!(" {m}")).collect::<String>()),
                        SItem::Other(_) => s += " other",
                    }
                }
                s += ")";
            }
        }
    }
    s + ")"
}

fn shape_rust(tops: &[STop]) -> String {
    let mut s = String::new();
    for (k, t) in tops.iter().enumerate() {
        match t {
            STop::Other(0) => s += &format!("pub struct Outside{k};\nimpl Outside{k} {{ pub fn f(&self) {{}} }}\n"),
            STop::Other(1) => s += "use core::fmt::Debug;\n",
            STop::Other(2) => s += &format!("pub fn helper{k}() -> u8 {{ 1 }}\n"),
            STop::Other(_) => s += &format!("pub const K{k}: u8 = 3;\n"),
            STop::Plain(n) => s += &format!("mod {n} {{\n    pub struct Hidden;\n    impl Hidden {{ pub fn new() -> Hidden {{ Hidden }} }}\n    pub enum AlsoHidden {{ A }}\n}}\n"),
            STop::Bridge(n, items) => {
                s += &format!("#[diplomat::bridge]\nmod {n} {{\n");
                for (j, i) in items.iter().enumerate() {
                    match i {
                        SItem::Ty(t, 0) => s += &format!("    #[diplomat::opaque]\n    pub struct {t};\n"),
                        SItem::Ty(t, _) => s += &format!("    pub enum {t} {{ A, B }}\n"),
                        SItem::Impl(t, ms) => {
                            s += &format!("    impl {t} {{\n");
                            for m in ms {
                                s += &format!("        pub fn {m}() {{}}\n");
                            }
                            s += "    }\n";
                        }
                        SItem::Other(0) => s += "    use core::fmt::Write;\n",
                        SItem::Other(1) => s += &format!("    const C{j}: u8 = 0;\n"),
                        SItem::Other(_) => s += &format!("    fn private{j}() {{}}\n"),
                    }
                }
                s += "}\n";
            }
        }
    }
    s
}

/// the real AST pipeline in the model's output format
fn real_env(src: &str) -> String {
    let file = match syn::parse_file(src) {
        Ok(f) => f,
        Err(e) => return format!("parse-error {e}"),
    };
    match tool::catch(|| {
        let f = diplomat_core::ast::File::from(&file);
        let mods: Vec<String> = f.modules.keys().cloned().collect();
        let mut types = vec![];
        for (mn, m) in &f.modules {
            for (tn, t) in &m.declared_types {
                let ms: Vec<String> = t.methods().iter().map(|m| m.name.to_string()).collect();
                types.push(format!("{mn}::{tn}[{}]", ms.join(",")));
            }
        }
        format!("mods={} types={}", mods.join(","), types.join(" "))
    }) {
        Ok(s) => s,
        Err(_) => "panic".into(),
    }
}

/// names in HIR id order, per kind
fn hir_order(src: &str) -> Option<(Vec<String>, Vec<String>)> {
    let file = syn::parse_file(src).ok()?;
    let v = crate::c13::validator("c");
    let r = tool::catch(|| diplomat_core::hir::TypeContext::from_syn(&file, Default::default(), v)).ok()?;
    let tcx = r.ok()?;
    let mut opaques = vec![];
    let mut enums = vec![];
    for (_, def) in tcx.all_types() {
        match def {
            diplomat_core::hir::TypeDef::Opaque(o) => opaques.push(o.name.to_string()),
            diplomat_core::hir::TypeDef::Enum(e) => enums.push(e.name.to_string()),
            _ => {}
        }
    }
    Some((opaques, enums))
}

// ---------------------------------------------------------------- (b) metamorphic runs

#[derive(Clone)]
struct BItem {
    about: Option<String>,
    text: String,
}

/// items of the single bridge module of `src`, re-rendered from tokens
fn bridge_items(src: &str) -> Option<Vec<BItem>> {
    let file = syn::parse_file(src).ok()?;
    for it in &file.items {
        if let syn::Item::Mod(m) = it {
            let items = &m.content.as_ref()?.1;
            return Some(
                items
                    .iter()
                    .map(|i| {
                        let about = match i {
                            syn::Item::Struct(s) => Some(s.ident.to_string()),
                            syn::Item::Enum(e) => Some(e.ident.to_string()),
                            syn::Item::Impl(im) => match im.self_ty.as_ref() {
                                syn::Type::Path(p) => p.path.segments.last().map(|s| s.ident.to_string()),
                                _ => None,
                            },
                            _ => None,
                        };
                        BItem { about, text: i.to_token_stream().to_string() }
                    })
                    .collect(),
            );
        }
    }
    None
}

fn render_bridge(name: &str, items: &[BItem]) -> String {
    format!("#[diplomat::bridge]\nmod {name} {{\n{}}}\n", items.iter().map(|i| format!("    {}\n", i.text)).collect::<String>())
}

/// a random interleaving that keeps, for every type, its declaration and impl blocks in their relative order
fn interleave(rng: &mut Rng, items: &[BItem]) -> Vec<BItem> {
    let mut queues: Vec<(Option<String>, Vec<BItem>)> = vec![];
    for i in items {
        match queues.iter_mut().find(|(k, _)| *k == i.about && k.is_some()) {
            Some((_, q)) => q.push(i.clone()),
            None => queues.push((i.about.clone(), vec![i.clone()])),
        }
    }
    let mut out = vec![];
    while queues.iter().any(|(_, q)| !q.is_empty()) {
        let live: Vec<usize> = (0..queues.len()).filter(|&i| !queues[i].1.is_empty()).collect();
        let i = *rng.pick(&live);
        out.push(queues[i].1.remove(0));
    }
    out
}

fn unrelated_type(shape: usize, name: &str) -> Vec<BItem> {
    let (decl, imp) = match shape % 7 {
        0 => (format!("#[diplomat::opaque] pub struct {name};"), format!("impl {name} {{ pub fn make() -> Box<{name}> {{ unimplemented!() }} pub fn val(&self) -> u8 {{ unimplemented!() }} }}")),
        1 => (format!("pub enum {name} {{ First, Second }}"), format!("impl {name} {{ pub fn of(v: u8) -> {name} {{ unimplemented!() }} }}")),
        2 => (format!("pub struct {name} {{ pub a: u8, pub b: f64 }}"), format!("impl {name} {{ pub fn make(a: u8) -> {name} {{ unimplemented!() }} }}")),
        // shapes that make a backend create per-file helper state: callbacks, slices, strings, results, write
        3 => (format!("#[diplomat::opaque] pub struct {name};"), format!("impl {name} {{ pub fn run(cb: impl Fn(u8) -> u8) -> u8 {{ unimplemented!() }} pub fn each(a: i32, f: impl Fn(i32, u16)) {{ unimplemented!() }} }}")),
        4 => (format!("#[diplomat::opaque] pub struct {name};"), format!("impl {name} {{ pub fn sum(&self, xs: &[f64], names: &DiplomatStr) -> Result<u8, ()> {{ unimplemented!() }} pub fn show(&self, w: &mut DiplomatWrite) {{ unimplemented!() }} }}")),
        5 => (format!("pub struct {name} {{ pub a: i64, pub flag: bool }}"), format!("impl {name} {{ pub fn call(self, cb: impl Fn(i64) -> bool) -> bool {{ unimplemented!() }} pub fn maybe(self) -> Option<u32> {{ unimplemented!() }} }}")),
        _ => (format!("pub enum {name} {{ First = 3, Second = 9 }}"), format!("impl {name} {{ pub fn apply(self, cb: impl Fn(u16)) {{ unimplemented!() }} pub fn text<'a>(self, s: &'a DiplomatStr16) -> &'a DiplomatStr16 {{ unimplemented!() }} }}")),
    };
    vec![BItem { about: Some(name.into()), text: decl }, BItem { about: Some(name.into()), text: imp }]
}

fn noise(rng: &mut Rng, type_names: &[String]) -> (String, String) {
    let same = type_names.first().cloned().unwrap_or("Opa".into());
    let before = [
        format!("pub struct {same};\nimpl {same} {{ pub fn shadow(&self) -> u8 {{ 0 }} }}\n"),
        "use std::collections::HashMap;\npub fn free_function(x: u8) -> u8 { x }\n".to_string(),
        format!("mod not_a_bridge {{\n    pub struct {same} {{ pub z: u64 }}\n    #[allow(dead_code)]\n    pub enum Other {{ A, B }}\n    impl Other {{ pub fn f(&self) {{}} }}\n}}\n"),
        "#[derive(Debug)]\npub enum TopLevelEnum { A, B }\npub const LIMIT: usize = 10;\n".to_string(),
        // modules of *other* tools whose attribute merely ends in `bridge`
        "#[cxx::bridge]\nmod cxxside {\n    pub struct CxxThing { pub a: u8 }\n    pub enum CxxMode { A, B }\n    impl CxxThing { pub fn get(&self) -> u8 { 0 } }\n}\n".to_string(),
        format!("#[notdiplomat::bridge]\nmod lookalike {{\n    pub struct {same} {{ pub z: u64 }}\n    pub enum LookalikeEnum {{ A }}\n}}\n#[uniffi::bridge(diplomat)]\nmod another {{ pub struct AnotherThing {{ pub q: i8 }} }}\n"),
    ];
    let after = [
        "#[cfg(test)]\nmod tests {\n    #[test]\n    fn t() { assert_eq!(1, 1); }\n}\n".to_string(),
        "pub trait Outside { fn f(&self); }\npub static S: u8 = 1;\n".to_string(),
        format!("pub type Alias = u8;\nimpl core::fmt::Debug for ffi::{same} {{ fn fmt(&self, _: &mut core::fmt::Formatter) -> core::fmt::Result {{ Ok(()) }} }}\n"),
        String::new(),
    ];
    (rng.pick(&before).clone(), rng.pick(&after).clone())
}

fn gen(src: &str, target: &str) -> Result<BTreeMap<String, String>, String> {
    let o = tool::run_backend(src, target);
    if let Some(p) = o.panic {
        return Err(format!("panic {p}"));
    }
    if let Some(p) = o.parse_error {
        return Err(format!("parse-error {p}"));
    }
    if !o.lowering_errors.is_empty() {
        return Err(format!("lowering {:?}", o.lowering_errors));
    }
    if !o.backend_errors.is_empty() {
        return Err(format!("backend-errors {:?}", o.backend_errors));
    }
    Ok(o.files)
}

fn diff_files(a: &BTreeMap<String, String>, b: &BTreeMap<String, String>, keep: impl Fn(&str) -> bool) -> Vec<String> {
    let mut d = vec![];
    let keys: BTreeSet<&String> = a.keys().chain(b.keys()).collect();
    for k in keys {
        if !keep(k) {
            continue;
        }
        match (a.get(k), b.get(k)) {
            (Some(x), Some(y)) if x == y => {}
            (Some(_), Some(_)) => d.push(format!("{k}: contents differ")),
            (Some(_), None) => d.push(format!("{k}: only in the first output")),
            (None, Some(_)) => d.push(format!("{k}: only in the second output")),
            (None, None) => {}
        }
    }
    d
}

fn first_diff_line(a: &str, b: &str) -> String {
    for (i, (x, y)) in a.lines().zip(b.lines()).enumerate() {
        if x != y {
            return format!("line {}: `{}` vs `{}`", i + 1, x.trim(), y.trim());
        }
    }
    format!("lengths {} vs {} lines", a.lines().count(), b.lines().count())
}

/// child mode: `vharness C14-child <target> <lib.rs>` prints a digest of every generated file
fn gen_cfg(src: &str, target: &str, pairs: &[String]) -> Result<BTreeMap<String, String>, String> {
    let mut cfg = tool::default_config();
    for p in pairs {
        if let Some((k, v)) = p.split_once('=') {
            cfg.set(k, toml::Value::String(v.to_string()));
        }
    }
    let o = tool::run_backend_cfg(src, target, cfg);
    if let Some(p) = o.panic {
        return Err(format!("panic {p}"));
    }
    if !o.lowering_errors.is_empty() {
        return Err(format!("lowering {:?}", o.lowering_errors));
    }
    Ok(o.files)
}

/// Documentation links are rendered through the docs-URL table given on the command line (`-u crate:url`), a
/// `HashMap`: repeated runs of the real binary (fresh processes, fresh hash seeds) must print the same URLs, also when
/// several entries are prefixes of the linked crate's name and none matches it exactly.
fn docs_url_probe(rep: &mut Report, thorough: bool) {
    let src = "#[diplomat::bridge]\nmod ffi {\n    /// A thing.\n    #[diplomat::rust_link(alpha_beta_gamma::Thing, Struct)]\n    #[diplomat::rust_link(alpha_beta::other::Item, Struct, compact)]\n    #[diplomat::opaque]\n    pub struct Thing;\n    impl Thing {\n        /// Makes one.\n        #[diplomat::rust_link(alpha_beta_gamma::Thing::new, FnInStruct)]\n        #[diplomat::rust_link(alpha_delta::Thing::other, FnInStruct, compact)]\n        pub fn make() -> Box<Thing> { unimplemented!() }\n        /// Reads it.\n        #[diplomat::rust_link(alpha::Thing::get, FnInStruct)]\n        pub fn get(&self) -> u8 { 0 }\n    }\n}\n";
    let extra: Vec<String> = ["-u", "alpha:https://a.example/docs", "-u", "alpha_beta:https://b.example/docs", "-u", "alpha_delta_x:https://c.example/docs", "-u", "*:https://fallback.example/docs"].iter().map(|s| s.to_string()).collect();
    let runs = if thorough { 24 } else { 8 };
    for target in ["cpp", "js", "dart"] {
        let mut first: Option<BTreeMap<String, String>> = None;
        for k in 0..runs {
            let o = tool::cli_gen_args(&util::workdir("C14docs"), src, target, None, &["lib_name=somelib".to_string()], &extra);
            rep.oracle_runs += 1;
            rep.count("probe:docs-url-runs");
            if !o.ran || o.code != Some(0) {
                rep.oracle_fail("(c14 probe docs-urls)", "the command line failed on the docs-URL probe", json!({"backend": target, "exit": o.code, "stderr": o.stderr.lines().take(4).collect::<Vec<_>>()}));
                break;
            }
            match &first {
                None => first = Some(o.files),
                Some(f) => {
                    if *f != o.files {
                        let diff: Vec<&String> = f.keys().filter(|k| f.get(*k) != o.files.get(*k)).collect();
                        let (a, b) = diff.first().map(|k| { let x = f.get(*k).cloned().unwrap_or_default(); let y = o.files.get(*k).cloned().unwrap_or_default(); x.lines().zip(y.lines()).find(|(p, q)| p != q).map(|(p, q)| (p.to_string(), q.to_string())).unwrap_or_default() }).unwrap_or_default();
                        rep.oracle_fail("(c14 probe docs-urls)", "two runs of the same backend on the same input differ", json!({"backend": target, "run": k, "differing_files": diff, "first_run_line": a, "this_run_line": b, "arguments": extra}));
                        break;
                    }
                }
            }
        }
    }
}

/// Locality with traits and callbacks in play (Kotlin and C generate code for traits): adding a type nothing refers
/// to — in the same bridge module, in one of its own, before or after the others — leaves every other file as it was.

/// Two bridge modules may declare types of the same name when namespaces / renames (and `abi_rename`) keep the
/// generated names apart.  Adding such a module — nothing refers to it, it refers to nothing — must leave every file
/// of the first module as it was: a reference by name must resolve to the type of its own module.
fn same_name_locality_probe(rep: &mut Report) {
    let inventory = "#[diplomat::bridge]\n#[diplomat::abi_rename = \"inventory_{0}\"]\n#[diplomat::attr(auto, namespace = \"inventory\")]\n#[diplomat::attr(not(supports = namespacing), rename = \"Inventory{0}\")]\npub mod inventory {\n    #[diplomat::opaque]\n    pub struct Item(pub u32);\n    impl Item {\n        pub fn create(weight: u32) -> Box<Item> { unimplemented!() }\n        pub fn weight(&self) -> u32 { unimplemented!() }\n    }\n    pub enum Kind { Small, Large }\n    pub struct Label { pub id: u32, pub kind: Kind }\n    #[diplomat::opaque]\n    pub struct Shelf(pub u32);\n    impl Shelf {\n        pub fn put(&mut self, item: &Item, label: Label) { unimplemented!() }\n        pub fn classify(&self, item: &Item) -> Kind { unimplemented!() }\n    }\n}\n";
    let shop = "#[diplomat::bridge]\n#[diplomat::abi_rename = \"shop_{0}\"]\n#[diplomat::attr(auto, namespace = \"shop\")]\n#[diplomat::attr(not(supports = namespacing), rename = \"Shop{0}\")]\npub mod shop {\n    #[diplomat::opaque]\n    pub struct Item(pub u64, pub u64);\n    impl Item {\n        pub fn price(&self) -> u64 { unimplemented!() }\n    }\n    pub enum Kind { Food, Tool, Toy }\n    pub struct Label { pub text_len: u64, pub kind: Kind, pub on_sale: bool }\n}\n";
    for target in ["cpp", "js", "dart"] {
        for (what, src) in [("after", format!("{inventory}{shop}")), ("before", format!("{shop}{inventory}"))] {
            let (a, b) = (tool::run_backend(inventory, target), tool::run_backend(&src, target));
            rep.oracle_runs += 1;
            rep.count("probe:same-name-locality");
            if !a.ok() || !b.ok() { rep.count(&format!("probe:same-name-locality:{target}:skipped")); continue; }
            for (name, text) in &a.files {
                if is_aggregate(target, name) { continue; }
                match b.files.get(name) {
                    Some(t) if t == text => {}
                    Some(t) => {
                        let (x, y) = text.lines().zip(t.lines()).find(|(p, q)| p != q).map(|(p, q)| (p.trim().to_string(), q.trim().to_string())).unwrap_or_default();
                        rep.oracle_fail(&format!("(c14 probe same-name-locality {target} {what})"), "adding an unrelated module that declares types of the same names changed a file of the first module", json!({"backend": target, "file": name, "before_line": x, "after_line": y}));
                    }
                    None => rep.oracle_fail(&format!("(c14 probe same-name-locality {target} {what})"), "adding an unrelated module removed a file of the first module", json!({"backend": target, "file": name})),
                }
            }
        }
    }
}

fn trait_locality_probe(rep: &mut Report) {
    // once with enums (generated after the other types: what they inherit) and once without (what the traits inherit)
    for with_enums in [false, true] {
    let enums = if with_enums { "    pub enum Level { Low, High }\n    impl Level {\n        pub fn bump(self) -> Level { Level::High }\n    }\n    pub enum Sparse { One = 1, Nine = 9 }\n" } else { "" };
    let base_items = &format!("{}{enums}", "    pub struct Sample { pub value: i32, pub weight: i32 }\n    pub trait Listener {\n        fn on_value(&self, v: i32) -> i32;\n        fn on_sample(&self, s: Sample) -> i32;\n        fn on_done(&self);\n    }\n    pub struct Dispatcher { pub count: i32 }\n    impl Dispatcher {\n        pub fn dispatch(l: impl Listener, v: i32) -> i32 { l.on_done(); l.on_value(v) }\n    }\n    #[diplomat::opaque]\n    pub struct Widget { held: Box<dyn Fn(i32) -> i32> }\n    impl Widget {\n        #[diplomat::attr(auto, constructor)]\n        pub fn new(transform: impl Fn(i32) -> i32 + 'static) -> Box<Self> { Box::new(Self { held: Box::new(transform) }) }\n        pub fn apply(&self, v: i32) -> i32 { (self.held)(v) }\n    }\n");
    let base = format!("#[diplomat::bridge]\nmod ffi {{\n{base_items}}}\n");
    let variants: [(&str, String); 6] = [
        ("opaque without callbacks in its own module after", format!("{base}#[diplomat::bridge]\nmod zz {{\n    #[diplomat::opaque]\n    pub struct Zone;\n    impl Zone {{ pub fn get(&self) -> u8 {{ 0 }} }}\n}}\n")),
        ("struct without callbacks in the same module", format!("#[diplomat::bridge]\nmod ffi {{\n{base_items}    pub struct Zpair {{ pub a: u8, pub b: u8 }}\n    impl Zpair {{ pub fn sum(self) -> u8 {{ 0 }} }}\n}}\n")),
        ("enum in its own module after", format!("{base}#[diplomat::bridge]\nmod zz {{\n    pub enum Zone {{ North, South }}\n}}\n")),
        ("enum in its own module before", format!("#[diplomat::bridge]\nmod aa {{\n    pub enum Area {{ Big, Small }}\n}}\n{base}")),
        ("enum in the same module", format!("#[diplomat::bridge]\nmod ffi {{\n{base_items}    pub enum Zone {{ North, South }}\n}}\n")),
        ("opaque with a callback method in its own module", format!("{base}#[diplomat::bridge]\nmod zz {{\n    #[diplomat::opaque]\n    pub struct Zed;\n    impl Zed {{ pub fn each(&self, f: impl Fn(u8) -> u8) -> u8 {{ f(1) }} }}\n}}\n")),
    ];
    for target in ["kotlin", "c"] {
        let o0 = tool::run_backend(&base, target);
        rep.oracle_runs += 1;
        if !o0.ok() {
            rep.count(&format!("probe:trait-locality:{target}:{}", o0.status().split(':').next().unwrap_or("?")));
            continue;
        }
        for (what, src) in &variants {
            let o1 = tool::run_backend(src, target);
            rep.oracle_runs += 1;
            rep.count("probe:trait-locality");
            if !o1.ok() { continue; }
            for (name, text) in &o0.files {
                // files that list all types (library interface, index) legitimately change
                let base_name = name.rsplit('/').next().unwrap_or(name);
                if matches!(base_name, "Lib.kt" | "diplomat_runtime.h") { continue; }
                match o1.files.get(name) {
                    Some(t1) if t1 == text => {}
                    Some(t1) => {
                        let (a, b) = text.lines().zip(t1.lines()).find(|(p, q)| p != q).map(|(p, q)| (p.to_string(), q.to_string())).unwrap_or_else(|| (format!("{} lines", text.lines().count()), format!("{} lines", t1.lines().count())));
                        rep.oracle_fail(&format!("(c14 probe trait-locality {target})"), "adding an unreferenced type changed another type's file", json!({"backend": target, "added": what, "file": name, "before_line": a, "after_line": b}));
                    }
                    None => rep.oracle_fail(&format!("(c14 probe trait-locality {target})"), "adding an unreferenced type removed another type's file", json!({"backend": target, "added": what, "file": name})),
                }
            }
        }
    }
}
}

pub fn child(args: &[String]) {
    let src = std::fs::read_to_string(&args[1]).expect("read");
    let r = if args.len() > 2 { gen_cfg(&src, &args[0], &args[2..]) } else { gen(&src, &args[0]) };
    match r {
        Ok(files) => {
            for (k, v) in files {
                println!("{k}\t{:016x}", fnv(&v));
            }
        }
        Err(e) => println!("error\t{e}"),
    }
}

fn fnv(s: &str) -> u64 {
    let mut h: u64 = 0xcbf29ce484222325;
    for b in s.bytes() {
        h ^= b as u64;
        h = h.wrapping_mul(0x100000001b3);
    }
    h
}

pub fn main(args: &[String]) {
    let a = util::parse_args(args);
    let mut rep = Report::new("C14");
    let thorough = a.tier == "thorough";
    let mut rng = Rng::new(a.seed);
    let work = util::workdir("C14");

    // ---- (a) shapes
    let n_shapes = if a.n > 0 { a.n } else if thorough { 6000 } else { 1200 };
    let shapes: Vec<Vec<STop>> = (0..n_shapes).map(|_| gen_shape(&mut rng)).collect();
    let lines: Vec<String> = shapes.iter().map(|s| shape_sexp(s)).collect();
    match crate::model::run_model("C14", &lines) {
        Err(e) => rep.disagree("*", "model-driver", "", &e),
        Ok(model) => {
            for (k, sh) in shapes.iter().enumerate() {
                rep.case(&lines[k]);
                let src = shape_rust(sh);
                let real = real_env(&src);
                rep.count(if real == "panic" { "shape:impl-before-type" } else { "shape:ok" });
                if real != model[k] {
                    rep.disagree(&lines[k], "environment", &real, &model[k]);
                    continue;
                }
                // HIR ids follow the same order (per kind)
                if real != "panic" {
                    if let Some((opaques, enums)) = hir_order(&src) {
                        rep.oracle_runs += 1;
                        let names: Vec<(String, String)> = model[k]
                            .split(" types=")
                            .nth(1)
                            .unwrap_or("")
                            .split(' ')
                            .filter(|s| !s.is_empty())
                            .map(|s| {
                                let path = s.split('[').next().unwrap();
                                let (m, t) = path.split_once("::").unwrap();
                                (m.to_string(), t.to_string())
                            })
                            .collect();
                        let kind_of = |t: &str| -> u8 {
                            for top in sh {
                                if let STop::Bridge(_, items) = top {
                                    for i in items {
                                        if let SItem::Ty(n, k) = i {
                                            if n == t {
                                                return *k;
                                            }
                                        }
                                    }
                                }
                            }
                            9
                        };
                        let exp_op: Vec<String> = names.iter().filter(|(_, t)| kind_of(t) == 0).map(|(_, t)| t.clone()).collect();
                        let exp_en: Vec<String> = names.iter().filter(|(_, t)| kind_of(t) == 1).map(|(_, t)| t.clone()).collect();
                        if exp_op != opaques || exp_en != enums {
                            rep.oracle_fail(&lines[k], "HIR ids are not assigned in the sorted environment order", json!({"expected_opaques": exp_op, "hir_opaques": opaques, "expected_enums": exp_en, "hir_enums": enums, "source": src}));
                        }
                    } else {
                        rep.count("shape:hir-rejected");
                    }
                }
            }
        }
    }

    // ---- (b) metamorphic runs
    let n_mods = if thorough { 420 } else { 42 };
    let exe = std::env::current_exe().unwrap();
    for i in 0..n_mods {
        let target = BACKENDS[i % BACKENDS.len()];
        let prof = crate::c05::profile_of(target, false);
        let m = Gen::valid_module(&mut rng, prof);
        let mut src0 = m.rust();
        let mut tag = String::from("plain");
        if i % 3 != 0 {
            let (t, items) = crate::extras::extras_with(&mut rng, &m, prof.option, &[i / BACKENDS.len() + i]);
            let with = crate::extras::splice(&src0, &items);
            if gen(&with, target).is_ok() {
                src0 = with;
                tag = t;
            }
        }
        let Some(mut items) = bridge_items(&src0) else { continue };
        // an attribute on one impl block (it must stay with that block's methods wherever the block ends up)
        if i % 2 == 1 {
            if let Some(it) = items.iter_mut().find(|it| it.text.trim_start().starts_with("impl")) {
                it.text = format!("#[diplomat::abi_rename = \"scoped_{{0}}\"] #[diplomat::attr(cpp, rename = \"scoped_{{0}}\")] {}", it.text);
            }
        }
        let type_names: Vec<String> = {
            let mut v: Vec<String> = items.iter().filter_map(|i| i.about.clone()).collect();
            v.sort();
            v.dedup();
            v
        };
        let base_src = render_bridge("ffi", &items);
        let case = format!("(c14-meta {target} seed={} module={i} extras={tag} items={})", a.seed, items.len());
        rep.case(&case);
        let base = match gen(&base_src, target) {
            Ok(f) => f,
            Err(e) => {
                // accepted as text but not after re-rendering from tokens: nothing to compare
                rep.count(&format!("meta:{target}:base-rejected"));
                if e.starts_with("panic") {
                    rep.count("meta:base-panic");
                }
                continue;
            }
        };
        rep.count(&format!("meta:{target}:modules"));
        rep.count_n(&format!("meta:{target}:files"), base.len());
        let mut fail = |rep: &mut Report, what: &str, variant_src: &str, detail: Vec<String>, other: Option<&BTreeMap<String, String>>| {
            let mut first = String::new();
            if let (Some(o), Some(d)) = (other, detail.first()) {
                let k = d.split(':').next().unwrap();
                if let (Some(x), Some(y)) = (base.get(k), o.get(k)) {
                    first = first_diff_line(x, y);
                }
            }
            rep.oracle_fail(&case, what, json!({"backend": target, "differences": detail, "first_difference": first, "base_source": base_src, "variant_source": variant_src}));
        };
        // T1 determinism, same process
        rep.oracle_runs += 1;
        match gen(&base_src, target) {
            Ok(again) => {
                let d = diff_files(&base, &again, |_| true);
                if !d.is_empty() {
                    fail(&mut rep, "two runs on the same input differ", &base_src, d, Some(&again));
                }
            }
            Err(e) => fail(&mut rep, "second run on the same input failed", &base_src, vec![e], None),
        }
        // T1' determinism, fresh processes (new hash seeds)
        if thorough || i % 2 == 0 {
            let p = work.join(format!("m{i}.rs"));
            std::fs::write(&p, &base_src).unwrap();
            let expect: String = base.iter().map(|(k, v)| format!("{k}\t{:016x}\n", fnv(v))).collect();
            for _ in 0..(if thorough { 3 } else { 2 }) {
                rep.oracle_runs += 1;
                let (ok, out, err) = util::run(std::process::Command::new(&exe).arg("C14-child").arg(target).arg(&p));
                let out: String = out.lines().filter(|l| l.contains('\t')).map(|l| format!("{l}\n")).collect();
                if !ok || out != expect {
                    let d: Vec<String> = out.lines().filter(|l| !expect.contains(*l)).map(|l| format!("{}: digest differs or file is new", l.split('\t').next().unwrap())).collect();
                    fail(&mut rep, "a fresh process produced different output for the same input", &base_src, if d.is_empty() { vec![format!("child failed: {err}")] } else { d }, None);
                }
            }
            rep.count("meta:fresh-process-runs");
        }
        // T1'' the same setting given under several spellings of the language scope: fresh processes must agree
        if thorough || i % 2 == 0 {
            let pairs: Vec<String> = match target {
                "nanobind" => vec!["lib_name=shared", "nanobind.lib_name=alpha", "py_nanobind.lib_name=beta", "py-nanobind.lib_name=gamma", "pynanobind.lib_name=delta"],
                "kotlin" => vec!["lib_name=shared", "kotlin.lib_name=alpha", "Kotlin.lib_name=beta", "kt.lib_name=gamma", "kotlin.domain=dev.a", "Kotlin.domain=dev.b"],
                "js" => vec!["lib_name=shared", "js.lib_name=alpha", "javascript.lib_name=beta", "ts.lib_name=gamma"],
                "demo_gen" => vec!["lib_name=shared", "demo_gen.lib_name=alpha", "demo-gen.lib_name=beta", "demogen.lib_name=gamma"],
                _ => vec!["lib_name=shared", "c.lib_name=alpha", "cpp.lib_name=beta", "dart.lib_name=gamma"],
            }.into_iter().map(String::from).collect();
            let p = work.join(format!("m{i}.rs"));
            std::fs::write(&p, &base_src).unwrap();
            let mut first: Option<String> = None;
            for _ in 0..(if thorough { 8 } else { 6 }) {
                rep.oracle_runs += 1;
                let (ok, out, err) = util::run(std::process::Command::new(&exe).arg("C14-child").arg(target).arg(&p).args(&pairs));
                let out: String = out.lines().filter(|l| l.contains('\t')).map(|l| format!("{l}\n")).collect();
                match &first {
                    None => first = Some(out),
                    Some(f) => {
                        if !ok || *f != out {
                            let d: Vec<String> = out.lines().filter(|l| !f.contains(*l)).map(|l| format!("{}: digest differs or file is new", l.split('\t').next().unwrap())).collect();
                            fail(&mut rep, "fresh processes disagree when one setting is given under several spellings of the language scope", &format!("// config: {}\n{base_src}", pairs.join(" ")), if d.is_empty() { vec![format!("child failed or file set differs: {err}")] } else { d }, None);
                            break;
                        }
                    }
                }
            }
            rep.count("meta:fresh-process-config-runs");
        }
        // T2 interleaving
        for _ in 0..2 {
            let perm = interleave(&mut rng, &items);
            let psrc = render_bridge("ffi", &perm);
            rep.oracle_runs += 1;
            match gen(&psrc, target) {
                Ok(f) => {
                    let d = diff_files(&base, &f, |_| true);
                    if !d.is_empty() {
                        fail(&mut rep, "reordering type declarations (impls kept after their type) changed the output", &psrc, d, Some(&f));
                    }
                }
                Err(e) => fail(&mut rep, "reordering type declarations made generation fail", &psrc, vec![e], None),
            }
        }
        // T3 unrelated type
        for (fresh, shape) in ["AaFresh", "MmFresh", "ZzFresh"].into_iter().flat_map(|f| (0..7).map(move |s| (f, s))) {
            let mut with = items.clone();
            let extra = unrelated_type(shape, fresh);
            let pos = rng.below(with.len() + 1);
            for (j, e) in extra.into_iter().enumerate() {
                with.insert(pos + j, e);
            }
            let usrc = render_bridge("ffi", &with);
            rep.oracle_runs += 1;
            match gen(&usrc, target) {
                Ok(f) => {
                    let keep = |k: &str| !is_aggregate(target, k) && !k.rsplit('/').next().unwrap().starts_with(fresh);
                    let d = diff_files(&base, &f, keep);
                    if !d.is_empty() {
                        fail(&mut rep, "adding a type nothing refers to changed another type's file", &usrc, d, Some(&f));
                    }
                    for k in f.keys().filter(|k| is_aggregate(target, k)) {
                        if base.get(k) != f.get(k) {
                            rep.count(&format!("meta:{target}:aggregate-changed:{}", k.rsplit('/').next().unwrap()));
                        }
                    }
                }
                Err(e) => {
                    // the fresh type itself may be unsupported by a backend profile; not a C14 matter
                    rep.count(&format!("meta:{target}:unrelated-rejected"));
                    let _ = e;
                }
            }
        }
        // T4 non-bridge code
        {
            let (before, after) = noise(&mut rng, &type_names);
            let nsrc = format!("{before}{base_src}{after}");
            rep.oracle_runs += 1;
            match gen(&nsrc, target) {
                Ok(f) => {
                    let d = diff_files(&base, &f, |_| true);
                    if !d.is_empty() {
                        fail(&mut rep, "code outside the bridge module changed the output", &nsrc, d, Some(&f));
                    }
                }
                Err(e) => fail(&mut rep, "code outside the bridge module made generation fail", &nsrc, vec![e], None),
            }
        }
        // T5 a second bridge module, before and after
        {
            let second = vec![
                BItem { about: Some("OtherModTy".into()), text: "#[diplomat::opaque] pub struct OtherModTy;".into() },
                BItem { about: Some("OtherModTy".into()), text: "impl OtherModTy { pub fn get(&self) -> u8 { unimplemented!() } }".into() },
                BItem { about: Some("OtherModEnum".into()), text: "pub enum OtherModEnum { A, B }".into() },
            ];
            let s1 = format!("{}{}", render_bridge("ffi", &items), render_bridge("second", &second));
            let s2 = format!("{}{}", render_bridge("second", &second), render_bridge("ffi", &items));
            rep.oracle_runs += 1;
            match (gen(&s1, target), gen(&s2, target)) {
                (Ok(f1), Ok(f2)) => {
                    let d = diff_files(&f1, &f2, |_| true);
                    if !d.is_empty() {
                        fail(&mut rep, "swapping two bridge modules changed the output", &s2, d, None);
                    }
                    let keep = |k: &str| !is_aggregate(target, k) && !k.rsplit('/').next().unwrap().starts_with("OtherMod");
                    let d = diff_files(&base, &f1, keep);
                    if !d.is_empty() {
                        fail(&mut rep, "adding an unrelated bridge module changed another type's file", &s1, d, Some(&f1));
                    }
                }
                (r1, r2) => {
                    let e: Vec<String> = [r1.err(), r2.err()].into_iter().flatten().collect();
                    fail(&mut rep, "adding a second bridge module made generation fail", &s1, e, None);
                }
            }
        }
    }
    docs_url_probe(&mut rep, thorough);
    trait_locality_probe(&mut rep);
    same_name_locality_probe(&mut rep);
    rep.print();
}
