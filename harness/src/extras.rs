//! Extra bridge items for the whole-backend runs (C15, C09, C14): shapes the shared generator does not
//! produce — special-method attributes, borrowed structs with optional slice fields, renames, namespaces,
//! docs, demo attributes, error types, struct references.  They use their own `Xt…` types plus the module's
//! first opaque / enum.  Lowering may reject a snippet for a backend; callers then fall back to the plain module.
use crate::rng::Rng;
use crate::tygen::{Def, Module};

pub const KINDS: usize = 19;

/// `(tag, items)`; `items` goes inside the bridge module
pub fn extras(rng: &mut Rng, m: &Module, option: bool) -> (String, String) {
    extras_with(rng, m, option, &[])
}

/// as `extras`, the first snippets being of the kinds `forced` (so that a run meets every kind on every backend)
pub fn extras_with(rng: &mut Rng, m: &Module, option: bool, forced: &[usize]) -> (String, String) {
    let opaque = m.types.iter().find(|t| matches!(t.def, Def::Opaque)).map(|t| t.name.clone()).unwrap_or("OpA".into());
    let enm = m.types.iter().find(|t| matches!(t.def, Def::Enum { .. })).map(|t| t.name.clone());
    let n = (1 + rng.below(3)).max(forced.len());
    let mut items: Vec<(&'static str, String)> = vec![];
    for j in 0..n {
        let r = rng.below(KINDS);
        let k = forced.get(j).map(|f| f % KINDS).unwrap_or(r);
        let (tag, chunk) = snippet(rng, k, &opaque, enm.as_deref(), option);
        if !items.iter().any(|(t, _)| *t == tag) {
            items.push((tag, chunk));
        }
    }
    (items.iter().map(|(t, _)| *t).collect::<Vec<_>>().join("+"), items.iter().map(|(_, c)| c.as_str()).collect())
}

/// exactly one snippet of kind `k`
pub fn extras_only(rng: &mut Rng, m: &Module, option: bool, k: usize) -> Option<(&'static str, String)> {
    let opaque = m.types.iter().find(|t| matches!(t.def, Def::Opaque)).map(|t| t.name.clone()).unwrap_or("OpA".into());
    let enm = m.types.iter().find(|t| matches!(t.def, Def::Enum { .. })).map(|t| t.name.clone());
    Some(snippet(rng, k % KINDS, &opaque, enm.as_deref(), option))
}

pub fn snippet(rng: &mut Rng, k: usize, opaque: &str, enm: Option<&str>, option: bool) -> (&'static str, String) {
    let prims = ["u8", "i8", "u16", "i16", "u32", "i32", "u64", "i64", "usize", "isize", "f32", "f64", "bool", "DiplomatChar"];
    let p = *rng.pick(&prims);
    // a value type usable both as getter result and setter argument
    let mut vals: Vec<String> = vec![p.to_string(), format!("&{opaque}"), format!("Option<&{opaque}>")];
    if let Some(e) = enm {
        vals.push(e.to_string());
    }
    if option {
        vals.push(format!("Option<{p}>"));
        vals.push(format!("DiplomatOption<{p}>"));
        if let Some(e) = enm {
            vals.push(format!("Option<{e}>"));
        }
    }
    match k {
        0 => {
            let v = rng.pick(&vals).clone();
            let (gv, lt) = if v.contains('&') { (v.replace('&', "&'a "), "<'a>") } else { (v.clone(), "") };
            let self_ = if lt.is_empty() { "&self" } else { "&'a self" };
            ("accessors", format!(
                "    #[diplomat::opaque]\n    pub struct XtAcc;\n    impl XtAcc {{\n        #[diplomat::attr(auto, getter = \"target\")]\n        pub fn target{lt}({self_}) -> {gv} {{ unimplemented!() }}\n        #[diplomat::attr(auto, setter = \"target\")]\n        pub fn set_target(&mut self, value: {v}) {{ unimplemented!() }}\n        #[diplomat::attr(auto, getter)]\n        pub fn plain(&self) -> {p} {{ unimplemented!() }}\n        #[diplomat::attr(auto, setter = \"fallible\")]\n        pub fn set_fallible(&mut self, value: {p}) -> Result<(), ()> {{ unimplemented!() }}\n    }}\n"))
        }
        1 => {
            let mut fields = vec![format!("pub id: {p}")];
            let cands = ["&'a DiplomatStr", "&'a DiplomatStr16", "DiplomatStrSlice<'a>", "DiplomatUtf8StrSlice<'a>", "DiplomatSlice<'a, u8>", "DiplomatSlice<'a, f64>", "DiplomatStr16Slice<'a>"];
            let nf = 1 + rng.below(3);
            for i in 0..nf {
                let c = *rng.pick(&cands);
                let t = if option && rng.chance(1, 2) { format!("DiplomatOption<{c}>") } else { c.to_string() };
                fields.push(format!("pub f{i}: {t}"));
            }
            if rng.chance(1, 3) {
                fields.push(format!("pub o: &'a {opaque}"));
            }
            if rng.chance(1, 3) {
                fields.push(format!("pub oo: Option<&'a {opaque}>"));
            }
            let by_val = rng.chance(1, 2);
            ("borrowed-struct", format!(
                "    pub struct XtLabel<'a> {{ {} }}\n    #[diplomat::opaque]\n    pub struct XtReg;\n    impl XtReg {{\n        pub fn lookup<'a>(&'a self, id: u32) -> XtLabel<'a> {{ unimplemented!() }}\n        pub fn maybe<'a>(&'a self) -> Option<XtLabel<'a>> {{ unimplemented!() }}\n        pub fn try_lookup<'a>(&'a self) -> Result<XtLabel<'a>, ()> {{ unimplemented!() }}\n        pub fn take<'a>(&'a self, l: XtLabel<'a>) -> {} {{ unimplemented!() }}\n    }}\n",
                fields.join(", "), if by_val { "XtLabel<'a>" } else { "u8" }))
        }
        2 => {
            let fallible = rng.chance(1, 2);
            let ret = if fallible { "Result<Box<XtCtor>, ()>" } else { "Box<XtCtor>" };
            let arg = rng.pick(&vals).clone();
            ("constructors", format!(
                "    #[diplomat::opaque]\n    pub struct XtCtor;\n    impl XtCtor {{\n        #[diplomat::attr(auto, constructor)]\n        pub fn new(v: {arg}) -> {ret} {{ unimplemented!() }}\n        #[diplomat::attr(auto, named_constructor = \"other\")]\n        pub fn other(a: {p}, s: &DiplomatStr) -> {ret} {{ unimplemented!() }}\n        #[diplomat::attr(auto, named_constructor)]\n        pub fn unnamed() -> Box<XtCtor> {{ unimplemented!() }}\n    }}\n    pub struct XtPod {{ pub a: {p}, pub b: u8 }}\n    impl XtPod {{\n        #[diplomat::attr(auto, constructor)]\n        pub fn new(a: {p}) -> XtPod {{ unimplemented!() }}\n    }}\n"))
        }
        3 => {
            let res = rng.chance(1, 2);
            ("stringifier-comparison", format!(
                "    #[diplomat::opaque]\n    pub struct XtCmp;\n    impl XtCmp {{\n        #[diplomat::attr(auto, stringifier)]\n        pub fn to_string(&self, w: &mut DiplomatWrite){} {{ unimplemented!() }}\n        #[diplomat::attr(auto, comparison)]\n        pub fn cmp(&self, other: &XtCmp) -> core::cmp::Ordering {{ unimplemented!() }}\n    }}\n    pub struct XtCmpS {{ pub a: {p} }}\n    impl XtCmpS {{\n        #[diplomat::attr(auto, comparison)]\n        pub fn cmp(self, other: XtCmpS) -> core::cmp::Ordering {{ unimplemented!() }}\n        #[diplomat::attr(auto, stringifier)]\n        pub fn show(self, w: &mut DiplomatWrite) {{ unimplemented!() }}\n    }}\n",
                if res { " -> Result<(), ()>" } else { "" }))
        }
        4 => {
            let item = match rng.below(5) {
                0 => format!("Option<{p}>"),
                1 => format!("Option<Box<{opaque}>>"),
                2 => format!("Option<&'a {opaque}>"),
                3 => "Option<XtItem>".to_string(),
                _ => match enm {
                    Some(e) => format!("Option<{e}>"),
                    None => "Option<u8>".into(),
                },
            };
            ("iterators", format!(
                "    pub struct XtItem {{ pub a: u8, pub b: {p} }}\n    #[diplomat::opaque]\n    pub struct XtIter<'a>(&'a u8);\n    impl<'a> XtIter<'a> {{\n        #[diplomat::attr(auto, iterator)]\n        pub fn next(&'a mut self) -> {item} {{ unimplemented!() }}\n    }}\n    #[diplomat::opaque]\n    pub struct XtColl;\n    impl XtColl {{\n        #[diplomat::attr(auto, iterable)]\n        pub fn iter<'a>(&'a self) -> Box<XtIter<'a>> {{ unimplemented!() }}\n        #[diplomat::attr(auto, indexer)]\n        pub fn get<'a>(&'a self, idx: usize) -> {item} {{ unimplemented!() }}\n    }}\n"))
        }
        5 => {
            let ops = ["add", "sub", "mul", "div"];
            let o = *rng.pick(&ops);
            let rhs = if rng.chance(1, 2) { "&XtNum".to_string() } else { p.to_string() };
            ("arithmetic", format!(
                "    #[diplomat::opaque]\n    pub struct XtNum;\n    impl XtNum {{\n        #[diplomat::attr(auto, {o})]\n        pub fn op(&self, o: {rhs}) -> Box<XtNum> {{ unimplemented!() }}\n        #[diplomat::attr(auto, {o}_assign)]\n        pub fn op_assign(&mut self, o: {rhs}) {{ unimplemented!() }}\n    }}\n    pub struct XtVec {{ pub x: {p}, pub y: {p} }}\n    impl XtVec {{\n        #[diplomat::attr(auto, {o})]\n        pub fn op(self, o: XtVec) -> XtVec {{ unimplemented!() }}\n    }}\n"))
        }
        6 => {
            let ns = *rng.pick(&["ns", "outer::inner", "a::b::c"]);
            ("namespace-rename", format!(
                "    #[diplomat::opaque]\n    #[diplomat::attr(auto, namespace = \"{ns}\")]\n    #[diplomat::attr(*, rename = \"Renamed{{0}}\")]\n    pub struct XtNs;\n    impl XtNs {{\n        #[diplomat::attr(*, rename = \"renamed_{{0}}\")]\n        pub fn make() -> Box<XtNs> {{ unimplemented!() }}\n        pub fn other<'a>(&'a self, o: &'a {opaque}) -> &'a {opaque} {{ unimplemented!() }}\n        pub fn pod(&self) -> XtNsPod {{ unimplemented!() }}\n    }}\n    #[diplomat::attr(auto, namespace = \"{ns}\")]\n    pub struct XtNsPod {{ pub v: {p}, pub e: XtNsEnum }}\n    #[diplomat::attr(auto, namespace = \"{ns}\")]\n    pub enum XtNsEnum {{ #[diplomat::attr(*, rename = \"Uno\")] One, Two = 5 }}\n    impl XtNsEnum {{ pub fn of(v: {p}) -> XtNsEnum {{ unimplemented!() }} }}\n"))
        }
        7 => ("disable", format!(
            "    #[diplomat::opaque]\n    pub struct XtDis;\n    impl XtDis {{\n        #[diplomat::attr(*, disable)]\n        pub fn hidden(&self, v: u128) {{ unimplemented!() }}\n        pub fn shown(&self) -> {p} {{ unimplemented!() }}\n    }}\n    #[diplomat::attr(*, disable)]\n    pub struct XtGone {{ pub a: u8 }}\n")),
        8 => ("docs", format!(
            "    /// Docs with `code`, a [`link`](https://example.com), <b>html</b> and */ a comment end.\n    ///\n    /// # Heading\n    ///\n    /// ```\n    /// let x = 1;\n    /// ```\n    #[diplomat::rust_link(core::option::Option, Enum)]\n    #[diplomat::rust_link(core::option::Option::is_some, FnInEnum, hidden)]\n    #[diplomat::opaque]\n    pub struct XtDoc;\n    impl XtDoc {{\n        /// Method docs: \"quotes\", \\backslash, $dollar, {{braces}}, @at.\n        #[diplomat::rust_link(core::option::Option::unwrap, FnInEnum, compact)]\n        pub fn documented(&self, v: {p}) -> {p} {{ unimplemented!() }}\n    }}\n    /// Enum docs\n    pub enum XtDocEnum {{\n        /// variant docs\n        A,\n        /** block */\n        B }}\n    /// Struct docs\n    pub struct XtDocSt {{\n        /// field docs\n        #[diplomat::rust_link(core::option::Option, Enum)]\n        pub a: {p},\n        #[diplomat::rust_link(core::option::Option::is_some, FnInEnum, compact)]\n        pub b: u8 }}\n    /// Out-struct docs\n    #[diplomat::out]\n    pub struct XtDocOut {{\n        /// field docs\n        #[diplomat::rust_link(core::option::Option::is_none, FnInEnum, hidden)]\n        pub a: {p},\n        #[diplomat::rust_link(core::option::Option, Enum, compact)]\n        pub c: u8 }}\n    impl XtDoc {{ pub fn out(&self) -> XtDocOut {{ unimplemented!() }} }}\n")),
        9 => ("demo-attrs", format!(
            "    #[diplomat::opaque]\n    #[diplomat::demo(custom_func = \"custom.mjs\")]\n    pub struct XtDemo;\n    impl XtDemo {{\n        #[diplomat::demo(default_constructor)]\n        pub fn make(#[diplomat::demo(input(label = \"Start value\"))] v: {p}) -> Box<XtDemo> {{ unimplemented!() }}\n        #[diplomat::demo(generate)]\n        pub fn show(&self, w: &mut DiplomatWrite) {{ unimplemented!() }}\n        pub fn with_other(&self, o: &{opaque}, s: &str, w: &mut DiplomatWrite) {{ unimplemented!() }}\n    }}\n    #[diplomat::opaque]\n    #[diplomat::demo(external)]\n    pub struct XtExt;\n    impl XtExt {{ pub fn use_it(&self, w: &mut DiplomatWrite) {{ unimplemented!() }} }}\n")),
        10 => ("error-types", format!(
            "    #[diplomat::attr(auto, error)]\n    pub enum XtErrE {{ Bad, Worse }}\n    #[diplomat::attr(auto, error)]\n    pub struct XtErrS {{ pub code: {p} }}\n    #[diplomat::opaque]\n    #[diplomat::attr(auto, error)]\n    pub struct XtErrO;\n    impl XtErrO {{\n        pub fn a(&self) -> Result<{p}, XtErrE> {{ unimplemented!() }}\n        pub fn b(&self) -> Result<(), XtErrS> {{ unimplemented!() }}\n        pub fn c(&self) -> Result<Box<XtErrO>, Box<XtErrO>> {{ unimplemented!() }}\n        pub fn d(&self, w: &mut DiplomatWrite) -> Result<(), XtErrE> {{ unimplemented!() }}\n    }}\n")),
        12 => {
            // two types whose C++ names coincide in different namespaces, and a header that needs both
            let (a, b) = *rng.pick(&[("geo", "screen"), ("a::b", "a::c"), ("outer", "outer::inner")]);
            ("same-name-namespaces", format!(
                "    #[diplomat::attr(auto, namespace = \"{a}\")]\n    #[diplomat::attr(cpp, rename = \"Point\")]\n    pub struct XtGeoPoint {{ pub x: {p} }}\n    #[diplomat::attr(auto, namespace = \"{b}\")]\n    #[diplomat::attr(cpp, rename = \"Point\")]\n    pub struct XtScreenPoint {{ pub x: {p}, pub y: u8 }}\n    #[diplomat::opaque]\n    #[diplomat::attr(auto, namespace = \"{a}\")]\n    #[diplomat::attr(cpp, rename = \"Handle\")]\n    pub struct XtGeoHandle;\n    #[diplomat::opaque]\n    #[diplomat::attr(auto, namespace = \"{b}\")]\n    #[diplomat::attr(cpp, rename = \"Handle\")]\n    pub struct XtScreenHandle;\n    #[diplomat::opaque]\n    pub struct XtProjector;\n    impl XtProjector {{\n        pub fn project(&self, p: XtGeoPoint) -> XtScreenPoint {{ unimplemented!() }}\n        pub fn handles<'a>(&'a self, g: &'a XtGeoHandle, s: &'a XtScreenHandle) -> &'a XtScreenHandle {{ unimplemented!() }}\n    }}\n"))
        }
        18 => ("nested-borrowing-structs",
            "    #[diplomat::opaque]\n    pub struct XtNode(pub u32);\n    pub struct XtPair<'p, 'q> { pub first: &'p XtNode, pub second: &'q XtNode }\n    pub struct XtWindow<'a> { pub pair: XtPair<'a, 'a>, pub tag: u8 }\n    pub struct XtCross<'a, 'b> { pub pair: XtPair<'b, 'a>, pub other: XtPair<'a, 'a> }\n    #[diplomat::opaque]\n    pub struct XtView<'a>(pub &'a XtNode);\n    impl<'a> XtView<'a> {\n        pub fn from_window(w: XtWindow<'a>) -> Box<XtView<'a>> { unimplemented!() }\n        pub fn from_cross<'b>(c: XtCross<'a, 'b>) -> Box<XtView<'a>> { unimplemented!() }\n    }\n".to_string()),
        17 => ("static-accessors", format!(
            "    #[diplomat::opaque]\n    pub struct XtStat;\n    impl XtStat {{\n        #[diplomat::attr(nanobind, getter = \"level\")]\n        pub fn level() -> u8 {{ unimplemented!() }}\n        #[diplomat::attr(nanobind, setter = \"level\")]\n        pub fn set_level(value: u8) {{ unimplemented!() }}\n        #[diplomat::attr(nanobind, setter = \"depth\")]\n        pub fn set_depth(value: {p}) {{ unimplemented!() }}\n        #[diplomat::attr(nanobind, getter = \"depth\")]\n        pub fn depth() -> {p} {{ unimplemented!() }}\n    }}\n    pub struct XtStatS {{ pub a: u8 }}\n    impl XtStatS {{\n        #[diplomat::attr(nanobind, getter = \"limit\")]\n        pub fn limit() -> {p} {{ unimplemented!() }}\n        #[diplomat::attr(nanobind, setter = \"limit\")]\n        pub fn set_limit(value: {p}) {{ unimplemented!() }}\n        #[diplomat::attr(nanobind, setter = \"span\")]\n        pub fn set_span(value: u8) {{ unimplemented!() }}\n        #[diplomat::attr(nanobind, getter = \"span\")]\n        pub fn span() -> u8 {{ unimplemented!() }}\n    }}\n")),
        16 => ("aggregate-layouts", format!(
            "    pub struct XtRgb3 {{ pub r: u32, pub g: u32, pub b: u32 }}\n    pub struct XtTri {{ pub a: u8, pub b: u8, pub c: u8 }}\n    pub struct XtWide {{ pub c: XtRgb3, pub big: u64 }}\n    pub struct XtMixed {{ pub n: u32, pub s: DiplomatOwnedSlice<u16>, pub f: f64 }}\n    pub struct XtPacked {{ pub t: XtTri, pub n: u32, pub o: DiplomatOption<u16>, pub big: i64, pub last: {p} }}\n    #[diplomat::opaque]\n    pub struct XtLay;\n    impl XtLay {{\n        pub fn wide(&self, w: XtWide) -> XtWide {{ unimplemented!() }}\n        pub fn mixed(&self, m: XtMixed) -> u8 {{ unimplemented!() }}\n        pub fn packed(&self, p: XtPacked) -> XtPacked {{ unimplemented!() }}\n    }}\n")),
        15 => {
            // every kind of documentation link, in every display mode
            let kinds = ["Struct", "StructField", "Enum", "EnumVariant", "EnumVariantField", "Trait", "FnInStruct", "FnInTypedef", "FnInEnum", "FnInTrait", "DefaultFnInTrait", "Fn", "Mod", "Constant", "AssociatedConstantInEnum", "AssociatedConstantInTrait", "AssociatedConstantInStruct", "Macro", "AssociatedTypeInEnum", "AssociatedTypeInTrait", "AssociatedTypeInStruct", "Typedef"];
            let mut methods = String::new();
            for (i, k) in kinds.iter().enumerate() {
                let display = ["", ", compact", ", hidden"][i % 3];
                methods += &format!("        /// Link number {i}.\n        #[diplomat::rust_link(alpha::beta::Gamma::delta, {k}{display})]\n        #[diplomat::rust_link(alpha::beta::Gamma::epsilon, {k})]\n        pub fn l{i}(&self) -> {p} {{ unimplemented!() }}\n");
            }
            ("rust-links", format!("    /// Linked type.\n    #[diplomat::rust_link(alpha::beta::Gamma, Struct)]\n    #[diplomat::opaque]\n    pub struct XtLinks;\n    impl XtLinks {{\n{methods}    }}\n"))
        }
        14 => ("enum-method-cycles", format!(
            "    pub enum XtChan {{ R, G }}\n    pub struct XtPixel {{ pub c: XtChan, pub v: {p} }}\n    impl XtChan {{\n        pub fn of(px: XtPixel) -> XtChan {{ unimplemented!() }}\n        pub fn to_pixel(self) -> XtPixel {{ unimplemented!() }}\n    }}\n    pub enum XtUnit {{ M, S }}\n    pub enum XtScale {{ K, G2 }}\n    impl XtUnit {{ pub fn scale(self) -> XtScale {{ unimplemented!() }} }}\n    impl XtScale {{ pub fn unit(self, u: XtUnit) -> XtUnit {{ unimplemented!() }} }}\n")),
        13 => ("case-colliding-names", format!(
            "    pub struct XtRgb {{ pub a: {p} }}\n    pub struct XTRGB {{ pub a: {p} }}\n    #[diplomat::opaque]\n    pub struct Index;\n    #[diplomat::opaque]\n    pub struct XtUsesCase;\n    impl XtUsesCase {{\n        pub fn mix(&self, a: XtRgb, b: XTRGB, i: &Index) -> XTRGB {{ unimplemented!() }}\n    }}\n")),
        _ => ("struct-values", format!(
            "    #[diplomat::opaque]\n    pub struct XtUser;\n    impl XtUser {{\n        pub fn both(&self, s: XtPlain, t: XtNest) -> XtNest {{ unimplemented!() }}\n        pub fn opt(&self, s: XtPlain) -> Option<XtNest> {{ unimplemented!() }}\n        pub fn res(&self) -> Result<XtPlain, XtNest> {{ unimplemented!() }}\n    }}\n    pub struct XtPlain {{ pub a: {p}, pub b: bool }}\n    pub struct XtNest {{ pub x: u8, pub inner: XtPlain, pub y: {p} }}\n    impl XtNest {{ pub fn make(inner: XtPlain) -> XtNest {{ unimplemented!() }} }}\n")),
    }
}

/// splice `items` before the closing brace of the (single) bridge module of `src`
pub fn splice(src: &str, items: &str) -> String {
    match src.rfind('}') {
        Some(i) => format!("{}{}{}", &src[..i], items, &src[i..]),
        None => src.to_string(),
    }
}
