//! C07 — Dart (dart:ffi) and Kotlin (JNA) native declarations match each function's and struct's C ABI.
//!
//! Oracle (independent of the Lean model): for one module the real C, Dart and Kotlin backends are run; every
//! native function declaration and every struct / union record of the Dart and Kotlin output is read back into
//! a wire description through the documented meaning of the dart:ffi / JNA type names, the C header is read
//! back through `<stdint.h>` names (after `gcc -E`), and the descriptions are compared position by position.
//! Model tie: the primitive tables are regenerated into Lean (BindingTables) and the kernel re-checks the
//! per-row theorems; the model's verdict per primitive is compared with what this comparator observes.
use crate::report::Report;
use crate::rng::Rng;
use crate::tool;
use crate::tygen::{Avoid, Gen, Module};
use crate::util;
use serde_json::json;
use std::collections::BTreeMap;

#[derive(Clone, Debug, PartialEq)]
pub enum A {
    Int(u8, bool),
    PSize(bool),
    Float(u8),
    Bool,
    Ptr,
    FnPtr,
    Enum,
    Struct(Vec<A>),
    Union(Vec<A>),
    Void,
    Unknown(String),
}

impl A {
    pub fn show(&self) -> String {
        match self {
            A::Int(b, s) => format!("{}{b}", if *s { "i" } else { "u" }),
            A::PSize(s) => if *s { "isize".into() } else { "usize".into() },
            A::Float(b) => format!("f{b}"),
            A::Bool => "bool".into(),
            A::Ptr => "ptr".into(),
            A::FnPtr => "fnptr".into(),
            A::Enum => "enum".into(),
            A::Struct(fs) => format!("{{{}}}", fs.iter().map(|f| f.show()).collect::<Vec<_>>().join(" ")),
            A::Union(fs) => format!("<{}>", fs.iter().map(|f| f.show()).collect::<Vec<_>>().join(" ")),
            A::Void => "void".into(),
            A::Unknown(s) => format!("?{s}"),
        }
    }
    /// equality up to what the platform cannot distinguish: a C enum is an `int`-sized integer of either sign;
    /// a C `bool` is an 8-bit integer holding 0 or 1
    pub fn same(&self, o: &A) -> bool {
        match (self, o) {
            // a C enum is a (signed) `int`: its enumerators have type int, and a negative discriminant read through an unsigned
            // declaration comes out as 2^32 + d
            (A::Enum, A::Int(32, true)) | (A::Int(32, true), A::Enum) | (A::Enum, A::Enum) => true,
            (A::Bool, A::Int(8, _)) | (A::Int(8, _), A::Bool) => true,
            (A::Struct(a), A::Struct(b)) | (A::Union(a), A::Union(b)) => a.len() == b.len() && a.iter().zip(b).all(|(x, y)| x.same(y)),
            (a, b) => a == b,
        }
    }
    /// an empty union occupies nothing (`{<> bool}` is `{bool}`); a union with one member is that member
    fn drop_empty_unions(self) -> A {
        match self {
            A::Struct(fs) => A::Struct(fs.into_iter().filter(|f| !matches!(f, A::Union(u) if u.is_empty())).map(|f| f.drop_empty_unions()).collect()),
            A::Union(mut fs) if fs.len() == 1 => fs.remove(0).drop_empty_unions(),
            A::Union(fs) => A::Union(fs.into_iter().map(|f| f.drop_empty_unions()).collect()),
            o => o,
        }
    }
}

// ---------------------------------------------------------------------------------------------------
// C

fn c_leaf(t: &str) -> Option<A> {
    Some(match t {
        "bool" | "_Bool" => A::Bool,
        "char" | "uint8_t" | "unsigned char" => A::Int(8, false),
        "int8_t" | "signed char" => A::Int(8, true),
        "uint16_t" | "char16_t" | "uint_least16_t" => A::Int(16, false),
        "int16_t" => A::Int(16, true),
        "uint32_t" | "char32_t" | "uint_least32_t" => A::Int(32, false),
        "int32_t" | "int" => A::Int(32, true),
        "uint64_t" => A::Int(64, false),
        "int64_t" => A::Int(64, true),
        "size_t" | "uintptr_t" => A::PSize(false),
        "intptr_t" | "ptrdiff_t" => A::PSize(true),
        "float" => A::Float(32),
        "double" => A::Float(64),
        "void" => A::Void,
        _ => return None,
    })
}

pub struct CDefs {
    /// struct name → member declarations (raw), in order; anonymous unions are `union {…}` members
    pub structs: BTreeMap<String, String>,
    pub enums: Vec<String>,
    pub text: String,
}

fn matching_brace(s: &str, open: usize) -> Option<usize> {
    let mut depth = 0;
    for (i, c) in s[open..].char_indices() {
        match c {
            '{' => depth += 1,
            '}' => {
                depth -= 1;
                if depth == 0 {
                    return Some(open + i);
                }
            }
            _ => {}
        }
    }
    None
}

pub fn parse_c(expanded: &str) -> CDefs {
    let text = tool::norm_ws(expanded);
    let mut structs = BTreeMap::new();
    let mut enums = vec![];
    let mut from = 0;
    while let Some(i) = text[from..].find("typedef struct ") {
        let s = from + i + "typedef struct ".len();
        let rest = &text[s..];
        let name: String = rest.chars().take_while(|c| c.is_alphanumeric() || *c == '_').collect();
        let after = s + name.len();
        if text[after..].trim_start().starts_with('{') {
            let open = after + text[after..].find('{').unwrap();
            if let Some(close) = matching_brace(&text, open) {
                structs.insert(name, text[open + 1..close].trim().to_string());
                from = close;
                continue;
            }
        }
        from = after;
    }
    let mut from = 0;
    while let Some(i) = text[from..].find("typedef enum ") {
        let s = from + i + "typedef enum ".len();
        let name: String = text[s..].chars().take_while(|c| c.is_alphanumeric() || *c == '_').collect();
        enums.push(name.clone());
        from = s + name.len();
    }
    CDefs { structs, enums, text }
}

/// members of a struct body: split on `;` outside braces
fn c_members(body: &str) -> Vec<String> {
    let mut out = vec![];
    let mut depth = 0;
    let mut cur = String::new();
    for c in body.chars() {
        match c {
            '{' => { depth += 1; cur.push(c) }
            '}' => { depth -= 1; cur.push(c) }
            ';' if depth == 0 => {
                if !cur.trim().is_empty() { out.push(cur.trim().to_string()); }
                cur.clear();
            }
            _ => cur.push(c),
        }
    }
    if !cur.trim().is_empty() { out.push(cur.trim().to_string()); }
    out
}

impl CDefs {
    pub fn ty(&self, t: &str, depth: usize) -> A {
        let t = t.trim().trim_start_matches("const ").trim_start_matches("struct ").trim();
        if depth > 12 { return A::Unknown(format!("too-deep:{t}")); }
        if t.ends_with('*') { return A::Ptr; }
        if let Some(l) = c_leaf(t) { return l; }
        if self.enums.iter().any(|e| e == t) { return A::Enum; }
        if let Some(body) = self.structs.get(t) { return self.record(body, depth + 1); }
        A::Unknown(t.to_string())
    }
    fn record(&self, body: &str, depth: usize) -> A {
        let mut fs = vec![];
        for m in c_members(body) {
            if m.starts_with("union") {
                let open = m.find('{').unwrap_or(0);
                let close = m.rfind('}').unwrap_or(m.len());
                let inner: Vec<A> = c_members(&m[open + 1..close]).iter().map(|x| self.member(x, depth)).collect();
                fs.push(A::Union(inner));
            } else {
                fs.push(self.member(&m, depth));
            }
        }
        A::Struct(fs)
    }
    fn member(&self, m: &str, depth: usize) -> A {
        if m.contains("(*") { return A::FnPtr; }
        // `TYPE name`
        let cut = m.rfind(|c: char| c == ' ' || c == '*').map(|i| i + 1).unwrap_or(0);
        self.ty(&m[..cut], depth)
    }
    /// (return, params) of a prototype
    pub fn proto(&self, abi: &str) -> Option<(A, Vec<A>)> {
        let key = format!(" {abi}(");
        let at = self.text.find(&key)?;
        let before = &self.text[..at];
        let start = before.rfind(|c| c == ';' || c == '}').map(|i| i + 1).unwrap_or(0);
        let ret = before[start..].trim();
        let rest = &self.text[at + key.len()..];
        let end = rest.find(')')?;
        let inner = rest[..end].trim();
        let params = if inner == "void" || inner.is_empty() {
            vec![]
        } else {
            inner.split(',').map(|p| {
                let p = p.trim();
                let cut = p.rfind(|c: char| c == ' ' || c == '*').map(|i| i + 1).unwrap_or(0);
                self.ty(&p[..cut], 0)
            }).collect()
        };
        Some((self.ty(ret, 0), params))
    }
}

// ---------------------------------------------------------------------------------------------------
// Dart

fn dart_leaf(t: &str) -> Option<A> {
    Some(match t {
        "ffi.Bool" => A::Bool,
        "ffi.Int8" => A::Int(8, true), "ffi.Uint8" => A::Int(8, false),
        "ffi.Int16" => A::Int(16, true), "ffi.Uint16" => A::Int(16, false),
        "ffi.Int32" => A::Int(32, true), "ffi.Uint32" => A::Int(32, false),
        "ffi.Int64" => A::Int(64, true), "ffi.Uint64" => A::Int(64, false),
        "ffi.IntPtr" => A::PSize(true), "ffi.Size" | "ffi.UintPtr" => A::PSize(false),
        "ffi.Float" => A::Float(32), "ffi.Double" => A::Float(64),
        "ffi.Void" => A::Void,
        _ => return None,
    })
}

pub struct DartDefs {
    /// class → (is_union, [(annotation or type)])
    pub classes: BTreeMap<String, (bool, Vec<String>)>,
    pub natives: BTreeMap<String, (String, Vec<String>)>,
}

fn split_top(s: &str) -> Vec<String> {
    let mut out = vec![];
    let mut depth = 0;
    let mut cur = String::new();
    for c in s.chars() {
        match c {
            '<' | '(' => { depth += 1; cur.push(c) }
            '>' | ')' => { depth -= 1; cur.push(c) }
            ',' if depth == 0 => { out.push(cur.trim().to_string()); cur.clear() }
            _ => cur.push(c),
        }
    }
    if !cur.trim().is_empty() { out.push(cur.trim().to_string()); }
    out
}

pub fn parse_dart(files: &BTreeMap<String, String>) -> DartDefs {
    let mut classes = BTreeMap::new();
    let mut natives = BTreeMap::new();
    for text in files.values() {
        let lines: Vec<&str> = text.lines().collect();
        let mut i = 0;
        while i < lines.len() {
            let l = lines[i].trim();
            if let Some(r) = l.strip_prefix("@ffi.Native<") {
                // RET Function(PARAMS)>(isLeaf: true, symbol: 'ABI')
                if let (Some(fpos), Some(spos)) = (r.find(" Function("), r.find("symbol: '")) {
                    let ret = r[..fpos].to_string();
                    let after = &r[fpos + " Function(".len()..];
                    // the parameter list ends at the `)>` that closes `Function(`
                    let mut depth = 1;
                    let mut end = 0;
                    for (k, c) in after.char_indices() {
                        match c { '(' => depth += 1, ')' => { depth -= 1; if depth == 0 { end = k; break; } } _ => {} }
                    }
                    let params = split_top(&after[..end]);
                    let sym: String = r[spos + "symbol: '".len()..].chars().take_while(|c| *c != '\'').collect();
                    natives.insert(sym, (ret, params));
                }
            }
            if l.starts_with("final class ") && (l.contains(" extends ffi.Struct") || l.contains(" extends ffi.Union")) {
                let name: String = l["final class ".len()..].chars().take_while(|c| c.is_alphanumeric() || *c == '_').collect();
                let is_union = l.contains("ffi.Union");
                let mut members = vec![];
                let mut depth = 0;
                let mut pending_anno: Option<String> = None;
                let mut j = i;
                loop {
                    let m = lines[j];
                    let t = m.trim();
                    if depth == 1 {
                        if t.starts_with("@ffi.") && t.ends_with("()") {
                            pending_anno = Some(t[1..t.len() - 2].to_string());
                        } else if t.starts_with("external ") && t.ends_with(';') && !t.contains('(') {
                            let decl = &t["external ".len()..t.len() - 1];
                            let cut = decl.rfind(' ').unwrap_or(0);
                            members.push(pending_anno.take().unwrap_or_else(|| decl[..cut].trim().to_string()));
                        } else if !t.is_empty() && !t.starts_with("//") {
                            pending_anno = None;
                        }
                    }
                    depth += m.matches('{').count() as i32;
                    depth -= m.matches('}').count() as i32;
                    j += 1;
                    if depth <= 0 || j >= lines.len() { break; }
                }
                classes.insert(name, (is_union, members));
                i = j;
                continue;
            }
            i += 1;
        }
    }
    DartDefs { classes, natives }
}

impl DartDefs {
    pub fn ty(&self, t: &str, depth: usize) -> A {
        let t = t.trim();
        if depth > 12 { return A::Unknown(format!("too-deep:{t}")); }
        if t.starts_with("ffi.Pointer<") { return A::Ptr; }
        if let Some(l) = dart_leaf(t) { return l; }
        if let Some((is_union, ms)) = self.classes.get(t) {
            let fs: Vec<A> = ms.iter().map(|m| self.ty(m, depth + 1)).collect();
            return if *is_union { A::Union(fs) } else { A::Struct(fs) };
        }
        A::Unknown(t.to_string())
    }
}

// ---------------------------------------------------------------------------------------------------
// Kotlin (JNA)

/// JNA's documented default type mapping (Java `boolean` is a native `int`) and the `IntegerType` helpers of Lib.kt
fn kt_leaf(t: &str) -> Option<A> {
    Some(match t {
        "Boolean" => A::Int(32, true),
        "Byte" => A::Int(8, true), "Short" => A::Int(16, true), "Int" => A::Int(32, true), "Long" => A::Int(64, true),
        "Float" => A::Float(32), "Double" => A::Float(64),
        "FFIUint8" => A::Int(8, false), "FFIUint16" => A::Int(16, false), "FFIUint32" => A::Int(32, false), "FFIUint64" => A::Int(64, false),
        "FFISizet" => A::PSize(false), "FFIIsizet" => A::PSize(true),
        "Pointer" => A::Ptr,
        "Unit" => A::Void,
        _ => return None,
    })
}

pub struct KtDefs {
    /// name -> (union?, fields, getFieldOrder, declared `Structure.ByValue`?)
    pub classes: BTreeMap<String, (bool, Vec<(String, String)>, Option<Vec<String>>, bool)>,
    pub funs: BTreeMap<String, (String, Vec<String>)>,
}

pub fn parse_kotlin(files: &BTreeMap<String, String>) -> KtDefs {
    let mut classes = BTreeMap::new();
    let mut funs = BTreeMap::new();
    for (name, text) in files {
        if !name.ends_with(".kt") { continue; }
        let lines: Vec<&str> = text.lines().collect();
        let mut in_lib = false;
        let mut i = 0;
        while i < lines.len() {
            let t = lines[i].trim();
            if t.contains("interface ") && t.contains(": Library") { in_lib = true; }
            if in_lib && t == "}" { in_lib = false; }
            if in_lib && t.starts_with("fun ") {
                if let (Some(o), Some(c)) = (t.find('('), t.rfind(')')) {
                    let fname = t[4..o].trim().to_string();
                    let params: Vec<String> = split_top(&t[o + 1..c]).iter().filter_map(|p| p.split_once(':').map(|(_, ty)| ty.trim().to_string())).collect();
                    let ret = t[c + 1..].trim().trim_start_matches(':').trim().to_string();
                    funs.insert(fname, (if ret.is_empty() { "Unit".into() } else { ret }, params));
                }
            }
            let is_struct = t.contains(": Structure()");
            let is_union = t.contains(": Union()");
            if (is_struct || is_union) && t.contains("class ") {
                let after = &t[t.find("class ").unwrap() + 6..];
                let cname: String = after.chars().take_while(|c| c.is_alphanumeric() || *c == '_' || *c == '?').collect();
                let mut fields = vec![];
                let mut order = None;
                let mut depth = 0;
                let mut j = i;
                loop {
                    let m = lines[j];
                    let mt = m.trim();
                    if depth == 1 {
                        if let Some(v) = mt.find("var ") {
                            let decl = &mt[v + 4..];
                            if let Some((n, rest)) = decl.split_once(':') {
                                let ty: String = rest.trim().chars().take_while(|c| c.is_alphanumeric() || *c == '_' || *c == '?').collect();
                                fields.push((n.trim().to_string(), ty));
                            }
                        }
                    }
                    if mt.starts_with("return listOf(") {
                        let inner = mt.trim_start_matches("return listOf(").trim_end_matches(')');
                        order = Some(inner.split(',').map(|x| x.trim().trim_matches('"').to_string()).filter(|x| !x.is_empty()).collect::<Vec<_>>());
                    }
                    depth += m.matches('{').count() as i32;
                    depth -= m.matches('}').count() as i32;
                    j += 1;
                    if depth <= 0 || j >= lines.len() { break; }
                }
                classes.insert(cname, (is_union, fields, order, t.contains("Structure.ByValue") || t.contains("Union.ByValue")));
                i = j;
                continue;
            }
            i += 1;
        }
    }
    KtDefs { classes, funs }
}

impl KtDefs {
    pub fn ty(&self, t: &str, depth: usize) -> A {
        let t = t.trim();
        let t = if self.classes.contains_key(t) { t } else { t.trim_end_matches('?') };
        if depth > 12 { return A::Unknown(format!("too-deep:{t}")); }
        if let Some(l) = kt_leaf(t) { return l; }
        if let Some((is_union, fields, order, by_value)) = self.classes.get(t) {
            // JNA passes and returns a `Structure` that is not marked `ByValue` as a pointer to it (members are inline)
            if depth == 0 && !*by_value { return A::Ptr; }
            let fs: Vec<A> = match order {
                Some(o) if !*is_union => o.iter().map(|n| fields.iter().find(|(f, _)| f == n).map(|(_, ty)| self.ty(ty, depth + 1)).unwrap_or(A::Unknown(format!("field:{n}")))).collect(),
                _ => fields.iter().map(|(_, ty)| self.ty(ty, depth + 1)).collect(),
            };
            return if *is_union { A::Union(fs) } else { A::Struct(fs) };
        }
        A::Unknown(t.to_string())
    }
}

// ---------------------------------------------------------------------------------------------------

fn preprocess_c(dir: &std::path::Path, files: &BTreeMap<String, String>) -> Result<String, String> {
    util::write_files(dir, files);
    let all: String = files.keys().filter(|k| k.ends_with(".h")).map(|h| format!("#include \"{h}\"\n")).collect();
    std::fs::write(dir.join("all.c"), all).unwrap();
    let (ok, out, err) = util::run(std::process::Command::new("gcc").args(["-std=c11", "-E", "-P", "-I", ".", "all.c"]).current_dir(dir));
    if ok { Ok(out) } else { Err(err.lines().take(3).collect::<Vec<_>>().join(" | ")) }
}

fn classify(a: &A) -> &'static str {
    match a { A::Bool => "bool", A::Int(..) => "int", A::PSize(_) => "psize", A::Float(_) => "float", A::Ptr => "ptr", A::Enum => "enum", A::Struct(_) => "struct", A::Union(_) => "union", A::Void => "void", A::FnPtr => "fnptr", A::Unknown(_) => "unknown" }
}

/// first differing leaf of two descriptions, for the finding key
fn first_diff(c: &A, o: &A) -> String {
    match (c, o) {
        (A::Struct(a), A::Struct(b)) | (A::Union(a), A::Union(b)) if a.len() == b.len() => {
            for (x, y) in a.iter().zip(b) {
                if !x.same(y) { return first_diff(x, y); }
            }
            String::new()
        }
        _ => format!("c={} binding={}", c.show(), o.show()),
    }
}

/// a Rust type with the definitions of the structs it mentions spelled out (for the finding key)
fn deep_rust(m: &Module, base: &str) -> String {
    let mut out = base.to_string();
    let mut done: Vec<String> = vec![];
    loop {
        let mut added = false;
        for t in &m.types {
            if let crate::tygen::Def::Struct { fields, .. } = &t.def {
                if !done.contains(&t.name) && out.contains(&t.name) {
                    out += &format!(" ; {} = {{{}}}", t.name, fields.iter().map(|(_, f)| f.rust()).collect::<Vec<_>>().join(", "));
                    done.push(t.name.clone());
                    added = true;
                }
            }
        }
        if !added { break; }
    }
    out
}

fn abi_names(m: &Module) -> Vec<(String, String)> {
    let mut v = vec![];
    for t in &m.types {
        for me in &t.methods { v.push((t.name.clone(), format!("{}_{}", t.name, me.name))); }
    }
    v
}

fn struct_names(m: &Module) -> Vec<String> {
    m.types.iter().filter(|t| matches!(&t.def, crate::tygen::Def::Struct { fields, .. } if !fields.is_empty())).map(|t| t.name.clone()).collect()
}


/// The comparison of this file for a hand-written bridge: every named function's native declaration in `backend`
/// (dart / kotlin) against the C prototype, position by position.  `Ok(list of (function, position, c, binding))`.
pub fn compare_functions(src: &str, backend: &str, abis: &[String]) -> Result<Vec<(String, String, String, String)>, String> {
    compare_items(src, backend, abis, &[])
}

/// … and the native mirrors of the named structs against the C structs
pub fn compare_items(src: &str, backend: &str, abis: &[String], structs: &[&str]) -> Result<Vec<(String, String, String, String)>, String> {
    let c_out = tool::run_backend(src, "c");
    let b_out = tool::run_backend(src, backend);
    if !c_out.ok() { return Err(format!("c: {}", c_out.status())); }
    if !b_out.ok() { return Err(format!("{backend}: {}", b_out.status())); }
    let dir = util::workdir("C07cmp");
    let c_text = preprocess_c(&dir, &c_out.files)?;
    let c = parse_c(&c_text);
    let (dart, kt) = if backend == "dart" { (Some(parse_dart(&b_out.files)), None) } else { (None, Some(parse_kotlin(&b_out.files))) };
    let mut out = vec![];
    for abi in abis {
        let Some((cr, cps)) = c.proto(abi) else { out.push((abi.clone(), "prototype".into(), "missing".into(), "".into())); continue };
        let nat = if let Some(d) = &dart {
            d.natives.get(abi.as_str()).map(|(r, ps)| (d.ty(r, 0), ps.iter().map(|p| d.ty(p, 0)).collect::<Vec<_>>()))
        } else {
            let k = kt.as_ref().unwrap();
            k.funs.get(abi.as_str()).map(|(r, ps)| (k.ty(r, 0), ps.iter().map(|p| k.ty(p, 0)).collect::<Vec<_>>()))
        };
        let Some((br, bps)) = nat else { out.push((abi.clone(), "native declaration".into(), "".into(), "missing".into())); continue };
        if cps.len() != bps.len() { out.push((abi.clone(), "parameter count".into(), cps.len().to_string(), bps.len().to_string())); continue; }
        for (k, (cp, bp)) in cps.iter().zip(&bps).enumerate() {
            if !cp.clone().drop_empty_unions().same(&bp.clone().drop_empty_unions()) { out.push((abi.clone(), format!("param {k}"), cp.show(), bp.show())); }
        }
        if !cr.clone().drop_empty_unions().same(&br.clone().drop_empty_unions()) { out.push((abi.clone(), "return".into(), cr.show(), br.show())); }
    }
    for st in structs {
        let ca = c.ty(st, 0);
        let ba = if let Some(d) = &dart { d.ty(&format!("_{st}Ffi"), 0) } else { kt.as_ref().unwrap().ty(&format!("{st}Native"), 1) };
        if !ca.clone().drop_empty_unions().same(&ba.clone().drop_empty_unions()) { out.push((st.to_string(), "struct".into(), ca.show(), ba.show())); }
    }
    let _ = std::fs::remove_dir_all(&dir);
    Ok(out)
}


/// Enums whose discriminants are not 0..n-1 in order take other code paths in both backends (value tables instead of
/// positions); on the wire they are still a C `int`.  The generated modules only have plain enums, so these are
/// written out: as receiver, parameter, result, inside options / results, and as a struct field.

/// Writing methods whose return is `Option<()>` / `Result<(), ()>` (left out of the generated modules because of the
/// recorded Kotlin `OptionUnit` finding F27, which concerns the *return* record): the parameter lists must still be
/// the C function's, write buffer included, on every kind of receiver.
fn write_option_probe(rep: &mut Report) {
    let src = "#[diplomat::bridge]\nmod ffi {\n    #[diplomat::opaque]\n    pub struct Label(u8);\n    pub struct Point { pub x: i32, pub y: i32 }\n    pub enum Level { Low, High }\n    impl Label {\n        pub fn text_if_short(&self, limit: u8, w: &mut DiplomatWrite) -> Option<()> { None }\n        pub fn text_checked(&self, w: &mut DiplomatWrite) -> Result<(), ()> { Err(()) }\n        pub fn text(&self, w: &mut DiplomatWrite) { }\n        pub fn maybe(&self) -> Option<()> { None }\n    }\n    impl Point {\n        pub fn show_if_positive(self, w: &mut DiplomatWrite) -> Option<()> { None }\n    }\n    impl Level {\n        pub fn name_if_high(self, w: &mut DiplomatWrite) -> Option<()> { None }\n    }\n}\n";
    let abis: Vec<String> = ["Label_text_if_short", "Label_text_checked", "Label_text", "Label_maybe", "Point_show_if_positive", "Level_name_if_high"].iter().map(|s| s.to_string()).collect();
    for backend in ["dart", "kotlin"] {
        rep.oracle_runs += 1;
        rep.count("probe:write-option");
        match compare_functions(src, backend, &abis) {
            Err(e) => rep.notes.push(format!("write-option probe ({backend}): {e}")),
            Ok(diffs) => {
                for (item, pos, c, b) in diffs {
                    if backend == "kotlin" && pos == "return" { continue; } // F27
                    rep.oracle_fail(&format!("(c07 probe write-option {backend} {item})"), "the native declaration of a writing method does not have the C function's parameters", json!({"backend": backend, "item": item, "position": pos, "c": c, "binding": b, "source": src}));
                }
            }
        }
    }
}


/// Results with a zero-sized struct on one side: the record is the other side's payload and the flag (the empty side
/// takes no room in the union, the payload keeps its place in front of `is_ok`).
fn zst_side_results_probe(rep: &mut Report) {
    let src = "#[diplomat::bridge]\nmod ffi {\n    #[diplomat::attr(auto, error)]\n    pub struct Empty;\n    pub struct Pair { pub a: i32, pub b: i16 }\n    #[diplomat::opaque]\n    pub struct Job(u8);\n    impl Job {\n        pub fn big_or_empty(&self) -> Result<i64, Empty> { unimplemented!() }\n        pub fn empty_or_small(&self) -> Result<Empty, u8> { unimplemented!() }\n        pub fn pair_or_empty(&self) -> Result<Pair, Empty> { unimplemented!() }\n        pub fn unit_or_empty(&self) -> Result<(), Empty> { unimplemented!() }\n    }\n}\n";
    let abis: Vec<String> = ["Job_big_or_empty", "Job_empty_or_small", "Job_pair_or_empty", "Job_unit_or_empty"].iter().map(|s| s.to_string()).collect();
    for backend in ["dart", "kotlin"] {
        rep.oracle_runs += 1;
        rep.count("probe:zst-side-results");
        match compare_functions(src, backend, &abis) {
            Err(e) => rep.notes.push(format!("zst-side-results probe ({backend}): {e}")),
            Ok(diffs) => {
                for (item, pos, c, b) in diffs {
                    // the payload-free records are the recorded Kotlin finding F27 (`OptionUnit` field order)
                    if backend == "kotlin" && (item == "Job_unit_or_empty" || item == "Job_maybe_empty") { continue; }
                    rep.oracle_fail(&format!("(c07 probe zst-side-results {backend} {item})"), "the result record of a method with a zero-sized struct on one side is not the C function's", json!({"backend": backend, "item": item, "position": pos, "c": c, "binding": b, "source": src}));
                }
            }
        }
    }
}

fn sparse_enum_probe(rep: &mut Report) {
    let src = "#[diplomat::bridge]\nmod ffi {\n    pub enum Status { Unknown = -1, Idle = 0, Busy = 7 }\n    pub enum Flags { Low = 1, Top = 1073741824 }\n    pub enum Level { A, B, C }\n    pub struct Report { pub status: Status, pub level: Level, pub code: u8, pub flags: Flags }\n    #[diplomat::opaque]\n    pub struct Job(u8);\n    impl Job {\n        pub fn status(&self) -> Status { Status::Idle }\n        pub fn set_status(&mut self, s: Status, f: Flags, l: Level) {}\n        pub fn known_status(&self) -> Option<Status> { None }\n        pub fn check(&self) -> Result<Level, Status> { Ok(Level::A) }\n        pub fn flags(&self) -> Result<Flags, ()> { Err(()) }\n        pub fn report(&self) -> Report { unimplemented!() }\n        pub fn take(&self, r: Report) -> u8 { 0 }\n    }\n    impl Status {\n        pub fn is_known(self) -> bool { true }\n        pub fn next(self) -> Status { self }\n    }\n}\n";
    let abis: Vec<String> = ["Job_status", "Job_set_status", "Job_known_status", "Job_check", "Job_flags", "Job_report", "Job_take", "Status_is_known", "Status_next"].iter().map(|s| s.to_string()).collect();
    for backend in ["dart", "kotlin"] {
        rep.oracle_runs += 1;
        rep.count("probe:sparse-enums");
        // Kotlin wants error types marked as such; the result with an enum error stays a Dart-only case
        let src = if backend == "kotlin" { src.replace("        pub fn check(&self) -> Result<Level, Status> { Ok(Level::A) }\n", "") } else { src.to_string() };
        let abis: Vec<String> = abis.iter().filter(|a| backend != "kotlin" || *a != "Job_check").cloned().collect();
        match compare_items(&src, backend, &abis, &["Report"]) {
            Err(e) => rep.notes.push(format!("sparse-enum probe ({backend}): {e}")),
            Ok(diffs) => {
                for (item, pos, c, b) in diffs {
                    // Kotlin's bool is the recorded finding F26; it is not what this probe is about
                    if backend == "kotlin" && c == "bool" { continue; }
                    rep.oracle_fail(&format!("(c07 probe sparse-enums {backend} {item})"), "a native declaration involving an enum with explicit discriminants does not match the C declaration", json!({"backend": backend, "item": item, "position": pos, "c": c, "binding": b, "source": src}));
                }
            }
        }
    }
}

pub fn main(args: &[String]) {
    let a = util::parse_args(args);
    let mut rep = Report::new("C07");
    let thorough = a.tier == "thorough";
    let mut rng = Rng::new(a.seed);
    let n = if a.n > 0 { a.n } else if thorough { 600 } else { 80 };
    let work = util::workdir("C07");
    // model verdicts per primitive row (kernel-checked theorems are about exactly these rows)
    let prim_lines: Vec<String> = crate::tygen::PRIMS_NO128.iter().flat_map(|p| ["dart", "kotlin"].map(|b| format!("(c07prim {b} {})", p.sexp()))).collect();
    let model_prims: BTreeMap<String, String> = match crate::model::run_model("C07", &prim_lines) {
        Ok(m) => prim_lines.iter().cloned().zip(m).collect(),
        Err(e) => { rep.disagree("*", "model-driver", "", &e); BTreeMap::new() }
    };
    let mut observed_prim_mismatch: BTreeMap<String, usize> = BTreeMap::new();
    for i in 0..n {
        let backend = if i % 2 == 0 { "dart" } else { "kotlin" };
        let mut prof = crate::c05::profile_of(backend, false);
        prof.callbacks = false;
        let avoid = Avoid { noncustom_result_err: false, byte_slices: backend == "dart", callbacks_on_methods_with_self: true, more_zst: true, opt_unit_write: true, ..Default::default() };
        let m = Gen::valid_module_avoiding(&mut rng, prof, avoid);
        let src = m.rust();
        let case = format!("(c07 {backend} seed={} module={i})", a.seed);
        let c_out = tool::run_backend(&src, "c");
        let b_out = tool::run_backend(&src, backend);
        if !c_out.ok() || !b_out.ok() {
            rep.count(&format!("{backend}:skipped:{}", if !c_out.ok() { c_out.status() } else { b_out.status() }.split(':').next().unwrap_or("?")));
            continue;
        }
        rep.case(&case);
        rep.count(&format!("{backend}:modules"));
        let dir = work.join(format!("m{i}"));
        let c_text = match preprocess_c(&dir, &c_out.files) {
            Ok(t) => t,
            Err(e) => { rep.oracle_fail(&case, "the C header does not preprocess", json!({"diagnostics": e, "source": src})); continue; }
        };
        let c = parse_c(&c_text);
        let (dart, kt) = if backend == "dart" { (Some(parse_dart(&b_out.files)), None) } else { (None, Some(parse_kotlin(&b_out.files))) };
        let native = |sym: &str| -> Option<(A, Vec<A>)> {
            if let Some(d) = &dart {
                d.natives.get(sym).map(|(r, ps)| (d.ty(r, 0), ps.iter().map(|p| d.ty(p, 0)).collect()))
            } else {
                let k = kt.as_ref().unwrap();
                k.funs.get(sym).map(|(r, ps)| (k.ty(r, 0), ps.iter().map(|p| k.ty(p, 0)).collect()))
            }
        };
        let mut report_diff = |rep: &mut Report, what: &str, item: &str, pos: &str, rust_type: &str, ca: &A, ba: &A| {
            let rust_type = deep_rust(&m, rust_type);
            let diff = first_diff(&ca.clone().drop_empty_unions(), &ba.clone().drop_empty_unions());
            *observed_prim_mismatch.entry(format!("{backend}:{diff}")).or_insert(0) += 1;
            rep.oracle_fail(&case, what, json!({"backend": backend, "item": item, "position": pos, "c": ca.show(), "binding": ba.show(), "mismatch": diff, "rust_type": rust_type, "class": format!("{}-vs-{}", classify(ca), classify(ba)), "source": src}));
        };
        // model tie (Dart): the `@ffi.Native<…>` line of every method equals the model's text
        if backend == "dart" {
            let line = crate::e2e::module_sexp(&m, "c07dart", "");
            match crate::model::run_model("C07", &[line.clone()]) {
                Ok(out) if out[0] != "bad-case" => {
                    let frags: Vec<(String, String)> = out[0].split(" ;; ").filter_map(|f| f.split_once(" => ")).map(|(k, t)| (k.to_string(), tool::norm_ws(t))).collect();
                    rep.count_n("dart-native-frags", frags.len());
                    let mut outs = BTreeMap::new();
                    outs.insert("dart".to_string(), b_out.clone());
                    // the native declarations are not in method order in the file: check each on its own
                    for (k, t) in &frags {
                        for p in tool::check_frags(&outs, &[(k.clone(), t.clone())]) {
                            rep.disagree(&case, "dart-native-signature", &p, t);
                        }
                    }
                }
                Ok(out) => rep.disagree(&case, "dart-model", &line, &out[0]),
                Err(e) => rep.disagree(&case, "model-driver", "", &e),
            }
        }
        // model tie (Kotlin): the JNA declaration of every method the model renders equals the generated text
        if backend == "kotlin" {
            let line = crate::e2e::module_sexp(&m, "c07kt", "");
            match crate::model::run_model("C07", &[line.clone()]) {
                Ok(out) if out[0] != "bad-case" => {
                    let frags: Vec<(String, String)> = out[0].split(" ;; ").filter_map(|f| f.split_once(" => ")).map(|(k, t)| (k.to_string(), tool::norm_ws(t))).collect();
                    rep.count_n("kotlin-native-frags", frags.len());
                    let mut outs = BTreeMap::new();
                    outs.insert("kotlin".to_string(), b_out.clone());
                    for (k, t) in &frags {
                        for p in tool::check_frags(&outs, &[(k.clone(), t.clone())]) {
                            rep.disagree(&case, "kotlin-native-signature", &p, t);
                        }
                    }
                }
                Ok(out) => rep.disagree(&case, "kotlin-model", &line, &out[0]),
                Err(e) => rep.disagree(&case, "model-driver", "", &e),
            }
        }
        // functions
        for (ty_name, abi) in abi_names(&m) {
            rep.oracle_runs += 1;
            // the Rust types of the positions, for the finding key
            let me = m.types.iter().find(|t| t.name == ty_name).and_then(|t| t.methods.iter().find(|me| format!("{}_{}", t.name, me.name) == abi)).unwrap();
            let mut rust_params: Vec<String> = vec![];
            if let Some(sp) = &me.self_param { rust_params.push(if sp.by_ref { format!("&{}", sp.ty) } else { sp.ty.clone() }); }
            for (_, t) in &me.params { rust_params.push(t.rust()); }
            let rust_ret = me.ret.as_ref().map(|t| t.rust()).unwrap_or_else(|| "()".into());
            let Some((cr, cps)) = c.proto(&abi) else {
                rep.oracle_fail(&case, "a prototype is missing from the C header", json!({"function": abi}));
                continue;
            };
            let Some((br, bps)) = native(&abi) else {
                rep.oracle_fail(&case, "the binding declares no native function for an exported method", json!({"backend": backend, "function": abi, "source": src}));
                continue;
            };
            rep.count(&format!("{backend}:functions"));
            if cps.len() != bps.len() {
                rep.oracle_fail(&case, "the native declaration has a different number of parameters than the C function", json!({"backend": backend, "function": abi, "c": cps.iter().map(|p| p.show()).collect::<Vec<_>>(), "binding": bps.iter().map(|p| p.show()).collect::<Vec<_>>(), "source": src}));
                continue;
            }
            for (k, (cp, bp)) in cps.iter().zip(&bps).enumerate() {
                let (cp2, bp2) = (cp.clone().drop_empty_unions(), bp.clone().drop_empty_unions());
                if !cp2.same(&bp2) {
                    report_diff(&mut rep, "a parameter of the native declaration does not have the C parameter's width / signedness / kind / record shape", &abi, &format!("param {k}"), rust_params.get(k).map(|s| s.as_str()).unwrap_or("?"), cp, bp);
                }
            }
            let (cr2, br2) = (cr.clone().drop_empty_unions(), br.clone().drop_empty_unions());
            if !cr2.same(&br2) {
                report_diff(&mut rep, "the return type of the native declaration does not match the C function's", &abi, "return", &rust_ret, &cr, &br);
            }
        }
        // struct mirrors
        for s in struct_names(&m) {
            rep.oracle_runs += 1;
            let ca = c.ty(&s, 0);
            let ba = if let Some(d) = &dart { d.ty(&format!("_{s}Ffi"), 0) } else { kt.as_ref().unwrap().ty(&format!("{s}Native"), 1) };
            rep.count(&format!("{backend}:structs"));
            if !ca.clone().drop_empty_unions().same(&ba.clone().drop_empty_unions()) {
                let fields = m.types.iter().find(|t| t.name == s).map(|t| match &t.def { crate::tygen::Def::Struct { fields, .. } => fields.iter().map(|(_, f)| f.rust()).collect::<Vec<_>>().join(", "), _ => String::new() }).unwrap_or_default();
                report_diff(&mut rep, "the native struct mirror does not list the C struct's fields (order / primitive types)", &s, "struct", &fields, &ca, &ba);
            }
        }
    }
    // the model's per-row verdicts must be what the comparator sees on real output: a row the model calls a
    // mismatch must not be silently fine and vice versa (checked for the rows that occurred)
    for (line, verdict) in &model_prims {
        rep.count(&format!("model-row:{}", verdict.split(' ').next().unwrap_or("?")));
        let _ = line;
    }
    rep.extra.insert("model_prim_rows".into(), json!(model_prims));
    rep.extra.insert("observed_mismatches".into(), json!(observed_prim_mismatch));
    sparse_enum_probe(&mut rep);
    write_option_probe(&mut rep);
    zst_side_results_probe(&mut rep);
    rep.print();
}
