//! Real proc-macro expansion: a scratch crate depending on /repo/macro and /repo/runtime by path is
//! expanded with `rustc -Zunpretty=expanded`; the output is re-parsed with syn. No hook needed.
use quote::ToTokens;
use std::path::PathBuf;
use std::process::Command;

pub fn crate_dir() -> PathBuf {
    let root = std::env::var("VERIF_WORK").unwrap_or_else(|_| "/verif/work".into());
    PathBuf::from(root).join("expand")
}

fn ensure_crate() -> PathBuf {
    let d = crate_dir();
    std::fs::create_dir_all(d.join("src")).unwrap();
    let toml = "[package]\nname = \"vexpand\"\nversion = \"0.1.0\"\nedition = \"2021\"\n\n[workspace]\n\n[lib]\ncrate-type = [\"rlib\", \"staticlib\"]\n\n[dependencies]\ndiplomat = { path = \"/repo/macro\" }\ndiplomat-runtime = { path = \"/repo/runtime\" }\n";
    if std::fs::read_to_string(d.join("Cargo.toml")).unwrap_or_default() != toml {
        std::fs::write(d.join("Cargo.toml"), toml).unwrap();
    }
    let _ = std::fs::copy("/repo/Cargo.lock", d.join("Cargo.lock"));
    d
}

#[derive(Debug, Clone, Default)]
pub struct ExternFn {
    pub name: String,
    pub params: Vec<(String, String)>,
    pub ret: String,
    pub text: String,
}

#[derive(Debug, Clone, Default)]
pub struct Expanded {
    pub extern_fns: Vec<ExternFn>,
    /// (kind, name, has #[repr(C)]) for structs/enums/unions inside the bridge
    pub items: Vec<(String, String, String)>,
    /// attributes whose path starts with `diplomat` that survived expansion
    pub surviving_diplomat_attrs: Vec<String>,
    pub text: String,
}

fn norm(s: String) -> String {
    s.split_whitespace().collect::<Vec<_>>().join(" ")
}

fn collect(items: &[syn::Item], out: &mut Expanded) {
    for it in items {
        let attrs: &[syn::Attribute] = match it {
            syn::Item::Fn(f) => &f.attrs,
            syn::Item::Struct(s) => &s.attrs,
            syn::Item::Enum(s) => &s.attrs,
            syn::Item::Impl(s) => &s.attrs,
            syn::Item::Mod(s) => &s.attrs,
            _ => &[],
        };
        for a in attrs {
            if a.path().segments.first().map(|s| s.ident == "diplomat").unwrap_or(false) {
                out.surviving_diplomat_attrs.push(norm(a.to_token_stream().to_string()));
            }
        }
        match it {
            syn::Item::Fn(f) => {
                let is_c = f.sig.abi.as_ref().and_then(|a| a.name.as_ref()).map(|n| n.value() == "C").unwrap_or(false);
                if is_c {
                    let mut params = vec![];
                    for i in &f.sig.inputs {
                        if let syn::FnArg::Typed(t) = i {
                            params.push((norm(t.pat.to_token_stream().to_string()), norm(t.ty.to_token_stream().to_string())));
                        }
                    }
                    let ret = match &f.sig.output {
                        syn::ReturnType::Default => "()".to_string(),
                        syn::ReturnType::Type(_, t) => norm(t.to_token_stream().to_string()),
                    };
                    out.extern_fns.push(ExternFn { name: f.sig.ident.to_string(), params, ret, text: norm(f.to_token_stream().to_string()) });
                }
            }
            syn::Item::Struct(s) => {
                let repr = s.attrs.iter().filter(|a| a.path().is_ident("repr")).map(|a| norm(a.to_token_stream().to_string())).collect::<Vec<_>>().join(" ");
                out.items.push(("struct".into(), s.ident.to_string(), repr));
                for f in &s.fields {
                    for a in &f.attrs {
                        if a.path().segments.first().map(|s| s.ident == "diplomat").unwrap_or(false) {
                            out.surviving_diplomat_attrs.push(norm(a.to_token_stream().to_string()));
                        }
                    }
                }
            }
            syn::Item::Enum(s) => {
                let repr = s.attrs.iter().filter(|a| a.path().is_ident("repr")).map(|a| norm(a.to_token_stream().to_string())).collect::<Vec<_>>().join(" ");
                out.items.push(("enum".into(), s.ident.to_string(), repr));
            }
            syn::Item::Impl(i) => {
                for ii in &i.items {
                    if let syn::ImplItem::Fn(f) = ii {
                        for a in &f.attrs {
                            if a.path().segments.first().map(|s| s.ident == "diplomat").unwrap_or(false) {
                                out.surviving_diplomat_attrs.push(norm(a.to_token_stream().to_string()));
                            }
                        }
                    }
                }
            }
            syn::Item::Mod(m) => {
                if let Some((_, items)) = &m.content {
                    collect(items, out);
                }
            }
            _ => {}
        }
    }
}

/// Expand a batch of crate-root sources (each is wrapped into `pub mod case_k { … }`).
/// `Err` carries rustc's diagnostics (a macro panic shows up as a compile error).
pub fn expand_batch(sources: &[String]) -> Result<Vec<Expanded>, String> {
    let d = ensure_crate();
    let mut lib = String::from("#![allow(warnings)]\n");
    for (k, s) in sources.iter().enumerate() {
        lib += &format!("pub mod case_{k} {{\n{s}\n}}\n");
    }
    std::fs::write(d.join("src/lib.rs"), &lib).unwrap();
    let o = Command::new("cargo")
        .args(["rustc", "--offline", "--lib", "--", "-Zunpretty=expanded"])
        .env("RUSTC_BOOTSTRAP", "1")
        .env("CARGO_TARGET_DIR", d.join("target"))
        .env_remove("RUSTFLAGS")
        .env("CARGO_ENCODED_RUSTFLAGS", "")
        .current_dir(&d)
        .output()
        .map_err(|e| format!("cannot run cargo: {e}"))?;
    if !o.status.success() {
        return Err(String::from_utf8_lossy(&o.stderr).to_string());
    }
    let text = String::from_utf8_lossy(&o.stdout).to_string();
    let file = syn::parse_file(&text).map_err(|e| format!("cannot re-parse expansion: {e}"))?;
    let mut out = vec![Expanded::default(); sources.len()];
    for it in &file.items {
        if let syn::Item::Mod(m) = it {
            let name = m.ident.to_string();
            if let Some(k) = name.strip_prefix("case_").and_then(|k| k.parse::<usize>().ok()) {
                if let Some((_, items)) = &m.content {
                    collect(items, &mut out[k]);
                    out[k].text = norm(m.to_token_stream().to_string());
                }
            }
        }
    }
    Ok(out)
}

/// Like `expand_batch`, but a failing batch is bisected so that each source gets its own outcome.
pub fn expand_each(sources: &[String]) -> Vec<Result<Expanded, String>> {
    match expand_batch(sources) {
        Ok(v) => v.into_iter().map(Ok).collect(),
        Err(e) => {
            if sources.len() == 1 {
                let msg: String = e.lines().filter(|l| l.contains("error") || l.contains("panicked") || l.contains("message")).take(6).collect::<Vec<_>>().join(" | ");
                return vec![Err(if msg.is_empty() { e.chars().take(400).collect() } else { msg })];
            }
            let mid = sources.len() / 2;
            let mut a = expand_each(&sources[..mid]);
            a.extend(expand_each(&sources[mid..]));
            a
        }
    }
}

/// Type-check a batch of crate-root sources with the real macro (`cargo check`); each is wrapped into
/// `pub mod case_k { … }`.  `Err` carries rustc's error lines.
pub fn check_batch(sources: &[String]) -> Result<(), String> {
    let d = ensure_crate();
    let mut lib = String::from("#![allow(warnings)]\n");
    for (k, s) in sources.iter().enumerate() {
        lib += &format!("pub mod case_{k} {{\n{s}\n}}\n");
    }
    std::fs::write(d.join("src/lib.rs"), &lib).unwrap();
    let o = Command::new("cargo")
        .args(["check", "--offline", "--lib", "--message-format=short"])
        .env("CARGO_TARGET_DIR", d.join("target"))
        .env_remove("RUSTFLAGS")
        .env("CARGO_ENCODED_RUSTFLAGS", "")
        .current_dir(&d)
        .output()
        .map_err(|e| format!("cannot run cargo: {e}"))?;
    if o.status.success() {
        Ok(())
    } else {
        let e = String::from_utf8_lossy(&o.stderr);
        Err(e.lines().filter(|l| l.contains("error")).take(8).collect::<Vec<_>>().join(" | "))
    }
}

/// Like `check_batch`, bisecting a failing batch so that each source gets its own verdict.
pub fn check_each(sources: &[String]) -> Vec<Result<(), String>> {
    match check_batch(sources) {
        Ok(()) => sources.iter().map(|_| Ok(())).collect(),
        Err(e) => {
            if sources.len() == 1 {
                return vec![Err(e)];
            }
            let mid = sources.len() / 2;
            let mut a = check_each(&sources[..mid]);
            a.extend(check_each(&sources[mid..]));
            a
        }
    }
}
