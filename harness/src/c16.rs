//! C16 — runtime slice/str views and `diplomat_is_str`: real runtime code vs the Lean model,
//! plus a specification-level reference decoder as the oracle for UTF-8.
use crate::report::Report;
use crate::rng::Rng;
use crate::util;
use diplomat_runtime::{
    DiplomatOwnedSlice, DiplomatOwnedUTF8StrSlice, DiplomatSlice, DiplomatSliceMut, DiplomatUtf8StrSlice,
};
use serde_json::json;
use std::sync::atomic::{AtomicUsize, Ordering};

fn real_is_str(bs: &[u8]) -> bool {
    unsafe { diplomat_runtime::diplomat_is_str(bs.as_ptr(), bs.len()) }
}

/// Reference: decode scalar values per Unicode §3.9 definitions D92 (shortest form, no surrogates,
/// ≤ U+10FFFF). Written independently of the Table 3-7 automaton used by the model.
fn reference_is_utf8(bs: &[u8]) -> bool {
    let mut i = 0;
    while i < bs.len() {
        let b0 = bs[i] as u32;
        let (n, min, mut cp) = if b0 < 0x80 {
            (0, 0, b0)
        } else if b0 & 0xE0 == 0xC0 {
            (1, 0x80, b0 & 0x1F)
        } else if b0 & 0xF0 == 0xE0 {
            (2, 0x800, b0 & 0x0F)
        } else if b0 & 0xF8 == 0xF0 {
            (3, 0x10000, b0 & 0x07)
        } else {
            return false;
        };
        if n > 0 && i + n >= bs.len() {
            return false;
        }
        for k in 1..=n {
            let b = bs[i + k] as u32;
            if b & 0xC0 != 0x80 {
                return false;
            }
            cp = (cp << 6) | (b & 0x3F);
        }
        if cp < min || cp > 0x10FFFF || (0xD800..=0xDFFF).contains(&cp) {
            return false;
        }
        i += n + 1;
    }
    true
}

fn mask2(pre: &[u8], f: impl Fn(&[u8]) -> bool) -> String {
    let mut s = String::with_capacity(16384);
    let mut buf = pre.to_vec();
    buf.push(0);
    buf.push(0);
    let n = buf.len();
    for b2 in 0..256u32 {
        for q in 0..64u32 {
            let mut nib = 0u32;
            for k in 0..4u32 {
                buf[n - 2] = b2 as u8;
                buf[n - 1] = (q * 4 + k) as u8;
                nib = nib * 2 + if f(&buf) { 1 } else { 0 };
            }
            s.push(char::from_digit(nib, 16).unwrap());
        }
    }
    s
}

fn first_diff(pre: &[u8], a: &str, b: &str) -> Vec<u8> {
    for (i, (x, y)) in a.bytes().zip(b.bytes()).enumerate() {
        if x != y {
            let xv = (x as char).to_digit(16).unwrap();
            let yv = (y as char).to_digit(16).unwrap();
            let bit = (0..4).find(|k| (xv >> (3 - k)) & 1 != (yv >> (3 - k)) & 1).unwrap();
            let idx = i * 4 + bit as usize;
            let mut v = pre.to_vec();
            v.push((idx / 256) as u8);
            v.push((idx % 256) as u8);
            return v;
        }
    }
    pre.to_vec()
}

fn enc_scalar(c: u32, out: &mut Vec<u8>) {
    let mut b = [0u8; 4];
    out.extend_from_slice(char::from_u32(c).unwrap().encode_utf8(&mut b).as_bytes());
}

fn gen_near_valid(rng: &mut Rng) -> Vec<u8> {
    let mut v = vec![];
    let n = rng.below(6);
    for _ in 0..n {
        let c = match rng.below(6) {
            0 => rng.range(0, 0x7F) as u32,
            1 => rng.range(0x80, 0x7FF) as u32,
            2 => *rng.pick(&[0x800u32, 0xFFFF, 0xD7FF, 0xE000, 0xFFFD, 0x20AC]),
            3 => rng.range(0x800, 0xD7FF) as u32,
            4 => *rng.pick(&[0x10000u32, 0x10FFFF, 0x1F600, 0x3FFFF, 0x40000, 0xFFFFF, 0x100000]),
            _ => rng.range(0x10000, 0x10FFFF) as u32,
        };
        enc_scalar(c, &mut v);
    }
    match rng.below(8) {
        0 | 1 => {}
        2 => {
            if !v.is_empty() {
                let i = rng.below(v.len());
                v[i] = rng.below(256) as u8;
            }
        }
        3 => {
            if !v.is_empty() {
                let k = rng.below(v.len());
                v.truncate(k);
            }
        }
        4 => {
            let bad: &[&[u8]] = &[&[0xC0, 0x80], &[0xE0, 0x80, 0x80], &[0xF0, 0x80, 0x80, 0x80], &[0xC1, 0xBF], &[0xE0, 0x9F, 0xBF], &[0xF0, 0x8F, 0xBF, 0xBF]];
            let i = rng.below(v.len() + 1);
            let ins = rng.pick(bad);
            for (k, b) in ins.iter().enumerate() {
                v.insert(i + k, *b);
            }
        }
        5 => {
            let bad: &[&[u8]] = &[&[0xED, 0xA0, 0x80], &[0xED, 0xBF, 0xBF], &[0xF4, 0x90, 0x80, 0x80], &[0xF5, 0x80, 0x80, 0x80], &[0xFF], &[0xFE], &[0x80], &[0xBF]];
            let i = rng.below(v.len() + 1);
            let ins = rng.pick(bad);
            for (k, b) in ins.iter().enumerate() {
                v.insert(i + k, *b);
            }
        }
        6 => {
            if v.len() >= 2 {
                let i = rng.below(v.len() - 1);
                v.swap(i, i + 1);
            }
        }
        _ => {
            let k = rng.below(5);
            for _ in 0..k {
                v.push(rng.below(256) as u8);
            }
        }
    }
    v
}

fn utf8_part(rep: &mut Report, rng: &mut Rng, thorough: bool) {
    let mut lines: Vec<String> = vec![];
    let mut real: Vec<String> = vec![];
    let mut inputs: Vec<Vec<u8>> = vec![];
    let mut is_mask: Vec<bool> = vec![];
    let push_str = |bs: Vec<u8>, lines: &mut Vec<String>, real: &mut Vec<String>, inputs: &mut Vec<Vec<u8>>, is_mask: &mut Vec<bool>| {
        lines.push(format!("(utf8 {})", bs.iter().map(|b| b.to_string()).collect::<Vec<_>>().join(" ")).replace(" )", ")"));
        real.push(real_is_str(&bs).to_string());
        inputs.push(bs);
        is_mask.push(false);
    };
    // length 0 and 1, exhaustively
    push_str(vec![], &mut lines, &mut real, &mut inputs, &mut is_mask);
    for b in 0..=255u8 {
        push_str(vec![b], &mut lines, &mut real, &mut inputs, &mut is_mask);
    }
    // masks
    let mut prefixes: Vec<Vec<u8>> = vec![vec![]]; // all 2-byte strings
    if thorough {
        for b in 0..=255u8 {
            prefixes.push(vec![b]);
        }
        for l in 0xF0..=0xF4u8 {
            for b in 0..=255u8 {
                prefixes.push(vec![l, b]);
            }
        }
    } else {
        for b in [0xE0u8, 0xED, 0xEF, 0x41, 0x7F, 0x80, 0xC1, 0xC2, 0xDF, 0xE1, 0xF0, 0xF4, 0xF5] {
            prefixes.push(vec![b]);
        }
        for l in [0xF0u8, 0xF4] {
            for b in [0x7Fu8, 0x80, 0x8F, 0x90, 0xBF, 0xC0] {
                prefixes.push(vec![l, b]);
            }
        }
    }
    for p in &prefixes {
        lines.push(format!("(mask2 {})", p.iter().map(|b| b.to_string()).collect::<Vec<_>>().join(" ")).replace(" )", ")"));
        real.push(mask2(p, real_is_str));
        inputs.push(p.clone());
        is_mask.push(true);
    }
    rep.count_n("utf8_exhaustive_strings", 257 + prefixes.len() * 65536);
    rep.count_n("utf8_mask_prefixes", prefixes.len());
    // random longer, near-valid
    let n = if thorough { 200_000 } else { 20_000 };
    let (mut nv, mut ninv) = (0, 0);
    for _ in 0..n {
        let bs = gen_near_valid(rng);
        if reference_is_utf8(&bs) { nv += 1 } else { ninv += 1 }
        push_str(bs, &mut lines, &mut real, &mut inputs, &mut is_mask);
    }
    rep.count_n("utf8_random_valid", nv);
    rep.count_n("utf8_random_invalid", ninv);
    // long, mostly-ASCII strings (where block-wise or word-wise shortcuts would live): an ASCII run, a valid or
    // invalid tail, a few trailing ASCII bytes; and one stray byte at every position of runs around block sizes
    let tails: [&[u8]; 14] = [&[], &[0xC3, 0xA9], &[0xE2, 0x82, 0xAC], &[0xF0, 0x9F, 0x98, 0x80], &[0xFF], &[0x80], &[0xC3], &[0xE2, 0x82], &[0xF0, 0x9F, 0x98], &[0xC0, 0x80], &[0xED, 0xA0, 0x80], &[0xF4, 0x90, 0x80, 0x80], &[0xE0, 0x9F, 0xBF], &[0xF8]];
    let mut nlong = 0;
    for run in 0..=(if thorough { 130 } else { 72 }) {
        for tail in tails {
            for after in [0usize, 1, 2, 3, 5, 7, 8, 9] {
                let mut v: Vec<u8> = (0..run).map(|i| b'a' + (i % 26) as u8).collect();
                v.extend_from_slice(tail);
                v.extend((0..after).map(|i| b'0' + (i % 10) as u8));
                nlong += 1;
                push_str(v, &mut lines, &mut real, &mut inputs, &mut is_mask);
            }
        }
    }
    for len in [7usize, 8, 9, 15, 16, 17, 31, 32, 33, 40, 63, 64, 65, 100] {
        for pos in 0..len {
            for bad in [0xFFu8, 0x80, 0xC3, 0xF0] {
                let mut v: Vec<u8> = (0..len).map(|i| b'A' + (i % 26) as u8).collect();
                v[pos] = bad;
                nlong += 1;
                push_str(v, &mut lines, &mut real, &mut inputs, &mut is_mask);
            }
        }
    }
    rep.count_n("utf8_long_ascii_dominant", nlong);
    // one buffer per length, reused: valid contents, then spoiled in place, then repaired — the answer follows the
    // contents, not the address
    for len in [1usize, 3, 4, 16, 63, 64, 65, 100, 128, 1000, 4096] {
        let mut buf: Vec<u8> = (0..len).map(|i| b'a' + (i % 26) as u8).collect();
        let mut seq = vec![];
        seq.push(real_is_str(&buf).to_string());
        let at = len - 1 - (len / 3);
        let keep = buf[at];
        buf[at] = 0xFF;
        seq.push(real_is_str(&buf).to_string());
        buf[at] = keep;
        seq.push(real_is_str(&buf).to_string());
        buf[0] = 0x80;
        seq.push(real_is_str(&buf).to_string());
        rep.count("utf8_buffer_reuse");
        if seq != ["true", "false", "true", "false"] {
            rep.oracle_fail(&format!("(utf8-reuse len={len})"), "diplomat_is_str-vs-unicode-definition", json!({"sequence": "valid, byte spoiled in place, repaired, first byte spoiled", "diplomat_is_str": seq, "reference": ["true", "false", "true", "false"]}));
        }
    }
    let model = match crate::model::run_model("C16", &lines) {
        Ok(m) => m,
        Err(e) => {
            rep.disagree("*", "model-driver", "", &e);
            return;
        }
    };
    for i in 0..lines.len() {
        rep.cases += 1;
        if is_mask[i] {
            rep.distinct.insert(lines[i].clone());
            if rep.samples.len() < 3 {
                rep.samples.push(json!(lines[i]));
            }
            let reference = mask2(&inputs[i], reference_is_utf8);
            if real[i] != reference {
                let w = first_diff(&inputs[i], &real[i], &reference);
                rep.oracle_fail(&format!("(utf8 {})", w.iter().map(|b| b.to_string()).collect::<Vec<_>>().join(" ")), "diplomat_is_str-vs-unicode-definition",
                    json!({"bytes": w, "diplomat_is_str": real_is_str(&w), "reference": reference_is_utf8(&w)}));
            }
            if real[i] != model[i] {
                let w = first_diff(&inputs[i], &real[i], &model[i]);
                rep.disagree(&format!("(utf8 {})", w.iter().map(|b| b.to_string()).collect::<Vec<_>>().join(" ")), "utf8-mask", &real_is_str(&w).to_string(), &(!real_is_str(&w)).to_string());
            }
        } else {
            if inputs[i].len() > 1 {
                rep.distinct.insert(lines[i].clone());
                if rep.samples.len() < 6 {
                    rep.samples.push(json!(lines[i]));
                }
            }
            let r = reference_is_utf8(&inputs[i]);
            if real[i] != r.to_string() {
                rep.oracle_fail(&lines[i], "diplomat_is_str-vs-unicode-definition", json!({"bytes": inputs[i], "diplomat_is_str": real[i], "reference": r}));
            }
            if real[i] != model[i] {
                rep.disagree(&lines[i], "utf8", &real[i], &model[i]);
            }
        }
    }
    rep.oracle_runs += 1;
}

// ---------------------------------------------------------------- views

static DROPS: AtomicUsize = AtomicUsize::new(0);
struct D(#[allow(dead_code)] u32);
impl Drop for D {
    fn drop(&mut self) {
        DROPS.fetch_add(1, Ordering::SeqCst);
    }
}

const SYM: usize = 1000; // the symbolic non-null address given to the model

fn class(p: usize, orig: usize) -> &'static str {
    if p == 0 {
        "null"
    } else if p == orig {
        "same"
    } else {
        "nonnull"
    }
}

fn model_class(line: &str) -> String {
    let mut it = line.split(' ');
    let p: usize = it.next().and_then(|x| x.parse().ok()).unwrap_or(usize::MAX);
    let l = it.next().unwrap_or("?");
    let c = if p == 0 {
        "null"
    } else if p == SYM {
        "same"
    } else if p == usize::MAX {
        "?"
    } else {
        "nonnull"
    };
    format!("{c} {l}")
}

struct ViewCase {
    line: String,
    real: String,
    numeric: bool,
}

fn views_for<T: Copy + PartialEq + std::fmt::Debug + 'static>(
    name: &str,
    mk: impl Fn(usize) -> T,
    len: usize,
    out: &mut Vec<ViewCase>,
    rep: &mut Report,
) {
    let align = std::mem::align_of::<T>();
    let data: Vec<T> = (0..len).map(&mk).collect();
    let tag = format!("{name} len={len}");
    // &[T] -> DiplomatSlice -> &[T], and Deref
    {
        let s: &[T] = &data;
        let v: DiplomatSlice<T> = s.into();
        let d: &[T] = &v;
        let back: &[T] = v.into();
        out.push(ViewCase { line: format!("(from-into {align} {SYM} {len})"), real: format!("{} {}", class(back.as_ptr() as usize, s.as_ptr() as usize), back.len()), numeric: false });
        if back != s || d != s || d.as_ptr() != s.as_ptr() {
            rep.oracle_fail(&tag, "slice-roundtrip-contents", json!({"orig": format!("{:?}", s), "back": format!("{:?}", back)}));
        }
    }
    // empty sub-slices that point *into* a live buffer: pointer identity must survive the round trip
    if len > 0 {
        for k in [0usize, len / 2, len] {
            let s: &[T] = &data[k..k];
            let v: DiplomatSlice<T> = s.into();
            let d: &[T] = &v;
            let back: &[T] = v.into();
            out.push(ViewCase { line: format!("(from-into {align} {SYM} 0)"), real: format!("{} {}", class(back.as_ptr() as usize, s.as_ptr() as usize), back.len()), numeric: false });
            if back.as_ptr() != s.as_ptr() || d.as_ptr() != s.as_ptr() || !back.is_empty() {
                rep.oracle_fail(&format!("{tag} empty-subslice at {k}"), "slice-roundtrip-pointer", json!({"offset_in_parent": k, "orig_ptr_offset": (s.as_ptr() as usize).wrapping_sub(data.as_ptr() as usize), "back_ptr_offset": (back.as_ptr() as usize).wrapping_sub(data.as_ptr() as usize)}));
            }
            let mut d2 = data.clone();
            let base = d2.as_ptr() as usize;
            let sm: &mut [T] = &mut d2[k..k];
            let p = sm.as_ptr() as usize;
            let vm: DiplomatSliceMut<T> = sm.into();
            let dp = (&*vm).as_ptr() as usize;
            let backm: &mut [T] = vm.into();
            out.push(ViewCase { line: format!("(from-into {align} {SYM} 0)"), real: format!("{} {}", class(backm.as_ptr() as usize, p), backm.len()), numeric: false });
            if backm.as_ptr() as usize != p || dp != p {
                rep.oracle_fail(&format!("{tag} empty-mut-subslice at {k}"), "slice-roundtrip-pointer", json!({"orig": p - base, "back": (backm.as_ptr() as usize).wrapping_sub(base)}));
            }
        }
    }
    // &mut [T] -> DiplomatSliceMut -> &mut [T], Deref/DerefMut
    {
        let mut d1 = data.clone();
        let p = d1.as_mut_ptr() as usize;
        let s: &mut [T] = &mut d1;
        let mut v: DiplomatSliceMut<T> = s.into();
        let dl = (&*v).len();
        let dp = (&*v).as_ptr() as usize;
        let ml = (&mut *v).len();
        let back: &mut [T] = v.into();
        out.push(ViewCase { line: format!("(from-into {align} {SYM} {len})"), real: format!("{} {}", class(back.as_ptr() as usize, p), back.len()), numeric: false });
        if dl != len || ml != len || dp != p || &*back != &data[..] {
            rep.oracle_fail(&tag, "mut-slice-roundtrip", json!({"deref_len": dl, "deref_mut_len": ml}));
        }
    }
    // an empty window of a live buffer is a zero-length view with a meaningful pointer: it comes back as it went in
    if len >= 2 {
        for k in [0usize, 1, len / 2, len] {
            let w: &[T] = &data[k..k];
            let p = w.as_ptr() as usize;
            let v: DiplomatSlice<T> = w.into();
            let dp = (&*v).as_ptr() as usize;
            let back: &[T] = v.into();
            if back.as_ptr() as usize != p || dp != p || !back.is_empty() {
                rep.oracle_fail(&tag, "empty-window-pointer-changed", json!({"window_start": k, "deref_same": dp == p, "into_same": back.as_ptr() as usize == p}));
            }
        }
    }
    // NULL + 0 views (constructed the way C does: a (ptr, len) pair)
    if len == 0 {
        let raw: [usize; 2] = [0, 0];
        let v: DiplomatSlice<T> = unsafe { std::mem::transmute_copy(&raw) };
        let d_len = (&*v).len();
        let back: &[T] = v.into();
        out.push(ViewCase { line: format!("(into {align} 0 0)"), real: format!("{} {}", class(back.as_ptr() as usize, usize::MAX), back.len()), numeric: false });
        let mut vm: DiplomatSliceMut<T> = unsafe { std::mem::transmute_copy(&raw) };
        let dm = (&*vm).len() + (&mut *vm).len();
        let backm: &mut [T] = vm.into();
        out.push(ViewCase { line: format!("(into {align} 0 0)"), real: format!("{} {}", class(backm.as_ptr() as usize, usize::MAX), backm.len()), numeric: false });
        if d_len != 0 || dm != 0 || !back.is_empty() || !backm.is_empty() {
            rep.oracle_fail(&tag, "null-view-not-empty", json!({"deref_len": d_len}));
        }
        // the empty slice a NULL view becomes is still a valid `&[T]`: non-null and aligned for `T`
        let al = std::mem::align_of::<T>();
        let (pa, pb) = (back.as_ptr() as usize, backm.as_ptr() as usize);
        if pa == 0 || pb == 0 || pa % al != 0 || pb % al != 0 {
            rep.oracle_fail(&tag, "null-view-becomes-an-invalid-slice", json!({"ptr": pa, "ptr_mut": pb, "align": al}));
        }
        let mut vo: DiplomatOwnedSlice<T> = unsafe { std::mem::transmute_copy(&raw) };
        let ol = (&*vo).len();
        {
            let m: &mut [T] = &mut *vo;
            out.push(ViewCase { line: format!("(into {align} 0 0)"), real: format!("{} {}", class(m.as_ptr() as usize, usize::MAX), m.len()), numeric: false });
            if m.as_ptr().is_null() || !m.is_empty() {
                rep.oracle_fail(&tag, "null-owned-view-deref-mut-not-an-empty-slice", json!({"ptr_is_null": m.as_ptr().is_null(), "len": m.len()}));
            }
        }
        let b: Box<[T]> = vo.into();
        out.push(ViewCase { line: format!("(owned-into {align} 0 0)"), real: format!("{} {}", class(b.as_ptr() as usize, usize::MAX), b.len()), numeric: false });
        if ol != 0 || !b.is_empty() {
            rep.oracle_fail(&tag, "null-owned-view-not-empty", json!({"deref_len": ol}));
        }
    }
    // Box<[T]> -> DiplomatOwnedSlice -> Box<[T]>
    {
        let b: Box<[T]> = data.clone().into_boxed_slice();
        let p = b.as_ptr() as usize;
        let mut o: DiplomatOwnedSlice<T> = b.into();
        let dl = (&*o).len();
        let dml = (&mut *o).len();
        let b2: Box<[T]> = o.into();
        out.push(ViewCase { line: format!("(owned-from-into {align} {SYM} {len})"), real: format!("{} {}", class(b2.as_ptr() as usize, p), b2.len()), numeric: false });
        if dl != len || dml != len || &*b2 != &data[..] {
            rep.oracle_fail(&tag, "owned-roundtrip-contents", json!({"deref_len": dl}));
        }
    }
}

fn drops_for(len: usize, out: &mut Vec<ViewCase>, rep: &mut Report) {
    // dropping an owned view runs each element destructor exactly once
    let b: Box<[D]> = (0..len as u32).map(D).collect::<Vec<_>>().into_boxed_slice();
    let o: DiplomatOwnedSlice<D> = b.into();
    DROPS.store(0, Ordering::SeqCst);
    drop(o);
    let n = DROPS.load(Ordering::SeqCst);
    out.push(ViewCase { line: format!("(owned-from-drop 4 {SYM} {len})"), real: n.to_string(), numeric: true });
    if n != len {
        rep.oracle_fail(&format!("D len={len}"), "owned-drop-count", json!({"expected": len, "drops": n}));
    }
    // converting to a box and dropping the box: once, not twice
    let b: Box<[D]> = (0..len as u32).map(D).collect::<Vec<_>>().into_boxed_slice();
    let o: DiplomatOwnedSlice<D> = b.into();
    DROPS.store(0, Ordering::SeqCst);
    let b2: Box<[D]> = o.into();
    let during = DROPS.load(Ordering::SeqCst);
    drop(b2);
    let n = DROPS.load(Ordering::SeqCst);
    if during != 0 || n != len {
        rep.oracle_fail(&format!("D len={len}"), "owned-into-box-drop-count", json!({"expected": len, "during_conversion": during, "total": n}));
    }
    if len == 0 {
        let raw: [usize; 2] = [0, 0];
        let vo: DiplomatOwnedSlice<D> = unsafe { std::mem::transmute_copy(&raw) };
        DROPS.store(0, Ordering::SeqCst);
        drop(vo);
        out.push(ViewCase { line: "(owned-drop 4 0 0)".into(), real: DROPS.load(Ordering::SeqCst).to_string(), numeric: true });
    }
}

fn str_views(s: &str, out: &mut Vec<ViewCase>, rep: &mut Report) {
    let len = s.len();
    let v: DiplomatUtf8StrSlice = s.into();
    let d: &str = &v;
    let back: &str = v.into();
    out.push(ViewCase { line: format!("(from-into 1 {SYM} {len})"), real: format!("{} {}", class(back.as_ptr() as usize, s.as_ptr() as usize), back.len()), numeric: false });
    let b: Box<str> = s.into();
    let p = b.as_ptr() as usize;
    let o: DiplomatOwnedUTF8StrSlice = b.into();
    let od: String = (&*o).to_string();
    let b2: Box<str> = o.into();
    out.push(ViewCase { line: format!("(owned-from-into 1 {SYM} {len})"), real: format!("{} {}", class(b2.as_ptr() as usize, p), b2.len()), numeric: false });
    if back != s || d != s || od != s || &*b2 != s {
        rep.oracle_fail(&format!("str {:?}", s), "str-roundtrip-contents", json!({"back": back, "owned_deref": od, "box": &*b2}));
    }
}

/// NULL + 0 string views, the way a default-constructed `std::string_view` arrives
fn null_str_views(out: &mut Vec<ViewCase>, rep: &mut Report) {
    let raw: [usize; 2] = [0, 0];
    let v: DiplomatUtf8StrSlice = unsafe { std::mem::transmute_copy(&raw) };
    let d_len = { let d: &str = &v; d.len() };
    let d_null = { let d: &str = &v; d.as_ptr().is_null() };
    let back: &str = v.into();
    out.push(ViewCase { line: "(into 1 0 0)".into(), real: format!("{} {}", class(back.as_ptr() as usize, usize::MAX), back.len()), numeric: false });
    if d_len != 0 || d_null || back.as_ptr().is_null() || !back.is_empty() {
        rep.oracle_fail("str NULL+0", "null-str-view-not-the-empty-string", json!({"deref_len": d_len, "deref_ptr_is_null": d_null, "into_ptr_is_null": back.as_ptr().is_null(), "into_len": back.len()}));
    }
    let vo: DiplomatOwnedUTF8StrSlice = unsafe { std::mem::transmute_copy(&raw) };
    let ol = (&*vo).len();
    let b: Box<str> = vo.into();
    out.push(ViewCase { line: "(owned-into 1 0 0)".into(), real: format!("{} {}", class(b.as_ptr() as usize, usize::MAX), b.len()), numeric: false });
    if ol != 0 || !b.is_empty() || b.as_ptr().is_null() {
        rep.oracle_fail("owned str NULL+0", "null-owned-str-view-not-the-empty-string", json!({"deref_len": ol, "box_len": b.len()}));
    }
}

fn views_part(rep: &mut Report, thorough: bool) {
    let lens: Vec<usize> = if thorough { (0..=64).collect() } else { vec![0, 1, 2, 3, 4, 5, 7, 8, 16, 33, 64] };
    let mut cases: Vec<ViewCase> = vec![];
    for &len in &lens {
        views_for::<u8>("u8", |i| (i * 7 + 3) as u8, len, &mut cases, rep);
        views_for::<i8>("i8", |i| (i as i8).wrapping_mul(-5), len, &mut cases, rep);
        views_for::<u16>("u16", |i| (i * 257 + 1) as u16, len, &mut cases, rep);
        views_for::<i16>("i16", |i| -(i as i16) * 3, len, &mut cases, rep);
        views_for::<u32>("u32", |i| (i as u32).wrapping_mul(0x01010101), len, &mut cases, rep);
        views_for::<i32>("i32", |i| i32::MIN + i as i32, len, &mut cases, rep);
        views_for::<u64>("u64", |i| u64::MAX - i as u64, len, &mut cases, rep);
        views_for::<i64>("i64", |i| i64::MIN + i as i64, len, &mut cases, rep);
        views_for::<usize>("usize", |i| usize::MAX - i, len, &mut cases, rep);
        views_for::<isize>("isize", |i| -(i as isize), len, &mut cases, rep);
        views_for::<f32>("f32", |i| i as f32 * 0.5, len, &mut cases, rep);
        views_for::<f64>("f64", |i| i as f64 * -0.25, len, &mut cases, rep);
        views_for::<bool>("bool", |i| i % 3 == 0, len, &mut cases, rep);
        views_for::<char>("char", |i| char::from_u32(0x1F600 + i as u32).unwrap(), len, &mut cases, rep);
        views_for::<u128>("u128", |i| (i as u128) << 100, len, &mut cases, rep);
        drops_for(len, &mut cases, rep);
    }
    for s in ["", "a", "héllo", "€uro", "𝄞clef", "mixed ✓ 𝄞 ok"] {
        str_views(s, &mut cases, rep);
    }
    null_str_views(&mut cases, rep);
    rep.count_n("view_ops", cases.len());
    let lines: Vec<String> = cases.iter().map(|c| c.line.clone()).collect();
    let model = match crate::model::run_model("C16", &lines) {
        Ok(m) => m,
        Err(e) => {
            rep.disagree("*", "model-driver", "", &e);
            return;
        }
    };
    for (c, m) in cases.iter().zip(model.iter()) {
        rep.cases += 1;
        rep.distinct.insert(c.line.clone());
        let mm = if c.numeric { m.clone() } else { model_class(m) };
        if mm != c.real {
            rep.disagree(&c.line, "view", &c.real, &mm);
        }
    }
    rep.samples.push(json!(lines.get(3)));
    rep.samples.push(json!(lines.last()));
}


/// Buffers the foreign side obtains from `diplomat_alloc` (the JS runtime and Dart's `_RustAlloc` do, also for empty
/// lists): whatever the size — zero included — the address is non-null and aligned for the element type, a view of
/// `len` elements over it is what `from_raw_parts` needs, reads back what was stored, and `diplomat_free` takes it back.

/// The allocation probes hand addresses to the allocator; a wrong one kills the process.  They run in a child whose
/// last announced case is then the failing input.
fn alloc_views_probe(rep: &mut Report) {
    let exe = std::env::current_exe().unwrap();
    let out = std::process::Command::new(exe).arg("C16-alloc-child").output();
    rep.oracle_runs += 1;
    match out {
        Err(e) => rep.notes.push(format!("allocation probes could not be started: {e}")),
        Ok(o) => {
            let text = String::from_utf8_lossy(&o.stdout);
            let mut last = String::new();
            for l in text.lines() {
                if let Some(c) = l.strip_prefix("case ") { last = c.to_string(); }
                if let Some(c) = l.strip_prefix("count ") { if let Some((k, n)) = c.split_once(' ') { rep.count_n(k, n.parse().unwrap_or(0)); } }
                if let Some(f) = l.strip_prefix("fail ") {
                    if let Ok(v) = serde_json::from_str::<serde_json::Value>(f) {
                        rep.oracle_fail(v["case"].as_str().unwrap_or("?"), v["what"].as_str().unwrap_or("?"), v["detail"].clone());
                    }
                }
            }
            if !o.status.success() {
                rep.oracle_fail(&format!("(c16 probe alloc-child after {last})"), "the process died in diplomat_alloc / diplomat_free or in a view over an allocated buffer (memory error)", json!({"status": format!("{}", o.status), "last_case": last, "stderr": String::from_utf8_lossy(&o.stderr).lines().take(4).collect::<Vec<_>>()}));
            }
        }
    }
}

pub fn alloc_child() {
    let mut rep = Report::new("C16-alloc-child");
    println!("case (start)"); // also makes stdout allocate its buffer before any counting starts
    alloc_views_probe_inner(&mut rep);
    for f in &rep.oracle_failures {
        println!("fail {}", serde_json::to_string(f).unwrap());
    }
    for (k, n) in &rep.distribution {
        println!("count {k} {n}");
    }
}

fn alloc_views_probe_inner(rep: &mut Report) {
    use diplomat_runtime::{diplomat_alloc, diplomat_free, DiplomatSlice};
    fn one<T: Copy + PartialEq + std::fmt::Debug + Default>(name: &str, len: usize, fill: T, rep: &mut Report) {
        let (size, align) = (len * std::mem::size_of::<T>(), std::mem::align_of::<T>());
        let case = format!("(c16 probe alloc-view {name} len={len})");
        println!("case {case}");
        rep.oracle_runs += 1;
        rep.count("probe:alloc-views");
        unsafe {
            let p = diplomat_alloc(size, align);
            if p.is_null() || (p as usize) % align != 0 {
                rep.oracle_fail(&case, "diplomat_alloc returns an address that is null or not aligned for the element type: no valid view exists over it", json!({"address": p as usize, "size": size, "align": align}));
                return; // building the slice would be undefined behaviour
            }
            let t = p as *mut T;
            for i in 0..len { t.add(i).write(fill); }
            #[repr(C)]
            struct Raw<T> { ptr: *const T, len: usize }
            let view: DiplomatSlice<T> = std::mem::transmute_copy(&Raw { ptr: t as *const T, len });
            let back: &[T] = &view;
            if back.len() != len || back.iter().any(|x| *x != fill) || back.as_ptr() != t as *const T {
                rep.oracle_fail(&case, "a view over a diplomat_alloc buffer does not read back what was stored", json!({"len": back.len()}));
            }
            diplomat_free(p, size, align);
        }
    }
    // every diplomat_alloc / diplomat_free pair gives the block back (also the zero-sized ones the JS runtime makes
    // for empty strings and lists): counted by the harness's allocator
    {
        let o = crate::alloctrack::tracked(|| unsafe {
            for (size, align) in [(0usize, 1usize), (0, 2), (0, 4), (0, 8), (1, 1), (6, 2), (24, 8), (0, 1)] {
                println!("case (c16 probe alloc-free-pair size={size} align={align})");
                let p = diplomat_alloc(size, align);
                diplomat_free(p, size, align);
            }
        });
        rep.oracle_runs += 1;
        rep.count("probe:alloc-free-pairs");
        if o.double_frees > 0 || o.leaked > 0 {
            rep.oracle_fail("(c16 probe alloc-free-pairs)", "a diplomat_alloc / diplomat_free pair does not release the block exactly once", json!({"released_twice": o.double_frees, "never_released": o.leaked}));
        }
    }
    // an owned view {NULL, 0} (what C hands over for an empty list) becomes an empty box: non-null and aligned for T
    {
        use diplomat_runtime::DiplomatOwnedSlice;
        fn null_box<T: std::fmt::Debug>(name: &str, rep: &mut Report) {
            #[repr(C)]
            struct Raw<T> { ptr: *mut T, len: usize }
            rep.oracle_runs += 1;
            rep.count("probe:owned-null-views");
            let v: DiplomatOwnedSlice<T> = unsafe { std::mem::transmute_copy(&Raw::<T> { ptr: std::ptr::null_mut(), len: 0 }) };
            let b: Box<[T]> = v.into();
            let addr = b.as_ptr() as usize;
            let (len, align) = (b.len(), std::mem::align_of::<T>());
            std::mem::forget(b); // an ill-formed box must not reach the allocator
            if len != 0 || addr == 0 || addr % align != 0 {
                rep.oracle_fail(&format!("(c16 probe owned-null-view {name})"), "an owned {NULL, 0} view does not become a valid empty box (non-null, aligned for the element type)", json!({"address": addr, "len": len, "align": align}));
            }
        }
        null_box::<u8>("u8", rep); null_box::<bool>("bool", rep); null_box::<u16>("u16", rep); null_box::<i16>("i16", rep);
        null_box::<u32>("u32", rep); null_box::<f32>("f32", rep); null_box::<u64>("u64", rep); null_box::<f64>("f64", rep);
        null_box::<usize>("usize", rep); null_box::<u128>("u128", rep);
        // … and the string flavour
        rep.oracle_runs += 1;
        let s: diplomat_runtime::DiplomatOwnedUTF8StrSlice = unsafe { std::mem::transmute_copy(&(std::ptr::null_mut::<u8>(), 0usize)) };
        let b: Box<str> = s.into();
        if !b.is_empty() || b.as_ptr().is_null() {
            rep.oracle_fail("(c16 probe owned-null-view str)", "an owned {NULL, 0} string view does not become a valid empty Box<str>", json!({"address": b.as_ptr() as usize, "len": b.len()}));
        }
        std::mem::forget(b);
    }
    for len in [0usize, 0, 1, 3, 17] {
        one::<u8>("u8", len, 0xA5, rep);
        one::<bool>("bool", len, true, rep);
        one::<u16>("u16", len, 0xBEEF, rep);
        one::<i16>("i16", len, -2, rep);
        one::<u32>("u32", len, 0xDEADBEEF, rep);
        one::<i32>("i32", len, -7, rep);
        one::<f32>("f32", len, 1.5, rep);
        one::<u64>("u64", len, u64::MAX - 1, rep);
        one::<i64>("i64", len, i64::MIN, rep);
        one::<f64>("f64", len, -0.25, rep);
        one::<usize>("usize", len, usize::MAX, rep);
        one::<u128>("u128", len, 1 << 100, rep);
    }
}

/// The views the JS runtime hands to Rust (`DiplomatBuf.str8 / str16 / slice / strs`), executed in Node over a real
/// `WebAssembly.Memory`: `(ptr, size)` must cover exactly the UTF-8 bytes / code units / elements of the JS value —
/// for every string, also ones cut through a surrogate pair (which encode as U+FFFD) — and the Rust side must accept
/// the bytes as a `str` (the real `diplomat_is_str`).
fn js_runtime_views_probe(rep: &mut Report) {
    let out = crate::tool::run_backend("#[diplomat::bridge]\nmod ffi { #[diplomat::opaque] pub struct O; impl O { pub fn f(&self, s: &DiplomatStr, t: &DiplomatStr16, l: &[u16]) {} } }", "js");
    let Some(rt) = out.files.get("diplomat-runtime.mjs") else { rep.notes.push("js runtime views: no diplomat-runtime.mjs".into()); return };
    let dir = util::workdir("c16-js");
    let _ = std::fs::remove_dir_all(&dir);
    std::fs::create_dir_all(&dir).unwrap();
    std::fs::write(dir.join("diplomat-runtime.mjs"), rt).unwrap();
    // strings as UTF-16 code unit lists, so that ill-formed ones survive the trip
    let mut strs: Vec<Vec<u16>> = vec![];
    let pieces: [&[u16]; 12] = [&[], &[0x61], &[0x7f], &[0x80], &[0x7ff], &[0x800], &[0xffff], &[0xd83d, 0xde00], &[0xd83d], &[0xde00], &[0xe9, 0x20ac], &[0x41, 0x42, 0x43]];
    for a in pieces { for b in pieces { for c in [&[][..], &[0x78][..], &[0xd83d][..], &[0x20ac][..]] {
        let mut v = a.to_vec(); v.extend_from_slice(b); v.extend_from_slice(c); strs.push(v);
    } } }
    strs.push("long enough to matter: ".encode_utf16().chain(std::iter::repeat(0xd83d).take(3)).chain("é€😀".encode_utf16()).collect());
    let js_strs = strs.iter().map(|u| format!("[{}]", u.iter().map(|x| x.to_string()).collect::<Vec<_>>().join(","))).collect::<Vec<_>>().join(",");
    let prog = format!(r#"import {{ DiplomatBuf }} from './diplomat-runtime.mjs';
const memory = new WebAssembly.Memory({{ initial: 8 }});
let top = 4096; const live = new Map();
const wasm = {{ memory,
  diplomat_alloc(size, align) {{ top = (top + align - 1) & ~(align - 1); const p = top; top += Math.max(size, 1) + 8; live.set(p, [size, align]); new Uint8Array(memory.buffer, p, size + 8).fill(0xCC); return p; }},
  diplomat_free(p, size, align) {{ const l = live.get(p); if (!l || l[0] !== size || l[1] !== align) console.log('badfree ' + p + ' ' + size + ' ' + align); live.delete(p); }} }};
const hex = (p, n) => Array.from(new Uint8Array(memory.buffer, p, n)).map(b => b.toString(16).padStart(2, '0')).join('');
const origAssert = console.assert; console.assert = (c, ...m) => {{ if (!c) console.log('assert ' + m.join(' ')); }};
const strs = [{js_strs}].map(u => String.fromCharCode(...u));
strs.forEach((s, i) => {{
  const b8 = DiplomatBuf.str8(wasm, s); console.log('str8 ' + i + ' ' + b8.size + ' ' + hex(b8.ptr, b8.size) + ' ' + hex(b8.ptr + b8.size, 2)); b8.free();
  const b16 = DiplomatBuf.str16(wasm, s); console.log('str16 ' + i + ' ' + b16.size + ' ' + (b16.ptr % 2) + ' ' + hex(b16.ptr, b16.size * 2)); b16.free();
}});
const lists = {{ u8: [0, 255, 7], i8: [-1, 127], boolean: [true, false, true], u16: [65535, 1], i16: [-2, 3], u32: [4294967295, 5], i32: [-9, 9], usize: [1, 2, 3], f32: [1.5, -0.25], f64: [1e300, -2], u64: [18446744073709551615n, 1n], i64: [-5n, 5n] }};
for (const [ty, l] of Object.entries(lists)) {{ for (const list of [l, []]) {{
  const b = DiplomatBuf.slice(wasm, list, ty); const es = ['u8','i8','boolean'].includes(ty) ? 1 : ['u16','i16'].includes(ty) ? 2 : ['u64','i64','f64'].includes(ty) ? 8 : 4;
  console.log('slice ' + ty + ' ' + b.size + ' ' + (b.ptr % es) + ' ' + hex(b.ptr, b.size * es)); b.free(); }} }}
for (const enc of ['string8', 'string16']) {{ const ss = ['a', '', 'é€', String.fromCharCode(0xd83d), '😀z'];
  const b = DiplomatBuf.strs(wasm, ss, enc); const w = new Uint32Array(memory.buffer, b.ptr, ss.length * 2);
  console.log('strs ' + enc + ' ' + b.size + ' ' + ss.map((_, i) => w[2 * i + 1] + ':' + hex(w[2 * i], w[2 * i + 1] * (enc === 'string16' ? 2 : 1))).join(',')); b.free(); }}
console.log('live ' + live.size);
"#);
    std::fs::write(dir.join("main.mjs"), prog).unwrap();
    let (ok, outp, err) = util::run(std::process::Command::new("node").arg(dir.join("main.mjs")));
    rep.oracle_runs += 1;
    if !ok {
        if err.contains("No such file") || err.contains("not found") { rep.notes.push("js runtime views: node not available".into()); return; }
        rep.oracle_fail("(c16 probe js-runtime-views)", "the JS runtime's buffer helpers throw", json!({"stderr": err.lines().take(6).collect::<Vec<_>>()}));
        return;
    }
    // the model of `str8` (JsStr.lean; Props/C16 proves its length is the encoder's and its bytes are a `str`)
    let mlines: Vec<String> = strs.iter().map(|u| format!("(str8 {})", u.iter().map(|x| x.to_string()).collect::<Vec<_>>().join(" "))).collect();
    let model: Vec<String> = match crate::model::run_model("C16", &mlines) {
        Ok(m) => m,
        Err(e) => { rep.disagree("js-str8", "model-driver", "", &e); vec![] }
    };
    // the model of `str16` (Props/C16: the view decodes to the string's units and the buffer is exactly that large)
    let mlines16: Vec<String> = strs.iter().map(|u| format!("(str16 {})", u.iter().map(|x| x.to_string()).collect::<Vec<_>>().join(" "))).collect();
    let model16: Vec<String> = match crate::model::run_model("C16", &mlines16) {
        Ok(m) => m,
        Err(e) => { rep.disagree("js-str16", "model-driver", "", &e); vec![] }
    };
    let hexs = |b: &[u8]| b.iter().map(|x| format!("{x:02x}")).collect::<String>();
    let unhex = |s: &str| (0..s.len() / 2).map(|i| u8::from_str_radix(&s[2 * i..2 * i + 2], 16).unwrap_or(0)).collect::<Vec<u8>>();
    let mut seen = 0;
    for l in outp.lines() {
        let f: Vec<&str> = l.split(' ').collect();
        match f[0] {
            "str8" => {
                let i: usize = f[1].parse().unwrap();
                let case = format!("(c16 probe js-str8 units={:?})", strs[i]);
                let want = String::from_utf16_lossy(&strs[i]).into_bytes();
                seen += 1;
                rep.count("probe:js-runtime-views");
                let got = unhex(f.get(3).unwrap_or(&""));
                if let Some(m) = model.get(i) {
                    rep.count("js-str8-model-tie");
                    let real = format!("{} {}", f[2], got.iter().map(|b| b.to_string()).collect::<Vec<_>>().join(" "));
                    if real.trim_end() != m.trim_end() {
                        rep.disagree(&mlines[i], "js-str8", real.trim_end(), m.trim_end());
                    }
                }
                if f[2] != want.len().to_string() || got != want {
                    rep.oracle_fail(&case, "the UTF-8 view the JS runtime hands to Rust does not cover exactly the string's bytes", json!({"size": f[2], "bytes": hexs(&got), "expected_size": want.len(), "expected_bytes": hexs(&want)}));
                } else if !real_is_str(&got) {
                    rep.oracle_fail(&case, "diplomat_is_str refuses the bytes the JS runtime wrote for a string", json!({"bytes": hexs(&got)}));
                }
                if f.get(4) != Some(&"cccc") {
                    rep.oracle_fail(&case, "the JS runtime wrote beyond the buffer it allocated for a string", json!({"after": f.get(4)}));
                }
            }
            "str16" => {
                let i: usize = f[1].parse().unwrap();
                seen += 1;
                let want: Vec<u8> = strs[i].iter().flat_map(|u| u.to_le_bytes()).collect();
                if let Some(m) = model16.get(i) {
                    rep.count("js-str16-model-tie");
                    let got = unhex(f.get(4).unwrap_or(&""));
                    let real = format!("{} {} {}", f[2], got.len(), got.iter().map(|b| b.to_string()).collect::<Vec<_>>().join(" "));
                    if real.trim_end() != m.trim_end() {
                        rep.disagree(&mlines16[i], "js-str16", real.trim_end(), m.trim_end());
                    }
                }
                if f[2] != strs[i].len().to_string() || f[3] != "0" || unhex(f.get(4).unwrap_or(&"")) != want {
                    rep.oracle_fail(&format!("(c16 probe js-str16 units={:?})", strs[i]), "the UTF-16 view the JS runtime hands to Rust is not the string's code units", json!({"line": l, "expected_bytes": hexs(&want)}));
                }
            }
            "slice" => {
                seen += 1;
                let empty = f[2] == "0";
                let want: &str = match (f[1], empty) { (_, true) => "", ("u8", _) => "00ff07", ("i8", _) => "ff7f", ("boolean", _) => "010001", ("u16", _) => "ffff0100", ("i16", _) => "feff0300", ("u32", _) => "ffffffff05000000", ("i32", _) => "f7ffffff09000000", ("usize", _) => "010000000200000003000000", ("f32", _) => "0000c03f000080be", ("f64", _) => "9c7500883ce4377e00000000000000c0", ("u64", _) => "ffffffffffffffff0100000000000000", ("i64", _) => "fbffffffffffffff0500000000000000", _ => "?" };
                if f[3] != "0" || f.get(4).copied().unwrap_or("") != want {
                    rep.oracle_fail(&format!("(c16 probe js-slice {} empty={empty})", f[1]), "the list view the JS runtime hands to Rust is not the elements in the element type's layout", json!({"line": l, "expected_bytes": want}));
                }
            }
            "strs" => {
                seen += 1;
                let want = if f[1] == "string8" { "1:61,0:,5:c3a9e282ac,3:efbfbd,5:f09f98807a" } else { "1:6100,0:,2:e900ac20,1:3dd8,3:3dd800de7a00" };
                if f[2] != "5" || f[3] != want {
                    rep.oracle_fail(&format!("(c16 probe js-strs {})", f[1]), "the list-of-strings view the JS runtime hands to Rust is wrong", json!({"line": l, "expected": want}));
                }
            }
            "live" => { seen += 1; if f[1] != "0" { rep.oracle_fail("(c16 probe js-runtime-views)", "buffers left allocated after free()", json!(l)); } }
            "badfree" => rep.oracle_fail("(c16 probe js-runtime-views)", "a buffer is freed with another size or alignment than it was allocated with", json!(l)),
            "assert" => {} // the runtime's own assertion; the comparison above decides
            _ => {}
        }
    }
    let expect = strs.len() * 2 + 24 + 2 + 1;
    if seen != expect {
        rep.oracle_fail("(c16 probe js-runtime-views)", "the Node run of the JS runtime helpers is incomplete", json!({"lines": seen, "expected": expect, "stderr": err.lines().take(4).collect::<Vec<_>>()}));
    }
}

pub fn main(args: &[String]) {
    let a = util::parse_args(args);
    let mut rep = Report::new("C16");
    let thorough = a.tier == "thorough";
    let mut rng = Rng::new(a.seed);
    if let Some(p) = util::arg_value(&a.rest, "--replay") {
        // replay: evaluate the named byte strings on all three (real, model, reference)
        let cases = util::replay_cases(&p);
        let lines: Vec<String> = cases.iter().filter(|c| c.starts_with("(utf8")).cloned().collect();
        if let Ok(model) = crate::model::run_model("C16", &lines) {
            for (l, m) in lines.iter().zip(model.iter()) {
                let bs: Vec<u8> = l.trim_start_matches("(utf8").trim_end_matches(')').split_whitespace().filter_map(|x| x.parse().ok()).collect();
                rep.case(l);
                let r = real_is_str(&bs);
                if r != reference_is_utf8(&bs) {
                    rep.oracle_fail(l, "diplomat_is_str-vs-unicode-definition", json!({"bytes": bs, "diplomat_is_str": r}));
                }
                if r.to_string() != *m {
                    rep.disagree(l, "utf8", &r.to_string(), m);
                }
            }
        }
        views_part(&mut rep, thorough);
        rep.print();
        return;
    }
    utf8_part(&mut rep, &mut rng, thorough);
    views_part(&mut rep, thorough);
    alloc_views_probe(&mut rep);
    js_runtime_views_probe(&mut rep);
    rep.print();
}
