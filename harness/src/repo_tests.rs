//! The repository's own bridges (`feature_tests`, `example`) as inputs, through the real command line:
//!  * both crates are built with the real proc macro (`cargo build -p diplomat-feature-tests -p diplomat-example`);
//!  * bindings are *regenerated* by the `diplomat-tool` binary with the crates' own `config.toml`;
//!  * the project's own C++ / C test programs (`feature_tests/cpp/tests/*.cpp`, `example/cpp/tests/*.cpp`,
//!    `example/c/main.c`, not part of the pinned cargo suite) are compiled against the regenerated headers and the freshly
//!    built static libraries and run: their author-written assertions must hold;
//!  * the symbols every backend's output refers to are looked up in the libraries (`nm`), and every method of the AST
//!    must be exported;
//!  * every backend has to terminate normally on both bridges.
use crate::report::Report;
use crate::util;
use serde_json::json;
use std::collections::{BTreeMap, BTreeSet};
use std::path::{Path, PathBuf};
use std::process::Command;

const REPO: &str = "/repo";

fn libs_dir() -> PathBuf {
    PathBuf::from(std::env::var("VERIF_REPO_LIBS").unwrap_or_else(|_| "/verif/harness/target/repo-libs".into()))
}

fn repo() -> String {
    std::env::var("VERIF_REPO").unwrap_or_else(|_| REPO.into())
}

/// build both crates (debug); `Err` with the diagnostics when the real macro's expansion no longer compiles
pub fn build_libs() -> Result<(PathBuf, PathBuf), String> {
    let out = Command::new("cargo")
        .args(["build", "--offline", "-p", "diplomat-feature-tests", "-p", "diplomat-example"])
        .current_dir(repo())
        .env("CARGO_TARGET_DIR", libs_dir())
        .env("CARGO_NET_OFFLINE", "true")
        .env_remove("RUSTFLAGS")
        .env_remove("CARGO_ENCODED_RUSTFLAGS")
        .output()
        .map_err(|e| e.to_string())?;
    if !out.status.success() {
        let err = String::from_utf8_lossy(&out.stderr);
        return Err(err.lines().filter(|l| l.contains("error")).take(6).collect::<Vec<_>>().join(" | "));
    }
    Ok((libs_dir().join("debug/libdiplomat_feature_tests.a"), libs_dir().join("debug/libdiplomat_example.a")))
}

/// run the real binary on one of the repository's bridges
pub fn generate(krate: &str, backend: &str, out: &Path) -> (Option<i32>, String) {
    let _ = std::fs::remove_dir_all(out);
    std::fs::create_dir_all(out).unwrap();
    let root = format!("{}/{krate}", repo());
    let mut cmd = Command::new(crate::tool::cli_path());
    cmd.arg(backend).arg(out).arg("--entry").arg(format!("{root}/src/lib.rs")).arg("-s").current_dir(&root);
    if Path::new(&format!("{root}/config.toml")).exists() {
        cmd.arg("--config-file").arg(format!("{root}/config.toml"));
    }
    match cmd.output() {
        Ok(o) => (o.status.code(), String::from_utf8_lossy(&o.stderr).chars().take(1200).collect()),
        Err(e) => (None, format!("cannot run {}: {e}", crate::tool::cli_path())),
    }
}

fn read_tree(root: &Path, dir: &Path, out: &mut BTreeMap<String, String>) {
    let Ok(rd) = std::fs::read_dir(dir) else { return };
    for e in rd.flatten() {
        let p = e.path();
        if p.is_dir() { read_tree(root, &p, out); } else if let Ok(t) = std::fs::read_to_string(&p) {
            out.insert(p.strip_prefix(root).unwrap().to_string_lossy().to_string(), t);
        }
    }
}

fn nm_symbols(lib: &Path) -> BTreeSet<String> {
    let (_ok, out, _) = util::run(Command::new("nm").args(["-g", "--defined-only"]).arg(lib));
    out.lines().filter_map(|l| l.split_whitespace().nth(2)).map(|s| s.to_string()).collect()
}

/// the project's own C++ and C test programs against regenerated bindings
pub fn native_tests(rep: &mut Report, cpp: bool, c: bool) {
    let case = "(repo-tests native)";
    let (ft, ex) = match build_libs() {
        Ok(x) => x,
        Err(e) => {
            rep.oracle_runs += 1;
            rep.oracle_fail(case, "the repository's own bridges do not build with the real proc macro", json!({"rustc": e}));
            return;
        }
    };
    let work = util::workdir(&format!("{}-repo-tests", rep.id));
    // (crate, library, test sources dir, programs: (file, std))
    let cpp_sets: [(&str, &Path, &str, &[(&str, &str)]); 2] = [
        ("feature_tests", &ft, "cpp/tests", &[("structs.cpp", "c++20"), ("result.cpp", "c++17"), ("option.cpp", "c++17"), ("attrs.cpp", "c++17"), ("callback.cpp", "c++17")]), // the language levels of the project's own Makefile
        ("example", &ex, "cpp/tests", &[("fixeddecimal.cpp", "c++17"), ("fixeddecimal.cpp", "c++20")]),
    ];
    if cpp {
        for (krate, lib, tests, progs) in cpp_sets {
            let dir = work.join(krate);
            let (code, err) = generate(krate, "cpp", &dir.join("include"));
            rep.oracle_runs += 1;
            if code != Some(0) {
                rep.oracle_fail(case, "the command line fails on the repository's own bridge", json!({"crate": krate, "backend": "cpp", "exit": code, "stderr": err.lines().take(5).collect::<Vec<_>>()}));
                continue;
            }
            let tdir = dir.join("tests");
            std::fs::create_dir_all(&tdir).unwrap();
            if let Ok(rd) = std::fs::read_dir(format!("{}/{krate}/{tests}", repo())) {
                for e in rd.flatten() { if e.path().is_file() { let _ = std::fs::copy(e.path(), tdir.join(e.file_name())); } }
            }
            for (file, std) in progs {
                let exe = tdir.join(format!("{}-{}.out", file.trim_end_matches(".cpp"), std.replace('+', "p")));
                rep.oracle_runs += 1;
                rep.count("repo-tests:cpp");
                let (ok, _o, e) = util::run(Command::new("g++").args([&format!("-std={std}"), "-w", &format!("tests/{file}")]).arg(lib).args(["-ldl", "-lpthread", "-lm", "-o"]).arg(&exe).current_dir(&dir));
                if !ok {
                    rep.oracle_fail(&format!("(repo-tests {krate} cpp {file} {std})"), "the repository's own C++ test does not compile against the regenerated bindings", json!({"diagnostics": e.lines().filter(|l| l.contains("error")).take(4).collect::<Vec<_>>()}));
                    continue;
                }
                match Command::new(&exe).current_dir(&dir).output() {
                    Ok(o) if o.status.success() => {}
                    Ok(o) => rep.oracle_fail(&format!("(repo-tests {krate} cpp {file} {std})"), "the repository's own C++ test fails against the regenerated bindings", json!({"status": format!("{}", o.status), "output": String::from_utf8_lossy(&o.stdout).lines().rev().take(6).collect::<Vec<_>>(), "stderr": String::from_utf8_lossy(&o.stderr).lines().take(6).collect::<Vec<_>>()})),
                    Err(e) => rep.oracle_fail(&format!("(repo-tests {krate} cpp {file} {std})"), "the test program could not be run", json!(e.to_string())),
                }
            }
        }
    }
    if c {
        let dir = work.join("example-c");
        let (code, err) = generate("example", "c", &dir.join("include"));
        rep.oracle_runs += 1;
        if code != Some(0) {
            rep.oracle_fail(case, "the command line fails on the repository's own bridge", json!({"crate": "example", "backend": "c", "exit": code, "stderr": err.lines().take(5).collect::<Vec<_>>()}));
        } else {
            let _ = std::fs::copy(format!("{}/example/c/main.c", repo()), dir.join("main.c"));
            rep.count("repo-tests:c");
            let (ok, _o, e) = util::run(Command::new("gcc").args(["-std=gnu11", "-w", "main.c"]).arg(&ex).args(["-ldl", "-lpthread", "-lm", "-o", "main.out"]).current_dir(&dir));
            if !ok {
                rep.oracle_fail("(repo-tests example c main.c)", "the repository's own C program does not compile against the regenerated headers", json!({"diagnostics": e.lines().filter(|l| l.contains("error")).take(4).collect::<Vec<_>>()}));
            } else {
                match Command::new(dir.join("main.out")).current_dir(&dir).output() {
                    Ok(o) if o.status.success() => {}
                    Ok(o) => rep.oracle_fail("(repo-tests example c main.c)", "the repository's own C program fails against the regenerated headers", json!({"status": format!("{}", o.status), "output": String::from_utf8_lossy(&o.stdout).lines().rev().take(6).collect::<Vec<_>>()})),
                    Err(e) => rep.oracle_fail("(repo-tests example c main.c)", "the program could not be run", json!(e.to_string())),
                }
            }
        }
    }
    let _ = std::fs::remove_dir_all(&work);
}

/// symbols: what every backend's output refers to is exported by the built library; every AST method is exported
pub fn symbols(rep: &mut Report) {
    let (ft, ex) = match build_libs() {
        Ok(x) => x,
        Err(e) => {
            rep.oracle_runs += 1;
            rep.oracle_fail("(repo-tests symbols)", "the repository's own bridges do not build with the real proc macro", json!({"rustc": e}));
            return;
        }
    };
    let work = util::workdir(&format!("{}-repo-syms", rep.id));
    for (krate, lib) in [("feature_tests", &ft), ("example", &ex)] {
        let exported = nm_symbols(lib);
        for backend in ["c", "cpp", "js", "dart", "kotlin", "nanobind"] {
            let out = work.join(format!("{krate}-{backend}"));
            let (code, err) = generate(krate, backend, &out);
            rep.oracle_runs += 1;
            rep.count("repo-tests:symbols");
            if code != Some(0) {
                rep.oracle_fail(&format!("(repo-tests symbols {krate} {backend})"), "the command line fails on the repository's own bridge", json!({"exit": code, "stderr": err.lines().take(5).collect::<Vec<_>>()}));
                continue;
            }
            let mut files = BTreeMap::new();
            read_tree(&out, &out, &mut files);
            let used = crate::c06::backend_symbols(backend, &files);
            let missing: Vec<&String> = used.iter().filter(|s| !exported.contains(*s)).take(8).collect();
            if !missing.is_empty() {
                rep.oracle_fail(&format!("(repo-tests symbols {krate} {backend})"), "backend refers to a symbol the built library does not export", json!({"backend": backend, "crate": krate, "symbols": missing}));
            }
        }
    }
    let _ = std::fs::remove_dir_all(&work);
}

/// every backend terminates normally on both bridges (configuration variants of the JS ABI included)
pub fn all_backends_terminate(rep: &mut Report) {
    let work = util::workdir(&format!("{}-repo-gen", rep.id));
    for krate in ["feature_tests", "example"] {
        for backend in ["c", "cpp", "js", "dart", "kotlin", "nanobind", "demo_gen"] {
            let (code, err) = generate(krate, backend, &work.join(format!("{krate}-{backend}")));
            rep.oracle_runs += 1;
            rep.count("repo-tests:generate");
            if code != Some(0) {
                rep.oracle_fail(&format!("(repo-tests generate {krate} {backend})"), "backend panicked on an accepted module", json!({"backend": backend, "crate": krate, "exit": code, "stderr": err.lines().filter(|l| l.contains("panicked") || l.contains("rror")).take(5).collect::<Vec<_>>()}));
            }
        }
    }
    let _ = std::fs::remove_dir_all(&work);
}

/// every generated header of both bridges compiles on its own (C11; C++17 and C++20), every JS module parses
pub fn headers_compile(rep: &mut Report) {
    let work = util::workdir(&format!("{}-repo-hdrs", rep.id));
    let mut jobs: Vec<(String, PathBuf, Vec<String>)> = vec![]; // (label, cwd, command)
    for krate in ["feature_tests", "example"] {
        for backend in ["c", "cpp", "js"] {
            let out = work.join(format!("{krate}-{backend}"));
            let (code, err) = generate(krate, backend, &out);
            rep.oracle_runs += 1;
            if code != Some(0) {
                rep.oracle_fail(&format!("(repo-tests headers {krate} {backend})"), "the command line fails on the repository's own bridge", json!({"exit": code, "stderr": err.lines().take(5).collect::<Vec<_>>()}));
                continue;
            }
            let mut files = BTreeMap::new();
            read_tree(&out, &out, &mut files);
            for name in files.keys() {
                let lbl = format!("(repo-tests {krate} {backend} {name})");
                match backend {
                    "c" if name.ends_with(".h") => jobs.push((lbl, out.clone(), vec!["gcc".into(), "-std=c11".into(), "-fsyntax-only".into(), "-Wno-pragma-once-outside-header".into(), "-x".into(), "c".into(), "-I".into(), ".".into(), name.clone()])),
                    "cpp" if name.ends_with(".hpp") => {
                        for std in ["c++17", "c++20"] {
                            jobs.push((format!("{lbl} {std}"), out.clone(), vec!["g++".into(), format!("-std={std}"), "-fsyntax-only".into(), "-Wno-pragma-once-outside-header".into(), "-x".into(), "c++".into(), "-I".into(), ".".into(), name.clone()]));
                        }
                    }
                    "js" if name.ends_with(".mjs") && name != "diplomat-wasm.mjs" => jobs.push((lbl, out.clone(), vec!["node".into(), "--check".into(), name.clone()])),
                    _ => {}
                }
            }
        }
    }
    rep.count_n("repo-tests:header-compiles", jobs.len());
    let q = std::sync::Mutex::new(jobs);
    let fails: std::sync::Mutex<Vec<(String, String, String)>> = std::sync::Mutex::new(vec![]);
    let n = std::sync::atomic::AtomicUsize::new(0);
    std::thread::scope(|s| {
        for _ in 0..12 {
            s.spawn(|| loop {
                let job = { q.lock().unwrap().pop() };
                let Some((lbl, cwd, cmd)) = job else { break };
                let (ok, _o, e) = util::run(Command::new(&cmd[0]).args(&cmd[1..]).current_dir(&cwd));
                n.fetch_add(1, std::sync::atomic::Ordering::Relaxed);
                if !ok {
                    fails.lock().unwrap().push((lbl, cmd.join(" "), e.lines().filter(|l| l.contains("error") || l.contains("Error")).take(3).collect::<Vec<_>>().join(" | ")));
                }
            });
        }
    });
    rep.oracle_runs += n.load(std::sync::atomic::Ordering::Relaxed);
    for (lbl, cmd, e) in fails.into_inner().unwrap() {
        rep.oracle_fail(&lbl, "a generated file of the repository's own bridge is not well-formed on its own", json!({"command": cmd, "diagnostics": e}));
    }
    let _ = std::fs::remove_dir_all(&work);
}
