mod alloctrack;
mod c01;
mod c02;
mod c03;
mod c04;
mod c05;
mod c06;
mod c07;
mod c08;
mod jsexec;
mod c09;
mod c10;
mod c11;
mod c12;
mod c13;
mod c14;
mod c15;
mod c16;
mod c17;
mod expand;
mod cppdrv;
mod e2e;
mod extras;
mod extract;
mod model;
mod repo_tests;
mod report;
mod rng;
mod tool;
mod tygen;
mod util;

#[global_allocator]
static ALLOC: alloctrack::Tracking = alloctrack::Tracking;

fn main() {
    let args: Vec<String> = std::env::args().skip(1).collect();
    if args.is_empty() {
        eprintln!("usage: vharness <ID|extract> [--seed N] [--n N] [--tier quick|thorough]");
        std::process::exit(2);
    }
    tool::install_panic_hook();
    match args[0].as_str() {
        "extract" => extract::main(&args[1..]),
        // debugging aid: `vharness run-file <target> <lib.rs> [outdir]` runs one backend on one file
        "run-file" => {
            let src = std::fs::read_to_string(&args[2]).expect("read input");
            let o = tool::run_backend(&src, &args[1]);
            println!("parse_error={:?}\npanic={:?}\nlowering_errors={:#?}\nbackend_errors={:#?}\nfiles={:?}", o.parse_error, o.panic, o.lowering_errors, o.backend_errors, o.files.keys().collect::<Vec<_>>());
            if let Some(dir) = args.get(3) {
                for (name, text) in &o.files {
                    let p = std::path::Path::new(dir).join(name);
                    std::fs::create_dir_all(p.parent().unwrap()).unwrap();
                    std::fs::write(p, text).unwrap();
                }
            }
        }
        "C01" => c01::main(&args[1..]),
        "C02" => c02::main(&args[1..]),
        "C03" => c03::main(&args[1..]),
        "C04" => c04::main(&args[1..]),
        "C05" => c05::main(&args[1..]),
        "C06" => c06::main(&args[1..]),
        "C07" => c07::main(&args[1..]),
        "C08" => c08::main(&args[1..]),
        "C09" => c09::main(&args[1..]),
        "C10" => c10::main(&args[1..]),
        "C11" => c11::main(&args[1..]),
        "C12" => c12::main(&args[1..]),
        "C13" => c13::main(&args[1..]),
        "C14" => c14::main(&args[1..]),
        "C14-child" => c14::child(&args[1..]),
        "C03-growth-child" => c03::growth_child(),
        "C12-cpp-child" => c12::cpp_child(&args[1..]),
        "C16-alloc-child" => c16::alloc_child(),
        "C15" => c15::main(&args[1..]),
        "C16" => c16::main(&args[1..]),
        "C17" => c17::main(&args[1..]),
        o => {
            eprintln!("unknown subcommand {o}");
            std::process::exit(2);
        }
    }
}
