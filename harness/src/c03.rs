//! C03 — exactly-once destruction: random create / convert / clone / borrow / drop histories over the real
//! runtime types (DiplomatResult, DiplomatOption, DiplomatOwnedSlice, DiplomatCallback) and over an opaque
//! exported through the real `#[diplomat::bridge]` macro (its generated `_destroy`), with drop-logging
//! payloads; the drop log is compared with the Lean ledger, and "each payload exactly once" is the oracle.
use crate::report::Report;
use crate::rng::Rng;
use crate::util;
use diplomat_runtime::{DiplomatCallback, DiplomatOption, DiplomatOwnedSlice, DiplomatResult};
use serde_json::json;
use std::ffi::c_void;
use std::sync::atomic::{AtomicU32, Ordering};
use std::sync::Mutex;

static LOG: Mutex<Vec<u32>> = Mutex::new(Vec::new());
static NEXT: AtomicU32 = AtomicU32::new(0);

#[derive(Debug)]
pub struct D(pub u32);
impl D {
    fn fresh() -> D {
        D(NEXT.fetch_add(1, Ordering::SeqCst))
    }
}
impl Drop for D {
    fn drop(&mut self) {
        LOG.lock().unwrap().push(self.0);
    }
}
impl Clone for D {
    fn clone(&self) -> Self {
        D::fresh()
    }
}

/// an opaque exported through the real proc macro; `Dr_destroy` is the generated destructor
#[diplomat::bridge]
mod ffi {
    #[diplomat::opaque]
    pub struct Dr(pub(crate) super::D);
    impl Dr {
        pub fn make() -> Box<Dr> {
            Box::new(Dr(super::D::fresh()))
        }
        pub fn id(&self) -> u32 {
            self.0 .0
        }
        pub fn try_make(ok: bool) -> Result<Box<Dr>, ()> {
            if ok { Ok(Box::new(Dr(super::D::fresh()))) } else { Err(()) }
        }
        pub fn maybe(some: bool) -> Option<Box<Dr>> {
            if some { Some(Box::new(Dr(super::D::fresh()))) } else { None }
        }
    }
}

// the generated `extern "C"` functions are private to the bridge module; call them as C would, by symbol
#[allow(improper_ctypes)]
extern "C" {
    fn Dr_make() -> Box<ffi::Dr>;
    fn Dr_id(this: &ffi::Dr) -> u32;
    fn Dr_try_make(ok: bool) -> DiplomatResult<Box<ffi::Dr>, ()>;
    fn Dr_destroy(this: Box<ffi::Dr>);
}

/// Rust-owned write buffers created with room to spare and then outgrown: no write may land beyond the capacity the
/// buffer has at that moment (`len <= cap` throughout, contents exact) — the grid covers empty, partly filled and
/// exactly full buffers at the moment of growth.
fn write_growth_probe(rep: &mut Report) {
    // in a child process: a heap overrun may well kill the process instead of being observed
    let exe = std::env::current_exe().unwrap();
    let out = std::process::Command::new(exe).arg("C03-growth-child").output();
    rep.oracle_runs += 1;
    match out {
        Err(e) => rep.notes.push(format!("write-growth probe could not be started: {e}")),
        Ok(o) => {
            let text = String::from_utf8_lossy(&o.stdout);
            let mut last = String::new();
            for l in text.lines() {
                if let Some(c) = l.strip_prefix("case ") { last = c.to_string(); rep.count("probe:write-growth"); }
                if let Some(f) = l.strip_prefix("fail ") {
                    rep.oracle_fail(&format!("(c03 probe write-growth {last})"), "a write into a Rust-owned buffer goes wrong after growth", json!({"detail": f}));
                }
            }
            if !o.status.success() {
                rep.oracle_fail(&format!("(c03 probe write-growth {last})"), "the process died while writing into a Rust-owned buffer that had to grow (memory error)", json!({"status": format!("{}", o.status), "stderr": String::from_utf8_lossy(&o.stderr).lines().take(4).collect::<Vec<_>>()}));
            }
        }
    }
}

pub fn growth_child() {
    let pieces = ["", "a", "hello", "world!", "0123456789abcdef", "a-much-longer-piece-than-anything-written-before-it-0123456789"];
    for cap in [0usize, 1, 3, 5, 8, 10, 16, 64] {
        for a in pieces {
            for b in pieces {
                for c in ["", "tail"] {
                    println!("case cap={cap} pieces={a:?},{b:?},{c:?}");
                    let case = crate::c12::Case::Rust { cap, chunks: vec![a.to_string(), b.to_string(), c.to_string()] };
                    let (_line, fails) = crate::c12::run_real(&case);
                    for (what, detail) in fails {
                        println!("fail {what} {detail}");
                    }
                }
            }
        }
    }
    // single characters (they travel through `write_char`) of every encoded width against nearly-full buffers:
    // Rust-owned buffers of every small capacity, and fixed caller buffers with guard bytes behind them
    let chars = ["x", "é", "€", "𝄞"];
    for cap in 0usize..=12 {
        for fill in ["", "a", "ab", "abc", "abcdefg"] {
            for c1 in chars {
                for c2 in chars {
                    println!("case cap={cap} pieces={fill:?},{c1:?},{c2:?}");
                    for case in [
                        crate::c12::Case::Rust { cap, chunks: vec![fill.to_string(), c1.to_string(), c2.to_string()] },
                        crate::c12::Case::Simple { size: cap + 1, chunks: vec![fill.to_string(), c1.to_string(), c2.to_string()] },
                        crate::c12::Case::Foreign { cap, init: String::new(), chunks: vec![fill.to_string(), c1.to_string(), c2.to_string()], answers: vec![Some(0), None] },
                    ] {
                        let (_line, fails) = crate::c12::run_real(&case);
                        for (what, detail) in fails {
                            println!("fail {what} {detail}");
                        }
                    }
                }
            }
        }
    }
}

/// Results and options whose two arms differ in whether they own anything: only one arm has drop glue. Whatever the
/// state, dropping or converting the value releases exactly the payload it holds, once.
fn asymmetric_payload_probe(rep: &mut Report) {
    fn run(name: &str, expect: usize, f: impl FnOnce(), rep: &mut Report) {
        LOG.lock().unwrap().clear();
        f();
        let log = LOG.lock().unwrap().clone();
        rep.oracle_runs += 1;
        rep.count("probe:asymmetric-payloads");
        let mut uniq = log.clone();
        uniq.sort();
        uniq.dedup();
        if log.len() != expect || uniq.len() != log.len() {
            rep.oracle_fail(&format!("(c03 probe {name})"), "a payload held by a runtime result/option type is not released exactly once", json!({"expected_drops": expect, "drop_log": log}));
        }
    }
    run("drop DiplomatResult<u32, D> holding Err", 1, || { let r: DiplomatResult<u32, D> = Err::<u32, D>(D::fresh()).into(); drop(r); }, rep);
    run("drop DiplomatResult<u32, D> holding Ok", 0, || { let r: DiplomatResult<u32, D> = Ok::<u32, D>(7).into(); drop(r); }, rep);
    run("drop DiplomatResult<D, u32> holding Ok", 1, || { let r: DiplomatResult<D, u32> = Ok::<D, u32>(D::fresh()).into(); drop(r); }, rep);
    run("drop DiplomatResult<D, u32> holding Err", 0, || { let r: DiplomatResult<D, u32> = Err::<D, u32>(7).into(); drop(r); }, rep);
    run("drop DiplomatResult<(), D> holding Err", 1, || { let r: DiplomatResult<(), D> = Err::<(), D>(D::fresh()).into(); drop(r); }, rep);
    run("drop DiplomatResult<D, ()> holding Ok", 1, || { let r: DiplomatResult<D, ()> = Ok::<D, ()>(D::fresh()).into(); drop(r); }, rep);
    run("drop DiplomatResult<Box<D>, D> holding Err", 1, || { let r: DiplomatResult<Box<D>, D> = Err::<Box<D>, D>(D::fresh()).into(); drop(r); }, rep);
    run("drop DiplomatOption<D> holding Some", 1, || { let r: DiplomatOption<D> = Some(D::fresh()).into(); drop(r); }, rep);
    run("convert DiplomatResult<u32, D> holding Err, then drop", 1, || { let r: DiplomatResult<u32, D> = Err::<u32, D>(D::fresh()).into(); let s: Result<u32, D> = r.into(); drop(s); }, rep);
    run("convert DiplomatResult<D, u32> holding Ok, then drop", 1, || { let r: DiplomatResult<D, u32> = Ok::<D, u32>(D::fresh()).into(); let s: Result<D, u32> = r.into(); drop(s); }, rep);
    run("clone DiplomatResult<u32, D> holding Err, drop both", 2, || { let r: DiplomatResult<u32, D> = Err::<u32, D>(D::fresh()).into(); let c = r.clone(); drop(r); drop(c); }, rep);
}

enum Obj {
    DipRes(DiplomatResult<D, D>),
    StdRes(Result<D, D>),
    DipOpt(DiplomatOption<D>),
    StdOpt(Option<D>),
    Owned(DiplomatOwnedSlice<D>),
    BoxSlice(Box<[D]>),
    Callback(DiplomatCallback<()>),
    Opaque(Box<ffi::Dr>),
    FfiResOpaque(DiplomatResult<Box<ffi::Dr>, ()>),
    StdResOpaque(Result<Box<ffi::Dr>, ()>),
}

unsafe extern "C" fn cb_destructor(data: *mut c_void) {
    drop(Box::from_raw(data as *mut D));
}
unsafe extern "C" fn cb_run(_data: *mut c_void) {}

#[derive(Clone, Debug)]
pub enum Kind { ResOk, ResErr, OptSome, OptNone, Owned(usize), BoxSlice(usize), CallbackWithDtor, CallbackNoDtor, Opaque, FfiTryOk, FfiTryErr }

#[derive(Clone, Debug)]
pub enum Op { Create(Kind), Convert(usize), Clone(usize), Borrow(usize), Drop(usize) }

fn n_payloads(k: &Kind) -> usize {
    match k {
        Kind::ResOk | Kind::ResErr | Kind::OptSome | Kind::CallbackWithDtor | Kind::Opaque | Kind::FfiTryOk => 1,
        Kind::OptNone | Kind::CallbackNoDtor | Kind::FfiTryErr => 0,
        Kind::Owned(n) | Kind::BoxSlice(n) => *n,
    }
}

fn create(k: &Kind) -> Obj {
    match k {
        Kind::ResOk => Obj::DipRes(Ok::<D, D>(D::fresh()).into()),
        Kind::ResErr => Obj::StdRes(Err(D::fresh())),
        Kind::OptSome => Obj::DipOpt(Some(D::fresh()).into()),
        Kind::OptNone => Obj::StdOpt(None),
        Kind::Owned(n) => Obj::Owned((0..*n).map(|_| D::fresh()).collect::<Vec<_>>().into_boxed_slice().into()),
        Kind::BoxSlice(n) => Obj::BoxSlice((0..*n).map(|_| D::fresh()).collect::<Vec<_>>().into_boxed_slice()),
        Kind::CallbackWithDtor => {
            let data = Box::into_raw(Box::new(D::fresh())) as *mut c_void;
            Obj::Callback(DiplomatCallback { data, run_callback: unsafe { std::mem::transmute(cb_run as unsafe extern "C" fn(*mut c_void)) }, destructor: Some(cb_destructor) })
        }
        Kind::CallbackNoDtor => Obj::Callback(DiplomatCallback { data: std::ptr::null_mut(), run_callback: unsafe { std::mem::transmute(cb_run as unsafe extern "C" fn(*mut c_void)) }, destructor: None }),
        Kind::Opaque => Obj::Opaque(unsafe { Dr_make() }),
        Kind::FfiTryOk => Obj::FfiResOpaque(unsafe { Dr_try_make(true) }),
        Kind::FfiTryErr => Obj::FfiResOpaque(unsafe { Dr_try_make(false) }),
    }
}

fn convertible(o: &Obj) -> bool { !matches!(o, Obj::Callback(_) | Obj::Opaque(_)) }
fn clonable(o: &Obj) -> bool { matches!(o, Obj::DipRes(_) | Obj::StdRes(_) | Obj::DipOpt(_) | Obj::StdOpt(_) | Obj::BoxSlice(_)) }

fn convert(o: Obj) -> Obj {
    match o {
        Obj::DipRes(r) => Obj::StdRes(r.into()),
        Obj::StdRes(r) => Obj::DipRes(r.into()),
        Obj::DipOpt(r) => Obj::StdOpt(r.into_option()),
        Obj::StdOpt(r) => Obj::DipOpt(r.into()),
        Obj::Owned(s) => Obj::BoxSlice(s.into()),
        Obj::BoxSlice(b) => Obj::Owned(b.into()),
        Obj::FfiResOpaque(r) => Obj::StdResOpaque(r.into()),
        Obj::StdResOpaque(r) => Obj::FfiResOpaque(r.into()),
        o => o,
    }
}

fn clone_obj(o: &Obj) -> Obj {
    match o {
        Obj::DipRes(r) => Obj::DipRes(r.clone()),
        Obj::StdRes(r) => Obj::StdRes(r.clone()),
        Obj::DipOpt(r) => Obj::DipOpt(r.clone()),
        Obj::StdOpt(r) => Obj::StdOpt(r.clone()),
        Obj::BoxSlice(b) => Obj::BoxSlice(b.clone()),
        _ => unreachable!(),
    }
}

fn borrow(o: &Obj) -> usize {
    match o {
        Obj::DipRes(r) => match r.as_ref() { Ok(d) => d.0 as usize, Err(d) => d.0 as usize },
        Obj::DipOpt(r) => r.as_ref().map(|d| d.0 as usize).unwrap_or(0),
        Obj::Owned(s) => s.len(),
        Obj::BoxSlice(s) => s.len(),
        Obj::Opaque(b) => (unsafe { Dr_id(b) }) as usize,
        _ => 0,
    }
}

fn drop_obj(o: Obj) {
    match o {
        // the foreign side releases an opaque through the generated destructor
        Obj::Opaque(b) => unsafe { Dr_destroy(b) },
        other => drop(other),
    }
}

#[derive(Clone, Copy, PartialEq)]
enum Shadow { Res, Opt, Owned, BoxSlice, Cb, Opaque, FfiRes }

fn gen_history(rng: &mut Rng, max_len: usize) -> Vec<Op> {
    // a shadow of which handles are live and of which kind, so that only expressible operations are generated
    let mut live: Vec<(usize, Shadow)> = vec![];
    let mut next_h = 0;
    let mut ops = vec![];
    let len = rng.below(max_len + 1);
    for _ in 0..len {
        let choice = rng.below(10);
        if live.is_empty() || choice < 3 {
            let (k, sh) = match rng.below(11) {
                0 => (Kind::ResOk, Shadow::Res), 1 => (Kind::ResErr, Shadow::Res), 2 => (Kind::OptSome, Shadow::Opt), 3 => (Kind::OptNone, Shadow::Opt),
                4 => (Kind::Owned(rng.below(4)), Shadow::Owned), 5 => (Kind::BoxSlice(rng.below(4)), Shadow::BoxSlice),
                6 => (Kind::CallbackWithDtor, Shadow::Cb), 7 => (Kind::CallbackNoDtor, Shadow::Cb), 8 => (Kind::Opaque, Shadow::Opaque),
                9 => (Kind::FfiTryOk, Shadow::FfiRes), _ => (Kind::FfiTryErr, Shadow::FfiRes),
            };
            live.push((next_h, sh));
            next_h += 1;
            ops.push(Op::Create(k));
            continue;
        }
        let i = rng.below(live.len());
        let (h, sh) = live[i];
        let conv = !matches!(sh, Shadow::Cb | Shadow::Opaque);
        let clon = matches!(sh, Shadow::Res | Shadow::Opt | Shadow::BoxSlice);
        match choice {
            3 | 4 | 5 if conv => {
                live.remove(i);
                let nsh = match sh { Shadow::Owned => Shadow::BoxSlice, Shadow::BoxSlice => Shadow::Owned, o => o };
                live.push((next_h, nsh));
                next_h += 1;
                ops.push(Op::Convert(h));
            }
            6 if clon => {
                live.push((next_h, sh));
                next_h += 1;
                ops.push(Op::Clone(h));
            }
            7 => ops.push(Op::Borrow(h)),
            _ => {
                live.remove(i);
                ops.push(Op::Drop(h));
            }
        }
    }
    ops
}

fn sexp(ops: &[Op]) -> String {
    let parts: Vec<String> = ops.iter().map(|o| match o {
        Op::Create(k) => format!("(create {})", n_payloads(k)),
        Op::Convert(h) => format!("(convert {h})"),
        Op::Clone(h) => format!("(clone {h})"),
        Op::Borrow(h) => format!("(borrow {h})"),
        Op::Drop(h) => format!("(drop {h})"),
    }).collect();
    format!("(own {})", parts.join(" "))
}

/// runs the history on the real types; returns (drop log, number of payloads created)
fn run_real(ops: &[Op]) -> (Vec<u32>, u32) {
    LOG.lock().unwrap().clear();
    NEXT.store(0, Ordering::SeqCst);
    let mut objs: Vec<Option<Obj>> = vec![];
    for op in ops {
        match op {
            Op::Create(k) => objs.push(Some(create(k))),
            Op::Convert(h) => {
                let o = objs[*h].take().unwrap();
                // a clonable-but-not-convertible shape cannot occur; BoxSlice clone keeps kind
                let n = if convertible(&o) { convert(o) } else { o };
                objs.push(Some(n));
            }
            Op::Clone(h) => {
                let c = { let o = objs[*h].as_ref().unwrap(); if clonable(o) { Some(clone_obj(o)) } else { None } };
                objs.push(c);
            }
            Op::Borrow(h) => { let _ = borrow(objs[*h].as_ref().unwrap()); }
            Op::Drop(h) => drop_obj(objs[*h].take().unwrap()),
        }
    }
    // release everything still alive, in handle order
    for o in objs.iter_mut() {
        if let Some(x) = o.take() { drop_obj(x); }
    }
    let log = LOG.lock().unwrap().clone();
    (log, NEXT.load(Ordering::SeqCst))
}

/// the generated C++ wrapper releases opaques through the same destroy function
fn cpp_delete_fragment(rep: &mut Report) {
    let o = crate::tool::run_backend("#[diplomat::bridge]\nmod ffi { #[diplomat::opaque] pub struct Dr; impl Dr { pub fn make() -> Box<Dr> { unimplemented!() } } }", "cpp");
    let want = "inline void Dr::operator delete(void* ptr) { diplomat::capi::Dr_destroy(reinterpret_cast<diplomat::capi::Dr*>(ptr)); }";
    match o.files.get("Dr.hpp") {
        Some(t) if crate::tool::norm_ws(t).contains(want) => rep.count("cpp_operator_delete_fragment"),
        _ => rep.disagree("cpp-operator-delete", "fragment", "Dr.hpp does not route operator delete to Dr_destroy as modelled", want),
    }
}


/// Owned buffers that cross as plain memory (no `Drop` of their own to log): every conversion between the owned
/// slice wrappers and `Box<[T]>` / `Box<str>`, and every way of letting go of them, releases each allocation exactly
/// once.  Counted by the harness's own allocator while the conversions run.

/// A foreign trait object (`impl Trait` parameter: a data pointer and a vtable with a destructor) is owned by the
/// Rust side once passed in: whether Rust only borrows it, drops it, or consumes it through a by-value trait method,
/// its destructor runs exactly once.  A small binary built with the real proc macro plays the foreign side with a
/// counting vtable and prints the counts.
fn trait_object_probe(rep: &mut Report) {
    const MAIN: &str = r#"#![allow(warnings)]
use core::ffi::c_void;
use std::sync::atomic::{AtomicUsize, Ordering::SeqCst};
#[diplomat::bridge]
mod ffi {
    pub trait Job {
        fn step(&self, x: i32) -> i32;
        fn finish(self, x: i32) -> i32;
    }
    pub struct Runner { pub n: i32 }
    impl Runner {
        pub fn borrow_only(j: impl Job, x: i32) -> i32 { j.step(x) }
        pub fn run_to_completion(j: impl Job, x: i32) -> i32 { let a = j.step(x); a + j.finish(x) }
        pub fn drop_unused(j: impl Job) -> i32 { 0 }
    }
}
static DROPS: AtomicUsize = AtomicUsize::new(0);
static STEPS: AtomicUsize = AtomicUsize::new(0);
static FINISHES: AtomicUsize = AtomicUsize::new(0);
unsafe extern "C" fn destroy(_d: *const c_void) { DROPS.fetch_add(1, SeqCst); }
unsafe extern "C" fn step(_d: *const c_void, x: i32) -> i32 { STEPS.fetch_add(1, SeqCst); x + 1 }
unsafe extern "C" fn finish(_d: *const c_void, x: i32) -> i32 { FINISHES.fetch_add(1, SeqCst); x * 2 }
#[repr(C)]
struct Raw { data: *const c_void, vtable: ffi::Job_VTable }
fn job() -> ffi::DiplomatTraitStruct_Job {
    let raw = Raw { data: 8 as *const c_void, vtable: ffi::Job_VTable { destructor: Some(destroy), size: 0, alignment: 1, run_step_callback: step, run_finish_callback: finish } };
    unsafe { core::mem::transmute(raw) }
}
fn counts(tag: &str, v: i32) { println!("{tag} value={v} drops={} steps={} finishes={}", DROPS.swap(0, SeqCst), STEPS.swap(0, SeqCst), FINISHES.swap(0, SeqCst)); }
fn main() {
    let v = ffi::Runner::borrow_only(job(), 4); counts("borrow_only", v);
    let v = ffi::Runner::run_to_completion(job(), 4); counts("run_to_completion", v);
    let v = ffi::Runner::drop_unused(job()); counts("drop_unused", v);
    { let j = job(); let v = ffi::Job::finish(j, 3); counts("finish_direct", v); }
}
"#;
    const EXPECT: &str = "borrow_only value=5 drops=1 steps=1 finishes=0\nrun_to_completion value=13 drops=1 steps=1 finishes=1\ndrop_unused value=0 drops=1 steps=0 finishes=0\nfinish_direct value=6 drops=1 steps=0 finishes=1\n";
    let label = "(c03 probe trait-objects)";
    rep.oracle_runs += 1;
    rep.count("probe:trait-objects");
    let d = crate::e2e::crate_dir("C03t");
    std::fs::create_dir_all(d.join("src")).unwrap();
    let toml = "[package]\nname = \"vtrait\"\nversion = \"0.1.0\"\nedition = \"2021\"\n\n[workspace]\n\n[dependencies]\ndiplomat = { path = \"/repo/macro\" }\ndiplomat-runtime = { path = \"/repo/runtime\" }\n";
    std::fs::write(d.join("Cargo.toml"), toml).unwrap();
    let _ = std::fs::copy("/repo/Cargo.lock", d.join("Cargo.lock"));
    std::fs::write(d.join("src/main.rs"), MAIN).unwrap();
    let (ok, out, e) = util::run(std::process::Command::new("cargo").args(["run", "--offline", "--quiet", "--message-format=short"]).env("CARGO_TARGET_DIR", d.join("target")).env_remove("RUSTFLAGS").env("CARGO_ENCODED_RUSTFLAGS", "").current_dir(&d));
    if !ok {
        rep.oracle_fail(label, "the trait-object probe does not build or run with the real proc macro", json!({"diagnostics": e.lines().filter(|l| l.contains("error") || l.contains("panicked")).take(5).collect::<Vec<_>>()}));
        return;
    }
    if out != EXPECT {
        let diffs: Vec<String> = EXPECT.lines().zip(out.lines()).filter(|(a, b)| a != b).map(|(a, b)| format!("expected `{a}`, got `{b}`")).collect();
        rep.oracle_fail(label, "a foreign trait object handed to Rust is not destroyed exactly once", json!({"differences": diffs, "source": MAIN}));
    }
}

fn owned_buffer_probe(rep: &mut Report) {
    use diplomat_runtime::{DiplomatOwnedSlice, DiplomatOwnedStr16Slice, DiplomatOwnedStrSlice, DiplomatOwnedUTF8StrSlice};
    let mut run = |name: &str, f: &dyn Fn(), rep: &mut Report| {
        let o = crate::alloctrack::tracked(f);
        rep.oracle_runs += 1;
        rep.count("probe:owned-buffers");
        if o.double_frees > 0 || o.leaked > 0 {
            rep.oracle_fail(&format!("(c03 probe owned-buffer {name})"), "an owned buffer is not released exactly once", json!({"released_twice": o.double_frees, "never_released": o.leaked}));
        }
        if o.overflow > 0 { rep.notes.push(format!("owned-buffer probe {name}: tracking table overflow")); }
    };
    for text in ["", "a", "héllo wörld", "a string long enough not to fit any small buffer at all, 0123456789"] {
        let t = text.to_string();
        run(&format!("Box<str> -> utf8 slice -> Box<str> len={}", t.len()), &|| {
            let b: Box<str> = t.clone().into_boxed_str();
            let s: DiplomatOwnedUTF8StrSlice = b.into();
            let back: Box<str> = s.into();
            assert_eq!(&*back, t.as_str());
            drop(back);
        }, rep);
        run(&format!("Box<str> -> utf8 slice dropped len={}", t.len()), &|| {
            let s: DiplomatOwnedUTF8StrSlice = t.clone().into_boxed_str().into();
            assert_eq!(&*s, t.as_str());
            drop(s);
        }, rep);
        run(&format!("Box<[u8]> -> str slice -> Box<[u8]> len={}", t.len()), &|| {
            let s: DiplomatOwnedStrSlice = t.clone().into_bytes().into_boxed_slice().into();
            let back: Box<[u8]> = s.into();
            assert_eq!(&*back, t.as_bytes());
        }, rep);
        run(&format!("Box<[u16]> -> str16 slice -> Box<[u16]> len={}", t.len()), &|| {
            let u: Vec<u16> = t.encode_utf16().collect();
            let s: DiplomatOwnedStr16Slice = u.clone().into_boxed_slice().into();
            let back: Box<[u16]> = s.into();
            assert_eq!(&*back, &u[..]);
        }, rep);
        run(&format!("Box<[u16]> -> str16 slice dropped len={}", t.len()), &|| {
            let s: DiplomatOwnedStr16Slice = t.encode_utf16().collect::<Vec<u16>>().into_boxed_slice().into();
            drop(s);
        }, rep);
    }
    for n in [0usize, 1, 5, 300] {
        run(&format!("Box<[f64]> -> owned slice -> Box<[f64]> len={n}"), &|| {
            let v: Vec<f64> = (0..n).map(|i| i as f64).collect();
            let s: DiplomatOwnedSlice<f64> = v.clone().into_boxed_slice().into();
            let back: Box<[f64]> = s.into();
            assert_eq!(&*back, &v[..]);
        }, rep);
        run(&format!("Box<[String]> -> owned slice dropped len={n}"), &|| {
            let v: Vec<String> = (0..n).map(|i| format!("element number {i} with its own allocation")).collect();
            let s: DiplomatOwnedSlice<String> = v.into_boxed_slice().into();
            drop(s);
        }, rep);
        run(&format!("Box<[String]> -> owned slice -> Box<[String]> len={n}"), &|| {
            let v: Vec<String> = (0..n).map(|i| format!("element number {i} with its own allocation")).collect();
            let s: DiplomatOwnedSlice<String> = v.into_boxed_slice().into();
            let back: Box<[String]> = s.into();
            assert_eq!(back.len(), n);
        }, rep);
    }
}

pub fn main(args: &[String]) {
    let a = util::parse_args(args);
    let mut rep = Report::new("C03");
    let thorough = a.tier == "thorough";
    let mut rng = Rng::new(a.seed);
    let n = if a.n > 0 { a.n } else if thorough { 40000 } else { 3000 };
    let mut hist: Vec<Vec<Op>> = vec![
        vec![Op::Create(Kind::ResOk), Op::Convert(0)],
        vec![Op::Create(Kind::OptSome), Op::Convert(0), Op::Convert(1)],
        vec![Op::Create(Kind::FfiTryOk), Op::Convert(0), Op::Drop(1)],
        vec![Op::Create(Kind::Owned(3)), Op::Convert(0), Op::Convert(1), Op::Drop(2)],
        vec![Op::Create(Kind::CallbackWithDtor), Op::Create(Kind::CallbackNoDtor), Op::Drop(1), Op::Drop(0)],
        vec![Op::Create(Kind::Opaque), Op::Borrow(0), Op::Drop(0)],
    ];
    for _ in 0..n {
        hist.push(gen_history(&mut rng, if thorough { 400 } else { 40 }));
    }
    let lines: Vec<String> = hist.iter().map(|h| sexp(h)).collect();
    match crate::model::run_model("C03", &lines) {
        Ok(model) => {
            for (k, h) in hist.iter().enumerate() {
                rep.case(&lines[k]);
                util::breadcrumb("C03", &lines[k]);
                let (log, created) = run_real(h);
                rep.oracle_runs += 1;
                let real = format!("drops={} created={}", log.iter().map(|x| x.to_string()).collect::<Vec<_>>().join(","), created);
                if real != model[k] {
                    rep.disagree(&lines[k], "drop-log", &real, &model[k]);
                }
                // exactly once, independent of the model
                let mut counts = vec![0u32; created as usize];
                for id in &log { if (*id as usize) < counts.len() { counts[*id as usize] += 1; } }
                let twice: Vec<usize> = counts.iter().enumerate().filter(|(_, c)| **c > 1).map(|(i, _)| i).collect();
                let never: Vec<usize> = counts.iter().enumerate().filter(|(_, c)| **c == 0).map(|(i, _)| i).collect();
                if !twice.is_empty() || !never.is_empty() {
                    rep.oracle_fail(&lines[k], "a payload is not dropped exactly once", json!({"dropped_more_than_once": twice, "never_dropped": never, "log": log}));
                }
                rep.count(&format!("len={}", (h.len() / 10) * 10));
            }
            util::breadcrumb_clear("C03");
        }
        Err(e) => rep.disagree("*", "model-driver", "", &e),
    }
    cpp_delete_fragment(&mut rep);
    // end to end, under AddressSanitizer: real macro → staticlib, real C headers → C driver; every opaque handed
    // to C is destroyed exactly once (drop log), owned arguments are released by Rust, callback destructors run
    // once, the write buffers (caller-owned exact fit, growable from a small capacity) are not overrun
    {
        use crate::e2e;
        let ne = if thorough { 120 } else { 16 };
        let prof = crate::c01::c_profile();
        let mut cases = vec![];
        let mut tries = 0;
        while cases.len() < ne && tries < ne * 3 {
            tries += 1;
            let m = crate::tygen::Gen::valid_module_avoiding(&mut rng, prof, crate::tygen::Avoid { more_zst: true, opt_unit_write: true, ..Default::default() });
            let case = e2e::make_case(m, cases.len(), &mut rng);
            if crate::tool::run_backend(&case.rust(), "c").ok() {
                cases.push(case);
            }
        }
        for chunk_start in (0..cases.len()).step_by(40) {
            let chunk = &cases[chunk_start..(chunk_start + 40).min(cases.len())];
            let lab = |k: usize| format!("(c03 e2e seed={} module={})", a.seed, chunk_start + k);
            for o in crate::c01::run_e2e("C03", chunk, &mut rep, true, &lab) {
                rep.oracle_runs += 1;
                rep.count(&format!("e2e-asan:{}", if o.problems.is_empty() { "ok" } else { o.stage.as_str() }));
                if !o.problems.is_empty() {
                    rep.oracle_fail(&lab(o.case_idx), "a call sequence through the generated C API (under AddressSanitizer) drops a value twice, never, or touches memory it does not own", serde_json::json!({"problems": o.problems, "source": chunk[o.case_idx].rust(), "transcript": o.transcript.iter().take(60).collect::<Vec<_>>()}));
                }
            }
        }
    }
    // the C++ wrapper layer: a callback that Rust stores and calls after the setter returned (under ASan)
    crate::c02::special_methods_probe(&mut rep);
    write_growth_probe(&mut rep);
    asymmetric_payload_probe(&mut rep);
    owned_buffer_probe(&mut rep);
    trait_object_probe(&mut rep);
    rep.print();
}
