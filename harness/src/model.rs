//! Piping cases to the Lean driver `dmodel`.
use std::io::{BufRead, BufReader, Write};
use std::process::{Command, Stdio};

pub fn dmodel_path() -> String {
    std::env::var("DMODEL").unwrap_or_else(|_| "/verif/lean/.lake/build/bin/dmodel".into())
}

pub fn run_model(id: &str, lines: &[String]) -> Result<Vec<String>, String> {
    let mut child = Command::new(dmodel_path())
        .arg(id)
        .stdin(Stdio::piped())
        .stdout(Stdio::piped())
        .spawn()
        .map_err(|e| format!("cannot start dmodel: {e}"))?;
    let mut stdin = child.stdin.take().unwrap();
    let input: String = lines.iter().map(|l| format!("{l}\n")).collect();
    let t = std::thread::spawn(move || {
        let _ = stdin.write_all(input.as_bytes());
    });
    let out = BufReader::new(child.stdout.take().unwrap());
    let res: Vec<String> = out.lines().map(|l| l.unwrap_or_default()).collect();
    let _ = t.join();
    let st = child.wait().map_err(|e| e.to_string())?;
    if !st.success() {
        return Err(format!("dmodel exited with {st}"));
    }
    if res.len() != lines.len() {
        return Err(format!(
            "dmodel returned {} lines for {} cases",
            res.len(),
            lines.len()
        ));
    }
    Ok(res)
}
