//! C12 — DiplomatWrite: the real `fmt::Write` impl driven exactly as C would drive it
//! (hand-filled #[repr(C)] struct, scripted `grow`), `diplomat_simple_write`,
//! `diplomat_buffer_write_*`; compared with the Lean state machine. Canary bytes
//! beyond every capacity are the out-of-bounds oracle.
use crate::report::Report;
use crate::rng::Rng;
use crate::util;
use diplomat_runtime::DiplomatWrite;
use serde_json::json;
use std::ffi::c_void;
use std::fmt::Write as _;

extern "C" {
    fn diplomat_buffer_write_get_bytes(this: *const DiplomatWrite) -> *mut u8;
    fn diplomat_buffer_write_len(this: *const DiplomatWrite) -> usize;
    fn diplomat_simple_write(buf: *mut u8, buf_size: usize) -> DiplomatWrite;
}

/// The C view of `DiplomatWrite` (capi.h.jinja); `write_struct_agrees` in Props/C12 ties the field
/// list to the Rust struct, `size_of` is asserted at start-up.
#[repr(C)]
struct RawWrite {
    context: *mut c_void,
    buf: *mut u8,
    len: usize,
    cap: usize,
    grow_failed: bool,
    flush: extern "C" fn(*mut RawWrite),
    grow: extern "C" fn(*mut RawWrite, usize) -> bool,
}

const CANARY: u8 = 0xC5;
const GUARD: usize = 16;

struct Ctx {
    script: Vec<Option<usize>>,
    pos: usize,
    bufs: Vec<(Vec<u8>, usize)>, // (storage, cap) — all kept alive; storage = cap bytes + GUARD canaries
    flushed: usize,
}

fn new_buf(cap: usize) -> Vec<u8> {
    let mut v = vec![0xAAu8; cap + GUARD];
    for b in &mut v[cap..] {
        *b = CANARY;
    }
    v
}

extern "C" fn foreign_grow(w: *mut RawWrite, requested: usize) -> bool {
    unsafe {
        let ctx = &mut *((*w).context as *mut Ctx);
        let ans = ctx.script.get(ctx.pos).cloned().unwrap_or(None);
        ctx.pos += 1;
        match ans {
            None => false,
            Some(extra) => {
                let nc = requested + extra;
                let mut nb = new_buf(nc);
                let len = (*w).len;
                std::ptr::copy_nonoverlapping((*w).buf, nb.as_mut_ptr(), len.min(nc));
                (*w).buf = nb.as_mut_ptr();
                (*w).cap = nc;
                ctx.bufs.push((nb, nc));
                true
            }
        }
    }
}

extern "C" fn foreign_flush(w: *mut RawWrite) {
    unsafe {
        let ctx = &mut *((*w).context as *mut Ctx);
        ctx.flushed += 1;
    }
}

#[derive(Clone, Debug)]
pub enum Case {
    Foreign { cap: usize, init: String, chunks: Vec<String>, answers: Vec<Option<usize>> },
    Simple { size: usize, chunks: Vec<String> },
    Rust { cap: usize, chunks: Vec<String> },
}

fn bytes_sexp(s: &str) -> String {
    format!("({})", s.bytes().map(|b| b.to_string()).collect::<Vec<_>>().join(" "))
}
fn chunks_sexp(cs: &[String]) -> String {
    format!("({})", cs.iter().map(|c| bytes_sexp(c)).collect::<Vec<_>>().join(" "))
}

impl Case {
    pub fn sexp(&self) -> String {
        match self {
            Case::Foreign { cap, init, chunks, answers } => format!(
                "(foreign {cap} {} {} ({}))",
                bytes_sexp(init),
                chunks_sexp(chunks),
                answers.iter().map(|a| a.map(|x| x.to_string()).unwrap_or("f".into())).collect::<Vec<_>>().join(" ")
            ),
            Case::Simple { size, chunks } => format!("(simple {size} {})", chunks_sexp(chunks)),
            Case::Rust { cap, chunks } => format!("(rust {cap} {})", chunks_sexp(chunks)),
        }
    }
}

/// one chunk through `fmt::Write`: a single character through `write_char`, anything else through `write_str`
fn emit(w: &mut DiplomatWrite, ch: &str) -> core::fmt::Result {
    use core::fmt::Write;
    let mut it = ch.chars();
    match (it.next(), it.next()) {
        (Some(c), None) => w.write_char(c),
        _ => w.write_str(ch),
    }
}

fn show_bytes(b: &[u8]) -> String {
    b.iter().map(|x| x.to_string()).collect::<Vec<_>>().join(",")
}

/// Runs the real code; returns the canonical line and any property-level failures.
pub fn run_real(c: &Case) -> (String, Vec<(String, serde_json::Value)>) {
    let mut fails = vec![];
    match c {
        Case::Foreign { cap, init, chunks, answers } => unsafe {
            let mut ctx = Box::new(Ctx { script: answers.clone(), pos: 0, bufs: vec![], flushed: 0 });
            let mut b0 = new_buf(*cap);
            b0[..init.len()].copy_from_slice(init.as_bytes());
            let p0 = b0.as_mut_ptr();
            ctx.bufs.push((b0, *cap));
            let mut raw = RawWrite { context: &mut *ctx as *mut Ctx as *mut c_void, buf: p0, len: init.len(), cap: *cap, grow_failed: false, flush: foreign_flush, grow: foreign_grow };
            let w: &mut DiplomatWrite = &mut *(&mut raw as *mut RawWrite as *mut DiplomatWrite);
            let mut wrote = String::new();
            let mut expected: Vec<u8> = init.as_bytes().to_vec();
            let mut failed_seen = false;
            for ch in chunks {
                let r = emit(w, ch);
                if r.is_err() {
                    fails.push(("write_str returned Err".to_string(), json!(ch)));
                }
                let f = (*(w as *mut DiplomatWrite as *mut RawWrite)).grow_failed;
                wrote.push(if f { '0' } else { '1' });
                if !f && !failed_seen {
                    expected.extend_from_slice(ch.as_bytes());
                }
                if f {
                    failed_seen = true;
                }
            }
            w.flush();
            let is_null = diplomat_buffer_write_get_bytes(w).is_null();
            let alen = diplomat_buffer_write_len(w);
            let rw = &*(w as *mut DiplomatWrite as *mut RawWrite);
            let bytes = std::slice::from_raw_parts(rw.buf, rw.len).to_vec();
            // property-level oracles: contents = whole chunks before first failure; canaries intact; len<=cap
            if bytes != expected {
                fails.push(("buffer contents differ from the chunks written before the first failed growth".into(), json!({"buffer": show_bytes(&bytes), "expected": show_bytes(&expected)})));
            }
            if rw.len > rw.cap {
                fails.push(("len > cap".into(), json!({"len": rw.len, "cap": rw.cap})));
            }
            for (i, (b, cap)) in ctx.bufs.iter().enumerate() {
                if b[*cap..].iter().any(|x| *x != CANARY) {
                    fails.push(("write beyond capacity (canary overwritten)".into(), json!({"buffer_index": i, "cap": cap})));
                }
            }
            if rw.grow_failed != (is_null && alen == 0) || (!rw.grow_failed && alen != rw.len) {
                fails.push(("accessors do not report failure as (null, 0)".into(), json!({"grow_failed": rw.grow_failed, "null": is_null, "len": alen})));
            }
            if ctx.flushed != 1 {
                fails.push(("flush callback count".into(), json!(ctx.flushed)));
            }
            (
                format!("len={} cap={} failed={} wrote={} acc={},{} bytes={}", rw.len, rw.cap, rw.grow_failed, wrote, is_null, alen, show_bytes(&bytes)),
                fails,
            )
        },
        Case::Simple { size, chunks } => unsafe {
            let mut b0 = new_buf(*size);
            let mut w = diplomat_simple_write(b0.as_mut_ptr(), *size);
            let mut wrote = String::new();
            let mut expected: Vec<u8> = vec![];
            let mut failed_seen = false;
            for ch in chunks {
                let _ = emit(&mut w, ch);
                let f = (*(&mut w as *mut DiplomatWrite as *mut RawWrite)).grow_failed;
                wrote.push(if f { '0' } else { '1' });
                if !f && !failed_seen {
                    expected.extend_from_slice(ch.as_bytes());
                }
                if f {
                    failed_seen = true;
                }
            }
            let is_null = diplomat_buffer_write_get_bytes(&w).is_null();
            let alen = diplomat_buffer_write_len(&w);
            let (len, cap, gf) = {
                let rw = &*(&w as *const DiplomatWrite as *const RawWrite);
                (rw.len, rw.cap, rw.grow_failed)
            };
            let bytes = b0[..len].to_vec();
            w.flush();
            w.flush(); // documented to be idempotent
            let after = b0[..=len.min(*size - 1)].to_vec();
            if bytes != expected {
                fails.push(("buffer contents differ from the chunks written before the first failed growth".into(), json!({"buffer": show_bytes(&bytes), "expected": show_bytes(&expected)})));
            }
            if b0[*size..].iter().any(|x| *x != CANARY) {
                fails.push(("write beyond the caller's buffer (canary overwritten)".into(), json!({"size": size})));
            }
            if len >= *size || b0[len] != 0 {
                fails.push(("flush did not NUL-terminate inside the buffer".into(), json!({"len": len, "size": size})));
            }
            (
                format!("len={} cap={} failed={} wrote={} acc={},{} bytes={} nul_at={} phys={} after_flush={}", len, cap, gf, wrote, is_null, alen, show_bytes(&bytes), len, size, show_bytes(&after)),
                fails,
            )
        },
        Case::Rust { cap, chunks } => unsafe {
            let wp = diplomat_runtime::diplomat_buffer_write_create(*cap);
            let w = &mut *wp;
            let mut wrote = String::new();
            let mut expected: Vec<u8> = vec![];
            for ch in chunks {
                let _ = emit(&mut *w, ch);
                let f = (*(wp as *mut RawWrite)).grow_failed;
                wrote.push(if f { '0' } else { '1' });
                expected.extend_from_slice(ch.as_bytes());
            }
            w.flush();
            let p = diplomat_buffer_write_get_bytes(w);
            let alen = diplomat_buffer_write_len(w);
            let rw = &*(wp as *mut RawWrite);
            let bytes = if p.is_null() { vec![] } else { std::slice::from_raw_parts(p, alen).to_vec() };
            if bytes != expected {
                fails.push(("Rust-owned buffer does not hold what was written".into(), json!({"buffer": show_bytes(&bytes), "expected": show_bytes(&expected)})));
            }
            if rw.len > rw.cap {
                fails.push(("len > cap".into(), json!({"len": rw.len, "cap": rw.cap})));
            }
            let line = format!("len={} failed={} wrote={} acc={},{} bytes={}", rw.len, rw.grow_failed, wrote, p.is_null(), alen, show_bytes(&bytes));
            diplomat_runtime::diplomat_buffer_write_destroy(wp);
            (line, fails)
        },
    }
}

const WORDS: [&str; 14] = ["", "a", "hi", "abc", "héllo", "€", "𝄞", "0123456789", "x", "\u{0}", "ß∂", "tab\t", "long-long-long-long-long-long-chunk", "\u{10FFFF}"];

fn gen_chunks(rng: &mut Rng, max: usize) -> Vec<String> {
    let n = rng.below(max + 1);
    (0..n).map(|_| rng.pick(&WORDS).to_string()).collect()
}

/// "Methods returning strings … return exactly what Rust wrote" rests on the proc macro flushing every write buffer
/// after the call (NUL terminator of fixed buffers, the `flush` callback of caller-supplied writers): in the real
/// expansion every `extern "C"` function flushes each of its `DiplomatWrite` parameters, whatever else it returns.
fn macro_flush_probe(rep: &mut Report) {
    let src = "#[diplomat::bridge]\nmod ffi {\n    use diplomat_runtime::DiplomatWrite;\n    use core::fmt::Write;\n    #[diplomat::opaque]\n    pub struct Em;\n    impl Em {\n        pub fn plain(&self, w: &mut DiplomatWrite) { let _ = w.write_str(\"a\"); }\n        pub fn fallible(&self, w: &mut DiplomatWrite) -> Result<(), ()> { let _ = w.write_str(\"b\"); Ok(()) }\n        pub fn optional(&self, w: &mut DiplomatWrite) -> Option<()> { let _ = w.write_str(\"c\"); Some(()) }\n        pub fn counted(&self, w: &mut DiplomatWrite) -> usize { let _ = w.write_str(\"d\"); 1 }\n        pub fn checked(&self, w: &mut DiplomatWrite) -> Result<bool, ()> { let _ = w.write_str(\"e\"); Ok(true) }\n        pub fn first(&self, w: &mut DiplomatWrite, times: u8) { let _ = w.write_str(\"f\"); let _ = times; }\n        pub fn tee(&self, v: &mut DiplomatWrite, w: &mut DiplomatWrite) { let _ = v.write_str(\"g\"); let _ = w.write_str(\"h\"); }\n        pub fn none(&self, x: u8) -> u8 { x }\n        pub fn dres(&self, w: &mut DiplomatWrite) -> diplomat_runtime::DiplomatResult<(), Option<u8>> { let _ = w.write_str(\"i\"); Ok(()).into() }\n        pub fn dres_plain(&self, w: &mut DiplomatWrite) -> diplomat_runtime::DiplomatResult<(), u8> { let _ = w.write_str(\"j\"); Ok(()).into() }\n        pub fn res_opt(&self, w: &mut DiplomatWrite) -> Result<(), Option<u8>> { let _ = w.write_str(\"k\"); Ok(()) }\n    }\n}\n".to_string();
    let want: [(&str, usize); 11] = [("Em_plain", 1), ("Em_fallible", 1), ("Em_optional", 1), ("Em_counted", 1), ("Em_checked", 1), ("Em_first", 1), ("Em_tee", 2), ("Em_none", 0), ("Em_dres", 1), ("Em_dres_plain", 1), ("Em_res_opt", 1)];
    let case = "(c12 probe macro-flushes-every-write)";
    let ex = crate::expand::expand_each(&[src.clone()]);
    rep.oracle_runs += 1;
    rep.count("probe:macro-flush");
    match &ex[0] {
        Err(e) => rep.oracle_fail(case, "the flush probe does not build with the real proc macro", json!({"rustc": e})),
        Ok(x) => {
            for (name, n) in want {
                match x.extern_fns.iter().find(|f| f.name == name) {
                    None => rep.oracle_fail(case, "an extern function of the flush probe is missing from the expansion", json!({"function": name})),
                    Some(f) => {
                        let flushes = f.text.matches("flush").count();
                        if flushes != n {
                            rep.oracle_fail(case, "the proc macro does not flush every DiplomatWrite parameter after the call", json!({"function": name, "write_parameters": n, "flush_calls_in_expansion": flushes, "expansion": f.text.chars().take(600).collect::<String>()}));
                        }
                    }
                }
            }
        }
    }
}

pub fn gen_case(rng: &mut Rng, thorough: bool) -> Case {
    let max = if thorough { 24 } else { 12 };
    match rng.below(10) {
        0..=5 => {
            let init = if rng.chance(1, 4) { rng.pick(&["pre", "é", "0123"]).to_string() } else { String::new() };
            let cap = init.len() + *rng.pick(&[0usize, 0, 1, 2, 3, 5, 8, 13, 40]);
            let chunks = gen_chunks(rng, max);
            let na = rng.below(chunks.len() + 2);
            let answers = (0..na)
                .map(|_| if rng.chance(1, 4) { None } else { Some(*rng.pick(&[0usize, 0, 1, 2, 7, 16])) })
                .collect();
            Case::Foreign { cap, init, chunks, answers }
        }
        6..=7 => Case::Simple { size: 1 + *rng.pick(&[0usize, 0, 1, 2, 3, 4, 7, 12, 30, 64]), chunks: gen_chunks(rng, max) },
        _ => Case::Rust { cap: *rng.pick(&[0usize, 0, 1, 4, 8, 9, 100]), chunks: gen_chunks(rng, max) },
    }
}

/// The C++ adaptor's text, whitespace-normalised, as the model assumes it
/// (`_grow` = resize(requested) and cap = length; `_flush` = resize(len); `WriteFromString`).
const CPP_FRAGS: [&str; 3] = [
    "extern \"C\" inline void _flush(capi::DiplomatWrite* w) { std::string* string = reinterpret_cast<std::string*>(w->context); string->resize(w->len); }",
    "extern \"C\" inline bool _grow(capi::DiplomatWrite* w, uintptr_t requested) { std::string* string = reinterpret_cast<std::string*>(w->context); string->resize(requested); w->cap = string->length(); w->buf = &(*string)[0]; return true; }",
    "inline capi::DiplomatWrite WriteFromString(std::string& string) { capi::DiplomatWrite w; w.context = &string; w.buf = &string[0]; w.len = string.length(); w.cap = string.length(); // Will never become true, as _grow is infallible. w.grow_failed = false; w.flush = _flush; w.grow = _grow; return w; }",
];

fn cpp_adaptor(rep: &mut Report) {
    let out = crate::tool::run_backend("#[diplomat::bridge]\nmod ffi { #[diplomat::opaque] pub struct O; impl O { pub fn f(&self, w: &mut DiplomatWrite) {} } }", "cpp");
    match out.files.get("diplomat_runtime.hpp") {
        Some(t) => {
            let n = crate::tool::norm_ws(t);
            for f in CPP_FRAGS {
                if !n.contains(f) {
                    rep.disagree("cpp-adaptor", "fragment", &format!("diplomat_runtime.hpp no longer contains `{}…`", &f[..60]), "model: WriteFromString = foreign writer, grow grants exactly `requested`, flush resizes to len");
                }
            }
            rep.count_n("cpp_adaptor_fragments", CPP_FRAGS.len());
        }
        None => rep.disagree("cpp-adaptor", "fragment", &format!("no diplomat_runtime.hpp ({})", out.status()), ""),
    }
}


/// The C++ adaptor executed: `diplomat_runtime.hpp` as generated, compiled by g++ into a shared object that owns a
/// `std::string` and the `capi::DiplomatWrite` made from it by `WriteFromString`; a child process loads it and the
/// real Rust `fmt::Write` impl writes through that struct.  Compared with the Lean foreign-writer line for "every
/// growth grants exactly what was asked" (what `_grow` is modelled as), and with the string's own bookkeeping.
const CPP_SHIM: &str = r#"
#include "diplomat_runtime.hpp"
#include <cstring>
struct H { std::string s; diplomat::capi::DiplomatWrite w; bool (*orig)(diplomat::capi::DiplomatWrite*, uintptr_t); unsigned bad; uintptr_t req, cap; };
static H* cur = nullptr;
static unsigned audit(H* h) {
    unsigned b = 0;
    if (h->w.buf != &h->s[0]) b |= 2;            // the window must be the string's own storage
    if (h->w.cap > h->s.capacity()) b |= 4;       // and must not extend beyond what the string owns
    if (h->w.len > h->w.cap) b |= 8;
    return b;
}
extern "C" bool vt_checked_grow(diplomat::capi::DiplomatWrite* w, uintptr_t requested) {
    H* h = cur;
    bool ok = h->orig(w, requested);
    if (ok && w->cap < requested) { h->bad |= 1; h->req = requested; h->cap = w->cap; return false; } // refuse: Rust would write past cap
    h->bad |= audit(h);
    return ok;
}
extern "C" H* vt_mk(const char* p, size_t n) {
    H* h = new H{std::string(p, n), {}, nullptr, 0, 0, 0};
    h->w = diplomat::WriteFromString(h->s);
    h->orig = h->w.grow; h->w.grow = vt_checked_grow; cur = h;
    h->bad |= audit(h);
    return h;
}
extern "C" diplomat::capi::DiplomatWrite* vt_w(H* h) { return &h->w; }
extern "C" unsigned vt_audit(H* h) { h->bad |= audit(h); return h->bad; }
extern "C" uintptr_t vt_req(H* h) { return h->req; }
extern "C" uintptr_t vt_cap(H* h) { return h->cap; }
extern "C" size_t vt_size(H* h) { return h->s.size(); }
extern "C" const char* vt_data(H* h) { return h->s.data(); }
extern "C" void vt_free(H* h) { delete h; cur = nullptr; }
"#;

const FLUSH: &str = "\u{1}flush";

fn cpp_cases(rng: &mut Rng, n: usize) -> Vec<(String, Vec<String>)> {
    let mut v: Vec<(String, Vec<String>)> = vec![
        ("".into(), vec!["0123456789abcdef".into(), "g".into()]),                       // leaves the small-string buffer
        ("".into(), vec!["long-long-long-long-long-long-chunk".into(), "a".into(), "b".into(), "tail".into()]),
        ("pre".into(), vec!["x".into(); 40]),
        ("a-prefix-longer-than-the-small-string-buffer".into(), vec!["€".into(), "𝄞".into(), "".into(), "z".into()]),
        ("".into(), vec![]),
        ("kept".into(), vec!["".into()]),
        // a flush in the middle (Rust code may call `DiplomatWrite::flush`; one writer may serve two calls)
        ("".into(), vec!["0123456789abcdefgh".into(), FLUSH.into(), "i".into(), "jk".into()]),
        ("".into(), vec!["hello".into(), FLUSH.into(), " world".into(), FLUSH.into(), "!".into()]),
        ("pre".into(), vec!["long-long-long-long-long-long-chunk".into(), FLUSH.into(), "a".into(), FLUSH.into(), FLUSH.into(), "tail".into()]),
    ];
    for _ in 0..n {
        let init = match rng.below(4) { 0 => rng.pick(&["pre", "é", "0123456789abcdef0123"]).to_string(), _ => String::new() };
        let mut chunks = gen_chunks(rng, 14);
        if rng.chance(1, 3) { let at = rng.below(chunks.len() + 1); chunks.insert(at, FLUSH.into()); }
        if rng.chance(1, 3) { chunks.push("y".repeat(1 + rng.below(70))); if rng.chance(1, 2) { chunks.push(FLUSH.into()); } chunks.push(rng.pick(&WORDS).to_string()); chunks.push(rng.pick(&WORDS).to_string()); }
        v.push((init, chunks));
    }
    v
}

fn hexs(b: &[u8]) -> String { b.iter().map(|x| format!("{x:02x}")).collect() }
fn unhex(s: &str) -> Vec<u8> { (0..s.len() / 2).map(|i| u8::from_str_radix(&s[2 * i..2 * i + 2], 16).unwrap_or(0)).collect() }

fn cpp_adaptor_exec(rep: &mut Report, rng: &mut Rng, thorough: bool) {
    let out = crate::tool::run_backend("#[diplomat::bridge]\nmod ffi { #[diplomat::opaque] pub struct O; impl O { pub fn f(&self, w: &mut DiplomatWrite) {} } }", "cpp");
    let Some(hpp) = out.files.get("diplomat_runtime.hpp") else { return };
    let dir = util::workdir("c12-cpp");
    let _ = std::fs::remove_dir_all(&dir);
    std::fs::create_dir_all(&dir).unwrap();
    std::fs::write(dir.join("diplomat_runtime.hpp"), hpp).unwrap();
    std::fs::write(dir.join("shim.cpp"), CPP_SHIM).unwrap();
    let so = dir.join("libshim.so");
    let (ok, _o, e) = util::run(std::process::Command::new("g++").args(["-std=c++17", "-O1", "-shared", "-fPIC", "-I."]).arg("shim.cpp").arg("-o").arg(&so).current_dir(&dir));
    if !ok {
        rep.oracle_fail("(c12 probe cpp-adaptor-exec)", "diplomat_runtime.hpp does not compile into the string-writer shim", json!({"g++": e.lines().take(8).collect::<Vec<_>>()}));
        return;
    }
    let cases = cpp_cases(rng, if thorough { 1500 } else { 150 });
    // the model's foreign writer with "every growth grants exactly the request" and the prefix as initial contents
    // CppStr.lean: the adaptor with flushes anywhere (Props/C12.cpp_string_exact_with_flushes)
    let lines: Vec<String> = cases.iter().map(|(init, chunks)| {
        format!("(cppstr {} {})", bytes_sexp(init), chunks.iter().map(|c| if c == FLUSH { "f".to_string() } else { bytes_sexp(c) }).collect::<Vec<_>>().join(" "))
    }).collect();
    let model = match crate::model::run_model("C12", &lines) { Ok(m) => m, Err(e) => { rep.disagree("cpp-adaptor-exec", "model-driver", "", &e); return; } };
    let input: String = cases.iter().map(|(i, cs)| format!("{} {}\n", if i.is_empty() { "-".into() } else { hexs(i.as_bytes()) }, cs.iter().map(|c| if c.is_empty() { "-".to_string() } else { hexs(c.as_bytes()) }).collect::<Vec<_>>().join(","))).collect();
    std::fs::write(dir.join("cases.txt"), &input).unwrap();
    let exe = std::env::current_exe().unwrap();
    let o = std::process::Command::new(exe).arg("C12-cpp-child").arg(&so).arg(dir.join("cases.txt")).output();
    rep.oracle_runs += 1;
    let o = match o { Ok(o) => o, Err(e) => { rep.notes.push(format!("C++ adaptor child could not be started: {e}")); return; } };
    let text = String::from_utf8_lossy(&o.stdout).to_string();
    let got: Vec<&str> = text.lines().collect();
    for (i, ((init, chunks), m)) in cases.iter().zip(model.iter()).enumerate() {
        let case = format!("(c12 cpp-adaptor init={init:?} chunks={chunks:?})");
        rep.count("cpp-adaptor-exec");
        let Some(l) = got.get(i) else {
            rep.oracle_fail(&case, "the process died while Rust wrote through the C++ string adaptor (memory error)", json!({"status": format!("{}", o.status), "stderr": String::from_utf8_lossy(&o.stderr).lines().take(4).collect::<Vec<_>>()}));
            break;
        };
        // child line: bad=<mask> req=<r> cap=<c> len=<w.len> failed=<b> size=<s.size()> bytes=<hex of the string>
        let f: std::collections::BTreeMap<&str, &str> = l.split(' ').filter_map(|kv| kv.split_once('=')).collect();
        let bad: u32 = f.get("bad").and_then(|x| x.parse().ok()).unwrap_or(255);
        let bytes = unhex(f.get("bytes").unwrap_or(&""));
        let mut expected: Vec<u8> = init.as_bytes().to_vec();
        for c in chunks.iter().filter(|c| *c != FLUSH) { expected.extend_from_slice(c.as_bytes()); }
        if chunks.iter().any(|c| c == FLUSH) { rep.count("cpp-adaptor-exec:mid-flush"); }
        if bad & 1 != 0 {
            rep.oracle_fail(&case, "the C++ `_grow` callback reports success with a capacity below the request: Rust would write past the string's storage", json!({"requested": f.get("req"), "capacity_granted": f.get("cap")}));
        }
        if bad & 6 != 0 {
            rep.oracle_fail(&case, "the window advertised to Rust is not inside the std::string's own storage", json!({"mask": bad, "line": l}));
        }
        if bad & 1 == 0 && bytes != expected {
            rep.oracle_fail(&case, "the std::string handed back to the C++ caller is not what Rust wrote", json!({"string": show_bytes(&bytes), "expected": show_bytes(&expected), "line": l}));
        }
        // tie with the model line: len=… failed=… bytes=…
        let mf: std::collections::BTreeMap<&str, &str> = m.split(' ').filter_map(|kv| kv.split_once('=')).collect();
        // the model's `oob` (a store outside the string) is what the `_grow` wrapper and the audit observe (bits 1, 2, 4)
        let real = format!("len={} oob={} bytes={}", f.get("len").unwrap_or(&"?"), bad & 7 != 0, show_bytes(&bytes));
        let modl = format!("len={} oob={} bytes={}", mf.get("len").unwrap_or(&"?"), mf.get("oob").unwrap_or(&"?"), mf.get("bytes").unwrap_or(&"?"));
        if real != modl {
            rep.disagree(&case, "cpp-adaptor-state", &real, &modl);
        }
    }
}

pub fn cpp_child(args: &[String]) {
    use std::os::raw::{c_char, c_int};
    extern "C" {
        fn dlopen(f: *const c_char, flag: c_int) -> *mut c_void;
        fn dlsym(h: *mut c_void, s: *const c_char) -> *mut c_void;
    }
    let so = std::ffi::CString::new(args[0].clone()).unwrap();
    unsafe {
        let h = dlopen(so.as_ptr(), 2);
        if h.is_null() { eprintln!("dlopen failed"); std::process::exit(3); }
        let sym = |n: &str| { let c = std::ffi::CString::new(n).unwrap(); let p = dlsym(h, c.as_ptr()); assert!(!p.is_null(), "{n}"); p };
        let mk: extern "C" fn(*const u8, usize) -> *mut c_void = std::mem::transmute(sym("vt_mk"));
        let wf: extern "C" fn(*mut c_void) -> *mut DiplomatWrite = std::mem::transmute(sym("vt_w"));
        let audit: extern "C" fn(*mut c_void) -> u32 = std::mem::transmute(sym("vt_audit"));
        let req: extern "C" fn(*mut c_void) -> usize = std::mem::transmute(sym("vt_req"));
        let cap: extern "C" fn(*mut c_void) -> usize = std::mem::transmute(sym("vt_cap"));
        let size: extern "C" fn(*mut c_void) -> usize = std::mem::transmute(sym("vt_size"));
        let data: extern "C" fn(*mut c_void) -> *const u8 = std::mem::transmute(sym("vt_data"));
        let free: extern "C" fn(*mut c_void) = std::mem::transmute(sym("vt_free"));
        let text = std::fs::read_to_string(&args[1]).unwrap();
        for line in text.lines() {
            let (i, cs) = line.split_once(' ').unwrap_or((line, ""));
            let init = if i == "-" { vec![] } else { unhex(i) };
            let chunks: Vec<String> = if cs.is_empty() { vec![] } else { cs.split(',').map(|c| if c == "-" { String::new() } else { String::from_utf8(unhex(c)).unwrap() }).collect() };
            let hd = mk(init.as_ptr(), init.len());
            let w = &mut *wf(hd);
            let mut bad = 0u32;
            for ch in &chunks {
                if ch == FLUSH { w.flush(); } else { let _ = emit(w, ch); }
                bad |= audit(hd);
            }
            w.flush();
            let rw = &*(w as *mut DiplomatWrite as *mut RawWrite);
            let n = size(hd);
            let bytes = std::slice::from_raw_parts(data(hd), n).to_vec();
            println!("bad={} req={} cap={} len={} failed={} size={} bytes={}", bad | (audit(hd) & 1), req(hd), cap(hd), rw.len, rw.grow_failed, n, hexs(&bytes));
            free(hd);
        }
    }
}

pub fn main(args: &[String]) {
    let a = util::parse_args(args);
    assert_eq!(std::mem::size_of::<RawWrite>(), std::mem::size_of::<DiplomatWrite>());
    let mut rep = Report::new("C12");
    let thorough = a.tier == "thorough";
    let mut rng = Rng::new(a.seed);
    let n = if a.n > 0 { a.n } else if thorough { 60000 } else { 3000 };
    let mut cases: Vec<Case> = vec![];
    // hand-written seeds first
    cases.push(Case::Foreign { cap: 0, init: "".into(), chunks: vec!["".into()], answers: vec![] });
    cases.push(Case::Foreign { cap: 2, init: "".into(), chunks: vec!["ab".into(), "c".into(), "d".into()], answers: vec![None, Some(5)] });
    cases.push(Case::Simple { size: 1, chunks: vec!["".into(), "a".into()] });
    cases.push(Case::Simple { size: 4, chunks: vec!["abc".into(), "".into()] });
    cases.push(Case::Rust { cap: 0, chunks: vec!["𝄞".into(); 9] });
    for _ in 0..n {
        cases.push(gen_case(&mut rng, thorough));
    }
    let lines: Vec<String> = cases.iter().map(|c| c.sexp()).collect();
    match crate::model::run_model("C12", &lines) {
        Ok(model) => {
            for ((c, l), m) in cases.iter().zip(lines.iter()).zip(model.iter()) {
                rep.case(l);
                util::breadcrumb("C12", l);
                let (real, fails) = run_real(c);
                rep.oracle_runs += 1;
                for (what, d) in fails {
                    rep.oracle_fail(l, &what, d);
                }
                if &real != m {
                    rep.disagree(l, "state", &real, m);
                }
                let kind = match c { Case::Foreign { .. } => "foreign", Case::Simple { .. } => "simple", Case::Rust { .. } => "rust" };
                rep.count(kind);
                if real.contains("failed=true") {
                    rep.count("ended_failed");
                }
            }
        }
        Err(e) => rep.disagree("*", "model-driver", "", &e),
    }
    util::breadcrumb_clear("C12");
    cpp_adaptor(&mut rep);
    cpp_adaptor_exec(&mut rep, &mut rng, thorough);
    macro_flush_probe(&mut rep);
    rep.print();
}
