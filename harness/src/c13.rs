//! C13 — backend-conditional attributes: real `TypeContext::from_syn` with every backend's validator
//! vs the Lean model, plus metamorphic oracles on the real backends (with / without one attribute).
use crate::report::Report;
use crate::rng::Rng;
use crate::tool;
use crate::util;
use diplomat_core::hir::{self, AttributeValidator};
use serde_json::json;
use std::collections::BTreeMap;

#[derive(Clone, Debug)]
pub enum Cfg {
    Not(Box<Cfg>),
    Any(Vec<Cfg>),
    All(Vec<Cfg>),
    Star,
    Auto,
    Be(String),
    Nv(String, String),
}

impl Cfg {
    pub fn sexp(&self) -> String {
        match self {
            Cfg::Not(c) => format!("(not {})", c.sexp()),
            Cfg::Any(cs) => format!("(any{})", cs.iter().map(|c| format!(" {}", c.sexp())).collect::<String>()),
            Cfg::All(cs) => format!("(all{})", cs.iter().map(|c| format!(" {}", c.sexp())).collect::<String>()),
            Cfg::Star => "star".into(),
            Cfg::Auto => "auto".into(),
            Cfg::Be(n) => format!("(be {n})"),
            Cfg::Nv(n, v) => format!("(nv {n} {v})"),
        }
    }
    pub fn rust(&self) -> String {
        match self {
            Cfg::Not(c) => format!("not({})", c.rust()),
            Cfg::Any(cs) => format!("any({})", cs.iter().map(|c| c.rust()).collect::<Vec<_>>().join(", ")),
            Cfg::All(cs) => format!("all({})", cs.iter().map(|c| c.rust()).collect::<Vec<_>>().join(", ")),
            Cfg::Star => "*".into(),
            Cfg::Auto => "auto".into(),
            Cfg::Be(n) => n.clone(),
            Cfg::Nv(n, v) => format!("{n} = {v}"),
        }
    }
    /// Plain Boolean reading, atoms decided by the real validator. `None` = the formula mentions
    /// something the tool rejects (`auto` in a gated position, unknown `supports` value).
    pub fn eval(&self, v: &hir::BasicAttributeValidator) -> Option<bool> {
        Some(match self {
            Cfg::Not(c) => !c.eval(v)?,
            Cfg::Any(cs) => {
                let mut r = false;
                for c in cs {
                    r |= c.eval(v)?;
                }
                r
            }
            Cfg::All(cs) => {
                let mut r = true;
                for c in cs {
                    r &= c.eval(v)?;
                }
                r
            }
            Cfg::Star => true,
            Cfg::Auto => return None,
            Cfg::Be(n) => v.is_backend(n),
            Cfg::Nv(n, val) => v.is_name_value(n, val).ok()?,
        })
    }
}

#[derive(Clone, Debug)]
pub enum Meta {
    Disable,
    Rename(String),
}

#[derive(Clone, Debug)]
pub struct Attr {
    pub cfg: Cfg,
    pub meta: Meta,
}

impl Attr {
    fn sexp(&self) -> String {
        match &self.meta {
            Meta::Disable => format!("(attr {} disable)", self.cfg.sexp()),
            Meta::Rename(p) => format!("(attr {} (rename \"{p}\"))", self.cfg.sexp()),
        }
    }
    fn rust(&self) -> String {
        match &self.meta {
            Meta::Disable => format!("#[diplomat::attr({}, disable)]", self.cfg.rust()),
            Meta::Rename(p) => format!("#[diplomat::attr({}, rename = \"{p}\")]", self.cfg.rust()),
        }
    }
}

pub fn attrs_sexp(a: &[Attr]) -> String {
    format!("(attrs{})", a.iter().map(|x| format!(" {}", x.sexp())).collect::<String>())
}
pub fn attrs_rust(a: &[Attr], indent: &str) -> String {
    a.iter().map(|x| format!("{indent}{}\n", x.rust())).collect()
}

#[derive(Clone, Debug)]
pub struct Method {
    name: String,
    attrs: Vec<Attr>,
}
#[derive(Clone, Debug)]
pub struct Impl {
    attrs: Vec<Attr>,
    methods: Vec<Method>,
}
#[derive(Clone, Debug)]
pub struct Type {
    name: String,
    attrs: Vec<Attr>,
    impls: Vec<Impl>,
}
#[derive(Clone, Debug)]
pub struct Module {
    attrs: Vec<Attr>,
    types: Vec<Type>,
}

impl Module {
    pub fn sexp(&self) -> String {
        let ts: Vec<String> = self
            .types
            .iter()
            .map(|t| {
                let is: Vec<String> = t
                    .impls
                    .iter()
                    .map(|i| format!("(impl {}{})", attrs_sexp(&i.attrs), i.methods.iter().map(|m| format!(" (method {} {})", m.name, attrs_sexp(&m.attrs))).collect::<String>()))
                    .collect();
                format!("(type {} {}{})", t.name, attrs_sexp(&t.attrs), is.iter().map(|i| format!(" {i}")).collect::<String>())
            })
            .collect();
        format!("(mod {}{})", attrs_sexp(&self.attrs), ts.iter().map(|t| format!(" {t}")).collect::<String>())
    }
    pub fn rust(&self) -> String {
        let mut s = String::from("#[diplomat::bridge]\n");
        s += &attrs_rust(&self.attrs, "");
        s += "mod ffi {\n";
        for t in &self.types {
            s += &attrs_rust(&t.attrs, "    ");
            s += &format!("    #[diplomat::opaque]\n    pub struct {};\n", t.name);
            for i in &t.impls {
                s += &attrs_rust(&i.attrs, "    ");
                s += &format!("    impl {} {{\n", t.name);
                for m in &i.methods {
                    s += &attrs_rust(&m.attrs, "        ");
                    s += &format!("        pub fn {}(&self, x: u8) -> u8 {{ x }}\n", m.name);
                }
                s += "    }\n";
            }
        }
        s += "}\n";
        s
    }
    /// every attribute with a path to it
    fn attr_sites(&self) -> Vec<(String, Attr)> {
        let mut out = vec![];
        for (k, a) in self.attrs.iter().enumerate() {
            out.push((format!("mod#{k}"), a.clone()));
        }
        for (ti, t) in self.types.iter().enumerate() {
            for (k, a) in t.attrs.iter().enumerate() {
                out.push((format!("type:{ti}#{k}"), a.clone()));
            }
            for (ii, i) in t.impls.iter().enumerate() {
                for (k, a) in i.attrs.iter().enumerate() {
                    out.push((format!("impl:{ti}:{ii}#{k}"), a.clone()));
                }
                for (mi, m) in i.methods.iter().enumerate() {
                    for (k, a) in m.attrs.iter().enumerate() {
                        out.push((format!("method:{ti}:{ii}:{mi}#{k}"), a.clone()));
                    }
                }
            }
        }
        out
    }
    fn without(&self, site: &str) -> Module {
        let mut m = self.clone();
        let (path, k) = site.split_once('#').unwrap();
        let k: usize = k.parse().unwrap();
        let p: Vec<&str> = path.split(':').collect();
        match p[0] {
            "mod" => {
                m.attrs.remove(k);
            }
            "type" => {
                m.types[p[1].parse::<usize>().unwrap()].attrs.remove(k);
            }
            "impl" => {
                m.types[p[1].parse::<usize>().unwrap()].impls[p[2].parse::<usize>().unwrap()].attrs.remove(k);
            }
            _ => {
                m.types[p[1].parse::<usize>().unwrap()].impls[p[2].parse::<usize>().unwrap()].methods[p[3].parse::<usize>().unwrap()].attrs.remove(k);
            }
        }
        m
    }
}

pub const NAMES: [&str; 7] = ["c", "cpp", "js", "dart", "kotlin", "nanobind", "demo_gen"];
const FLAGS: [&str; 6] = ["namespacing", "memory_sharing", "option", "callbacks", "utf8_strings", "static_slices"];

fn gen_cfg(rng: &mut Rng, depth: usize) -> Cfg {
    let r = rng.below(if depth == 0 { 14 } else { 22 });
    match r {
        0..=7 => Cfg::Be(rng.pick(&NAMES).to_string()),
        8 => Cfg::Star,
        9..=11 => Cfg::Nv("supports".into(), rng.pick(&FLAGS).to_string()),
        12 => match rng.below(6) {
            0 => Cfg::Be("fortran".into()),
            1 => Cfg::Nv("supports".into(), "bogus_feature".into()),
            2 => Cfg::Nv("flavour".into(), "sweet".into()),
            3 => Cfg::Auto,
            _ => Cfg::Be(rng.pick(&NAMES).to_string()),
        },
        13 => Cfg::Be(rng.pick(&["js", "cpp"]).to_string()),
        14..=16 => Cfg::Not(Box::new(gen_cfg(rng, depth - 1))),
        17..=19 => {
            let n = rng.below(4);
            Cfg::Any((0..n).map(|_| gen_cfg(rng, depth - 1)).collect())
        }
        _ => {
            let n = rng.below(4);
            Cfg::All((0..n).map(|_| gen_cfg(rng, depth - 1)).collect())
        }
    }
}

pub fn gen_attrs(rng: &mut Rng, p_num: usize, p_den: usize, rename_ok: bool, tag: &str) -> Vec<Attr> {
    let mut v = vec![];
    while rng.chance(p_num, p_den) && v.len() < 2 {
        let cfg = gen_cfg(rng, 3);
        let meta = if rename_ok && rng.chance(2, 5) {
            Meta::Rename(if rng.chance(1, 2) { format!("Rn{tag}{}", v.len()) } else { format!("Pre{tag}{{0}}") })
        } else {
            Meta::Disable
        };
        v.push(Attr { cfg, meta });
    }
    v
}

pub fn gen_module(rng: &mut Rng) -> Module {
    let nt = 1 + rng.below(3);
    let mut types = vec![];
    for ti in 0..nt {
        let name = format!("T{}", util::letters(ti));
        let ni = 1 + rng.below(2);
        let mut impls = vec![];
        let mut mcount = 0;
        for ii in 0..ni {
            let nm = 1 + rng.below(2);
            let mut methods = vec![];
            for _ in 0..nm {
                methods.push(Method { name: format!("m{}", util::letters(mcount)), attrs: gen_attrs(rng, 1, 3, true, &format!("M{ti}{mcount}")) });
                mcount += 1;
            }
            impls.push(Impl { attrs: gen_attrs(rng, 1, 4, true, &format!("I{ti}{ii}")), methods });
        }
        types.push(Type { name, attrs: gen_attrs(rng, 2, 5, true, &format!("T{ti}")), impls });
    }
    Module { attrs: gen_attrs(rng, 1, 5, true, "Mod"), types }
}

pub fn validator(target: &str) -> hir::BasicAttributeValidator {
    let (sup, others) = diplomat_tool::verif_hooks::attr_support(target).unwrap();
    let mut v = hir::BasicAttributeValidator::new(target);
    v.support = sup;
    v.other_backend_names = others;
    v
}

fn show_rename(r: &diplomat_core::ast::attrs::RenameAttr) -> String {
    let s = r.apply("{0}".into()).to_string();
    if s == "{0}" {
        "-".into()
    } else {
        s
    }
}

/// what survives lowering for `target`, in the model's output format
fn real_lowered(src: &str, target: &str) -> String {
    let file = match syn::parse_file(src) {
        Ok(f) => f,
        Err(e) => return format!("parse-error {e}"),
    };
    let v = validator(target);
    let r = tool::catch(|| hir::TypeContext::from_syn(&file, Default::default(), v));
    match r {
        Err(p) => format!("panic {p}"),
        Ok(Err(_)) => "error".into(),
        Ok(Ok(tcx)) => {
            let mut parts = vec![];
            for (_, def) in tcx.all_types() {
                let a = def.attrs();
                let ms: Vec<String> = def.methods().iter().map(|m| format!("{}:{}", m.name.as_str(), show_rename(&m.attrs.rename))).collect();
                parts.push(format!("{}:{}:{}[{}]", def.name().as_str(), if a.disable { "disabled" } else { "enabled" }, show_rename(&a.rename), ms.join(",")));
            }
            format!("ok {}", parts.join(" "))
        }
    }
}

fn abi_names(src: &str) -> Vec<String> {
    let file = syn::parse_file(src).unwrap();
    let f = diplomat_core::ast::File::from(&file);
    let mut v = vec![];
    for (_, m) in f.modules.iter() {
        for (_, t) in m.declared_types.iter() {
            for me in t.methods() {
                v.push(me.abi_name.as_str().to_string());
            }
        }
    }
    v.sort();
    v
}

static TIE_BUDGET: std::sync::atomic::AtomicUsize = std::sync::atomic::AtomicUsize::new(70);
fn tie_budget() -> usize { TIE_BUDGET.load(std::sync::atomic::Ordering::Relaxed) }

fn backend_files(src: &str, target: &str) -> Result<BTreeMap<String, String>, String> {
    let o = tool::run_backend(src, target);
    if o.ok() {
        Ok(o.files)
    } else {
        Err(o.status())
    }
}

/// Metamorphic oracle on the real backends: remove one attribute; backends whose condition is false
/// must produce byte-identical output; a backend whose condition is true must not mention a disabled item.
fn metamorphic(m: &Module, rng: &mut Rng, rep: &mut Report) {
    let sites = m.attr_sites();
    if sites.is_empty() {
        return;
    }
    let (site, attr) = rng.pick(&sites).clone();
    let with = m.rust();
    let without = m.without(&site).rust();
    let case = format!("{} minus {site}", m.sexp());
    if abi_names(&with) != abi_names(&without) {
        rep.oracle_fail(&case, "removing a diplomat::attr changed the exported symbol set", json!({"with": abi_names(&with), "without": abi_names(&without)}));
    }
    for t in NAMES {
        let v = validator(t);
        let holds = attr.cfg.eval(&v);
        rep.oracle_runs += 1;
        // the real command line sees the attribute the way the in-process pipeline does
        if rep.distribution.get("cli-tie").copied().unwrap_or(0) < tie_budget() {
            rep.count("cli-tie");
            // every third time under another accepted spelling of the backend on the command line
            let n = rep.distribution.get("cli-tie").copied().unwrap_or(0);
            let sp = tool::spellings(t);
            let spelled = if n % 3 == 2 { sp[(n / 3) % sp.len()].clone() } else { t.to_string() };
            if spelled != t { rep.count("cli-tie:other-spelling"); }
            if let Some(d) = tool::cli_tie_spelled(&util::workdir("C13tie"), &with, t, &spelled, None, &["lib_name=somelib".to_string(), "kotlin.domain=dev.diplomattest".to_string()]).map(|mut d| { d["spelled"] = json!(spelled); d }) {
                rep.disagree(&format!("{} backend={t}", m.sexp()), "cli-vs-in-process", &d.to_string(), "same verdict and byte-identical files");
            }
        }
        let a = backend_files(&with, t);
        let b = backend_files(&without, t);
        match holds {
            Some(false) => {
                rep.count("metamorphic_condition_false");
                match (&a, &b) {
                    (Ok(fa), Ok(fb)) => {
                        if fa != fb {
                            let diff: Vec<&String> = fa.keys().chain(fb.keys()).filter(|k| fa.get(*k) != fb.get(*k)).collect();
                            rep.oracle_fail(&case, "attribute whose condition is false for this backend changed its output", json!({"backend": t, "attr": attr.sexp(), "differing_files": diff}));
                        }
                    }
                    (Err(x), Err(y)) if x == y => {}
                    (x, y) => {
                        // an error unrelated to this attribute may exist in both; differing status is a failure
                        let sx = x.as_ref().err().cloned().unwrap_or("ok".into());
                        let sy = y.as_ref().err().cloned().unwrap_or("ok".into());
                        if sx != sy {
                            rep.oracle_fail(&case, "attribute whose condition is false for this backend changed its status", json!({"backend": t, "attr": attr.sexp(), "with": sx, "without": sy}));
                        }
                    }
                }
            }
            Some(true) => {
                rep.count("metamorphic_condition_true");
                if let (Ok(fa), Meta::Disable) = (&a, &attr.meta) {
                    // the disabled item must be absent from this backend's files and symbol uses
                    let p: Vec<&str> = site.split('#').next().unwrap().split(':').collect();
                    let ti = p.get(1).and_then(|x| x.parse::<usize>().ok());
                    match p[0] {
                        "type" | "mod" => {
                            let tys: Vec<&Type> = if p[0] == "mod" { m.types.iter().collect() } else { vec![&m.types[ti.unwrap()]] };
                            for ty in tys {
                                for (name, text) in fa {
                                    let base = name.rsplit('/').next().unwrap();
                                    let stem = base.split('.').next().unwrap();
                                    if stem == ty.name || contains_symbol(text, &ty.name) || text.contains(&format!("{}_m", ty.name)) || text.contains(&format!("{}_destroy", ty.name)) {
                                        rep.oracle_fail(&case, "disabled type still present in backend output", json!({"backend": t, "type": ty.name, "file": name}));
                                    }
                                }
                            }
                        }
                        "method" | "impl" => {
                            let ty = &m.types[ti.unwrap()];
                            let ii: usize = p[2].parse().unwrap();
                            let ms: Vec<&Method> = if p[0] == "impl" { ty.impls[ii].methods.iter().collect() } else { vec![&ty.impls[ii].methods[p[3].parse::<usize>().unwrap()]] };
                            for me in ms {
                                let sym = format!("{}_{}", ty.name, me.name);
                                for (name, text) in fa {
                                    if contains_symbol(text, &sym) {
                                        rep.oracle_fail(&case, "disabled method still referenced in backend output", json!({"backend": t, "symbol": sym, "file": name}));
                                    }
                                }
                            }
                        }
                        _ => {}
                    }
                }
            }
            None => rep.count("metamorphic_condition_rejected"),
        }
    }
}

/// Placement oracle: an attribute on an impl block must mean exactly the same as that attribute written on
/// every method of *that* impl block (and on no other); compared on all seven real backends.
fn impl_placement(m: &Module, rep: &mut Report) {
    let mut moved = m.clone();
    let mut any = false;
    for t in &mut moved.types {
        for i in &mut t.impls {
            if i.attrs.is_empty() {
                continue;
            }
            any = true;
            let inherited = std::mem::take(&mut i.attrs);
            for me in &mut i.methods {
                let mut v = inherited.clone();
                v.extend(me.attrs.drain(..));
                me.attrs = v;
            }
        }
    }
    if !any {
        return;
    }
    let a_src = m.rust();
    let b_src = moved.rust();
    let case = format!("{} vs impl attributes moved onto their methods", m.sexp());
    for t in NAMES {
        rep.oracle_runs += 1;
        let a = backend_files(&a_src, t);
        let b = backend_files(&b_src, t);
        match (a, b) {
            (Ok(fa), Ok(fb)) => {
                if fa != fb {
                    let diff: Vec<String> = fa.keys().chain(fb.keys()).filter(|k| fa.get(*k) != fb.get(*k)).cloned().collect();
                    rep.oracle_fail(&case, "an impl-block attribute behaves differently from the same attribute on each of its methods", json!({"backend": t, "differing_files": diff, "source": a_src}));
                }
            }
            (Err(x), Err(y)) => {
                let _ = (x, y);
            }
            (x, y) => rep.oracle_fail(&case, "an impl-block attribute changes acceptance compared with the same attribute on each of its methods", json!({"backend": t, "impl_level": x.err(), "method_level": y.err()})),
        }
    }
    rep.count("impl_placement_checked");
}

pub fn contains_symbol(text: &str, sym: &str) -> bool {
    let mut start = 0;
    while let Some(p) = text[start..].find(sym) {
        let begin = start + p;
        let end = begin + sym.len();
        let next = text[end..].chars().next();
        let prev = text[..begin].chars().next_back();
        if !next.map(|c| c.is_alphanumeric() || c == '_').unwrap_or(false)
            && !prev.map(|c| c.is_alphanumeric() || c == '_').unwrap_or(false)
        {
            return true;
        }
        start = end;
    }
    false
}

/// exhaustive small formulas (depth <= 2 over names + 4 supports atoms): `sat` vs real satisfies through a
/// one-type module (`disable` on the type is observed as the effect).
fn exhaustive_small(rep: &mut Report, thorough: bool) {
    let mut atoms: Vec<Cfg> = NAMES.iter().map(|n| Cfg::Be(n.to_string())).collect();
    atoms.push(Cfg::Star);
    for f in ["namespacing", "memory_sharing", "option", "callbacks"] {
        atoms.push(Cfg::Nv("supports".into(), f.into()));
    }
    let mut forms: Vec<Cfg> = atoms.clone();
    for a in &atoms {
        forms.push(Cfg::Not(Box::new(a.clone())));
    }
    forms.push(Cfg::Any(vec![]));
    forms.push(Cfg::All(vec![]));
    let pairs: Vec<(usize, usize)> = if thorough {
        (0..atoms.len()).flat_map(|i| (0..atoms.len()).map(move |j| (i, j))).collect()
    } else {
        (0..atoms.len()).flat_map(|i| [(i, (i * 5 + 1) % 12), (i, (i * 7 + 3) % 12)]).collect()
    };
    for (i, j) in pairs {
        forms.push(Cfg::Any(vec![atoms[i].clone(), atoms[j].clone()]));
        forms.push(Cfg::All(vec![atoms[i].clone(), Cfg::Not(Box::new(atoms[j].clone()))]));
        forms.push(Cfg::Not(Box::new(Cfg::Any(vec![atoms[i].clone(), atoms[j].clone()]))));
    }
    let mut lines = vec![];
    let mut real = vec![];
    for f in &forms {
        let m = Module { attrs: vec![], types: vec![Type { name: "Ta".into(), attrs: vec![Attr { cfg: f.clone(), meta: Meta::Disable }], impls: vec![Impl { attrs: vec![], methods: vec![Method { name: "ma".into(), attrs: vec![] }] }] }] };
        let src = m.rust();
        for t in NAMES {
            lines.push(format!("(sat {t} {})", f.sexp()));
            let l = real_lowered(&src, t);
            real.push(if l == "error" { "error".to_string() } else if l.contains("Ta:disabled") { "true".into() } else if l.contains("Ta:enabled") { "false".into() } else { l });
        }
    }
    rep.count_n("exhaustive_small_formulas", forms.len());
    match crate::model::run_model("C13", &lines) {
        Ok(model) => {
            for ((l, r), m) in lines.iter().zip(real.iter()).zip(model.iter()) {
                rep.cases += 1;
                rep.distinct.insert(l.clone());
                if r != m {
                    rep.disagree(l, "satisfies", r, m);
                }
            }
        }
        Err(e) => rep.disagree("*", "model-driver", "", &e),
    }
}


/// demo_gen carries a second, type-level channel next to methods: `#[diplomat::demo(custom_func = "file")]` bundles a
/// user file and registers `RenderTermini<Type>` in index.mjs.  A type disabled for demo_gen — directly, through
/// `js` (demo_gen answers to that name too), through a compound condition or a `supports` flag — must leave no
/// trace there; an enabled one must be bundled.  Run through the real command line (the file is read from disk).

/// Inheritance and special methods: a conditional rename placed on the bridge module reaches every kind of type in
/// it — opaques, structs, out-structs, enums — exactly as if it were written on each of them; and a rename on an
/// accessor with an explicit property name renames the property.  Both by equality of whole outputs between the
/// two spellings, for the backends that render renames, with the false-condition variant equal to no attribute.
fn rename_equivalence_probe(rep: &mut Report) {
    let types = |attr: &str| format!("    {attr}#[diplomat::opaque]\n    pub struct Handle(u8);\n    {attr}pub struct Pair {{ pub a: u8, pub b: u8 }}\n    {attr}#[diplomat::out]\n    pub struct Report {{ pub code: u8, pub ok: bool }}\n    {attr}pub enum Mode {{ A, B }}\n    impl Handle {{\n        pub fn pair(&self) -> Pair {{ unimplemented!() }}\n        pub fn report(&self) -> Report {{ unimplemented!() }}\n        pub fn mode(&self, p: Pair) -> Mode {{ unimplemented!() }}\n    }}\n");
    for (cond, holds_for) in [("cpp", vec!["cpp"]), ("any(js, dart)", vec!["js", "dart"]), ("not(kotlin)", vec!["cpp", "js", "dart"]), ("kotlin", vec![])] {
        let on_module = format!("#[diplomat::bridge]\n#[diplomat::attr({cond}, rename = \"Lib{{0}}\")]\nmod ffi {{\n{}}}\n", types(""));
        let on_types = format!("#[diplomat::bridge]\nmod ffi {{\n{}}}\n", types(&format!("#[diplomat::attr({cond}, rename = \"Lib{{0}}\")]\n    ")));
        let plain = format!("#[diplomat::bridge]\nmod ffi {{\n{}}}\n", types(""));
        for t in ["cpp", "js", "dart", "c"] {
            let (a, b, c) = (backend_files(&on_module, t), backend_files(&on_types, t), backend_files(&plain, t));
            rep.oracle_runs += 1;
            rep.count("probe:rename-equivalence");
            let (Ok(a), Ok(b), Ok(c)) = (a, b, c) else { rep.oracle_fail(&format!("(c13 probe module-rename {cond} {t})"), "a backend refuses the rename probe", json!({"backend": t})); continue };
            let holds = holds_for.contains(&t);
            if a != b {
                let diff: Vec<&String> = a.keys().chain(b.keys()).filter(|k| a.get(*k) != b.get(*k)).collect();
                rep.oracle_fail(&format!("(c13 probe module-rename {cond} {t})"), "a rename on the bridge module is not what the same rename on every type gives", json!({"backend": t, "differing_files": diff.iter().take(8).collect::<Vec<_>>(), "source": on_module}));
            }
            if holds == (a == c) && t != "c" {
                rep.oracle_fail(&format!("(c13 probe module-rename {cond} {t})"), if holds { "a rename whose condition holds changed nothing" } else { "a rename whose condition is false changed the output" }, json!({"backend": t, "source": on_module}));
            }
        }
    }
    // accessors with an explicit property name
    let acc = |rn: &str, prop: &str| format!("#[diplomat::bridge]\nmod ffi {{\n    #[diplomat::opaque]\n    pub struct Tank(u8);\n    impl Tank {{\n        {rn}#[diplomat::attr(auto, getter = \"{prop}\")]\n        pub fn level(&self) -> u8 {{ 0 }}\n        {rn}#[diplomat::attr(auto, setter = \"{prop}\")]\n        pub fn set_level(&mut self, v: u8) {{ }}\n    }}\n}}\n");
    for t in ["js", "dart", "cpp"] {
        let renamed = backend_files(&acc("#[diplomat::attr(any(js, dart, cpp), rename = \"fill_level\")]\n        ", "level"), t);
        let by_hand = backend_files(&acc("", "fill_level"), t);
        let false_cond = backend_files(&acc("#[diplomat::attr(kotlin, rename = \"fill_level\")]\n        ", "level"), t);
        let plain = backend_files(&acc("", "level"), t);
        rep.oracle_runs += 1;
        rep.count("probe:accessor-rename");
        let (Ok(r), Ok(h), Ok(f), Ok(p)) = (renamed, by_hand, false_cond, plain) else { continue };
        if f != p {
            rep.oracle_fail(&format!("(c13 probe accessor-rename {t})"), "a rename whose condition is false changed an accessor", json!({"backend": t}));
        }
        // C++ has no properties: accessors are plain methods there and the rename names the method
        if t != "cpp" && r != h {
            let diff: Vec<&String> = r.keys().chain(h.keys()).filter(|k| r.get(*k) != h.get(*k)).collect();
            let line = diff.first().and_then(|k| r.get(*k).zip(h.get(*k))).and_then(|(x, y)| x.lines().zip(y.lines()).find(|(p, q)| p != q).map(|(p, q)| format!("{} | {}", p.trim(), q.trim())));
            rep.oracle_fail(&format!("(c13 probe accessor-rename {t})"), "a rename (condition true) on an accessor with an explicit property name is not what naming the property so gives", json!({"backend": t, "differing_files": diff.iter().take(4).collect::<Vec<_>>(), "first_difference": line}));
        }
        if t != "cpp" && r == p {
            rep.oracle_fail(&format!("(c13 probe accessor-rename {t})"), "a rename whose condition holds left the accessor's name alone", json!({"backend": t}));
        }
    }
}

fn demo_custom_func_probe(rep: &mut Report) {
    use diplomat_core::ast::attrs::DiplomatBackendAttrCfg as Cfg;
    let conds: [(&str, &str); 8] = [
        ("Alpha", "demo_gen"), ("Beta", "js"), ("Gamma", "kotlin"), ("Delta", "not(any(js, cpp))"),
        ("Epsilon", "any(dart, all(demo_gen, not(c)))"), ("Zeta", "supports = accessors"), ("Eta", "all(js, kotlin)"), ("Theta", "*"),
    ];
    let mut src = String::from("#[diplomat::bridge]\nmod ffi {\n    #[diplomat::opaque]\n    #[diplomat::demo(custom_func = \"custom_plain.mjs\")]\n    pub struct Plain(u8);\n    impl Plain { pub fn get(&self) -> u8 { 0 } }\n");
    for (name, c) in conds {
        src += &format!("    #[diplomat::opaque]\n    #[diplomat::attr({c}, disable)]\n    #[diplomat::demo(custom_func = \"custom_{name}.mjs\")]\n    pub struct {name}(u8);\n    impl {name} {{ pub fn get(&self) -> u8 {{ 0 }} }}\n");
    }
    src += "}\n";
    let dir = util::workdir("C13demo");
    let _ = std::fs::remove_dir_all(&dir);
    std::fs::create_dir_all(dir.join("src")).unwrap();
    std::fs::write(dir.join("src/lib.rs"), &src).unwrap();
    for n in conds.iter().map(|c| c.0).chain(["plain"]) {
        std::fs::write(dir.join(format!("src/custom_{n}.mjs")), "export default {};\n").unwrap();
    }
    let o = std::process::Command::new(tool::cli_path()).args(["demo_gen", "out", "--entry", "src/lib.rs", "-s"]).current_dir(&dir).output();
    rep.oracle_runs += 1;
    rep.count("probe:demo-custom-func");
    let case = "(c13 probe demo-custom-func)";
    let Ok(o) = o else { rep.notes.push("demo custom_func probe: the diplomat-tool binary could not be run".into()); return };
    let index = std::fs::read_to_string(dir.join("out/index.mjs")).unwrap_or_default();
    if !o.status.success() || index.is_empty() {
        rep.oracle_fail(case, "demo_gen does not generate the custom_func probe", json!({"exit": o.status.code(), "stderr": String::from_utf8_lossy(&o.stderr).lines().take(5).collect::<Vec<_>>()}));
        return;
    }
    let v = validator("demo_gen");
    let vjs = validator("js"); // the bindings under js/ come from the js backend run under its own name
    let mut expect = vec![("Plain", true, true)];
    for (name, c) in conds {
        let cfg: Cfg = syn::parse_str(c).expect("condition parses");
        expect.push((name, !v.satisfies_cfg(&cfg, None).unwrap_or(false), !vjs.satisfies_cfg(&cfg, None).unwrap_or(false)));
    }
    for (name, enabled, enabled_js) in expect {
        let present = crate::c06::contains_word(&index, &format!("RenderTermini{name}"));
        let bundled = dir.join(format!("out/custom_{}.mjs", if name == "Plain" { "plain" } else { name })).exists();
        let js_present = dir.join(format!("out/js/{name}.mjs")).exists();
        if present != enabled || bundled != enabled || js_present != enabled_js {
            rep.oracle_fail(case, "a type's presence in demo_gen's output does not follow its disable condition", json!({"type": name, "enabled_for_demo_gen": enabled, "registered_in_index": present, "custom_file_bundled": bundled, "enabled_for_js": enabled_js, "js_binding_written": js_present, "source": src}));
        }
    }
    let _ = std::fs::remove_dir_all(&dir);
}

pub fn main(args: &[String]) {
    let a = util::parse_args(args);
    let mut rep = Report::new("C13");
    let thorough = a.tier == "thorough";
    let mut rng = Rng::new(a.seed);
    exhaustive_small(&mut rep, thorough);
    let n = if a.n > 0 { a.n } else if thorough { 4000 } else { 400 };
    let mods: Vec<Module> = (0..n).map(|_| gen_module(&mut rng)).collect();
    let mut lines = vec![];
    for m in &mods {
        for t in NAMES {
            lines.push(format!("(c13 {t} {})", m.sexp()));
        }
    }
    match crate::model::run_model("C13", &lines) {
        Ok(model) => {
            let mut k = 0;
            for m in &mods {
                let src = m.rust();
                for t in NAMES {
                    let l = &lines[k];
                    rep.case(l);
                    let real = real_lowered(&src, t);
                    if real != model[k] {
                        rep.disagree(l, "lowered-items", &real, &model[k]);
                    }
                    rep.count(if real == "error" { "lowering_error" } else if real.contains(":disabled") { "some_type_disabled" } else { "no_type_disabled" });
                    k += 1;
                }
            }
        }
        Err(e) => rep.disagree("*", "model-driver", "", &e),
    }
    let k = if thorough { 300 } else { 30 };
    let mut orng = rng.fork();
    for m in mods.iter().take(k) {
        metamorphic(m, &mut orng, &mut rep);
        impl_placement(m, &mut rep);
    }
    exports_oracle(&mods, if thorough { 200 } else { 24 }, &mut rep);
    demo_custom_func_probe(&mut rep);
    rename_equivalence_probe(&mut rep);
    crate::tool::alias_probe(&mut rep, "C13", crate::tool::ALIAS_SRC);
    rep.print();
}

/// "… and the Rust library still exports the function": whatever the conditions say, the real proc macro emits one
/// `extern "C"` function per method of the bridge (the AST's ABI names, which know nothing of backends).
fn exports_oracle(mods: &[Module], k: usize, rep: &mut Report) {
    let probe = "#[diplomat::bridge]\nmod ffi {\n    #[diplomat::opaque]\n    pub struct Counter(pub u8);\n    impl Counter {\n        pub fn plain(&self) -> u8 { 1 }\n        #[diplomat::attr(*, disable)]\n        pub fn star(&self) -> u8 { 2 }\n        #[diplomat::attr(any(c, cpp, js, dart, kotlin, nanobind, demo_gen), disable)]\n        pub fn every(&self) -> u8 { 3 }\n        #[diplomat::attr(not(cpp), disable)]\n        pub fn only_cpp(&self) -> u8 { 4 }\n    }\n    #[diplomat::attr(*, disable)]\n    impl Counter {\n        pub fn inherited_star(&self) -> u8 { 5 }\n    }\n    #[diplomat::attr(*, disable)]\n    pub struct Gone { pub a: u8 }\n    impl Gone { pub fn of(a: u8) -> Gone { Gone { a } } }\n}\n".to_string();
    let mut srcs = vec![probe];
    srcs.extend(mods.iter().take(k).map(|m| m.rust()));
    let ex = crate::expand::expand_each(&srcs);
    for (i, (src, e)) in srcs.iter().zip(&ex).enumerate() {
        let case = if i == 0 { "(c13 probe exports-under-star-disable)".to_string() } else { format!("{} exports", mods[i - 1].sexp()) };
        rep.oracle_runs += 1;
        match e {
            Err(e) => {
                rep.count("exports:expansion-failed");
                if i == 0 { rep.oracle_fail(&case, "the proc-macro expansion of the export probe does not build", json!({"rustc": e})); }
            }
            Ok(x) => {
                rep.count("exports:checked");
                let exported: Vec<&str> = x.extern_fns.iter().map(|f| f.name.as_str()).collect();
                for want in abi_names(src) {
                    if !exported.contains(&want.as_str()) {
                        rep.oracle_fail(&case, "a method under a backend-conditional attribute is not exported by the Rust library", json!({"symbol": want, "exported": exported, "source": src}));
                    }
                }
            }
        }
    }
}
