//! C09 — whatever the tool accepts builds: the macro expansion type-checks under rustc, every C header
//! compiles alone as C11, every C++ header alone as C++17 and C++20, all headers together in any order,
//! every JS module parses, and every include/import names a generated file (and a name it defines).
//!
//! Model tie: identifier escaping (regenerated keyword tables) and the relative include path computation of
//! the C++ backend, observed through the generated `#include` lines.
use crate::report::Report;
use crate::rng::Rng;
use crate::tool;
use crate::tygen::Gen;
use crate::util;
use serde_json::json;
use std::collections::{BTreeMap, BTreeSet};
use std::path::{Path, PathBuf};
use std::sync::Mutex;

#[derive(Clone)]
struct Job {
    case: String,
    what: String,
    cmd: Vec<String>,
    dir: PathBuf,
    file: String,
    src_ref: usize,
}

/// C / C++ / Rust-legal identifiers that are keywords (or otherwise reserved) on the other side
const KEYWORD_IDENTS: [&str; 24] = [
    "int", "char", "default", "register", "signed", "short", "inline", "union", "auto", "long", "namespace", "template", "class", "new", "delete", "this", "operator", "typename", "not", "and", "xor", "export", "friend", "private",
];

/// a snippet whose parameter, field and method names are C / C++ keywords
fn keyword_snippet(rng: &mut Rng) -> (String, String, Vec<(&'static str, &'static str)>) {
    let mut pick = |n: usize| -> Vec<&'static str> {
        let mut v: Vec<&'static str> = vec![];
        while v.len() < n {
            let k = *rng.pick(&KEYWORD_IDENTS);
            if !v.contains(&k) {
                v.push(k);
            }
        }
        v
    };
    let f = pick(3);
    let p = pick(3);
    let m = pick(2);
    // names that only become reserved words after a backend's case conversion (`in_` → `in`)
    let u: Vec<String> = pick(2).iter().map(|k| format!("{k}_")).collect();
    // (not the same word twice: `in_` and `_in` both become `in`, recorded finding F31, probed separately)
    let lead = loop {
        let k = pick(1)[0];
        if !u.iter().any(|x| x.trim_end_matches('_') == k) { break format!("_{k}"); }
    };
    let tag = format!("kw:{}+{}+{}", f.join(","), p.join(","), m.join(","));
    let union_safe = |s: &str| if s == "union" || s == "auto" || s == "default" { format!("r#{s}") } else { s.to_string() };
    let _ = union_safe;
    let items = format!(
        "    pub struct XtKw {{ pub {}: u8, pub {}: bool, pub {}: f64 }}\n    #[diplomat::opaque]\n    pub struct XtKwO;\n    impl XtKwO {{\n        pub fn make({}: u8, {}: &XtKwO, {}: XtKw) -> Box<XtKwO> {{ unimplemented!() }}\n        pub fn {}(&self) -> u8 {{ unimplemented!() }}\n        pub fn {}(&self, {}: u16) -> XtKw {{ unimplemented!() }}\n        pub fn underscored(&self, {}: u8, {}: u8, {}: u8) -> u8 {{ unimplemented!() }}\n    }}\n    pub enum XtKwE {{ Int, Default, Class }}\n",
        f[0], f[1], f[2], p[0], p[1], p[2], m[0], m[1], p[0], u[0], u[1], lead
    );
    let mut names = vec![];
    for x in &f {
        names.push(("field", *x));
    }
    for x in &p {
        names.push(("param", *x));
    }
    for x in &m {
        names.push(("method", *x));
    }
    (tag, items, names)
}

/// return shapes that exercise the macro's return rewriting and every backend's result handling: the candidates
/// a backend accepts (one by one) are spliced in as methods of one opaque
fn sweep_snippet(rng: &mut Rng, target: &str) -> (String, String) {
    let cands: [&str; 36] = [
        "pub fn res_zst_sized(&self) -> Result<XtAck, XtFault> { unimplemented!() }",
        "pub fn res_sized_zst(&self) -> Result<XtFault, XtAck> { unimplemented!() }",
        "pub fn res_zst_zst(&self) -> Result<XtAck, XtAck> { unimplemented!() }",
        "pub fn res_zst_prim(&self) -> Result<XtAck, u8> { unimplemented!() }",
        "pub fn opt_zst(&self) -> Option<XtAck> { unimplemented!() }",
        "pub fn w_res_zst(&self, w: &mut DiplomatWrite) -> Result<(), XtAck> { unimplemented!() }",
        "pub fn w_dres_opt(&self, w: &mut DiplomatWrite) -> DiplomatResult<(), Option<u8>> { unimplemented!() }",
        "pub fn w_dres_str<'a>(&'a self, w: &mut DiplomatWrite) -> DiplomatResult<(), &'a str> { unimplemented!() }",
        "pub fn w_dres_ord(&self, w: &mut DiplomatWrite) -> DiplomatResult<(), core::cmp::Ordering> { unimplemented!() }",
        "pub fn w_res_opt(&self, w: &mut DiplomatWrite) -> Result<(), Option<i16>> { unimplemented!() }",
        "pub fn w_res_dopt(&self, w: &mut DiplomatWrite) -> Result<(), DiplomatOption<i16>> { unimplemented!() }",
        "pub fn w_res_box(&self, w: &mut DiplomatWrite) -> Result<(), Box<XtShp>> { unimplemented!() }",
        "pub fn w_opt(&self, w: &mut DiplomatWrite) -> Option<()> { unimplemented!() }",
        "pub fn w_dopt(&self, w: &mut DiplomatWrite) -> DiplomatOption<()> { unimplemented!() }",
        "pub fn dres_opt_ok(&self) -> DiplomatResult<Option<u32>, ()> { unimplemented!() }",
        "pub fn dres_dopt_ok(&self) -> DiplomatResult<DiplomatOption<u32>, ()> { unimplemented!() }",
        "pub fn dres_slice<'a>(&'a self) -> DiplomatResult<&'a [u8], u8> { unimplemented!() }",
        "pub fn dres_str16<'a>(&'a self) -> DiplomatResult<&'a DiplomatStr16, ()> { unimplemented!() }",
        "pub fn res_ord(&self) -> Result<core::cmp::Ordering, ()> { unimplemented!() }",
        "pub fn dres_ord(&self) -> DiplomatResult<core::cmp::Ordering, core::cmp::Ordering> { unimplemented!() }",
        "pub fn opt_opt(&self) -> Option<Option<u8>> { unimplemented!() }",
        "pub fn opt_dopt(&self) -> Option<DiplomatOption<u8>> { unimplemented!() }",
        "pub fn dopt_opt(&self) -> DiplomatOption<Option<u8>> { unimplemented!() }",
        "pub fn opt_str<'a>(&'a self) -> Option<&'a str> { unimplemented!() }",
        "pub fn dopt_str<'a>(&'a self) -> DiplomatOption<&'a str> { unimplemented!() }",
        "pub fn dopt_dstr<'a>(&'a self) -> DiplomatOption<DiplomatUtf8StrSlice<'a>> { unimplemented!() }",
        "pub fn opt_slice<'a>(&'a self) -> Option<&'a [f64]> { unimplemented!() }",
        "pub fn opt_ord(&self) -> Option<core::cmp::Ordering> { unimplemented!() }",
        "pub fn res_box_optbox(&self) -> Result<Box<XtShp>, Option<Box<XtShp>>> { unimplemented!() }",
        "pub fn res_ref_optref<'a>(&'a self) -> Result<&'a XtShp, Option<&'a XtShp>> { unimplemented!() }",
        "pub fn res_unit_unit(&self) -> Result<(), ()> { unimplemented!() }",
        "pub fn dres_unit_unit(&self) -> DiplomatResult<(), ()> { unimplemented!() }",
        "pub fn opt_unit(&self) -> Option<()> { unimplemented!() }",
        "pub fn res_opt_opt(&self) -> Result<Option<bool>, DiplomatOption<f32>> { unimplemented!() }",
        "pub fn res_str_str<'a>(&'a self) -> Result<&'a DiplomatStr, DiplomatStr16Slice<'a>> { unimplemented!() }",
        "pub fn static_mixed(a: Option<u8>, b: DiplomatOption<u8>, w: &mut DiplomatWrite) -> Result<(), Option<u8>> { unimplemented!() }",
    ];
    let mut picked: Vec<&str> = vec![];
    let mut order: Vec<usize> = (0..cands.len()).collect();
    rng.shuffle(&mut order);
    for i in order {
        if picked.len() >= 12 { break; }
        let one = format!("#[diplomat::bridge]\nmod ffi {{\n    pub struct XtAck {{}}\n    pub struct XtFault {{ pub code: u8 }}\n    #[diplomat::opaque]\n    pub struct XtShp;\n    impl XtShp {{\n        {}\n    }}\n}}\n", cands[i]);
        let o = tool::run_backend(&one, target);
        if o.ok() {
            picked.push(cands[i]);
        }
    }
    let names: Vec<String> = picked.iter().map(|c| c.split('(').next().unwrap_or("").trim_start_matches("pub fn ").split('<').next().unwrap_or("").to_string()).collect();
    (format!("sweep:{}", names.join(",")), format!("    pub struct XtAck {{}}\n    pub struct XtFault {{ pub code: u8 }}\n    #[diplomat::opaque]\n    pub struct XtShp;\n    impl XtShp {{\n{}    }}\n", picked.iter().map(|c| format!("        {c}\n")).collect::<String>()))
}

fn includes_of(text: &str) -> Vec<String> {
    text.lines()
        .filter_map(|l| {
            let l = l.trim();
            let r = l.strip_prefix("#include")?.trim();
            let r = r.strip_prefix('"')?;
            Some(r.split('"').next()?.to_string())
        })
        .collect()
}

fn normalize(p: &Path) -> String {
    let mut parts: Vec<String> = vec![];
    for c in p.components() {
        match c {
            std::path::Component::ParentDir => {
                parts.pop();
            }
            std::path::Component::CurDir => {}
            o => parts.push(o.as_os_str().to_string_lossy().to_string()),
        }
    }
    parts.join("/")
}

/// names a JS module exports (`export class X`, `export function x`, `export const x`, `export { A, B }`)
fn js_exports(text: &str) -> BTreeSet<String> {
    let mut s = BTreeSet::new();
    for l in text.lines() {
        let l = l.trim();
        if let Some(r) = l.strip_prefix("export ") {
            let r = r.trim_start_matches("default ").trim_start_matches("async ");
            for kw in ["class ", "function ", "const ", "let ", "var "] {
                if let Some(x) = r.strip_prefix(kw) {
                    let name: String = x.chars().take_while(|c| c.is_alphanumeric() || *c == '_' || *c == '$').collect();
                    s.insert(name);
                }
            }
            if let Some(x) = r.strip_prefix('{') {
                for n in x.split('}').next().unwrap_or("").split(',') {
                    let n = n.trim();
                    let n = n.rsplit(" as ").next().unwrap_or(n).trim();
                    if !n.is_empty() {
                        s.insert(n.to_string());
                    }
                }
            }
        }
    }
    s
}

/// `(imported names, module path)` of every static import
fn js_imports(text: &str) -> Vec<(Vec<String>, String)> {
    let mut v = vec![];
    for l in text.lines() {
        let l = l.trim();
        if !(l.starts_with("import ") || l.starts_with("export {")) || !l.contains(" from ") {
            continue;
        }
        let Some(path) = l.rsplit(" from ").next().map(|p| p.trim().trim_end_matches(';').trim_matches(|c| c == '"' || c == '\'').to_string()) else { continue };
        let names: Vec<String> = match (l.find('{'), l.find('}')) {
            (Some(a), Some(b)) if a < b => l[a + 1..b]
                .split(',')
                .map(|n| n.trim().trim_start_matches("type ").split(" as ").next().unwrap_or("").trim().to_string())
                .filter(|n| !n.is_empty())
                .collect(),
            _ => vec![],
        };
        v.push((names, path));
    }
    v
}

fn run_jobs(jobs: Vec<Job>) -> Vec<(Job, bool, String)> {
    let q = Mutex::new(jobs.into_iter().rev().collect::<Vec<_>>());
    let out = Mutex::new(vec![]);
    std::thread::scope(|s| {
        for _ in 0..16 {
            s.spawn(|| loop {
                let job = { q.lock().unwrap().pop() };
                let Some(job) = job else { break };
                let (ok, _o, e) = util::run(std::process::Command::new(&job.cmd[0]).args(&job.cmd[1..]).current_dir(&job.dir));
                out.lock().unwrap().push((job, ok, e));
            });
        }
    });
    out.into_inner().unwrap()
}

/// the module as plain Rust: every `#[diplomat::…]` attribute removed, `use diplomat_runtime::*` added —
/// what rustc has to accept before the macro's output can be blamed for anything
fn strip_diplomat(src: &str) -> Option<String> {
    use quote::ToTokens;
    use syn::visit_mut::VisitMut;
    struct S;
    fn keep(a: &syn::Attribute) -> bool {
        !a.path().segments.first().map(|s| s.ident == "diplomat").unwrap_or(false)
    }
    impl VisitMut for S {
        fn visit_attributes_mut(&mut self, attrs: &mut Vec<syn::Attribute>) {
            attrs.retain(keep);
        }
        fn visit_item_mod_mut(&mut self, m: &mut syn::ItemMod) {
            m.attrs.retain(keep);
            if let Some((_, items)) = &mut m.content {
                items.insert(0, syn::parse_quote! { use diplomat_runtime::*; });
            }
            syn::visit_mut::visit_item_mod_mut(self, m);
        }
    }
    let mut f = syn::parse_file(src).ok()?;
    S.visit_file_mut(&mut f);
    Some(f.to_token_stream().to_string())
}

struct Unit {
    kw: Vec<(&'static str, &'static str)>,
    case: String,
    target: String,
    src: String,
    files: BTreeMap<String, String>,
    dir: PathBuf,
}

fn static_checks(u: &Unit, rep: &mut Report) {
    // every include / import names a generated file
    for (name, text) in &u.files {
        let dir = Path::new(name).parent().unwrap_or(Path::new("")).to_path_buf();
        if name.ends_with(".h") || name.ends_with(".hpp") {
            for inc in includes_of(text) {
                rep.oracle_runs += 1;
                let rel = normalize(&dir.join(&inc));
                let root = normalize(Path::new(&inc));
                if !u.files.contains_key(&rel) && !u.files.contains_key(&root) {
                    rep.oracle_fail(&u.case, "an #include names a file that was not generated", json!({"backend": u.target, "file": name, "include": inc, "source": u.src}));
                }
            }
        }
        if name.ends_with(".mjs") {
            for (names, path) in js_imports(text) {
                if !path.starts_with('.') {
                    continue;
                }
                // `diplomat-wasm.mjs` is the replaceable wasm loader: it imports the user's `../diplomat.config.mjs`,
                // which is not generated by design
                if name.ends_with("diplomat-wasm.mjs") {
                    continue;
                }
                rep.oracle_runs += 1;
                let rel = normalize(&dir.join(&path));
                match u.files.get(&rel) {
                    None => rep.oracle_fail(&u.case, "an import names a module that was not generated", json!({"backend": u.target, "file": name, "import": path, "source": u.src})),
                    Some(t) => {
                        let ex = js_exports(t);
                        for n in names {
                            if !ex.contains(&n) {
                                rep.oracle_fail(&u.case, "an import names something its module does not export", json!({"backend": u.target, "file": name, "import": path, "name": n, "source": u.src}));
                            }
                        }
                    }
                }
            }
        }
    }
}

fn compile_jobs(u: &Unit, k: usize, rng: &mut Rng, jobs: &mut Vec<Job>) {
    let names: Vec<&String> = u.files.keys().collect();
    let mk = |what: &str, cmd: Vec<&str>, file: &str| Job { case: u.case.clone(), what: what.into(), cmd: cmd.into_iter().map(String::from).collect(), dir: u.dir.clone(), file: file.into(), src_ref: k };
    match u.target.as_str() {
        "c" => {
            let hs: Vec<&String> = names.iter().copied().filter(|n| n.ends_with(".h")).collect();
            for h in &hs {
                jobs.push(mk("a C header does not compile on its own as C11", vec!["gcc", "-std=c11", "-fsyntax-only", "-Wno-pragma-once-outside-header", "-x", "c", "-I", ".", h], h));
            }
            for o in 0..2 {
                let mut order = hs.clone();
                rng.shuffle(&mut order);
                let f = format!("all_{o}.c");
                std::fs::write(u.dir.join(&f), order.iter().map(|h| format!("#include \"{h}\"\n")).collect::<String>()).unwrap();
                jobs.push(mk("the C headers do not compile together in this include order", vec!["gcc", "-std=c11", "-fsyntax-only", "-I", ".", &f], &f));
            }
        }
        "cpp" => {
            let hs: Vec<&String> = names.iter().copied().filter(|n| n.ends_with(".hpp")).collect();
            for h in &hs {
                for std in ["-std=c++17", "-std=c++20"] {
                    jobs.push(mk(&format!("a C++ header does not compile on its own ({std})"), vec!["g++", std, "-fsyntax-only", "-Wno-pragma-once-outside-header", "-x", "c++", "-I", ".", h], h));
                }
            }
            let mut order = hs.clone();
            rng.shuffle(&mut order);
            let f = "all_0.cpp".to_string();
            std::fs::write(u.dir.join(&f), order.iter().map(|h| format!("#include \"{h}\"\n")).collect::<String>()).unwrap();
            jobs.push(mk("the C++ headers do not compile together in this include order", vec!["g++", "-std=c++17", "-fsyntax-only", "-I", ".", &f], &f));
        }
        "js" => {
            for n in names.iter().filter(|n| n.ends_with(".mjs")) {
                jobs.push(mk("a JS module does not parse", vec!["node", "--check", n], n));
            }
        }
        _ => {}
    }
}

pub fn main(args: &[String]) {
    let a = util::parse_args(args);
    let mut rep = Report::new("C09");
    let thorough = a.tier == "thorough";
    let mut rng = Rng::new(a.seed);
    let work = util::workdir("C09");
    let n = if a.n > 0 { a.n } else if thorough { 240 } else { 36 };
    let targets = ["c", "cpp", "js"];
    let mut units: Vec<Unit> = vec![];
    let mut rust_srcs: Vec<(String, String)> = vec![];
    for i in 0..n {
        let target = targets[i % 3];
        let prof = crate::c05::profile_of(target, false);
        let avoid = crate::tygen::Avoid { noncustom_result_err: target == "js", byte_slices: false, callbacks_on_methods_with_self: false, ..Default::default() };
        let m = Gen::valid_module_avoiding(&mut rng, prof, avoid);
        let plain = m.rust();
        let mut src = plain.clone();
        let mut tag = String::from("plain");
        if i % 12 != 11 {
            // two kinds per module, walking through every kind on every backend within 36 modules
            let (r, j) = (i / 3, i % 3);
            // each kind is kept when the backend accepts it (some kinds need features a backend lacks)
            let mut tags = vec![];
            for k in [r + 5 * j, r + 5 * j + 7] {
                let Some((t, items)) = crate::extras::extras_only(&mut rng, &m, prof.option, k) else { continue };
                if tags.iter().any(|x: &String| x == t) { continue; }
                let with = crate::extras::splice(&src, &items);
                if tool::run_backend(&with, target).lowering_errors.is_empty() {
                    src = with;
                    tags.push(t.to_string());
                }
            }
            if !tags.is_empty() { tag = tags.join("+"); }
        }
        if i % 2 == 0 {
            let (t, items) = sweep_snippet(&mut rng, target);
            let with = crate::extras::splice(&src, &items);
            if tool::run_backend(&with, target).lowering_errors.is_empty() {
                src = with;
                tag = format!("{tag}+{t}");
            }
        }
        let mut kw = vec![];
        if i % 3 == 1 || i % 5 == 0 {
            let (t, items, names) = keyword_snippet(&mut rng);
            let with = crate::extras::splice(&src, &items);
            if tool::run_backend(&with, target).lowering_errors.is_empty() {
                src = with;
                tag = format!("{tag}+{t}");
                kw = names;
            }
        }
        for part in tag.split('+') {
            rep.count(&format!("extras:{}", part.split(':').next().unwrap_or(part)));
        }
        let case = format!("(c09 {target} seed={} module={i} extras={tag})", a.seed);
        rep.case(&case);
        let o = tool::run_backend(&src, target);
        if let Some(p) = &o.panic {
            rep.count(&format!("{target}:panic"));
            let _ = p;
            continue;
        }
        if !o.lowering_errors.is_empty() {
            rep.count(&format!("{target}:rejected"));
            continue;
        }
        if !o.backend_errors.is_empty() {
            rep.count(&format!("{target}:backend-errors"));
            continue;
        }
        rep.count(&format!("{target}:accepted"));
        rep.count_n(&format!("{target}:files"), o.files.len());
        let dir = work.join(format!("m{i}"));
        std::fs::create_dir_all(&dir).unwrap();
        util::write_files(&dir, &o.files);
        rust_srcs.push((case.clone(), src.clone()));
        units.push(Unit { kw, case, target: target.into(), src, files: o.files, dir });
    }
    // callbacks that take references (only accepted with `unsafe_references_in_callbacks`, which the generated modules
    // leave off): shared, mutable and optional opaque references next to by-value structs and enums
    for target in ["c", "cpp"] {
        let src = "#[diplomat::bridge]\nmod ffi {\n    #[diplomat::opaque]\n    pub struct XtEvent(pub u32);\n    pub enum XtSeverity { Info, Warning }\n    pub struct XtStamp { pub seconds: u64, pub nanos: u32 }\n    #[diplomat::opaque]\n    pub struct XtBus;\n    impl XtBus {\n        pub fn dispatch(&self, ev: &XtEvent, listener: impl Fn(&XtEvent) -> bool) -> bool { unimplemented!() }\n        pub fn rewrite(&self, ev: &mut XtEvent, listener: impl Fn(&mut XtEvent)) { unimplemented!() }\n        pub fn stamped(&self, listener: impl Fn(&XtEvent, XtStamp, XtSeverity) -> u8) -> u8 { unimplemented!() }\n        pub fn maybe(&self, listener: impl Fn(Option<&XtEvent>) -> i32) -> i32 { unimplemented!() }\n        pub fn both(&self, listener: impl Fn(&XtEvent, &mut XtEvent)) { unimplemented!() }\n    }\n}\n".to_string();
        let mut cfg = diplomat_tool::config::Config::default();
        cfg.set("unsafe_references_in_callbacks", toml::Value::Boolean(true));
        let o = tool::run_backend_cfg(&src, target, cfg);
        let case = format!("(c09 {target} probe callbacks-with-references)");
        rep.case(&case);
        rep.count("extras:callback-references");
        if !o.ok() {
            rep.count(&format!("{target}:callback-references:{}", o.status().split(':').next().unwrap_or("?")));
            continue;
        }
        rep.count(&format!("{target}:accepted"));
        let dir = work.join(format!("cbref-{target}"));
        std::fs::create_dir_all(&dir).unwrap();
        util::write_files(&dir, &o.files);
        rust_srcs.push((case.clone(), src.clone()));
        units.push(Unit { kw: vec![], case, target: target.into(), src, files: o.files, dir });
    }
    // a comparison method on each kind of type: C++ derives `const` relational operators that call it
    {
        let src = "#[diplomat::bridge]\nmod ffi {\n    pub enum XtPriority { Low, High }\n    impl XtPriority {\n        #[diplomat::attr(auto, comparison)]\n        pub fn cmp(self, other: XtPriority) -> core::cmp::Ordering { unimplemented!() }\n        pub fn rank(self) -> u8 { unimplemented!() }\n    }\n    pub struct XtVersion { pub major: u8, pub minor: u8 }\n    impl XtVersion {\n        #[diplomat::attr(auto, comparison)]\n        pub fn cmp(self, other: XtVersion) -> core::cmp::Ordering { unimplemented!() }\n    }\n    #[diplomat::opaque]\n    pub struct XtKey(u8);\n    impl XtKey {\n        #[diplomat::attr(auto, comparison)]\n        pub fn cmp(&self, other: &XtKey) -> core::cmp::Ordering { unimplemented!() }\n    }\n}\n".to_string();
        for target in ["cpp", "js", "c"] {
            let o = tool::run_backend(&src, target);
            let case = format!("(c09 {target} probe comparators)");
            rep.case(&case);
            rep.count("extras:comparators");
            if o.ok() {
                rep.count(&format!("{target}:accepted"));
                let dir = work.join(format!("cmp-{target}"));
                std::fs::create_dir_all(&dir).unwrap();
                util::write_files(&dir, &o.files);
                units.push(Unit { kw: vec![], case, target: target.into(), src: src.clone(), files: o.files, dir });
            } else {
                rep.count(&format!("{target}:comparators:{}", o.status().split(':').next().unwrap_or("?")));
            }
        }
    }
    // traits under renames (C emits a header per trait and refers to it from every user)
    {
        let src = "#[diplomat::bridge]\n#[diplomat::attr(*, rename = \"Gfx{0}\")]\nmod ffi {\n    pub trait XtPainter {\n        fn paint(&self, x: i32) -> i32;\n    }\n    pub struct XtCanvas { pub w: u32 }\n    impl XtCanvas {\n        pub fn draw(self, p: impl XtPainter) -> i32 { unimplemented!() }\n    }\n    #[diplomat::attr(c, rename = \"Brush\")]\n    pub trait XtBrushTrait {\n        fn dab(&self);\n    }\n    #[diplomat::opaque]\n    pub struct XtTool;\n    impl XtTool {\n        pub fn apply(&self, b: impl XtBrushTrait, p: impl XtPainter) { unimplemented!() }\n    }\n}\n".to_string();
        let o = tool::run_backend(&src, "c");
        let case = "(c09 c probe renamed-traits)".to_string();
        rep.case(&case);
        rep.count("extras:renamed-traits");
        if o.ok() {
            rep.count("c:accepted");
            let dir = work.join("traits-c");
            std::fs::create_dir_all(&dir).unwrap();
            util::write_files(&dir, &o.files);
            units.push(Unit { kw: vec![], case, target: "c".into(), src, files: o.files, dir });
        } else {
            rep.count(&format!("c:renamed-traits:{}", o.status().split(':').next().unwrap_or("?")));
        }
    }
    // F31 (recorded): two parameters whose names coincide after the JS backend's lower-camel-casing
    {
        let src = "#[diplomat::bridge]\nmod ffi {\n    #[diplomat::opaque]\n    pub struct XtDup;\n    impl XtDup {\n        pub fn f(&self, in_: u8, _in: u8) -> u8 { unimplemented!() }\n        pub fn g(&self, start_at: u8, startAt: u8) -> u8 { unimplemented!() }\n    }\n}\n";
        let o = tool::run_backend(src, "js");
        if o.ok() {
            let dir = work.join("probe-dup");
            std::fs::create_dir_all(&dir).unwrap();
            util::write_files(&dir, &o.files);
            rep.oracle_runs += 1;
            let (ok, _o, e) = util::run(std::process::Command::new("node").args(["--check", "XtDup.mjs"]).current_dir(&dir));
            rep.count(if ok { "probe:dup-params:parses" } else { "probe:dup-params:broken" });
            if !ok {
                rep.oracle_fail("(c09 js probe parameters-colliding-after-camel-casing)", "a JS module does not parse", json!({"file": "XtDup.mjs", "diagnostics": e.lines().filter(|l| l.contains("Error")).take(2).collect::<Vec<_>>(), "source": src}));
            }
        }
    }
    // includes / imports
    for u in &units {
        static_checks(u, &mut rep);
    }
    // model tie: identifier escaping and relative include paths
    let mut lines: Vec<String> = vec![];
    let mut expect: Vec<(usize, String, String, String)> = vec![]; // unit, kind, file or include, detail
    let has_word = |text: &str, w: &str| -> bool {
        let b = text.as_bytes();
        let mut from = 0;
        while let Some(i) = text[from..].find(w) {
            let s = from + i;
            let e = s + w.len();
            let pre = s == 0 || !(b[s - 1].is_ascii_alphanumeric() || b[s - 1] == b'_');
            let post = e >= b.len() || !(b[e].is_ascii_alphanumeric() || b[e] == b'_');
            if pre && post {
                return true;
            }
            from = e;
        }
        false
    };
    for (k, u) in units.iter().enumerate() {
        for (kind, name) in &u.kw {
            let (file, lang) = match (u.target.as_str(), *kind) {
                ("c", "field") => ("XtKw.d.h", "c"),
                ("c", "param") => ("XtKwO.h", "c"),
                ("cpp", "field") => ("XtKw.d.hpp", "cpp"),
                ("cpp", "param") => ("XtKwO.d.hpp", "cpp"),
                ("cpp", "method") => ("XtKwO.d.hpp", "cpp"),
                ("js", "param") => ("XtKwO.mjs", "js"),
                ("js", "method") => ("XtKwO.mjs", "js"),
                _ => continue,
            };
            lines.push(format!("(ident {lang} {name})"));
            expect.push((k, "ident".into(), file.into(), name.to_string()));
        }
        if u.target == "cpp" {
            for (name, text) in &u.files {
                if !name.ends_with(".hpp") {
                    continue;
                }
                let dir = Path::new(name).parent().unwrap_or(Path::new("")).to_path_buf();
                for inc in includes_of(text) {
                    let tgt = normalize(&dir.join(&inc));
                    if !u.files.contains_key(&tgt) {
                        continue;
                    }
                    lines.push(format!("(pathdiff {name} {tgt})"));
                    expect.push((k, "pathdiff".into(), inc.clone(), name.clone()));
                }
            }
        }
    }
    match crate::model::run_model("C09", &lines) {
        Err(e) => rep.disagree("*", "model-driver", "", &e),
        Ok(model) => {
            for ((k, kind, what, detail), m) in expect.iter().zip(model.iter()) {
                let u = &units[*k];
                if kind == "ident" {
                    rep.count(&format!("ident:{}", if m == detail { "kept" } else { "escaped" }));
                    let text = u.files.get(what).cloned().unwrap_or_default();
                    if !has_word(&text, m) {
                        rep.disagree(&format!("{} (ident {detail}) in {what}", u.case), "identifier", &format!("`{m}` does not occur in {what}"), m);
                    }
                } else {
                    rep.count("pathdiff");
                    if m != what {
                        rep.disagree(&format!("{} include in {detail}", u.case), "include-path", what, m);
                    }
                }
            }
        }
    }
    // compilers
    let mut jobs = vec![];
    for (k, u) in units.iter().enumerate() {
        compile_jobs(u, k, &mut rng, &mut jobs);
    }
    rep.count_n("compiler-runs", jobs.len());
    for (job, ok, err) in run_jobs(jobs) {
        rep.oracle_runs += 1;
        rep.count(&format!("{}:{}", job.cmd[0], if ok { "ok" } else { "error" }));
        if !ok {
            let first: Vec<&str> = err.lines().filter(|l| l.contains("error") || l.contains("Error")).take(4).collect();
            rep.oracle_fail(&job.case, &job.what, json!({"file": job.file, "command": job.cmd.join(" "), "diagnostics": first, "source": units[job.src_ref].src}));
        }
    }
    // rustc on the macro expansion
    let srcs: Vec<String> = rust_srcs.iter().map(|(_, s)| s.clone()).collect();
    let plain: Vec<String> = srcs.iter().map(|s| strip_diplomat(s).unwrap_or_default()).collect();
    for ((chunk, with_macro), without) in rust_srcs.chunks(40).zip(srcs.chunks(40)).zip(plain.chunks(40)) {
        let res = crate::expand::check_each(with_macro);
        let base = if res.iter().any(|r| r.is_err()) { crate::expand::check_each(without) } else { without.iter().map(|_| Ok(())).collect() };
        for (((case, src), r), b) in chunk.iter().zip(res).zip(base) {
            rep.oracle_runs += 1;
            match (r, b) {
                (Ok(()), _) => rep.count("rustc:ok"),
                // rustc rejects the module even without the macro: not a valid input (a generator artefact)
                (Err(_), Err(_)) => rep.count("rustc:input-invalid-without-macro"),
                (Err(e), Ok(())) => {
                    rep.count("rustc:error");
                    rep.oracle_fail(case, "the proc-macro expansion of an accepted module does not type-check", json!({"diagnostics": e, "source": src}));
                }
            }
        }
    }
    // the repository's own bridges: every generated header / module on its own
    crate::repo_tests::headers_compile(&mut rep);
    rep.print();
}
