//! C08 — executing the generated JS in Node.
//!
//! Two set-ups, both on the files the real JS backend writes for a random struct:
//!  * `stub`  (js.abi = legacy): `diplomat-wasm.mjs` is replaced by a plain `WebAssembly.Memory`, a bump allocator and a
//!    recording proxy for the exports.  `_writeToArrayBuffer` bytes are compared with the bytes rustc lays out for the same
//!    value (`#[repr(C)]`, 32-bit stand-ins for pointers), `_fromFFI` reads them back, a scripted `Op_give` export returns
//!    rustc's bytes through the receive buffer, and the flattened argument list of `Op_take` is compared with the slot list
//!    the Lean model (`argSlots`) prescribes for the layout.
//!  * `wasm`  (js.abi = spec): the exports are real — a `#![no_core]` Rust crate compiled by the sandbox's nightly rustc for
//!    `wasm32-unknown-unknown` (spec C ABI, the only one this rustc has) whose `Op_take(this, s)` stores `s` at a fixed
//!    address and whose `Op_give(this)` returns what is there.  So the bytes, sizes and argument passing are checked against
//!    what rustc's own wasm32 layout and calling convention do.
use crate::c08::{Case, F};
use crate::report::Report;
use crate::rng::Rng;
use crate::tool;
use crate::util;
use serde_json::json;
use std::fmt::Write as _;
use std::path::Path;
use std::process::Command;

pub const SCRATCH: u32 = 0x100000;
pub const POOL: u32 = 0x180000;
pub const HEAP: u32 = 0x200000;

#[derive(Clone, Debug)]
pub enum V {
    Int(i128, &'static str),
    Flt(f64, bool),
    Bool(bool),
    Enum(usize, i32), // (variant index, discriminant)
    Ptr(u32),
    Slice(usize),
    Struct(usize, Vec<V>),
    Some(Box<V>),
    None,
}

fn gen_int(rng: &mut Rng, lo: i128, hi: i128) -> i128 {
    // edges and the middle of the range, never 0 (0 is what untouched memory holds)
    let span = (hi - lo) as u128 + 1;
    let v = match rng.below(6) {
        0 => hi,
        1 => lo,
        2 => 1,
        _ => lo + ((rng.next_u64() as u128 * 0x1_0000_0001u128 + rng.next_u64() as u128) % span) as i128,
    };
    if v == 0 { 1 } else { v }
}

pub fn gen_v(c: &Case, f: &F, rng: &mut Rng) -> V {
    match f {
        F::Prim(n, _, _) => match *n {
            "bool" => V::Bool(rng.chance(2, 3)),
            "f32" => V::Flt({ let k = rng.range(-4000, 4000); (if k == 0 { 3 } else { k }) as f64 / 8.0 }, true),
            "f64" => V::Flt({ let k = rng.range(-4_000_000, 4_000_000); (if k == 0 { 5 } else { k }) as f64 / 64.0 }, false),
            "DiplomatChar" => V::Int(*rng.pick(&[0x41, 0xE9, 0x1F600, 0x10FFFF, 0x20AC]), "DiplomatChar"),
            "i8" => V::Int(gen_int(rng, -128, 127), "i8"),
            "u8" => V::Int(gen_int(rng, 0, 255), "u8"),
            "DiplomatByte" => V::Int(gen_int(rng, 0, 255), "DiplomatByte"),
            "i16" => V::Int(gen_int(rng, -32768, 32767), "i16"),
            "u16" => V::Int(gen_int(rng, 0, 65535), "u16"),
            "i32" => V::Int(gen_int(rng, i32::MIN as i128, i32::MAX as i128), "i32"),
            "isize" => V::Int(gen_int(rng, i32::MIN as i128, i32::MAX as i128), "isize"),
            "u32" => V::Int(gen_int(rng, 0, u32::MAX as i128), "u32"),
            "usize" => V::Int(gen_int(rng, 0, u32::MAX as i128), "usize"),
            "i64" => V::Int(gen_int(rng, i64::MIN as i128, i64::MAX as i128), "i64"),
            "u64" => V::Int(gen_int(rng, 0, u64::MAX as i128), "u64"),
            o => panic!("prim {o}"),
        },
        F::Enum => { let k = rng.below(2); V::Enum(k, if k == 0 { c.discs.0 } else { c.discs.1 }) }
        F::BoxOpaque => V::Ptr(0x3000 + 8 * rng.below(100) as u32),
        F::Slice => V::Slice(rng.below(4)),
        F::Struct(k) => V::Struct(*k, c.structs[*k].iter().map(|x| gen_v(c, x, rng)).collect()),
        F::Opt(t) => if rng.chance(1, 3) { V::None } else {
            // a present payload may well be zero / false: `is_ok` decides, not the payload
            let v = gen_v(c, t, rng);
            let v = if rng.chance(1, 3) { match v { V::Int(_, p) => V::Int(0, p), V::Flt(_, f) => V::Flt(0.0, f), V::Bool(_) => V::Bool(false), o => o } } else { v };
            V::Some(Box::new(v))
        },
    }
}

fn slice_elem(k: usize) -> u32 { 0x1101 + k as u32 }

/// the JS expression that builds the value
pub fn js_lit(v: &V) -> String {
    match v {
        V::Int(n, t) => if matches!(*t, "i64" | "u64") { format!("{n}n") } else { n.to_string() },
        V::Flt(x, _) => format!("{x:?}"),
        V::Bool(b) => b.to_string(),
        V::Enum(k, _) => format!("En.{}", ["A", "B"][*k]),
        V::Ptr(p) => format!("new Op(rt.internalConstructor, {p}, [null])"),
        V::Slice(n) => format!("[{}]", (0..*n).map(|k| slice_elem(k).to_string()).collect::<Vec<_>>().join(", ")),
        V::Struct(_, vs) => format!("{{{}}}", vs.iter().enumerate().map(|(i, x)| format!("f{i}: {}", js_lit(x))).collect::<Vec<_>>().join(", ")),
        V::Some(x) => js_lit(x),
        V::None => "null".into(),
    }
}

/// canonical text of a value (what the JS `canon` function prints for the object read back)
pub fn canon(v: &V) -> String {
    match v {
        V::Int(n, _) => n.to_string(),
        V::Flt(x, _) => format!("{x}"),
        V::Bool(b) => b.to_string(),
        V::Enum(_, d) => format!("E{d}"),
        V::Ptr(p) => format!("P{p}"),
        V::Slice(n) => format!("[{}]", (0..*n).map(|k| slice_elem(k).to_string()).collect::<Vec<_>>().join(",")),
        V::Struct(_, vs) => format!("{{{}}}", vs.iter().map(canon).collect::<Vec<_>>().join(",")),
        V::Some(x) => canon(x),
        V::None => "null".into(),
    }
}

/// the JS function expression that canonicalises a value of field type `f`
fn js_canon_fn(c: &Case, f: &F) -> String {
    match f {
        F::Prim(..) => "cP".into(),
        F::Enum => "cE".into(),
        F::BoxOpaque => "cO".into(),
        F::Slice => "cSl".into(),
        F::Struct(k) => format!("cS{k}"),
        F::Opt(t) => format!("(v => v == null ? 'null' : ({})(v))", js_canon_fn(c, t)),
    }
}

fn js_canon_defs(c: &Case) -> String {
    let mut s = String::from(
        "const cP = v => typeof v === 'bigint' ? v.toString() : String(v);\nconst cE = v => 'E' + v.ffiValue;\nconst cO = v => 'P' + v.ffiValue;\nconst cSl = v => '[' + Array.from(v).join(',') + ']';\n",
    );
    for (k, fs) in c.structs.iter().enumerate() {
        let _ = writeln!(s, "const cS{k} = v => '{{' + [{}].join(',') + '}}';", fs.iter().enumerate().map(|(i, f)| format!("({})(v.f{i})", js_canon_fn(c, f))).collect::<Vec<_>>().join(", "));
    }
    s
}

/// leaf values in flattening order (what `_intoFFI` passes for scalar slots); options are returned as markers
#[derive(Clone, Debug)]
pub enum Leaf { Val(String), SlicePtr, Opt(Vec<u8>, bool) }

fn int_bytes(n: i128, size: usize) -> Vec<u8> { n.to_le_bytes()[..size].to_vec() }

/// little-endian bytes of a value laid out at offset 0 with the given (hook) layouts: only used for option payloads
fn payload_bytes(c: &Case, f: &F, v: &V, layouts: &Layouts, out: &mut Vec<u8>, at: usize) {
    let put = |out: &mut Vec<u8>, at: usize, b: &[u8]| { if out.len() < at + b.len() { out.resize(at + b.len(), 0); } out[at..at + b.len()].copy_from_slice(b); };
    match (f, v) {
        (F::Prim(_, size, _), V::Int(n, _)) => put(out, at, &int_bytes(*n, *size)),
        (F::Prim(..), V::Bool(b)) => put(out, at, &[*b as u8]),
        (F::Prim(..), V::Flt(x, true)) => put(out, at, &(*x as f32).to_le_bytes()),
        (F::Prim(..), V::Flt(x, false)) => put(out, at, &x.to_le_bytes()),
        (F::Enum, V::Enum(_, d)) => put(out, at, &d.to_le_bytes()),
        (F::BoxOpaque, V::Ptr(p)) => put(out, at, &p.to_le_bytes()),
        // the pointer of a slice inside an option payload is the allocator's business: marked, compared as a wildcard
        (F::Slice, V::Slice(n)) => { put(out, at, &[0xAA; 4]); put(out, at + 4, &(*n as u32).to_le_bytes()); }
        (F::Struct(k), V::Struct(_, vs)) => {
            let l = &layouts[*k];
            if out.len() < at + l.size { out.resize(at + l.size, 0); }
            for (i, (ff, vv)) in c.structs[*k].iter().zip(vs).enumerate() { payload_bytes(c, ff, vv, layouts, out, at + l.offsets[i]); }
        }
        // an option nested in the payload (a field of an optional struct): payload first, `is_ok` right behind it;
        // an optional opaque pointer is the pointer itself, an absent value is all zero bytes
        (F::Opt(t), V::Some(x)) => match **t {
            F::BoxOpaque => payload_bytes(c, t, x, layouts, out, at),
            _ => {
                let (s, _) = ty_size_align(c, t, layouts);
                payload_bytes(c, t, x, layouts, out, at);
                put(out, at + s, &[1]);
            }
        },
        (F::Opt(_), V::None) => {
            let (s, _) = ty_size_align(c, f, layouts);
            if out.len() < at + s { out.resize(at + s, 0); }
        }
        _ => {}
    }
}

#[derive(Clone, Debug)]
pub struct Lay { pub offsets: Vec<usize>, pub size: usize, pub align: usize }
pub type Layouts = Vec<Lay>;

fn ty_size_align(c: &Case, f: &F, layouts: &Layouts) -> (usize, usize) {
    match f {
        F::Prim(_, s, a) => (*s, *a),
        F::Enum | F::BoxOpaque => (4, 4),
        F::Slice => (8, 4),
        F::Struct(k) => (layouts[*k].size, layouts[*k].align),
        F::Opt(t) => match **t { F::BoxOpaque => (4, 4), _ => { let (s, a) = ty_size_align(c, t, layouts); (s + a, a) } },
    }
}

pub fn leaves(c: &Case, f: &F, v: &V, layouts: &Layouts, out: &mut Vec<Leaf>) {
    match (f, v) {
        (_, V::Int(n, t)) => out.push(Leaf::Val(if matches!(*t, "i64" | "u64") { format!("{n}n") } else { n.to_string() })),
        (_, V::Flt(x, _)) => out.push(Leaf::Val(format!("{x}"))),
        (_, V::Bool(b)) => out.push(Leaf::Val((*b as u8).to_string())),
        (_, V::Enum(_, d)) => out.push(Leaf::Val(d.to_string())),
        (_, V::Ptr(p)) => out.push(Leaf::Val(p.to_string())),
        (_, V::Slice(n)) => { out.push(Leaf::SlicePtr); out.push(Leaf::Val(n.to_string())); }
        (F::Struct(k), V::Struct(_, vs)) => for (ff, vv) in c.structs[*k].iter().zip(vs) { leaves(c, ff, vv, layouts, out) },
        (F::Opt(t), V::None) => { let (s, _) = ty_size_align(c, t, layouts); out.push(Leaf::Opt(vec![0; s], false)) }
        (F::Opt(t), V::Some(x)) => {
            let (s, _) = ty_size_align(c, t, layouts);
            let mut b = vec![];
            payload_bytes(c, t, x, layouts, &mut b, 0);
            b.resize(s, 0);
            out.push(Leaf::Opt(b, true));
        }
        _ => {}
    }
}

/// Fill the model's slot list (`l4 l1 p1 p1 c4 c4 f …`) with the values: the expected argument list.
pub fn fill_slots(slots: &str, lv: &[Leaf]) -> Result<Vec<String>, String> {
    let mut out = vec![];
    let mut li = 0;
    let mut chunk_at = 0usize;
    for s in slots.split_whitespace() {
        let (kind, w) = s.split_at(1);
        let w: usize = w.parse().unwrap_or(0);
        match kind {
            "l" => {
                match lv.get(li) { Some(Leaf::Val(x)) => out.push(x.clone()), Some(Leaf::SlicePtr) => out.push("*".into()), o => return Err(format!("slot {s}: leaf {li} is {o:?}")) }
                li += 1;
            }
            "p" => out.push("0".into()),
            "c" => match lv.get(li) {
                Some(Leaf::Opt(b, _)) => {
                    let mut n: u128 = 0;
                    for (i, x) in b[chunk_at..chunk_at + w].iter().enumerate() { n |= (*x as u128) << (8 * i); }
                    let has_ptr = b[chunk_at..chunk_at + w].windows(4).any(|q| q == [0xAA; 4]);
                    out.push(if has_ptr { "*".into() } else if w == 8 { format!("{n}n") } else { n.to_string() });
                    chunk_at += w;
                }
                o => return Err(format!("slot {s}: leaf {li} is {o:?}")),
            },
            "f" => match lv.get(li) {
                Some(Leaf::Opt(_, ok)) => { out.push((*ok as u8).to_string()); li += 1; chunk_at = 0; }
                o => return Err(format!("slot {s}: leaf {li} is {o:?}")),
            },
            _ => return Err(format!("unknown slot {s}")),
        }
    }
    if li != lv.len() { return Err(format!("{} leaves, {} consumed", lv.len(), li)); }
    Ok(out)
}

/// rustc on the host: bytes of every case's value in zeroed memory (+ the offsets of slice pointers), and the offsets /
/// size / alignment of every struct of the case
pub fn host_bytes(items: &[(&Case, &V)], dir: &Path) -> Option<Vec<(Vec<u8>, Vec<usize>, Layouts)>> {
    let mut src = String::from("#![allow(dead_code, unused_variables, unused_mut, unused_unsafe)]\nuse std::mem::{size_of, align_of, offset_of};\nuse std::ptr::addr_of_mut;\n#[repr(C)] #[derive(Clone, Copy)] pub enum En { A, B }\n#[repr(C)] #[derive(Clone, Copy)] pub struct Sl { p: u32, l: u32 }\n#[repr(C)] #[derive(Clone, Copy)] pub struct Opt<T: Copy> { v: std::mem::MaybeUninit<T>, is_ok: bool }\n");
    let mut main = String::from("fn main() {\n");
    for (ci, (c, v)) in items.iter().enumerate() {
        let _ = writeln!(src, "mod c{ci} {{\n    use super::*;");
        for (k, fs) in c.structs.iter().enumerate() {
            let _ = writeln!(src, "    #[repr(C)] #[derive(Clone, Copy)] pub struct S{k} {{ {} }}", fs.iter().enumerate().map(|(i, f)| format!("pub f{i}: {}", c.host_ty(f))).collect::<Vec<_>>().join(", "));
        }
        src += "}\n";
        let last = c.structs.len() - 1;
        let mut w = String::new();
        let mut ctr = 0;
        host_write(c, ci, &F::Struct(last), v, "buf", &mut w, &mut ctr);
        let lay: Vec<String> = c.structs.iter().enumerate().map(|(k, fs)| format!("({}, {}, vec![{}])", format!("size_of::<c{ci}::S{k}>()"), format!("align_of::<c{ci}::S{k}>()"), (0..fs.len()).map(|i| format!("offset_of!(c{ci}::S{k}, f{i})")).collect::<Vec<_>>().join(", "))).collect();
        let _ = writeln!(main, "    {{ #[allow(unused_imports)] use c{ci}::*; let mut raw = [0u64; 64]; assert!(size_of::<c{ci}::S{last}>() <= 512); let buf = raw.as_mut_ptr() as *mut c{ci}::S{last}; let base = buf as usize; let mut mask: Vec<usize> = vec![]; unsafe {{ {w} }}\n      let bytes = unsafe {{ std::slice::from_raw_parts(base as *const u8, size_of::<c{ci}::S{last}>()) }};\n      let lay: Vec<(usize, usize, Vec<usize>)> = vec![{}];\n      println!(\"{{}} {{:?}} {{:?}}\", bytes.iter().map(|b| format!(\"{{b:02x}}\")).collect::<String>(), mask, lay); }}", lay.join(", "));
    }
    main += "}\n";
    std::fs::write(dir.join("bytes.rs"), format!("{src}{main}")).ok()?;
    let (ok, _, err) = util::run(Command::new("rustc").args(["--edition", "2021", "-o"]).arg(dir.join("bytes")).arg(dir.join("bytes.rs")));
    if !ok {
        eprintln!("rustc byte oracle failed: {}", err.chars().take(1500).collect::<String>());
        return None;
    }
    let (_, out, _) = util::run(&mut Command::new(dir.join("bytes")));
    let mut res = vec![];
    for l in out.lines() {
        let (hex, rest) = l.split_once(' ')?;
        let (mask, lay) = rest.split_once("] [")?;
        let bytes: Vec<u8> = (0..hex.len() / 2).map(|i| u8::from_str_radix(&hex[2 * i..2 * i + 2], 16).unwrap()).collect();
        let mask: Vec<usize> = mask.trim_matches(|c| c == '[' || c == ']').split(',').filter_map(|x| x.trim().parse().ok()).collect();
        // lay: (size, align, [offs]), (size, align, [offs])]
        let mut lays = vec![];
        for part in lay.split("(").skip(1) {
            let nums: Vec<usize> = part.split(|c: char| !c.is_ascii_digit()).filter(|x| !x.is_empty()).map(|x| x.parse().unwrap()).collect();
            lays.push(Lay { size: nums[0], align: nums[1], offsets: nums[2..].to_vec() });
        }
        res.push((bytes, mask, lays));
    }
    if res.len() != items.len() { return None; }
    Some(res)
}

fn host_write(c: &Case, ci: usize, f: &F, v: &V, ptr: &str, out: &mut String, ctr: &mut usize) {
    match (f, v) {
        (F::Prim(n, _, _), V::Int(x, _)) => { let t = c.host_ty(f); let _ = write!(out, "({ptr} as *mut {t}).write(({x}_i128) as {t}); "); let _ = n; }
        (F::Prim(..), V::Bool(b)) => { let _ = write!(out, "({ptr} as *mut bool).write({b}); "); }
        (F::Prim(..), V::Flt(x, true)) => { let _ = write!(out, "({ptr} as *mut f32).write({x:?}_f32); "); }
        (F::Prim(..), V::Flt(x, false)) => { let _ = write!(out, "({ptr} as *mut f64).write({x:?}_f64); "); }
        (F::Enum, V::Enum(_, d)) => { let _ = write!(out, "({ptr} as *mut i32).write({d}); "); }
        (F::BoxOpaque, V::Ptr(p)) => { let _ = write!(out, "({ptr} as *mut u32).write({p}); "); }
        (F::Slice, V::Slice(n)) => {
            *ctr += 1;
            let q = format!("q{ctr}");
            let _ = write!(out, "{{ let {q} = {ptr} as *mut Sl; addr_of_mut!((*{q}).p).write({POOL}); addr_of_mut!((*{q}).l).write({n}); mask.push(addr_of_mut!((*{q}).p) as usize - base); }} ");
        }
        (F::Struct(k), V::Struct(_, vs)) => {
            *ctr += 1;
            let q = format!("q{ctr}");
            let _ = write!(out, "{{ let {q} = {ptr} as *mut c{ci}::S{k}; ");
            for (i, (ff, vv)) in c.structs[*k].iter().zip(vs).enumerate() {
                host_write(c, ci, ff, vv, &format!("addr_of_mut!((*{q}).f{i})"), out, ctr);
            }
            out.push_str("} ");
        }
        (F::Opt(t), V::None) => { let _ = t; }
        (F::Opt(t), V::Some(x)) => match **t {
            F::BoxOpaque => host_write(c, ci, t, x, ptr, out, ctr),
            _ => {
                *ctr += 1;
                let q = format!("q{ctr}");
                let ht = c.host_ty(t);
                let _ = write!(out, "{{ let {q} = {ptr} as *mut Opt<{ht}>; addr_of_mut!((*{q}).is_ok).write(true); ");
                host_write(c, ci, t, x, &format!("(addr_of_mut!((*{q}).v) as *mut {ht})"), out, ctr);
                out.push_str("} ");
            }
        },
        o => panic!("host_write: {o:?}"),
    }
}

const STUB_WASM: &str = r#"// stand-in for the wasm module: plain memory, bump allocator, recording proxy for every other export
const memory = new WebAssembly.Memory({ initial: 64 });
export const log = [];
export const hooks = {};
let bump = HEAP_BASE;
const real = {
  memory,
  diplomat_alloc(size, align) { const a = Math.max(align, 1); bump = Math.ceil(bump / a) * a; const p = bump; bump += Math.max(size, 1); log.push(['alloc', size, align, p]); return p; },
  diplomat_free(p, size, align) { log.push(['free', p, size, align]); },
};
export default new Proxy(real, { get(t, k) { if (k in t) return t[k]; if (k in hooks) return hooks[k]; return (...a) => { log.push([k, ...a]); }; } });
"#;

const REAL_WASM: &str = r#"// the exports of the real wasm module, under this case's prefix; allocation stays in JS (bump)
import { instance, alloc, free } from "../wasm-instance.mjs";
export const log = [];
export const hooks = {};
const real = { memory: instance.exports.memory, diplomat_alloc(size, align) { const p = alloc(size, align); log.push(['alloc', size, align, p]); return p; }, diplomat_free: free };
export default new Proxy(real, { get(t, k) { if (k in t) return t[k]; const f = instance.exports["PREFIX" + String(k)]; if (f) return f; return (...a) => { log.push([k, ...a]); }; } });
"#;

const WASM_INSTANCE: &str = r#"import fs from 'fs';
let mem;
const u8 = () => new Uint8Array(mem.buffer);
const imports = { env: {
  memcpy(d, s, n) { u8().copyWithin(d, s, s + n); return d; },
  memmove(d, s, n) { u8().copyWithin(d, s, s + n); return d; },
  memset(d, c, n) { u8().fill(c, d, d + n); return d; },
} };
const m = await WebAssembly.instantiate(fs.readFileSync(new URL('./cases.wasm', import.meta.url)), imports);
export const instance = m.instance;
mem = instance.exports.memory;
let bump = HEAP_BASE;
export function alloc(size, align) { const a = Math.max(align, 1); bump = Math.ceil(bump / a) * a; const p = bump; bump += Math.max(size, 1); return p; }
export function free() {}
"#;

fn driver(c: &Case, v: &V, host_hex: &str, size: usize, real_wasm: bool) -> String {
    let last = c.structs.len() - 1;
    let mut s = String::new();
    s += "import wasm, { log, hooks } from \"./diplomat-wasm.mjs\";\nimport * as rt from \"./diplomat-runtime.mjs\";\nimport { En } from \"./En.mjs\";\nimport { Op } from \"./Op.mjs\";\n";
    for k in 0..c.structs.len() { let _ = writeln!(s, "import {{ S{k} }} from \"./S{k}.mjs\";"); }
    s += &js_canon_defs(c);
    let _ = writeln!(s, "const out = [];\nconst SCRATCH = {SCRATCH}, POOL = {POOL}, SIZE = {size}, HOST = \"{host_hex}\";");
    s += "const hex = (p, n) => Buffer.from(new Uint8Array(wasm.memory.buffer, p, n)).toString('hex');\nconst putHost = (p) => { new Uint8Array(wasm.memory.buffer, p, SIZE).set(Buffer.from(HOST, 'hex')); };\nconst j = (x) => JSON.stringify(x, (k, v) => typeof v === 'bigint' ? v.toString() + 'n' : v === true ? 1 : v === false ? 0 : v);\n";
    s += "new Uint16Array(wasm.memory.buffer, POOL, 64).set(Array.from({ length: 64 }, (_, k) => 0x1101 + k));\nconst op = new Op(rt.internalConstructor, 77, [null]);\n";
    let _ = writeln!(s, "const step = (name, f) => {{ try {{ f(); }} catch (e) {{ out.push(name + ' error ' + String(e).split('\\n')[0]); }} }};");
    if !c.out {
        let _ = writeln!(s, "let s;\nstep('build', () => {{ s = S{last}.fromFields({}); }});", js_lit(v));
        if real_wasm {
            let _ = writeln!(s, "step('write', () => {{ new Uint8Array(wasm.memory.buffer, SCRATCH, SIZE).fill(0); op.take(s); out.push('write ' + hex(SCRATCH, SIZE)); }});");
            let _ = writeln!(s, "step('readback', () => {{ out.push('readback ' + cS{last}(op.give())); }});");
        } else {
            let _ = writeln!(s, "step('write', () => {{ const arena = new rt.CleanupArena(); s._writeToArrayBuffer(wasm.memory.buffer, SCRATCH, arena, {{}}); out.push('write ' + hex(SCRATCH, SIZE)); }});");
            if only_prim(c, last) {
                // an only-primitive struct is handed over as the value itself
                let _ = writeln!(s, "step('readback', () => {{ out.push('readback ' + cS{last}(S{last}._fromFFI(rt.internalConstructor, {}))); }});", first_leaf_lit(v));
            } else {
                let _ = writeln!(s, "step('readback', () => {{ out.push('readback ' + cS{last}(S{last}._fromFFI(rt.internalConstructor, SCRATCH))); }});");
            }
            let _ = writeln!(s, "step('args', () => {{ log.length = 0; op.take(s); out.push('args ' + j(log.filter(e => e[0] === 'Op_take')[0].slice(1))); }});");
        }
    }
    let m = if c.out { "get" } else { "give" };
    if real_wasm {
        let _ = writeln!(s, "step('read', () => {{ new Uint8Array(wasm.memory.buffer, SCRATCH, SIZE).fill(0); putHost(SCRATCH); log.length = 0; const r = op.{m}(); out.push('recv ' + j(log.filter(e => e[0] === 'alloc').map(e => [e[1], e[2]]))); out.push('read ' + cS{last}(r)); }});");
    } else {
        // the scripted export: an out-pointer when the struct comes back through a receive buffer
        let _ = writeln!(s, "hooks.Op_{m} = (...a) => {{ if (a.length >= 2) {{ putHost(a[0]); return undefined; }} putHost(SCRATCH); return {}; }};", if only_prim(c, last) { first_leaf_lit(v) } else { "'direct'".to_string() });
        let _ = writeln!(s, "step('read', () => {{ log.length = 0; const r = op.{m}(); out.push('recv ' + j(log.filter(e => e[0] === 'alloc').map(e => [e[1], e[2]]))); out.push('read ' + cS{last}(r)); }});");
    }
    s += "export default out;\n";
    s
}

fn wasm_ty(c: &Case, f: &F) -> String {
    match f {
        F::Prim(n, _, _) => match *n { "DiplomatChar" => "u32".into(), "DiplomatByte" => "u8".into(), o => o.into() },
        F::Enum => "i32".into(), // the discriminants differ per case; the wire type is the same
        F::BoxOpaque => "u32".into(),
        F::Slice => "Sl".into(),
        F::Struct(k) => format!("S{k}"),
        F::Opt(t) => match **t { F::BoxOpaque => "u32".into(), _ => format!("Opt<{}>", wasm_ty(c, t)) },
    }
}

const NO_CORE_PRELUDE: &str = r#"#![feature(no_core, lang_items)]
#![no_core]
#![allow(internal_features, improper_ctypes_definitions, dead_code, non_camel_case_types)]
#![crate_type = "cdylib"]
#[lang = "pointee_sized"] pub trait PointeeSized {}
#[lang = "meta_sized"] pub trait MetaSized: PointeeSized {}
#[lang = "sized"] pub trait Sized: MetaSized {}
#[lang = "copy"] pub trait Copy {}
#[lang = "legacy_receiver"] pub trait LegacyReceiver {}
impl Copy for u8 {} impl Copy for u16 {} impl Copy for u32 {} impl Copy for u64 {} impl Copy for usize {}
impl Copy for i8 {} impl Copy for i16 {} impl Copy for i32 {} impl Copy for i64 {} impl Copy for isize {}
impl Copy for f32 {} impl Copy for f64 {} impl Copy for bool {}
#[repr(C)] pub enum En { A, B }
impl Copy for En {}
#[repr(C)] pub struct Sl { pub p: u32, pub l: u32 }
impl Copy for Sl {}
#[repr(C)] pub union OptV<T: Copy> { pub ok: T, pub none: () }
impl<T: Copy> Copy for OptV<T> {}
#[repr(C)] pub struct Opt<T: Copy> { pub v: OptV<T>, pub is_ok: bool }
impl<T: Copy> Copy for Opt<T> {}
"#;

/// compile the real wasm module for all cases; None when this sandbox's rustc / wasm-ld cannot do it
fn build_wasm(cases: &[&Case], dir: &Path) -> Result<(), String> {
    let mut src = String::from(NO_CORE_PRELUDE);
    for (ci, c) in cases.iter().enumerate() {
        let _ = writeln!(src, "pub mod c{ci} {{\n    use super::*;");
        for (k, fs) in c.structs.iter().enumerate() {
            let _ = writeln!(src, "    #[repr(C)] pub struct S{k} {{ {} }}\n    impl Copy for S{k} {{}}", fs.iter().enumerate().map(|(i, f)| format!("pub f{i}: {}", wasm_ty(c, f))).collect::<Vec<_>>().join(", "));
        }
        let last = c.structs.len() - 1;
        if c.out {
            let _ = writeln!(src, "    #[export_name = \"c{ci}_Op_get\"] pub unsafe extern \"C\" fn get(_this: u32) -> S{last} {{ *({SCRATCH} as *const S{last}) }}");
        } else {
            let _ = writeln!(src, "    #[export_name = \"c{ci}_Op_take\"] pub unsafe extern \"C\" fn take(_this: u32, s: S{last}) {{ *({SCRATCH} as *mut S{last}) = s; }}");
            let _ = writeln!(src, "    #[export_name = \"c{ci}_Op_give\"] pub unsafe extern \"C\" fn give(_this: u32) -> S{last} {{ *({SCRATCH} as *const S{last}) }}");
        }
        src += "}\n";
    }
    std::fs::write(dir.join("cases.rs"), &src).map_err(|e| e.to_string())?;
    let obj = dir.join("cases.o");
    let mut ok = false;
    let mut errs = String::new();
    for tc in ["+nightly", ""] {
        let mut cmd = Command::new("rustc");
        if !tc.is_empty() { cmd.arg(tc); } else { cmd.env("RUSTC_BOOTSTRAP", "1"); }
        cmd.args(["--target", "wasm32-unknown-unknown", "-O", "--emit=obj", "-o"]).arg(&obj).arg(dir.join("cases.rs"));
        let (o, _, e) = util::run(&mut cmd);
        if o { ok = true; break; }
        errs += &e.chars().take(600).collect::<String>();
    }
    if !ok { return Err(format!("rustc (no_core, wasm32-unknown-unknown): {errs}")); }
    let mut exports: Vec<String> = vec![];
    for (ci, c) in cases.iter().enumerate() {
        if c.out { exports.push(format!("--export=c{ci}_Op_get")); } else { exports.push(format!("--export=c{ci}_Op_take")); exports.push(format!("--export=c{ci}_Op_give")); }
    }
    let mut linked = false;
    for ld in ["wasm-ld", "rust-lld"] {
        let mut cmd = Command::new(ld);
        if ld == "rust-lld" { cmd.args(["-flavor", "wasm"]); }
        cmd.args(["--no-entry", "--allow-undefined", "--initial-memory=4194304"]).args(&exports).arg("-o").arg(dir.join("cases.wasm")).arg(&obj);
        let (o, _, e) = util::run(&mut cmd);
        if o { linked = true; break; }
        errs += &e.chars().take(400).collect::<String>();
    }
    if !linked { return Err(format!("wasm-ld: {errs}")); }
    Ok(())
}

/// `TyGenContext::only_primitive`: one field, a primitive or a struct that is again only-primitive; such a struct is
/// handed to `_fromFFI` as the value itself
fn only_prim(c: &Case, k: usize) -> bool {
    let fs = &c.structs[k];
    fs.len() == 1 && match &fs[0] { F::Prim(..) => true, F::Struct(j) => only_prim(c, *j), _ => false }
}

/// for a struct that is transitively one scalar: what kind of scalar (the wasm C ABI passes and returns it as that scalar)
fn single_scalar_kind(c: &Case, f: &F) -> Option<String> {
    match f {
        F::Prim(n, _, _) => Some(n.to_string()),
        F::Enum => Some("enum".into()),
        F::BoxOpaque => Some("pointer".into()),
        F::Opt(t) if matches!(**t, F::BoxOpaque) => Some("pointer".into()),
        F::Struct(k) if c.structs[*k].len() == 1 => single_scalar_kind(c, &c.structs[*k][0]),
        _ => None,
    }
}

fn first_leaf_lit(v: &V) -> String {
    match v { V::Struct(_, vs) => first_leaf_lit(&vs[0]), o => js_lit(o) }
}

fn scalar_shape(c: &Case, f: &F) -> (usize, bool) {
    // (transitive scalar count, holds a union)
    match f {
        F::Prim(..) | F::Enum | F::BoxOpaque => (1, false),
        F::Slice => (2, false),
        F::Struct(k) => c.structs[*k].iter().map(|x| scalar_shape(c, x)).fold((0, false), |a, b| (a.0 + b.0, a.1 || b.1)),
        F::Opt(t) => match **t { F::BoxOpaque => (1, false), _ => (scalar_shape(c, t).0, true) },
    }
}

/// the shape of finding F32: somewhere a struct holds a union (an option) and, directly, a struct of two scalars
fn pair_beside_union(c: &Case, k: usize) -> bool {
    let fs = &c.structs[k];
    let here_union = fs.iter().any(|f| scalar_shape(c, f).1);
    let here_pair = fs.iter().any(|f| matches!(f, F::Struct(_)) && scalar_shape(c, f) == (2, false));
    (here_union && here_pair) || fs.iter().any(|f| match f { F::Struct(j) => pair_beside_union(c, *j), _ => false })
}

fn mask_eq(got_hex: &str, want: &[u8], mask: &[usize]) -> bool {
    if got_hex.len() != want.len() * 2 { return false; }
    for (i, b) in want.iter().enumerate() {
        if mask.iter().any(|m| i >= *m && i < *m + 4) { continue; }
        if u8::from_str_radix(&got_hex[2 * i..2 * i + 2], 16).ok() != Some(*b) { return false; }
    }
    true
}

/// Run `n` of the cases through Node in the given set-up.
pub fn run(cases: &[&Case], seed: u64, real_wasm: bool, rep: &mut Report) {
    let label = if real_wasm { "jsexec-wasm-spec" } else { "jsexec-stub-legacy" };
    if !util::run(Command::new("node").arg("--version")).0 {
        rep.notes.push(format!("{label}: node is not available, the generated JS was not executed"));
        return;
    }
    let dir = util::workdir(&format!("C08-{label}"));
    let mut rng = Rng::new(seed ^ 0x6a73);
    let vals: Vec<V> = cases.iter().map(|c| gen_v(c, &F::Struct(c.structs.len() - 1), &mut rng)).collect();
    let items: Vec<(&Case, &V)> = cases.iter().cloned().zip(vals.iter()).collect();
    let Some(host) = host_bytes(&items, &dir) else {
        rep.notes.push(format!("{label}: rustc byte oracle could not run"));
        return;
    };
    if real_wasm {
        if let Err(e) = build_wasm(cases, &dir) {
            rep.notes.push(format!("{label}: real wasm module could not be built in this sandbox ({}); set-up skipped", e.chars().take(300).collect::<String>()));
            let _ = std::fs::remove_dir_all(&dir);
            return;
        }
        std::fs::write(dir.join("wasm-instance.mjs"), WASM_INSTANCE.replace("HEAP_BASE", &HEAP.to_string())).unwrap();
    }
    let cfg = |abi: &str| tool::config_from(&[("lib_name", toml::Value::String("somelib".into())), ("js.abi", toml::Value::String(abi.into()))]);
    let mut live = vec![];
    for (ci, c) in cases.iter().enumerate() {
        let o = tool::run_backend_cfg(&c.rust(), "js", cfg(if real_wasm { "spec" } else { "legacy" }));
        if !o.ok() {
            rep.oracle_fail(&c.sexp(), "js backend failed on a generated struct", json!({"abi": if real_wasm { "spec" } else { "legacy" }, "status": o.status()}));
            continue;
        }
        let d = dir.join(format!("c{ci}"));
        std::fs::create_dir_all(&d).unwrap();
        for (k, v) in &o.files {
            if k.ends_with(".mjs") && k != "diplomat-wasm.mjs" { std::fs::write(d.join(k), v).unwrap(); }
        }
        std::fs::write(d.join("diplomat-wasm.mjs"), if real_wasm { REAL_WASM.replace("PREFIX", &format!("c{ci}_")) } else { STUB_WASM.replace("HEAP_BASE", &HEAP.to_string()) }).unwrap();
        let hex: String = host[ci].0.iter().map(|b| format!("{b:02x}")).collect();
        std::fs::write(d.join("driver.mjs"), driver(c, &vals[ci], &hex, host[ci].0.len(), real_wasm)).unwrap();
        live.push(ci);
    }
    let mut main = String::new();
    for ci in &live {
        let _ = writeln!(main, "try {{ const m = await import('./c{ci}/driver.mjs'); console.log('case {ci}'); for (const l of m.default) console.log(l); }} catch (e) {{ console.log('case {ci}'); console.log('load error ' + String(e).split('\\n')[0]); }}");
    }
    std::fs::write(dir.join("main.mjs"), main).unwrap();
    let (ok, out, err) = util::run(Command::new("node").arg("main.mjs").current_dir(&dir));
    if !ok {
        rep.oracle_fail("*", "node could not run the generated JS", json!({"setup": label, "stderr": err.chars().take(600).collect::<String>()}));
    }
    let mut got: std::collections::BTreeMap<usize, Vec<String>> = Default::default();
    let mut cur = usize::MAX;
    for l in out.lines() {
        if let Some(n) = l.strip_prefix("case ") { cur = n.parse().unwrap_or(usize::MAX); got.entry(cur).or_default(); } else if cur != usize::MAX { got.get_mut(&cur).unwrap().push(l.to_string()); }
    }
    // the slot lists of the model for the argument lists (legacy only)
    let slot_lines: Vec<String> = live.iter().map(|ci| { let c = cases[*ci]; format!("(jsargs{})", c.structs.last().unwrap().iter().map(|x| format!(" {}", c.lty(x))).collect::<String>()) }).collect();
    let slots = if real_wasm { None } else { crate::model::run_model("C08", &slot_lines).ok() };
    for (li, ci) in live.iter().enumerate() {
        let c = cases[*ci];
        let v = &vals[*ci];
        let (bytes, mask, lays) = &host[*ci];
        let last = c.structs.len() - 1;
        rep.oracle_runs += 1;
        rep.count(label);
        let desc = format!("{} ;; {} ;; value {}", c.sexp(), c.rust().lines().filter(|l| l.contains("pub struct S")).map(|l| l.trim()).collect::<Vec<_>>().join(" "), js_lit(v));
        let lines = got.get(ci).cloned().unwrap_or_default();
        let find = |k: &str| lines.iter().find(|l| l.starts_with(&format!("{k} "))).map(|l| l[k.len() + 1..].to_string());
        let want_canon = canon(v);
        let hex: String = bytes.iter().map(|b| format!("{b:02x}")).collect();
        let mut fail = |what: &str, got: String, want: String, rep: &mut Report| {
            rep.oracle_fail(&desc, what, json!({"setup": label, "got": got, "expected": want, "out_struct": c.out, "single_scalar": single_scalar_kind(c, &F::Struct(last))}));
        };
        if let Some(e) = lines.iter().find(|l| l.contains(" error ") || l.starts_with("load error")) {
            fail("executing the generated JS threw", e.clone(), "no exception".into(), rep);
            continue;
        }
        if !c.out {
            match find("write") {
                Some(g) if mask_eq(&g, bytes, mask) => {}
                g => fail("bytes written by the generated JS differ from rustc's repr(C) bytes for the same value", g.unwrap_or_default(), hex.clone(), rep),
            }
            match find("readback") {
                Some(g) if g == want_canon => {}
                g => fail("value read back from the bytes the JS wrote differs from the stored one", g.unwrap_or_default(), want_canon.clone(), rep),
            }
        }
        match find("read") {
            Some(g) if g == want_canon => {}
            g => fail("value the generated JS reads from rustc's bytes differs from the stored one", g.unwrap_or_default(), want_canon.clone(), rep),
        }
        // receive buffer: exactly one allocation of the struct's size and alignment, unless the struct is a single scalar
        if let Some(g) = find("recv") {
            let want = format!("[[{},{}]]", lays[last].size, lays[last].align);
            let scalars = { let mut lv = vec![]; leaves(c, &F::Struct(last), v, lays, &mut lv); lv.len() };
            if g != want && !(g == "[]" && scalars == 1) {
                fail("receive buffer does not have the struct's size and alignment", g, want, rep);
            }
        }
        if let (false, false, Some(sl)) = (real_wasm, c.out, slots.as_ref()) {
            let mut lv = vec![];
            leaves(c, &F::Struct(last), v, lays, &mut lv);
            // padded direct: an aggregate of more than two scalars, or one holding a union, is passed as all of its
            // LLVM fields, padding arrays included, so the slots must cover the struct (docs/wasm_abi_quirks.md)
            let width: usize = sl[li].split_whitespace().map(|x| x[1..].parse::<usize>().unwrap_or(0)).sum();
            let has_union = sl[li].split_whitespace().any(|x| x.starts_with('c') || x.starts_with('f'));
            let n_leaves = sl[li].split_whitespace().filter(|x| x.starts_with('l')).count();
            if (has_union || n_leaves > 2) && sl[li] != "panic" {
                rep.count("jsexec-tiling");
                if width != lays[last].size {
                    let shape = if pair_beside_union(c, last) { "pair-beside-option" } else { "other" };
                    rep.oracle_fail(&desc, "padded-direct argument list does not cover the struct", json!({"setup": label, "shape": shape, "slots": sl[li], "slot_bytes": width, "struct_size": lays[last].size}));
                }
            }
            match (find("args"), fill_slots(&sl[li], &lv)) {
                (Some(g), Ok(want)) => {
                    // first argument is `this`
                    let gv: Vec<String> = serde_json::from_str::<Vec<serde_json::Value>>(&g).unwrap_or_default().iter().map(|x| match x { serde_json::Value::String(s) => s.clone(), o => o.to_string() }).collect();
                    let same = gv.len() == want.len() + 1 && gv[1..].iter().zip(&want).all(|(a, b)| b == "*" || a == b);
                    rep.count("jsexec-args");
                    if !same {
                        rep.disagree(&desc, "flattened-argument-list", &gv[1.min(gv.len())..].join(" "), &format!("{} (slots {})", want.join(" "), sl[li]));
                    }
                }
                (g, w) => rep.disagree(&desc, "flattened-argument-list", &g.unwrap_or_default(), &format!("{w:?}")),
            }
        }
    }
    let _ = std::fs::remove_dir_all(&dir);
}
