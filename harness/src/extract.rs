//! Translator (T): regenerates `lean/DiplomatModel/Generated/*.lean` from /repo's working tree.
use serde_json::json;

pub fn main(args: &[String]) {
    let _out_dir = args.first().cloned().unwrap_or_else(|| "/verif/lean/DiplomatModel/Generated".into());
    let problems: Vec<String> = vec![];
    println!("{}", json!({"problems": problems, "tables": {}}));
}
