//! C11 — enum discriminants: correspondence (real tool vs Lean model) and oracles
//! (rustc, gcc, g++, node on the real generated files).
use crate::report::Report;
use crate::rng::Rng;
use crate::tool::{self, Outcome};
use crate::util;
use serde_json::json;
use std::collections::BTreeMap;
use std::process::Command;

#[derive(Clone, Debug)]
pub struct EnumCase {
    pub name: String,
    pub vars: Vec<(String, Option<i64>)>,
}

impl EnumCase {
    pub fn sexp(&self) -> String {
        let vs: Vec<String> = self
            .vars
            .iter()
            .map(|(n, d)| match d {
                Some(d) => format!("({n} {d})"),
                None => format!("({n} _)"),
            })
            .collect();
        format!("(enum {} {})", self.name, vs.join(" "))
    }
    pub fn from_sexp(s: &str) -> Option<EnumCase> {
        // minimal reader for replays: (enum Name (V d) (V _) ...)
        let s = s.trim().strip_prefix("(enum ")?.strip_suffix(')')?;
        let (name, rest) = s.split_once(' ')?;
        let mut vars = vec![];
        for part in rest.split(')') {
            let part = part.trim().trim_start_matches('(').trim();
            if part.is_empty() {
                continue;
            }
            let (n, d) = part.split_once(' ')?;
            vars.push((n.to_string(), if d == "_" { None } else { Some(d.parse().ok()?) }));
        }
        Some(EnumCase { name: name.into(), vars })
    }
    pub fn rust_decl(&self) -> String {
        let vs: Vec<String> = self
            .vars
            .iter()
            .map(|(n, d)| match d {
                Some(d) => format!("{n} = {d}"),
                None => n.clone(),
            })
            .collect();
        format!("pub enum {} {{ {} }}", self.name, vs.join(", "))
    }
    pub fn rust_items(&self) -> String {
        format!(
            "{}\n    impl {} {{ pub fn rt(self, other: {}) -> {} {{ other }} }}",
            self.rust_decl(),
            self.name,
            self.name,
            self.name
        )
    }
    pub fn module(&self) -> String {
        format!("#[diplomat::bridge]\nmod ffi {{\n    {}\n}}\n", self.rust_items())
    }
    /// rustc's rule, used only by the generator to avoid duplicate discriminants.
    fn discs(&self) -> Vec<i64> {
        let mut last = -1i64;
        self.vars
            .iter()
            .map(|(_, d)| {
                last = d.unwrap_or(last + 1);
                last
            })
            .collect()
    }
}

pub fn gen_case(rng: &mut Rng, idx: usize, max_vars: usize) -> EnumCase {
    loop {
        let n = 1 + rng.below(max_vars);
        let shape = rng.below(14);
        let mut vars = vec![];
        let mut perm: Vec<i64> = vec![];
        for i in 0..n {
            let d = match shape {
                0 | 1 => None,                                  // all implicit (contiguous)
                2 => Some(i as i64),                            // explicit and contiguous
                3 => {
                    // contiguous prefix, then a break, then implicit
                    if i == n / 2 + 1 { Some(rng.range(-9, 30)) } else { None }
                }
                10 | 11 => {
                    // a non-identity arrangement of exactly 0..n (every value in range, positions scrambled)
                    if i == 0 {
                        perm = (0..n as i64).collect();
                        for k in (1..n).rev() {
                            let j = rng.below(k + 1);
                            perm.swap(k, j);
                        }
                    }
                    if rng.chance(2, 3) || i == 0 { Some(perm[i]) } else { None }
                }
                12 => {
                    // strictly increasing, starts negative, ends exactly at n-1
                    if i + 1 == n { Some(n as i64 - 1) } else if i == 0 { Some(-(rng.range(1, 9))) } else if i == 1 { Some(0) } else { None }
                }
                13 => {
                    // contiguous but shifted by one, or with one swapped neighbour pair
                    if i == 0 { Some(1) } else { None }
                }
                4 => {
                    // near the i32 boundaries
                    if rng.chance(1, 2) {
                        Some(*rng.pick(&[i32::MIN as i64, i32::MAX as i64 - 8, -1, 0, 1, i32::MIN as i64 + 7]))
                    } else {
                        None
                    }
                }
                _ => {
                    if rng.chance(9, 20) { Some(rng.range(-12, 24)) } else { None }
                }
            };
            vars.push((format!("V{}", util::letters(i)), d));
        }
        let c = EnumCase { name: format!("En{}", util::letters(idx)), vars };
        let ds = c.discs();
        let mut sorted = ds.clone();
        sorted.sort();
        sorted.dedup();
        if sorted.len() == ds.len() && ds.iter().all(|d| *d >= i32::MIN as i64 && *d <= i32::MAX as i64) {
            return c;
        }
    }
}

fn real_discs(src: &str, name: &str) -> Result<Vec<i64>, String> {
    let file = syn::parse_file(src).map_err(|e| e.to_string())?;
    tool::catch(|| {
        let f = diplomat_core::ast::File::from(&file);
        let m = f.modules.get("ffi").expect("module ffi");
        let found = m.declared_types.iter().find(|(k, _)| k.as_str() == name).map(|(_, v)| v);
        match found {
            Some(diplomat_core::ast::CustomType::Enum(e)) => {
                e.variants.iter().map(|v| v.1 as i64).collect::<Vec<_>>()
            }
            _ => panic!("enum not found"),
        }
    })
}

pub const TARGETS: [&str; 6] = ["c", "cpp", "js", "dart", "kotlin", "nanobind"];

fn parse_model_line(line: &str) -> (BTreeMap<String, String>, Vec<(String, String)>) {
    let mut parts = line.split('\t');
    let sem = parts.next().unwrap_or("");
    let mut kv = BTreeMap::new();
    for f in sem.split(' ') {
        if let Some((k, v)) = f.split_once('=') {
            kv.insert(k.to_string(), v.to_string());
        }
    }
    let frags = parts
        .filter_map(|p| p.split_once('|').map(|(a, b)| (a.to_string(), b.to_string())))
        .collect();
    (kv, frags)
}

pub fn correspond(cases: &[EnumCase], rep: &mut Report) {
    let lines: Vec<String> = cases.iter().map(|c| c.sexp()).collect();
    let model = match crate::model::run_model("C11", &lines) {
        Ok(m) => m,
        Err(e) => {
            rep.disagree("*", "model-driver", "", &e);
            return;
        }
    };
    for (c, mline) in cases.iter().zip(model.iter()) {
        let case = c.sexp();
        rep.case(&case);
        rep.distinct.remove(&case);
        rep.distinct.insert(format!("{:?}", c.vars.iter().map(|v| v.1).collect::<Vec<_>>()));
        rep.count(&format!("variants={}", c.vars.len()));
        if mline == "bad-case" {
            rep.disagree(&case, "model-rejects-case", "", mline);
            continue;
        }
        let (kv, frags) = parse_model_line(mline);
        let src = c.module();
        // (1) discriminants from the real AST
        match real_discs(&src, &c.name) {
            Ok(ds) => {
                let real = ds.iter().map(|d| d.to_string()).collect::<Vec<_>>().join(",");
                let m = kv.get("discs").cloned().unwrap_or_default();
                if real != m {
                    rep.disagree(&case, "discs", &real, &m);
                }
                // the model's semantic readings must equal the discriminants (instances of the theorems)
                for b in ["js", "dart", "kt"] {
                    if kv.get(b) != Some(&m) {
                        rep.disagree(&case, &format!("model-sem-{b}"), &m, kv.get(b).map(|s| s.as_str()).unwrap_or(""));
                    }
                }
                let contig = ds.iter().enumerate().all(|(i, d)| i as i64 == *d);
                rep.count(if contig { "contiguous" } else { "non-contiguous" });
                if ds.iter().any(|d| *d < 0) {
                    rep.count("has-negative");
                }
            }
            Err(p) => rep.disagree(&case, "ast-panic", &p, ""),
        }
        // (2) fragments in the six real outputs
        let mut outs: BTreeMap<String, Outcome> = BTreeMap::new();
        for t in TARGETS {
            outs.insert(t.to_string(), tool::run_backend(&src, t));
        }
        for p in tool::check_frags(&outs, &frags) {
            rep.disagree(&case, "fragment", &p, "");
        }
        rep.count_n("fragments_checked", frags.len());
    }
}

/// Oracles on the real outputs, independent of the model.
pub fn oracles(cases: &[EnumCase], rep: &mut Report) {
    if cases.is_empty() {
        return;
    }
    let dir = util::workdir("C11");
    let items: Vec<String> = cases.iter().map(|c| c.rust_items()).collect();
    let src = format!("#[diplomat::bridge]\nmod ffi {{\n    {}\n}}\n", items.join("\n    "));
    std::fs::write(dir.join("lib.rs"), &src).unwrap();
    let all_case = format!("oracle-batch:{}", cases.iter().map(|c| c.sexp()).collect::<Vec<_>>().join(" "));

    // rustc: the reference
    let mut rs = String::from("#![allow(dead_code)]\n");
    for c in cases {
        rs += &format!("#[repr(C)] #[derive(Clone, Copy)] {}\n", c.rust_decl());
    }
    rs += "fn main() {\n";
    for c in cases {
        for (v, _) in &c.vars {
            rs += &format!("    println!(\"{} {} {{}}\", {}::{} as isize);\n", c.name, v, c.name, v);
        }
    }
    rs += "}\n";
    std::fs::write(dir.join("ref.rs"), rs).unwrap();
    let (ok, _, err) = util::run(Command::new("rustc").args(["--edition", "2021", "-o"]).arg(dir.join("ref")).arg(dir.join("ref.rs")));
    if !ok {
        rep.notes.push(format!("oracle: rustc failed: {}", err.chars().take(300).collect::<String>()));
        return;
    }
    let (_, reference, _) = util::run(&mut Command::new(dir.join("ref")));
    let mut refmap: BTreeMap<(String, String), i64> = BTreeMap::new();
    for l in reference.lines() {
        let p: Vec<&str> = l.split(' ').collect();
        refmap.insert((p[0].into(), p[1].into()), p[2].parse().unwrap());
    }
    rep.oracle_runs += 1;

    let compare = |what: &str, out: &str, rep: &mut Report| {
        let mut seen = 0;
        for l in out.lines() {
            let p: Vec<&str> = l.split(' ').collect();
            if p.len() != 3 {
                continue;
            }
            seen += 1;
            let want = refmap.get(&(p[0].to_string(), p[1].to_string()));
            if want.map(|w| w.to_string()) != Some(p[2].to_string()) {
                let one = cases.iter().find(|c| c.name == p[0]).map(|c| c.sexp()).unwrap_or_else(|| all_case.clone());
                rep.oracle_fail(&one, what, json!({"enum": p[0], "variant": p[1], "rustc": want, "binding": p[2]}));
            }
        }
        if seen != refmap.len() {
            rep.oracle_fail(&all_case, what, json!({"expected_lines": refmap.len(), "got": seen, "output": out.chars().take(400).collect::<String>()}));
        }
        rep.count_n(&format!("oracle_values_{what}"), seen);
    };

    // C via gcc
    let c_out = tool::run_backend(&src, "c");
    if c_out.ok() {
        util::write_files(&dir.join("c"), &c_out.files);
        let mut prog = String::from("#include <stdio.h>\n");
        for c in cases {
            prog += &format!("#include \"{}.h\"\n", c.name);
        }
        prog += "int main(void) {\n";
        for c in cases {
            for (v, _) in &c.vars {
                prog += &format!("  printf(\"{} {} %d\\n\", (int){}_{});\n", c.name, v, c.name, v);
            }
        }
        prog += "  return 0;\n}\n";
        std::fs::write(dir.join("c/main.c"), prog).unwrap();
        let (ok, _, err) = util::run(Command::new("gcc").args(["-std=c11", "-I"]).arg(dir.join("c")).arg("-o").arg(dir.join("c/main")).arg(dir.join("c/main.c")));
        if ok {
            let (_, out, _) = util::run(&mut Command::new(dir.join("c/main")));
            compare("c", &out, rep);
        } else {
            rep.oracle_fail(&all_case, "c-compile", json!(err.chars().take(600).collect::<String>()));
        }
    } else {
        rep.oracle_fail(&all_case, "c-run", json!(c_out.status()));
    }

    // C++ via g++: AsFFI of each enumerator and FromFFI of each C constant
    let cpp_out = tool::run_backend(&src, "cpp");
    if cpp_out.ok() {
        util::write_files(&dir.join("cpp"), &cpp_out.files);
        let mut prog = String::from("#include <cstdio>\n");
        for c in cases {
            prog += &format!("#include \"{}.hpp\"\n", c.name);
        }
        prog += "int main() {\n";
        for c in cases {
            for (v, _) in &c.vars {
                prog += &format!("  std::printf(\"{0} {1} %d\\n\", (int){0}({0}::{1}).AsFFI());\n", c.name, v);
                prog += &format!(
                    "  if (!({0}::FromFFI(diplomat::capi::{0}_{1}) == {0}::{1})) std::printf(\"{0} {1} fromffi-mismatch\\n\");\n",
                    c.name, v
                );
            }
        }
        prog += "  return 0;\n}\n";
        std::fs::write(dir.join("cpp/main.cpp"), prog).unwrap();
        let (ok, _, err) = util::run(Command::new("g++").args(["-std=c++17", "-I"]).arg(dir.join("cpp")).arg("-o").arg(dir.join("cpp/main")).arg(dir.join("cpp/main.cpp")));
        if ok {
            let (_, out, _) = util::run(&mut Command::new(dir.join("cpp/main")));
            if out.contains("fromffi-mismatch") {
                rep.oracle_fail(&all_case, "cpp-fromffi", json!(out.lines().filter(|l| l.contains("mismatch")).collect::<Vec<_>>()));
            }
            let filtered: String = out.lines().filter(|l| !l.contains("mismatch")).map(|l| format!("{l}\n")).collect();
            compare("cpp", &filtered, rep);
        } else {
            rep.oracle_fail(&all_case, "cpp-compile", json!(err.chars().take(600).collect::<String>()));
        }
    } else {
        rep.oracle_fail(&all_case, "cpp-run", json!(cpp_out.status()));
    }

    // JS via node: ffiValue of each static, and name of the object built from each ffi value
    let js_out = tool::run_backend(&src, "js");
    if js_out.ok() {
        util::write_files(&dir.join("js"), &js_out.files);
        std::fs::write(dir.join("js/diplomat-wasm.mjs"), "export default {};\n").unwrap();
        let mut prog = String::from("import * as diplomatRuntime from './diplomat-runtime.mjs';\n");
        for c in cases {
            prog += &format!("import {{ {0} }} from './{0}.mjs';\n", c.name);
        }
        for c in cases {
            for (v, _) in &c.vars {
                prog += &format!("try {{ console.log('{0} {1} ' + {0}.{1}.ffiValue); }} catch (e) {{ console.log('{0} {1} threw:' + String(e).replace(/\\s+/g, '_')); }}\n", c.name, v);
                prog += &format!(
                    "try {{ const o = new {0}(diplomatRuntime.internalConstructor, {0}.{1}.ffiValue); if (o !== {0}.{1} || o.value !== '{1}' || {0}.fromValue('{1}') !== {0}.{1}) console.log('{0} {1} fromffi-mismatch ' + (o && o.value)); }} catch (e) {{ console.log('{0} {1} fromffi-mismatch threw'); }}\n",
                    c.name, v
                );
            }
        }
        std::fs::write(dir.join("js/main.mjs"), prog).unwrap();
        let (ok, out, err) = util::run(Command::new("node").arg(dir.join("js/main.mjs")));
        if ok {
            if out.contains("fromffi-mismatch") {
                rep.oracle_fail(&all_case, "js-fromffi", json!(out.lines().filter(|l| l.contains("mismatch")).collect::<Vec<_>>()));
            }
            let filtered: String = out.lines().filter(|l| !l.contains("mismatch")).map(|l| format!("{l}\n")).collect();
            compare("js", &filtered, rep);
        } else {
            rep.oracle_fail(&all_case, "js-node", json!(err.chars().take(600).collect::<String>()));
        }
    } else {
        rep.oracle_fail(&all_case, "js-run", json!(js_out.status()));
    }
    // Dart: how the value crosses in each position of a method (receiver, parameter, result): by position only when
    // the discriminants are 0..n-1 in declaration order, through the value table otherwise
    let dart_out = tool::run_backend(&src, "dart");
    if dart_out.ok() {
        for c in cases {
            let discs = c.discs();
            let contiguous = discs.iter().enumerate().all(|(i, d)| *d == i as i64);
            let Some(text) = dart_out.files.get(&format!("{}.g.dart", c.name)) else { continue };
            let text = tool::norm_ws(text);
            rep.oracle_runs += 1;
            rep.count("oracle_dart_method_positions");
            let (call, ret) = if contiguous {
                (format!("_{0}_rt(index, other.index)", c.name), format!("return {}.values[result];", c.name))
            } else {
                (format!("_{0}_rt(_ffi, other._ffi)", c.name), format!("return {}.values.firstWhere((v) => v._ffi == result);", c.name))
            };
            if !text.contains(&call) || !text.contains(&ret) {
                let at = text.find(&format!("_{}_rt(", c.name)).unwrap_or(0);
                rep.oracle_fail(&c.sexp(), "dart-method-conversion", json!({"contiguous": contiguous, "expected_call": call, "expected_return": ret, "generated": text[at..(at + 160).min(text.len())].to_string()}));
            }
        }
    }
    // Kotlin and Dart cannot be run here; their enum classes are small enough to evaluate by reading them: the entry
    // list, how `toNative` / `_ffi` obtains the number (position or stored value), and how `fromNative` finds the
    // entry (position or the `when` table).  Variants are matched by declaration position.
    let kt_out = tool::run_backend(&src, "kotlin");
    if kt_out.ok() {
        let mut lines = String::new();
        for c in cases {
            let Some((_, text)) = kt_out.files.iter().find(|(k, _)| k.ends_with(&format!("/{}.kt", c.name))) else {
                rep.oracle_fail(&c.sexp(), "kotlin-file-missing", json!(c.name));
                continue;
            };
            match kotlin_enum_eval(text, &c.name) {
                Err(e) => rep.oracle_fail(&c.sexp(), "kotlin-enum-unreadable", json!({"why": e})),
                Ok(k) => {
                    if k.entries.len() != c.vars.len() {
                        rep.oracle_fail(&c.sexp(), "kotlin-entry-count", json!({"entries": k.entries.iter().map(|e| e.0.clone()).collect::<Vec<_>>(), "variants": c.vars.len()}));
                        continue;
                    }
                    for (i, (v, _)) in c.vars.iter().enumerate() {
                        lines += &format!("{} {} {}\n", c.name, v, k.to_native(i));
                        let want = refmap.get(&(c.name.clone(), v.clone())).cloned().unwrap_or(i64::MIN);
                        let back = k.from_native(want);
                        if back != Some(i) {
                            rep.oracle_fail(&c.sexp(), "kotlin-fromNative", json!({"enum": c.name, "variant": v, "rust_value": want, "fromNative_gives_entry": back.map(|j| k.entries[j].0.clone()), "expected_entry": k.entries[i].0}));
                        }
                    }
                }
            }
        }
        compare("kotlin", &lines, rep);
    } else {
        rep.oracle_fail(&all_case, "kotlin-run", json!(kt_out.status()));
    }
    if dart_out.ok() {
        let mut lines = String::new();
        for c in cases {
            let Some(text) = dart_out.files.get(&format!("{}.g.dart", c.name)) else { continue };
            match dart_enum_eval(text, &c.name) {
                Err(e) => rep.oracle_fail(&c.sexp(), "dart-enum-unreadable", json!({"why": e})),
                Ok(vals) => {
                    if vals.len() != c.vars.len() {
                        rep.oracle_fail(&c.sexp(), "dart-entry-count", json!({"entries": vals.len(), "variants": c.vars.len()}));
                        continue;
                    }
                    for (i, (v, _)) in c.vars.iter().enumerate() {
                        lines += &format!("{} {} {}\n", c.name, v, vals[i]);
                    }
                }
            }
        }
        compare("dart", &lines, rep);
    }
    let _ = std::fs::remove_dir_all(&dir);
}

pub struct KtEnum {
    /// (entry name, stored value if the class carries one)
    pub entries: Vec<(String, Option<i64>)>,
    pub to_native_by_ordinal: bool,
    /// None: `entries[native]`; Some(table): the `when` arms, value -> entry name
    pub from_table: Option<Vec<(i64, String)>>,
}
impl KtEnum {
    pub fn to_native(&self, i: usize) -> String {
        if self.to_native_by_ordinal { i.to_string() } else { self.entries[i].1.map(|v| v.to_string()).unwrap_or("no-stored-value".into()) }
    }
    pub fn from_native(&self, n: i64) -> Option<usize> {
        match &self.from_table {
            None => if n >= 0 && (n as usize) < self.entries.len() { Some(n as usize) } else { None },
            Some(t) => t.iter().find(|(v, _)| *v == n).and_then(|(_, name)| self.entries.iter().position(|e| &e.0 == name)),
        }
    }
}

fn fn_body<'a>(text: &'a str, head: &str) -> Option<&'a str> {
    let at = text.find(head)?;
    let open = at + text[at..].find('{')?;
    let mut depth = 0usize;
    for (i, ch) in text[open..].char_indices() {
        match ch { '{' => depth += 1, '}' => { depth -= 1; if depth == 0 { return Some(&text[open + 1..open + i]); } } _ => {} }
    }
    None
}

pub fn kotlin_enum_eval(text: &str, name: &str) -> Result<KtEnum, String> {
    let at = text.find(&format!("enum class {name}")).ok_or("no `enum class`")?;
    let rest = &text[at..];
    let open = rest.find('{').ok_or("no body")?;
    let header = &rest[..open];
    let semi = rest[open..].find(';').ok_or("no `;` after the entries")? + open;
    let mut entries = vec![];
    for e in rest[open + 1..semi].split(',') {
        let e = e.trim();
        if e.is_empty() { continue; }
        match e.split_once('(') {
            Some((n, v)) => entries.push((n.trim().to_string(), Some(v.trim_end_matches(')').trim().parse::<i64>().map_err(|_| format!("entry `{e}`"))?))),
            None => entries.push((e.to_string(), None)),
        }
    }
    if header.contains("val inner") != entries.iter().all(|e| e.1.is_some()) && !entries.is_empty() {
        return Err("stored values and the class header disagree".into());
    }
    let tn = fn_body(rest, "fun toNative()").ok_or("no toNative")?;
    let to_native_by_ordinal = if tn.contains("this.ordinal") { true } else if tn.contains("this.inner") { false } else { return Err(format!("toNative body `{}`", tn.trim())) };
    let fr = fn_body(rest, "fun fromNative(").ok_or("no fromNative")?;
    let from_table = if fr.contains(".entries[native]") { None } else if fr.contains("when (native)") {
        let mut t = vec![];
        for l in fr.lines() {
            if let Some((a, b)) = l.split_once("->") {
                if let Ok(v) = a.trim().parse::<i64>() { t.push((v, b.trim().to_string())); }
            }
        }
        Some(t)
    } else { return Err(format!("fromNative body `{}`", fr.trim())) };
    Ok(KtEnum { entries, to_native_by_ordinal, from_table })
}

/// The number each Dart entry stands for: its position, or the `_ffi` getter's table when the enum has one.
pub fn dart_enum_eval(text: &str, name: &str) -> Result<Vec<i64>, String> {
    let at = text.find(&format!("enum {name} ")).or_else(|| text.find(&format!("enum {name}{{"))).ok_or("no `enum`")?;
    let rest = &text[at..];
    let open = rest.find('{').ok_or("no body")?;
    let semi = rest[open..].find(';').ok_or("no `;` after the entries")? + open;
    let names: Vec<String> = rest[open + 1..semi].split(',').map(|e| e.lines().filter(|l| !l.trim_start().starts_with("///")).collect::<Vec<_>>().join(" ").trim().to_string()).filter(|e| !e.is_empty()).collect();
    match fn_body(rest, "int get _ffi") {
        None => Ok((0..names.len() as i64).collect()),
        Some(b) => {
            let b = tool::norm_ws(b);
            let mut out = vec![];
            for n in &names {
                let key = format!("case {n}: return ");
                let p = b.find(&key).ok_or(format!("no `_ffi` arm for {n}"))?;
                let v: String = b[p + key.len()..].chars().take_while(|c| *c == '-' || c.is_ascii_digit()).collect();
                out.push(v.parse::<i64>().map_err(|_| format!("`_ffi` arm for {n}"))?);
            }
            Ok(out)
        }
    }
}

/// Attributes on single variants (a rename, a backend-conditional rename, documentation links): every variant keeps its
/// own name and value — the renamed one under its new name where the backend renders renames — and converts back.
fn variant_attr_probe(rep: &mut Report) {
    let src = "#[diplomat::bridge]\nmod ffi {\n    pub enum Tone {\n        Soft = 3,\n        #[diplomat::attr(*, rename = \"Mellow\")]\n        Warm = 1,\n        Loud = 8,\n        Harsh = 7,\n    }\n    pub enum Tail {\n        #[diplomat::attr(dart, rename = \"Erste\")]\n        /// first\n        First,\n        #[diplomat::rust_link(core::option::Option, Enum)]\n        Second = -4,\n        Third,\n        #[diplomat::attr(*, rename = \"Final\")]\n        Last = 40,\n    }\n    impl Tone { pub fn rt(self, o: Tone) -> Tone { o } }\n    impl Tail { pub fn rt(self, o: Tail) -> Tail { o } }\n}\n";
    // (enum, Rust variant, binding-side name where renames are rendered, value)
    let table: [(&str, &str, &str, i32); 8] = [("Tone", "Soft", "Soft", 3), ("Tone", "Warm", "Mellow", 1), ("Tone", "Loud", "Loud", 8), ("Tone", "Harsh", "Harsh", 7), ("Tail", "First", "First", 0), ("Tail", "Second", "Second", -4), ("Tail", "Third", "Third", -3), ("Tail", "Last", "Final", 40)];
    let case = "(c11 probe variant-attributes)";
    let dir = util::workdir("C11attrs");
    let expect: String = table.iter().map(|(e, _, b, v)| format!("{e} {b} {v}\n")).collect();
    let expect_c: String = table.iter().map(|(e, r, _, v)| format!("{e} {r} {v}\n")).collect();
    rep.count("probe:variant-attributes");
    // C
    let o = tool::run_backend(src, "c");
    rep.oracle_runs += 1;
    if o.ok() {
        util::write_files(&dir.join("c"), &o.files);
        let mut prog = String::from("#include <stdio.h>\n#include \"Tone.h\"\n#include \"Tail.h\"\nint main(void) {\n");
        for (e, r, _, _) in table { prog += &format!("  printf(\"{e} {r} %d\\n\", (int){e}_{r});\n"); }
        prog += "  return 0;\n}\n";
        std::fs::write(dir.join("c/main.c"), prog).unwrap();
        let (ok, _, err) = util::run(Command::new("gcc").args(["-std=c11", "-I"]).arg(dir.join("c")).arg("-o").arg(dir.join("c/main")).arg(dir.join("c/main.c")));
        let out = if ok { util::run(&mut Command::new(dir.join("c/main"))).1 } else { format!("compile error: {}", err.lines().filter(|l| l.contains("error")).take(3).collect::<Vec<_>>().join(" | ")) };
        if out != expect_c { rep.oracle_fail(case, "c", json!({"got": out, "expected": expect_c, "source": src})); }
    } else { rep.oracle_fail(case, "c-run", json!(o.status())); }
    // C++
    let o = tool::run_backend(src, "cpp");
    rep.oracle_runs += 1;
    if o.ok() {
        util::write_files(&dir.join("cpp"), &o.files);
        let mut prog = String::from("#include <cstdio>\n#include \"Tone.hpp\"\n#include \"Tail.hpp\"\nint main() {\n");
        for (e, r, b, _) in table {
            prog += &format!("  std::printf(\"{e} {b} %d\\n\", (int){e}({e}::{b}).AsFFI());\n  if (!({e}::FromFFI(diplomat::capi::{e}_{r}) == {e}::{b})) std::printf(\"{e} {b} fromffi-mismatch\\n\");\n");
        }
        prog += "  return 0;\n}\n";
        std::fs::write(dir.join("cpp/main.cpp"), prog).unwrap();
        let (ok, _, err) = util::run(Command::new("g++").args(["-std=c++17", "-I"]).arg(dir.join("cpp")).arg("-o").arg(dir.join("cpp/main")).arg(dir.join("cpp/main.cpp")));
        let out = if ok { util::run(&mut Command::new(dir.join("cpp/main"))).1 } else { format!("compile error: {}", err.lines().filter(|l| l.contains("error")).take(3).collect::<Vec<_>>().join(" | ")) };
        if out != expect { rep.oracle_fail(case, "cpp", json!({"got": out, "expected": expect, "source": src})); }
    } else { rep.oracle_fail(case, "cpp-run", json!(o.status())); }
    // JS
    let o = tool::run_backend(src, "js");
    rep.oracle_runs += 1;
    if o.ok() {
        util::write_files(&dir.join("js"), &o.files);
        std::fs::write(dir.join("js/diplomat-wasm.mjs"), "export default {};\n").unwrap();
        let mut prog = String::from("import * as diplomatRuntime from './diplomat-runtime.mjs';\nimport { Tone } from './Tone.mjs';\nimport { Tail } from './Tail.mjs';\n");
        for (e, _, b, _) in table {
            prog += &format!("try {{ console.log('{e} {b} ' + {e}.{b}.ffiValue); const o = new {e}(diplomatRuntime.internalConstructor, {e}.{b}.ffiValue); if (o !== {e}.{b} || o.value !== '{b}' || {e}.fromValue('{b}') !== {e}.{b}) console.log('{e} {b} fromffi-mismatch ' + (o && o.value)); }} catch (err) {{ console.log('{e} {b} threw:' + String(err).replace(/\\s+/g, '_')); }}\n");
        }
        prog += "console.log('entries ' + [...Tone.getAllEntries()].length + ' ' + [...Tail.getAllEntries()].length);\n";
        std::fs::write(dir.join("js/main.mjs"), prog).unwrap();
        let (_ok, out, err) = util::run(Command::new("node").arg(dir.join("js/main.mjs")));
        let want = format!("{expect}entries 4 4\n");
        if out != want { rep.oracle_fail(case, "js", json!({"got": out, "expected": want, "stderr": err.lines().take(3).collect::<Vec<_>>(), "source": src})); }
    } else { rep.oracle_fail(case, "js-run", json!(o.status())); }
    // Dart / Kotlin / Python: four distinct entries per enum, with these values (text)
    for (backend, file_pat) in [("dart", ".g.dart"), ("kotlin", ".kt"), ("nanobind", "_ext.cpp")] {
        let o = tool::run_backend(src, backend);
        rep.oracle_runs += 1;
        if !o.ok() { rep.oracle_fail(case, &format!("{backend}-run"), json!(o.status())); continue; }
        let text: String = o.files.iter().filter(|(k, _)| k.ends_with(file_pat)).map(|(_, v)| v.clone()).collect::<Vec<_>>().join("\n");
        for (e, r, b, _) in table {
            let names: Vec<String> = vec![r.to_string(), b.to_string(), { let mut c = r.chars(); c.next().map(|f| f.to_lowercase().collect::<String>() + c.as_str()).unwrap_or_default() }, { let mut c = b.chars(); c.next().map(|f| f.to_lowercase().collect::<String>() + c.as_str()).unwrap_or_default() }, "Erste".into(), "erste".into()];
            if !names.iter().any(|n| crate::c06::contains_word(&text, n)) {
                rep.oracle_fail(case, &format!("{backend}-variant-missing"), json!({"enum": e, "variant": r, "source": src}));
            }
        }
    }
    let _ = std::fs::remove_dir_all(&dir);
}

pub fn main(args: &[String]) {
    let a = util::parse_args(args);
    let mut rep = Report::new("C11");
    let mut cases = vec![];
    let mut replayed = false;
    if let Some(c) = util::arg_value(&a.rest, "--case") {
        cases.push(EnumCase::from_sexp(&c).expect("unparseable case"));
        replayed = true;
    } else if let Some(p) = util::arg_value(&a.rest, "--replay") {
        for c in util::replay_cases(&p) {
            // an oracle batch names several enums
            for part in c.trim_start_matches("oracle-batch:").split("(enum ").skip(1) {
                if let Some(e) = EnumCase::from_sexp(&format!("(enum {}", part.trim())) {
                    cases.push(e);
                }
            }
        }
        replayed = true;
    }
    if !replayed {
        // corpus first
        if let Ok(txt) = std::fs::read_to_string("/verif/corpus/C11/cases.txt") {
            for l in txt.lines() {
                if let Some(c) = EnumCase::from_sexp(l) {
                    cases.push(c);
                }
            }
        }
        rep.count_n("corpus_cases", cases.len());
        let mut rng = Rng::new(a.seed);
        let thorough = a.tier == "thorough";
        let n = if a.n > 0 { a.n } else if thorough { 1500 } else { 150 };
        for i in 0..n {
            cases.push(gen_case(&mut rng, i, if thorough && i % 3 == 0 { 40 } else { 8 }));
        }
    }
    correspond(&cases, &mut rep);
    let k = if a.tier == "thorough" { 120 } else { 16 };
    // search for a concrete failing input: disagreeing cases go to the oracles first
    let mut pool: Vec<EnumCase> = vec![];
    for d in &rep.disagreements {
        if let Some(c) = d.get("case").and_then(|c| c.as_str()).and_then(EnumCase::from_sexp) {
            if pool.len() < 40 && !pool.iter().any(|p| p.sexp() == c.sexp()) {
                pool.push(c);
            }
        }
    }
    rep.count_n("oracle_cases_from_disagreements", pool.len());
    pool.extend(cases.iter().rev().take(k).cloned());
    // distinct names are needed in one module: corpus cases may clash, so rename by position
    let sample: Vec<EnumCase> = pool
        .iter()
        .enumerate()
        .map(|(i, c)| EnumCase { name: format!("Or{}", util::letters(i)), vars: c.vars.clone() })
        .collect();
    oracles(&sample, &mut rep);
    variant_attr_probe(&mut rep);
    // values travelling through memory: a struct field / option payload of enum type, written by rustc and read by
    // the generated JS (and the other way round), with negative and large discriminants
    {
        use crate::c08::{Case, F};
        let mut cases = vec![];
        for discs in [(-40, 35), (-1, 0), (i32::MIN, i32::MAX), (7, 8)] {
            cases.push(Case { structs: vec![vec![F::Enum, F::Prim("u8", 1, 1)]], discs, out: false });
            cases.push(Case { structs: vec![vec![F::Prim("u8", 1, 1), F::Enum, F::Enum]], discs, out: true });
            cases.push(Case { structs: vec![vec![F::Opt(Box::new(F::Enum)), F::Prim("i16", 2, 2), F::Enum]], discs, out: false });
        }
        let refs: Vec<&Case> = cases.iter().collect();
        for salt in 0..3u64 {
            crate::jsexec::run(&refs, a.seed.wrapping_mul(31).wrapping_add(salt), false, &mut rep);
        }
        crate::jsexec::run(&refs, a.seed, true, &mut rep);
    }
    rep.print();
}
