//! C01 — the Rust `extern "C"` layer and the generated C headers agree on the ABI.
//!
//! Model tie: every `extern "C" fn` signature printed by the real proc macro (rustc expansion) and every
//! prototype / result typedef / struct body printed by the real C backend equals what the Lean model renders.
//! Oracle: the end-to-end run of `e2e.rs` (real macro → staticlib, real headers → C driver).
use crate::e2e;
use crate::report::Report;
use crate::rng::Rng;
use crate::tool;
use crate::tygen::Gen;
use crate::util;
use serde_json::json;
use std::sync::Mutex;

pub fn c_profile() -> crate::tygen::Profile {
    crate::c05::profile_of("c", false)
}

pub struct E2eOutcome {
    pub case_idx: usize,
    pub problems: Vec<String>,
    pub stage: String,
    pub transcript: Vec<String>,
    pub driver: String,
}

/// run the end-to-end oracle on `cases`; returns one outcome per case that built
pub fn run_e2e(id: &str, cases: &[e2e::Case], rep: &mut Report, sanitize: bool, label: &dyn Fn(usize) -> String) -> Vec<E2eOutcome> {
    let work = e2e::crate_dir(id);
    let mut bad = vec![];
    let refs: Vec<&e2e::Case> = cases.iter().collect();
    let built = e2e::build_lib_bisect(id, refs, &mut bad);
    for (c, e) in &bad {
        let k = cases.iter().position(|x| std::ptr::eq(x, *c)).unwrap();
        rep.oracle_runs += 1;
        rep.count("e2e:rust-build-error");
        rep.oracle_fail(&label(k), "the module does not build with the real proc macro (end-to-end crate)", json!({"diagnostics": e, "source": c.rust()}));
    }
    let Some((lib, good)) = built else { return vec![] };
    let jobs: Vec<(usize, &e2e::Case)> = good.iter().map(|c| (cases.iter().position(|x| std::ptr::eq(x, *c)).unwrap(), *c)).collect();
    let q = Mutex::new(jobs.into_iter().rev().collect::<Vec<_>>());
    let out: Mutex<Vec<E2eOutcome>> = Mutex::new(vec![]);
    std::thread::scope(|s| {
        for _ in 0..12 {
            s.spawn(|| loop {
                let job = { q.lock().unwrap().pop() };
                let Some((k, case)) = job else { break };
                let dir = work.join(format!("drv{k}"));
                let _ = std::fs::remove_dir_all(&dir);
                std::fs::create_dir_all(&dir).unwrap();
                let o = tool::run_backend(&case.rust(), "c");
                if !o.ok() {
                    out.lock().unwrap().push(E2eOutcome { case_idx: k, problems: vec![format!("C backend: {}", o.status())], stage: "backend".into(), transcript: vec![], driver: String::new() });
                    continue;
                }
                util::write_files(&dir, &o.files);
                match e2e::c_driver(case, &o.files) {
                    Err(e) => out.lock().unwrap().push(E2eOutcome { case_idx: k, problems: vec![e], stage: "driver".into(), transcript: vec![], driver: String::new() }),
                    Ok((drv, exp)) => {
                        std::fs::write(dir.join("driver.c"), &drv).unwrap();
                        let r = e2e::compile_and_run(&dir, &lib, sanitize);
                        let mut problems = vec![];
                        if !r.ok {
                            problems.push(format!("{}: {}", r.stage, r.detail));
                        }
                        if r.stage == "run" {
                            problems.extend(e2e::compare(&r.transcript, &exp));
                            // the same headers read by a C++ compiler: result structs must keep their size and flag offset
                            std::fs::write(dir.join("layout.cpp"), e2e::cpp_layout_probe(case)).unwrap();
                            let (ok, _o, e) = util::run(std::process::Command::new("g++").args(["-std=c++17", "-w", "-I", ".", "layout.cpp", "-o", "layout_cpp"]).current_dir(&dir));
                            if !ok {
                                problems.push(format!("the C headers do not compile when included from C++: {}", e.lines().filter(|l| l.contains("error")).take(2).collect::<Vec<_>>().join(" | ")));
                            } else {
                                let (_ok, o, _e) = util::run(std::process::Command::new(dir.join("layout_cpp")).current_dir(&dir));
                                let cpp: Vec<&str> = o.lines().filter(|l| l.starts_with("rs ")).collect();
                                let c: Vec<&String> = r.transcript.iter().take_while(|l| *l != "--").filter(|l| l.starts_with("rs ")).collect();
                                for (a, b) in c.iter().zip(cpp.iter()) {
                                    if a.as_str() != *b {
                                        problems.push(format!("a result struct has a different size / flag offset for a C++ compiler: C `{a}`, C++ `{b}`"));
                                    }
                                }
                            }
                        }
                        out.lock().unwrap().push(E2eOutcome { case_idx: k, problems, stage: r.stage, transcript: r.transcript, driver: drv });
                    }
                }
            });
        }
    });
    let mut v = out.into_inner().unwrap();
    v.sort_by_key(|o| o.case_idx);
    v
}

/// model tie for the byte-level codec (`Wire.lean`): the sizes, alignments, field offsets and flag offsets its layout
/// assigns are the numbers gcc prints from `sizeof` / `_Alignof` / `offsetof` over the generated header (which the
/// end-to-end run has already compared with rustc's)
pub fn wire_tie(cases: &[e2e::Case], outs: &[E2eOutcome], rep: &mut Report, label: &dyn Fn(usize) -> String) {
    let ran: Vec<&E2eOutcome> = outs.iter().filter(|o| o.stage == "run" && !o.transcript.is_empty()).collect();
    let lines: Vec<String> = ran.iter().map(|o| cases[o.case_idx].sexp().replacen("(c01 ", "(c01wire ", 1)).collect();
    let model = match crate::model::run_model("C01", &lines) {
        Ok(m) => m,
        Err(e) => { rep.disagree("*", "model-driver", "", &e); return; }
    };
    for (o, m) in ran.iter().zip(&model) {
        if m == "bad-case" { rep.disagree(&label(o.case_idx), "wire-model", "", m); continue; }
        let c_side: std::collections::BTreeMap<String, String> = o.transcript.iter().take_while(|l| *l != "--")
            .filter(|l| l.starts_with("layout ") || l.starts_with("rs "))
            .filter_map(|l| { let mut it = l.splitn(3, ' '); let k = format!("{} {}", it.next()?, it.next()?); Some((k, it.next().unwrap_or("").to_string())) }).collect();
        let mut seen = 0;
        for frag in m.split(" ;; ").filter(|f| !f.is_empty()) {
            let mut it = frag.splitn(3, ' ');
            let key = format!("{} {}", it.next().unwrap_or(""), it.next().unwrap_or(""));
            let val = it.next().unwrap_or("");
            if let Some(real) = c_side.get(&key) {
                seen += 1;
                rep.count("wire-layout-rows");
                if real != val {
                    rep.disagree(&format!("{} {key}", label(o.case_idx)), "wire-layout", real, val);
                }
            }
        }
        if seen != c_side.len() {
            let missing: Vec<&String> = c_side.keys().filter(|k| !m.contains(k.as_str())).collect();
            rep.disagree(&label(o.case_idx), "wire-layout-coverage", &format!("{} rows printed by the C driver", c_side.len()), &format!("{seen} of them modelled; missing {missing:?}"));
        }
    }
}

fn strip_ws(s: &str) -> String {
    s.chars().filter(|c| !c.is_whitespace()).collect()
}

/// model tie: macro signatures (real expansion) and C prototypes / struct bodies (real backend) vs the model's rendering
pub fn correspondence(cases: &[e2e::Case], labels: &[String], rep: &mut Report) {
    let lines: Vec<String> = cases.iter().map(|c| c.sexp()).collect();
    let model = match crate::model::run_model("C01", &lines) {
        Ok(m) => m,
        Err(e) => {
            rep.disagree("*", "model-driver", "", &e);
            return;
        }
    };
    let srcs: Vec<String> = cases.iter().map(|c| c.rust_bridge()).collect();
    let mut expansions = vec![];
    for chunk in srcs.chunks(40) {
        expansions.extend(crate::expand::expand_each(chunk));
    }
    for (((case, label), m), ex) in cases.iter().zip(labels).zip(&model).zip(&expansions) {
        if m == "bad-case" {
            rep.disagree(label, "model-parse", &case.sexp(), "bad-case");
            continue;
        }
        let (frags, verdicts) = m.split_once(" ## ").unwrap_or((m.as_str(), ""));
        for v in verdicts.split(' ').filter(|v| !v.is_empty()) {
            rep.count(if v.ends_with("=agree") { "model-verdict:agree" } else { "model-verdict:disagree" });
            if !v.ends_with("=agree") {
                rep.disagree(label, "abi-verdict", "the tool accepted the method", &format!("the macro's and the C header's types of {v} have different wire meanings in the model"));
            }
        }
        let out = tool::run_backend(&case.rust(), "c");
        let mut outs = std::collections::BTreeMap::new();
        outs.insert("c".to_string(), out);
        let mut cfrags = vec![];
        for f in frags.split(" ;; ") {
            let Some((key, text)) = f.split_once(" => ") else { continue };
            if key == "macro" {
                rep.count("frag:macro");
                let name = text.split('(').next().unwrap_or("");
                match ex {
                    Err(e) => rep.disagree(label, "macro-expansion", e, text),
                    Ok(ex) => match ex.extern_fns.iter().find(|f| f.name == name) {
                        None => rep.disagree(label, "macro-signature", &format!("no extern \"C\" fn {name} in the expansion"), text),
                        Some(f) => {
                            let real = strip_ws(&format!("{}({})->{}", f.name, f.params.iter().map(|(n, t)| format!("{n}:{t}")).collect::<Vec<_>>().join(","), f.ret));
                            if real != strip_ws(text) {
                                rep.disagree(label, "macro-signature", &real, &strip_ws(text));
                            }
                        }
                    },
                }
            } else if let Some(name) = key.strip_prefix("macrobody ") {
                // the function-pointer type the macro transmutes a callback's `run_callback` to
                rep.count("frag:macro-callback");
                if let Ok(ex) = ex {
                    match ex.extern_fns.iter().find(|f| f.name == name) {
                        Some(f) if strip_ws(&f.text).contains(&strip_ws(text)) => {}
                        Some(f) => {
                            let body = strip_ws(&f.text);
                            let at = body.find("unsafeextern\"C\"fn(*constc_void").or_else(|| body.find("unsafeextern\"C\"fn(*mutc_void,")).unwrap_or(0);
                            rep.disagree(label, "macro-callback-signature", &body[at..(at + 160).min(body.len())].to_string(), &strip_ws(text));
                        }
                        None => rep.disagree(label, "macro-signature", &format!("no extern \"C\" fn {name} in the expansion"), text),
                    }
                }
            } else {
                rep.count("frag:c");
                cfrags.push((key.to_string(), tool::norm_ws(text)));
            }
        }
        for p in tool::check_frags(&outs, &cfrags) {
            rep.disagree(label, "c-fragment", &p, "");
        }
    }
}

/// inputs behind repaired defects, re-run on every run so that a regression is reported again
fn fixed_probes(rep: &mut Report) {
    // F25: a DiplomatOption of a zero-sized struct nested in a Result arm — either rejected, or the header compiles
    let src = "#[diplomat::bridge]\nmod ffi {\n    #[diplomat::opaque]\n    pub struct Op;\n    pub struct Zs {}\n    impl Op {\n        pub fn r1(&self) -> Result<Option<Zs>, ()> { unimplemented!() }\n    }\n}\n";
    let case = "(c01 probe option-of-zero-sized-struct-in-result)";
    let o = tool::run_backend(src, "c");
    rep.oracle_runs += 1;
    if o.ok() {
        let dir = util::workdir("C01-probe");
        util::write_files(&dir, &o.files);
        let (ok, _o, e) = util::run(std::process::Command::new("gcc").args(["-std=c11", "-fsyntax-only", "-x", "c", "-I", ".", "Op.h"]).current_dir(&dir));
        rep.count(if ok { "probe:zst-option:compiles" } else { "probe:zst-option:broken-header" });
        if !ok {
            rep.oracle_fail(case, "the tool accepts the module but its C header does not compile", json!({"diagnostics": e.lines().filter(|l| l.contains("error")).take(3).collect::<Vec<_>>(), "source": src}));
        }
    } else {
        rep.count("probe:zst-option:rejected");
    }
}


/// Methods that write their output, in every return shape the gate admits (`()`, `Result<(), E>`, `Option<()>`), on
/// every kind of receiver: the C prototype has as many parameters as the function the proc macro exports (the write
/// buffer last), whatever the return shape.  (The random modules seldom draw `Option<()>` together with a writer.)
pub fn write_param_probe(rep: &mut Report) {
    let src = "#[diplomat::bridge]\nmod ffi {\n    use diplomat_runtime::DiplomatWrite;\n    #[diplomat::opaque]\n    pub struct Gauge(u8);\n    pub struct Pt { pub x: i32 }\n    pub enum Lvl { A, B }\n    impl Gauge {\n        pub fn describe(&self, w: &mut DiplomatWrite) { let _ = w; }\n        pub fn describe_checked(&self, limit: u8, w: &mut DiplomatWrite) -> Result<(), ()> { let _ = (limit, w); Ok(()) }\n        pub fn describe_code(&self, w: &mut DiplomatWrite) -> Result<(), u8> { let _ = w; Ok(()) }\n        pub fn describe_nonneg(&self, w: &mut DiplomatWrite) -> Option<()> { let _ = w; None }\n        pub fn plain(&self) -> Option<()> { None }\n    }\n    impl Pt {\n        pub fn show(self, w: &mut DiplomatWrite) -> Option<()> { let _ = w; None }\n    }\n    impl Lvl {\n        pub fn name(self, w: &mut DiplomatWrite) -> Result<(), ()> { let _ = w; Ok(()) }\n    }\n}\n".to_string();
    let case = "(c01 probe write-parameters)";
    rep.oracle_runs += 1;
    rep.count("probe:write-parameters");
    let ex = crate::expand::expand_each(&[src.clone()]);
    let x = match &ex[0] { Ok(x) => x, Err(e) => { rep.oracle_fail(case, "the write-parameter probe does not build with the real proc macro", json!({"rustc": e})); return; } };
    let o = tool::run_backend(&src, "c");
    if !o.ok() { rep.oracle_fail(case, "the C backend does not generate the write-parameter probe", json!({"status": o.status()})); return; }
    for f in ["Gauge_describe", "Gauge_describe_checked", "Gauge_describe_code", "Gauge_describe_nonneg", "Gauge_plain", "Pt_show", "Lvl_name"] {
        let Some(rf) = x.extern_fns.iter().find(|e| e.name == f) else { rep.oracle_fail(case, "a method is missing from the expansion", json!({"function": f})); continue };
        let header: String = o.files.iter().filter(|(k, _)| k.ends_with(".h")).map(|(_, v)| v.as_str()).collect::<Vec<_>>().join("\n");
        let Some(cp) = crate::e2e::declared_param_types(&header, f) else { rep.oracle_fail(case, "a method is missing from the C headers", json!({"function": f})); continue };
        let rust_has_write = rf.params.last().map(|p| p.1.contains("DiplomatWrite")).unwrap_or(false);
        let c_has_write = cp.last().map(|p| p.contains("DiplomatWrite")).unwrap_or(false);
        if rf.params.len() != cp.len() || rust_has_write != c_has_write {
            rep.oracle_fail(case, "the C prototype does not have the parameters of the exported function", json!({"function": f, "exported": rf.params.iter().map(|p| p.1.clone()).collect::<Vec<_>>(), "c_prototype": cp, "source": src}));
        }
    }
}

pub fn main(args: &[String]) {
    let a = util::parse_args(args);
    let mut rep = Report::new("C01");
    let thorough = a.tier == "thorough";
    let mut rng = Rng::new(a.seed);
    let n = if a.n > 0 { a.n } else if thorough { 400 } else { 60 };
    let prof = c_profile();
    let mut cases = vec![];
    let mut labels = vec![];
    let mut k = 0;
    while cases.len() < n && k < n * 3 {
        k += 1;
        let m = Gen::valid_module_avoiding(&mut rng, prof, crate::tygen::Avoid { more_zst: true, opt_unit_write: true, ..Default::default() });
        let case = e2e::make_case(m, cases.len(), &mut rng);
        let o = tool::run_backend(&case.rust(), "c");
        if !o.ok() {
            rep.count(&format!("generated:{}", o.status().split(':').next().unwrap_or("?")));
            continue;
        }
        rep.count("generated:accepted");
        labels.push(format!("(c01 seed={} module={})", a.seed, cases.len()));
        cases.push(case);
    }
    for (l, c) in labels.iter().zip(&cases) {
        rep.case(l);
        rep.count_n("methods", c.scripts.len());
    }
    fixed_probes(&mut rep);
    correspondence(&cases, &labels, &mut rep);
    let lab = |k: usize| labels[k].clone();
    for chunk_start in (0..cases.len()).step_by(40) {
        let chunk = &cases[chunk_start..(chunk_start + 40).min(cases.len())];
        let lab2 = |k: usize| lab(chunk_start + k);
        let outs = run_e2e("C01", chunk, &mut rep, false, &lab2);
        wire_tie(chunk, &outs, &mut rep, &lab2);
        for o in outs {
            rep.oracle_runs += 1;
            rep.count(&format!("e2e:{}", if o.problems.is_empty() { "ok" } else { o.stage.as_str() }));
            rep.count_n("e2e:transcript-lines", o.transcript.len());
            if !o.problems.is_empty() {
                let c = &chunk[o.case_idx];
                rep.oracle_fail(&lab2(o.case_idx), "calling through the generated C header does not deliver the values the Rust method received / returned", json!({"problems": o.problems, "source": c.rust(), "driver": o.driver, "transcript": o.transcript.iter().take(60).collect::<Vec<_>>()}));
            }
        }
    }
    // the project's own C program (example/c/main.c) against regenerated headers; symbols of both bridges
    crate::repo_tests::native_tests(&mut rep, false, true);
    crate::repo_tests::symbols(&mut rep);
    write_param_probe(&mut rep);
    rep.print();
}
