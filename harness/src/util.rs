use std::path::{Path, PathBuf};
use std::process::Command;

pub fn workdir(id: &str) -> PathBuf {
    let root = std::env::var("VERIF_WORK").unwrap_or_else(|_| "/verif/work".into());
    let p = Path::new(&root).join(id);
    let _ = std::fs::remove_dir_all(&p);
    std::fs::create_dir_all(&p).unwrap();
    p
}

pub fn write_files(dir: &Path, files: &std::collections::BTreeMap<String, String>) {
    for (k, v) in files {
        let p = dir.join(k);
        std::fs::create_dir_all(p.parent().unwrap()).unwrap();
        std::fs::write(p, v).unwrap();
    }
}

/// Run a command, return (success, stdout, stderr).
pub fn run(cmd: &mut Command) -> (bool, String, String) {
    match cmd.output() {
        Ok(o) => (
            o.status.success(),
            String::from_utf8_lossy(&o.stdout).into(),
            String::from_utf8_lossy(&o.stderr).into(),
        ),
        Err(e) => (false, String::new(), format!("cannot run: {e}")),
    }
}

pub fn letters(mut i: usize) -> String {
    let mut s = String::new();
    loop {
        s.insert(0, (b'a' + (i % 26) as u8) as char);
        i /= 26;
        if i == 0 {
            break;
        }
        i -= 1;
    }
    s
}

pub struct Args {
    pub seed: u64,
    pub n: usize,
    pub tier: String,
    pub rest: Vec<String>,
}

pub fn parse_args(args: &[String]) -> Args {
    let mut a = Args {
        seed: 1,
        n: 0,
        tier: "quick".into(),
        rest: vec![],
    };
    let mut i = 0;
    while i < args.len() {
        match args[i].as_str() {
            "--seed" => {
                a.seed = args[i + 1].parse().unwrap();
                i += 1
            }
            "--n" => {
                a.n = args[i + 1].parse().unwrap();
                i += 1
            }
            "--tier" => {
                a.tier = args[i + 1].clone();
                i += 1
            }
            o => a.rest.push(o.to_string()),
        }
        i += 1;
    }
    a
}

/// Cases named by a replay file written by `check` (`failure.case` or `disagreements[*].case`).
pub fn replay_cases(path: &str) -> Vec<String> {
    let txt = std::fs::read_to_string(path).unwrap_or_default();
    let v: serde_json::Value = serde_json::from_str(&txt).unwrap_or(serde_json::Value::Null);
    let mut out = vec![];
    if let Some(c) = v.pointer("/failure/case").and_then(|c| c.as_str()) {
        out.push(c.to_string());
    }
    if let Some(ds) = v.get("disagreements").and_then(|d| d.as_array()) {
        for d in ds {
            if let Some(c) = d.get("case").and_then(|c| c.as_str()) {
                out.push(c.to_string());
            }
        }
    }
    if let Some(cs) = v.get("cases").and_then(|d| d.as_array()) {
        for c in cs {
            if let Some(c) = c.as_str() {
                out.push(c.to_string());
            }
        }
    }
    out
}

pub fn arg_value(rest: &[String], flag: &str) -> Option<String> {
    rest.iter().position(|x| x == flag).and_then(|p| rest.get(p + 1).cloned())
}

/// Crash breadcrumb: the case about to be run against unsafe real code is written first, so that if the
/// process dies (heap corruption, abort) `check` can name the input that was running.
pub fn breadcrumb(id: &str, case: &str) {
    let root = std::env::var("VERIF_WORK").unwrap_or_else(|_| "/verif/work".into());
    let _ = std::fs::create_dir_all(&root);
    let _ = std::fs::write(format!("{root}/{id}.current"), case);
}
pub fn breadcrumb_clear(id: &str) {
    let root = std::env::var("VERIF_WORK").unwrap_or_else(|_| "/verif/work".into());
    let _ = std::fs::remove_file(format!("{root}/{id}.current"));
}
