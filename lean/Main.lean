import DiplomatModel
open DiplomatModel

/-- `dmodel <ID>`: one case per stdin line, one canonical output line per case. -/
partial def loop (h : IO.FS.Stream) (out : IO.FS.Stream) (f : String → String) : IO Unit := do
  let line ← h.getLine
  if line.isEmpty then return ()
  let l := line.trimAscii.toString
  if l.isEmpty then loop h out f
  else
    out.putStrLn (f l)
    loop h out f

def dispatch : String → Option (String → String)
  | "C01" => some (fun l => if l.startsWith "(c01wire" then Wire.runLine l else AbiGen.runLine l)
  | "C02" => some (fun l => if l.startsWith "(c02cpp" then CppMethod.runLine l else CppGen.runLine l)
  | "C03" => some Own.runLine
  | "C04" => some (fun l => if l.startsWith "(c04nest" then Lifetimes.runNest l else if l.startsWith "(arena" then JsArena.runLine l else Lifetimes.runLine l)
  | "C05" => some Lower.runLine
  | "C06" => some Rename.runLine
  | "C07" => some (fun l => if l.startsWith "(c07kt" then KtNative.runLine l else DartKt.runLine l)
  | "C08" => some JsLayout.runLine
  | "C09" => some Idents.runLine
  | "C10" => some JsSlot.runLine
  | "C11" => some EnumGen.runLine
  | "C12" => some (fun l => if l.startsWith "(cppstr" then CppStr.runLine l else Write.runLine l)
  | "C17" => some Config.runLine
  | "C13" => some Cfg.runLine
  | "C14" => some EnvOrder.runLine
  | "C15" => some Panics.runLine
  | "C16" => some (fun l => if l.startsWith "(utf8" || l.startsWith "(mask2" then Utf8.runLine l else if l.startsWith "(str8" || l.startsWith "(str16" then JsStr.runLine l else Slices.runLine l)
  | _ => none

def main (args : List String) : IO UInt32 := do
  match args with
  | [id] =>
    match dispatch id with
    | some f =>
      let out ← IO.getStdout
      loop (← IO.getStdin) out f
      out.flush
      return 0
    | none => IO.eprintln s!"unknown model {id}"; return 2
  | _ => IO.eprintln "usage: dmodel <ID>"; return 2
