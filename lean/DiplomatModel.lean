import DiplomatModel.Sexp
import DiplomatModel.EnumGen
