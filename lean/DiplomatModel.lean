import DiplomatModel.Sexp
import DiplomatModel.EnumGen
import DiplomatModel.Utf8
import DiplomatModel.Slices
import DiplomatModel.Write
import DiplomatModel.Config
import DiplomatModel.Cfg
import DiplomatModel.Rename
