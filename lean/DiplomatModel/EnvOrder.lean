/-
  C14 — how source order reaches the output: the type environment.

  Mirrors
    core/src/ast/modules.rs   File::from (modules in a map sorted by name; only `mod` items are looked at),
                              Module::from_syn (types of a `#[diplomat::bridge]` module in a map sorted by name;
                              an `impl` appends its methods, in source order, to the entry of its self type and
                              panics when that entry does not exist yet; non-bridge modules contribute no types)
    core/src/environment.rs   Env / ModuleEnv: `BTreeMap`s, iteration "in a stable lexically sorted order"
    tool/src/lib.rs           one output file per type, keyed by file name

  A sorted association list plays the `BTreeMap`.  Backends are abstracted as a `render` function that sees a
  type's own definition and, for the names it refers to, what the environment resolves them to — nothing else.
-/
import DiplomatModel.Sexp
namespace DiplomatModel.EnvOrder

/-! ### a `BTreeMap` as a strictly sorted association list -/

def ins {K V} [Ord K] (k : K) (v : V) : List (K × V) → List (K × V)
  | [] => [(k, v)]
  | (k', v') :: tl =>
    match compare k k' with
    | .lt => (k, v) :: (k', v') :: tl
    | .eq => (k, v) :: tl                  -- `insert` replaces
    | .gt => (k', v') :: ins k v tl

def find {K V} [Ord K] (k : K) : List (K × V) → Option V
  | [] => none
  | (k', v') :: tl =>
    match compare k k' with
    | .eq => some v'
    | _ => find k tl

/-- `get_mut(k).map(f)`: `none` when the key is absent -/
def upd {K V} [Ord K] (k : K) (f : V → V) : List (K × V) → Option (List (K × V))
  | [] => none
  | (k', v') :: tl =>
    match compare k k' with
    | .eq => some ((k', f v') :: tl)
    | _ => (upd k f tl).map ((k', v') :: ·)

/-! ### items of a module, in source order -/

structure TyDef where
  body : String                 -- the declaration itself (fields, variants, attributes), opaque to ordering
  refs : List String            -- names of other types it mentions
  deriving Repr, DecidableEq

inductive Item where
  | ty (name : String) (d : TyDef)
  | impl (self : String) (methods : List String)
  | other                       -- `use`, functions, consts …: never looked at
  deriving Repr

structure Entry where
  d : TyDef
  methods : List String
  deriving Repr, DecidableEq

abbrev TypeMap := List (String × Entry)

/-- one iteration of the `for_each` in `Module::from_syn`; `none` = the `expect` on a missing self type -/
def stepItem (m : TypeMap) : Item → Option TypeMap
  | .ty n d => some (ins n ⟨d, []⟩ m)
  | .impl n ms => upd n (fun e => { e with methods := e.methods ++ ms }) m
  | .other => some m

def runItems (m : TypeMap) : List Item → Option TypeMap
  | [] => some m
  | i :: is => match stepItem m i with
    | some m' => runItems m' is
    | none => none

/-- `Module::from_syn` for a bridge module -/
def fromItems (items : List Item) : Option TypeMap := runItems [] items

/-! ### the file: top-level items -/

inductive Top where
  | bridge (name : String) (items : List Item)
  | plain (name : String)        -- a module without `#[diplomat::bridge]`: recorded, but declares no types
  | other                        -- anything that is not a `mod`
  deriving Repr

abbrev FileMap := List (String × TypeMap)

def stepTop (f : FileMap) : Top → Option FileMap
  | .bridge n items => (fromItems items).map fun m => ins n m f
  | .plain n => some (ins n [] f)
  | .other => some f

def runTops (f : FileMap) : List Top → Option FileMap
  | [] => some f
  | t :: ts => match stepTop f t with
    | some f' => runTops f' ts
    | none => none

def fromFile (tops : List Top) : Option FileMap := runTops [] tops

/-- `Env::iter_items`: sorted by module, then by name -/
def allTypes (f : FileMap) : List (String × String × Entry) :=
  f.flatMap fun (mn, m) => m.map fun (tn, e) => (mn, tn, e)

/-! ### output: one file per type -/

/-- what a generator may look at when writing the file of one type: the entry itself and what the names it
    mentions resolve to in its module -/
def resolved (m : TypeMap) (e : Entry) : List (String × Option TyDef) :=
  e.d.refs.map fun r => (r, (find r m).map (·.d))

def emit (render : String → Entry → List (String × Option TyDef) → String) (f : FileMap) : List (String × String) :=
  f.flatMap fun (_, m) => m.map fun (tn, e) => (tn, render tn e (resolved m e))

/-! ### driver -/

def parseItem : Sexp → Option Item
  | .list (.atom "ty" :: .atom n :: .atom body :: refs) => (optMapM Sexp.asAtom refs).map fun rs => .ty n ⟨body, rs⟩
  | .list (.atom "impl" :: .atom n :: ms) => (optMapM Sexp.asAtom ms).map (.impl n)
  | .atom "other" => some .other
  | _ => none

def parseTop : Sexp → Option Top
  | .list (.atom "bridge" :: .atom n :: items) => (optMapM parseItem items).map (.bridge n)
  | .list [.atom "plain", .atom n] => some (.plain n)
  | .atom "other" => some .other
  | _ => none

def showEntry (x : String × String × Entry) : String :=
  s!"{x.1}::{x.2.1}[{",".intercalate x.2.2.methods}]"

/-- `(c14 TOP…)` → `mods=a,b types=a::T[m1,m2] …` or `panic` -/
def runLine (line : String) : String :=
  match Sexp.parse line with
  | some (.list (.atom "c14" :: tops)) =>
    match optMapM parseTop tops with
    | some tops =>
      match fromFile tops with
      | none => "panic"
      | some f => s!"mods={",".intercalate (f.map (·.1))} types={" ".intercalate ((allTypes f).map showEntry)}"
    | none => "bad-case"
  | _ => "bad-case"

end DiplomatModel.EnvOrder
