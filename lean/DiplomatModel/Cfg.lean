/-
  C13 — backend-conditional attributes.

  Mirrors
    core/src/ast/attrs.rs    DiplomatBackendAttrCfg, Attrs::attrs_for_inheritance (impl → method pre-inheritance)
    core/src/hir/attrs.rs    AttributeValidator::satisfies_cfg, BasicAttributeValidator::{is_backend,is_name_value},
                             Attrs::from_ast (`disable`, `rename`), Attrs::for_inheritance
    core/src/hir/type_context.rs / lowering.rs   module → type / method parent attrs, `lower_all_methods`
                             skipping disabled methods, disabled types lowered without methods
  The `supports = …` table and every backend's flags are regenerated from the source (Generated/AttrSupport).
-/
import DiplomatModel.Sexp
import DiplomatModel.Generated.AttrSupport
namespace DiplomatModel.Cfg
open DiplomatModel.Generated.AttrSupport

inductive Cfg where
  | not (c : Cfg)
  | any (cs : List Cfg)
  | all (cs : List Cfg)
  | star
  | auto
  | backend (n : String)
  | nameValue (n v : String)
  deriving Repr, Inhabited

structure Validator where
  name : String
  others : List String
  flags : List (String × Bool)
  deriving Repr

def Validator.isBackend (vd : Validator) (n : String) : Bool := vd.name == n || vd.others.any (· == n)

/-- `is_name_value`: `none` = `Err("Unknown supports = value")` -/
def Validator.isNameValue (vd : Validator) (n v : String) : Option Bool :=
  if n == "supports" then
    match supportsArms.lookup v with
    | some field => vd.flags.lookup field
    | none => none
  else some false

/-- Outcome of `satisfies_cfg`: `none` = error; the second component is `*auto_found`. -/
abbrev SatRes := Option (Bool × Bool)

mutual
/-- `satisfies_cfg(cfg, auto_found)`; `allow` says whether `auto_found` is `Some(_)`. -/
def sat (vd : Validator) : Cfg → (allow : Bool) → SatRes
  | .not c, _ => (sat vd c false).map fun r => (!r.1, false)
  | .any cs, allow => satAny vd cs allow
  | .all cs, _ => satAll vd cs
  | .star, _ => some (true, false)
  | .auto, allow => if allow then some (true, true) else none
  | .backend n, _ => some (vd.isBackend n, false)
  | .nameValue n v, _ => (vd.isNameValue n v).map fun b => (b, false)
/-- the `for c in cs` loop of `Any`: first satisfied element returns, an error aborts -/
def satAny (vd : Validator) : List Cfg → Bool → SatRes
  | [], _ => some (false, false)
  | c :: cs, allow =>
    match sat vd c allow with
    | none => none
    | some (true, af) => some (true, af)
    | some (false, af) => (satAny vd cs allow).map fun r => (r.1, af || r.2)
/-- the `for c in cs` loop of `All` -/
def satAll (vd : Validator) : List Cfg → SatRes
  | [] => some (true, false)
  | c :: cs =>
    match sat vd c false with
    | none => none
    | some (false, _) => some (false, false)
    | some (true, _) => satAll vd cs
end

/-! ### plain Boolean meaning -/
mutual
def denote (vd : Validator) : Cfg → Bool
  | .not c => !denote vd c
  | .any cs => denoteAny vd cs
  | .all cs => denoteAll vd cs
  | .star => true
  | .auto => true
  | .backend n => vd.isBackend n
  | .nameValue n v => (vd.isNameValue n v).getD false
def denoteAny (vd : Validator) : List Cfg → Bool
  | [] => false
  | c :: cs => denote vd c || denoteAny vd cs
def denoteAll (vd : Validator) : List Cfg → Bool
  | [] => true
  | c :: cs => denote vd c && denoteAll vd cs
end

/-! ### attributes -/

inductive MetaK where
  | disable
  | rename (pat : String)
  | other (path : String)
  deriving Repr, DecidableEq

structure Attr where
  cfg : Cfg
  kind : MetaK
  deriving Repr

/-- the part of `hir::Attrs` C13 speaks about -/
structure HAttrs where
  disable : Bool := false
  rename : Option String := none
  deriving Repr, DecidableEq

inductive Ctx where | type | methodFromModule deriving DecidableEq

/-- `hir::Attrs::for_inheritance` (module → type keeps `rename`, module → method does not) -/
def HAttrs.forInheritance (a : HAttrs) : Ctx → HAttrs
  | .type => a
  | .methodFromModule => { a with rename := none }

/-- `Attrs::from_ast` restricted to `disable` / `rename`; returns the attrs and the number of errors pushed -/
def fromAst (vd : Validator) (parent : HAttrs) : List Attr → HAttrs × Nat
  | [] => (parent, 0)
  | a :: rest =>
    match sat vd a.cfg true with
    | none => let r := fromAst vd parent rest; (r.1, r.2 + 1)
    | some (false, _) => fromAst vd parent rest
    | some (true, autoFound) =>
      match a.kind with
      | .disable =>
        if parent.disable then
          let r := fromAst vd parent rest; (r.1, r.2 + 1 + (if autoFound then 1 else 0))   -- "Duplicate `disable`"
        else
          let r := fromAst vd { parent with disable := true } rest; (r.1, r.2 + (if autoFound then 1 else 0))
      | .rename p =>
        let r := fromAst vd { parent with rename := some p } rest; (r.1, r.2 + (if autoFound then 1 else 0))
      | .other _ => let r := fromAst vd parent rest; (r.1, r.2 + 1)   -- not modelled: counted as an error so it is never silently accepted

/-! ### a bridge module as far as attributes go -/

structure MethodDef where
  name : String
  attrs : List Attr
  deriving Repr

structure ImplDef where
  attrs : List Attr
  methods : List MethodDef
  deriving Repr

structure TypeDef where
  name : String
  attrs : List Attr
  impls : List ImplDef
  deriving Repr

structure ModuleDef where
  attrs : List Attr
  types : List TypeDef
  deriving Repr

structure LMethod where
  name : String
  rename : Option String
  deriving Repr, DecidableEq

structure LType where
  name : String
  disabled : Bool
  rename : Option String
  methods : List LMethod
  deriving Repr, DecidableEq

/-- AST pre-inheritance: a method's attribute list is its impl's list followed by its own -/
def methodAttrs (i : ImplDef) (m : MethodDef) : List Attr := i.attrs ++ m.attrs

def lowerMethods (vd : Validator) (mparent : HAttrs) (impls : List ImplDef) : List LMethod × Nat :=
  impls.foldl (fun acc i =>
    i.methods.foldl (fun acc m =>
      let r := fromAst vd mparent (methodAttrs i m)
      if r.1.disable then (acc.1, acc.2 + r.2) else (acc.1 ++ [⟨m.name, r.1.rename⟩], acc.2 + r.2)) acc) ([], 0)

def lowerType (vd : Validator) (tparent mparent : HAttrs) (t : TypeDef) : LType × Nat :=
  let ta := fromAst vd tparent t.attrs
  if ta.1.disable then (⟨t.name, true, ta.1.rename, []⟩, ta.2)
  else
    let ms := lowerMethods vd mparent t.impls
    (⟨t.name, false, ta.1.rename, ms.1⟩, ta.2 + ms.2)

/-- what a backend's `TypeContext` contains; `none` = lowering reported errors -/
def lower (vd : Validator) (m : ModuleDef) : Option (List LType) :=
  let ma := fromAst vd {} m.attrs
  let tparent := ma.1.forInheritance .type
  let mparent := ma.1.forInheritance .methodFromModule
  let rs := m.types.map (lowerType vd tparent mparent)
  if ma.2 + (rs.map (·.2)).sum = 0 then some (rs.map (·.1)) else none

/-! ### driver -/

partial def parseCfg : Sexp → Option Cfg
  | .atom "star" => some .star
  | .atom "auto" => some .auto
  | .list [.atom "be", .atom n] => some (.backend n)
  | .list [.atom "nv", .atom n, .atom v] => some (.nameValue n v)
  | .list [.atom "not", c] => (parseCfg c).map .not
  | .list (.atom "any" :: cs) => (optMapM parseCfg cs).map .any
  | .list (.atom "all" :: cs) => (optMapM parseCfg cs).map .all
  | _ => none

def parseAttr : Sexp → Option Attr
  | .list [.atom "attr", c, .atom "disable"] => (parseCfg c).map fun c => ⟨c, .disable⟩
  | .list [.atom "attr", c, .list [.atom "rename", .atom p]] => (parseCfg c).map fun c => ⟨c, .rename p⟩
  | _ => none

def parseAttrs : Sexp → Option (List Attr)
  | .list (.atom "attrs" :: as) => optMapM parseAttr as
  | _ => none

def parseMethod : Sexp → Option MethodDef
  | .list [.atom "method", .atom n, as] => (parseAttrs as).map fun a => ⟨n, a⟩
  | _ => none

def parseImpl : Sexp → Option ImplDef
  | .list (.atom "impl" :: as :: ms) =>
    match parseAttrs as, optMapM parseMethod ms with
    | some a, some ms => some ⟨a, ms⟩
    | _, _ => none
  | _ => none

def parseType : Sexp → Option TypeDef
  | .list (.atom "type" :: .atom n :: as :: is) =>
    match parseAttrs as, optMapM parseImpl is with
    | some a, some is => some ⟨n, a, is⟩
    | _, _ => none
  | _ => none

def parseModule : Sexp → Option ModuleDef
  | .list (.atom "mod" :: as :: ts) =>
    match parseAttrs as, optMapM parseType ts with
    | some a, some ts => some ⟨a, ts⟩
    | _, _ => none
  | _ => none

def validatorFor (target : String) : Option Validator :=
  match backendFlags.lookup target, otherNames.lookup target with
  | some fl, some ot => some ⟨target, ot, fl⟩
  | _, _ => none

def showOptS : Option String → String
  | none => "-"
  | some s => s

def showLowered : Option (List LType) → String
  | none => "error"
  | some ts => "ok " ++ " ".intercalate (ts.map fun t =>
      s!"{t.name}:{if t.disabled then "disabled" else "enabled"}:{showOptS t.rename}[" ++
        ",".intercalate (t.methods.map fun m => s!"{m.name}:{showOptS m.rename}") ++ "]")

/-- `(c13 TARGET MODULE)` → what survives lowering for that backend;
    `(sat TARGET CFG)` → `true|false|error` -/
def runLine (line : String) : String :=
  match Sexp.parse line with
  | some (.list [.atom "c13", .atom target, m]) =>
    match validatorFor target, parseModule m with
    | some vd, some m => showLowered (lower vd m)
    | _, _ => "bad-case"
  | some (.list [.atom "sat", .atom target, c]) =>
    match validatorFor target, parseCfg c with
    | some vd, some c => match sat vd c true with
      | none => "error"
      | some (b, _) => toString b
    | _, _ => "bad-case"
  | _ => "bad-case"

end DiplomatModel.Cfg
