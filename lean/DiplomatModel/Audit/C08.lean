import DiplomatModel.Props.C08
#print axioms DiplomatModel.Props.C08.offsets_eq
#print axioms DiplomatModel.Props.C08.layout_is_reprC
#print axioms DiplomatModel.Props.C08.align_is_max
#print axioms DiplomatModel.Props.C08.align_val
#print axioms DiplomatModel.Props.C08.size_val
#print axioms DiplomatModel.Props.C08.size_is_rounded_end
#print axioms DiplomatModel.Props.C08.empty_struct
#print axioms DiplomatModel.Props.C08.option_layout
#print axioms DiplomatModel.Props.C08.option_flag_offset
#print axioms DiplomatModel.Props.C08.force_padding_iff
#print axioms DiplomatModel.Props.C08.write_read_roundtrip
#print axioms DiplomatModel.Props.C08.typed_padding_fills_gaps
#print axioms DiplomatModel.Props.C08.arg_slots_tile
