import DiplomatModel.Props.C12
#print axioms DiplomatModel.Props.C12.content_exact
#print axioms DiplomatModel.Props.C12.in_bounds
#print axioms DiplomatModel.Props.C12.len_le_cap
#print axioms DiplomatModel.Props.C12.sticky
#print axioms DiplomatModel.Props.C12.failed_accessors
#print axioms DiplomatModel.Props.C12.ok_accessors
#print axioms DiplomatModel.Props.C12.simple_flush_in_buffer
#print axioms DiplomatModel.Props.C12.cpp_string_exact
#print axioms DiplomatModel.Props.C12.rust_buffer_exact
#print axioms DiplomatModel.Props.C12.write_struct_agrees
#print axioms DiplomatModel.Props.C12.cpp_string_exact_with_flushes
