import DiplomatModel.Props.C13
#print axioms DiplomatModel.Props.C13.satisfies_eq_denote
#print axioms DiplomatModel.Props.C13.supports_table_sound
#print axioms DiplomatModel.Props.C13.backend_identity
#print axioms DiplomatModel.Props.C13.disabled_iff
#print axioms DiplomatModel.Props.C13.type_disabled_iff
#print axioms DiplomatModel.Props.C13.method_disabled_iff
#print axioms DiplomatModel.Props.C13.rename_iff
#print axioms DiplomatModel.Props.C13.module_rename_not_inherited_by_methods
#print axioms DiplomatModel.Props.C13.false_attr_invisible
#print axioms DiplomatModel.Props.C13.other_backends_unchanged_module
#print axioms DiplomatModel.Props.C13.other_backends_unchanged_type
#print axioms DiplomatModel.Props.C13.other_backends_unchanged_method
#print axioms DiplomatModel.Props.C13.other_backends_unchanged_impl
