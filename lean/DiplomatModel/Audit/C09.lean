import DiplomatModel.Props.C09
#print axioms DiplomatModel.Props.C09.tables_closed
#print axioms DiplomatModel.Props.C09.escaped_not_keyword_of_closed
#print axioms DiplomatModel.Props.C09.escaped_never_keyword
#print axioms DiplomatModel.Props.C09.tables_cover_standards
#print axioms DiplomatModel.Props.C09.escape_injective_partial
#print axioms DiplomatModel.Props.C09.include_path_resolves
