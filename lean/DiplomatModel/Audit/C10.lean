import DiplomatModel.Props.C10
#print axioms DiplomatModel.Props.C10.optional_pointer_is_pointer
#print axioms DiplomatModel.Props.C10.optional_pointer_return
#print axioms DiplomatModel.Props.C10.option_is_result
#print axioms DiplomatModel.Props.C10.unit_arm_no_payload
#print axioms DiplomatModel.Props.C10.option_param_is_dipOption
#print axioms DiplomatModel.Props.C10.cTy_spelling
#print axioms DiplomatModel.Props.C10.isZst_spelling
#print axioms DiplomatModel.Props.C10.isUnit_spelling
#print axioms DiplomatModel.Props.C10.cArm_spelling
#print axioms DiplomatModel.Props.C10.spellings_identical
#print axioms DiplomatModel.Props.C10.spellings_identical_ret
#print axioms DiplomatModel.Props.C10.spellings_same_wire
#print axioms DiplomatModel.Props.C10.option_spelling_gate
#print axioms DiplomatModel.Props.C10.result_encoding
#print axioms DiplomatModel.Props.C10.option_encoding
#print axioms DiplomatModel.Props.C10.spellings_same_behaviour
