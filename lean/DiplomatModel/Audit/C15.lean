import DiplomatModel.Props.C15
#print axioms DiplomatModel.Props.C15.sites_match_baseline
#print axioms DiplomatModel.Props.C15.known_sites_exist
#print axioms DiplomatModel.Props.C15.input_never_box_result_write
#print axioms DiplomatModel.Props.C15.output_never_callback_strs_owned
#print axioms DiplomatModel.Props.C15.pointers_are_opaque
#print axioms DiplomatModel.Props.C15.option_payload_kinds
#print axioms DiplomatModel.Props.C15.no_known_panic_partial
