import DiplomatModel.Props.C14
#print axioms DiplomatModel.Props.C14.module_order_independent
#print axioms DiplomatModel.Props.C14.file_order_independent
#print axioms DiplomatModel.Props.C14.unrelated_type_local
#print axioms DiplomatModel.Props.C14.non_module_items_ignored
#print axioms DiplomatModel.Props.C14.plain_module_declares_nothing
#print axioms DiplomatModel.Props.C14.hash_sites_match_baseline
