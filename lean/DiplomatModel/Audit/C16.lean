import DiplomatModel.Props.C16
#print axioms DiplomatModel.Props.C16.view_roundtrip
#print axioms DiplomatModel.Props.C16.view_roundtrip_contents
#print axioms DiplomatModel.Props.C16.null_is_empty
#print axioms DiplomatModel.Props.C16.nonnull_view_preserved
#print axioms DiplomatModel.Props.C16.owned_roundtrip
#print axioms DiplomatModel.Props.C16.owned_drop_once
#print axioms DiplomatModel.Props.C16.owned_null
#print axioms DiplomatModel.Props.C16.validUtf8_iff
#print axioms DiplomatModel.Props.C16.validUtf8_bytes
#print axioms DiplomatModel.Props.C16.js_str8_length_exact
#print axioms DiplomatModel.Props.C16.js_str8_is_str
#print axioms DiplomatModel.Props.C16.js_str16_roundtrip
#print axioms DiplomatModel.Props.C16.js_str16_size_exact
#print axioms DiplomatModel.Props.C16.js_str16_bytes
#print axioms DiplomatModel.Props.C16.js_str8_length_bounds
