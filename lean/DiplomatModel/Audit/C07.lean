import DiplomatModel.Props.C07
#print axioms DiplomatModel.Props.C07.dart_prim_agree
#print axioms DiplomatModel.Props.C07.dart_prim_matches_c
#print axioms DiplomatModel.Props.C07.kt_prim_agree_partial
#print axioms DiplomatModel.Props.C07.kt_prim_matches_c_partial
#print axioms DiplomatModel.Props.C07.kt_prim_mismatch_rows
#print axioms DiplomatModel.Props.C07.sameWire_view
#print axioms DiplomatModel.Props.C07.dart_param_agree_partial
#print axioms DiplomatModel.Props.C07.kt_param_agree_partial
#print axioms DiplomatModel.Props.C07.dart_prim_some
#print axioms DiplomatModel.Props.C07.sameWire_refl
#print axioms DiplomatModel.Props.C07.dart_ty_agree
#print axioms DiplomatModel.Props.C07.kt_native_arity
#print axioms DiplomatModel.Props.C07.kt_native_ret_prim
