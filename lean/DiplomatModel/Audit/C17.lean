import DiplomatModel.Props.C17
#print axioms DiplomatModel.Props.C17.precedence_lib_name
#print axioms DiplomatModel.Props.C17.precedence_unsafe_refs
#print axioms DiplomatModel.Props.C17.source_order
#print axioms DiplomatModel.Props.C17.later_same_source_wins
#print axioms DiplomatModel.Props.C17.lastOf_is_last
#print axioms DiplomatModel.Props.C17.scoped_only_own_language
#print axioms DiplomatModel.Props.C17.kebab_eq_snake
#print axioms DiplomatModel.Props.C17.cli_arg_splits_at_first_eq
#print axioms DiplomatModel.Props.C17.stray_cli_arg_skipped
