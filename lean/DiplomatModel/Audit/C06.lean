import DiplomatModel.Props.C06
#print axioms DiplomatModel.Props.C06.rename_apply_spec
#print axioms DiplomatModel.Props.C06.split_is_occurrence
#print axioms DiplomatModel.Props.C06.rename_inherit_spec
#print axioms DiplomatModel.Props.C06.method_abi_name
#print axioms DiplomatModel.Props.C06.dtor_abi_name
#print axioms DiplomatModel.Props.C06.abi_name_scheme
#print axioms DiplomatModel.Props.C06.used_subset_exported
#print axioms DiplomatModel.Props.C06.enabled_method_used
