import DiplomatModel.Props.C05
#print axioms DiplomatModel.Props.C05.outErrs_named
#print axioms DiplomatModel.Props.C05.out_gate_iff
#print axioms DiplomatModel.Props.C05.staticErr_nil
#print axioms DiplomatModel.Props.C05.inErrs_named
#print axioms DiplomatModel.Props.C05.inErrs_str
#print axioms DiplomatModel.Props.C05.inErrs_slice
#print axioms DiplomatModel.Props.C05.in_gate_iff
#print axioms DiplomatModel.Props.C05.self_gate_iff
#print axioms DiplomatModel.Props.C05.unit_not_outOk
#print axioms DiplomatModel.Props.C05.ret_gate_iff
#print axioms DiplomatModel.Props.C05.module_gate_iff
#print axioms DiplomatModel.Props.C05.method_gate
#print axioms DiplomatModel.Props.C05.no_elision_ok
#print axioms DiplomatModel.Props.C05.elided_return_rejected
#print axioms DiplomatModel.Props.C05.error_context
