import DiplomatModel.Props.C11
#print axioms DiplomatModel.Props.C11.discs_spec
#print axioms DiplomatModel.Props.C11.contiguous_iff
#print axioms DiplomatModel.Props.C11.kotlin_fold_eq
#print axioms DiplomatModel.Props.C11.i32_cast_safe
#print axioms DiplomatModel.Props.C11.to_ffi_c
#print axioms DiplomatModel.Props.C11.to_ffi_cpp
#print axioms DiplomatModel.Props.C11.from_ffi_cpp
#print axioms DiplomatModel.Props.C11.to_ffi_dart
#print axioms DiplomatModel.Props.C11.from_ffi_dart
#print axioms DiplomatModel.Props.C11.to_ffi_kotlin
#print axioms DiplomatModel.Props.C11.from_ffi_kotlin
#print axioms DiplomatModel.Props.C11.js_obj
#print axioms DiplomatModel.Props.C11.to_ffi_js
#print axioms DiplomatModel.Props.C11.from_ffi_js
#print axioms DiplomatModel.Props.C11.to_ffi_python
