import DiplomatModel.Props.C02
#print axioms DiplomatModel.Props.C02.guard_iff
#print axioms DiplomatModel.Props.C02.no_guard_elsewhere
#print axioms DiplomatModel.Props.C02.wraps_iff
#print axioms DiplomatModel.Props.C02.invalid_never_reaches_rust
#print axioms DiplomatModel.Props.C02.valid_calls_once
#print axioms DiplomatModel.Props.C02.guard_is_exactly_utf8
#print axioms DiplomatModel.Props.C02.optional_roundtrip
#print axioms DiplomatModel.Props.C02.optional_pointer_roundtrip
#print axioms DiplomatModel.Props.C02.option_unit_return
#print axioms DiplomatModel.Props.C02.guards_agree
#print axioms DiplomatModel.Props.C02.cpp_param_total_partial
#print axioms DiplomatModel.Props.C02.cpp_args_match_c_params
#print axioms DiplomatModel.Props.C02.fallible_return_shape
#print axioms DiplomatModel.Props.C02.nullable_return_shape
