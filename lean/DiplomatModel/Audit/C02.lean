import DiplomatModel.Props.C02
#print axioms DiplomatModel.Props.C02.guard_iff
#print axioms DiplomatModel.Props.C02.no_guard_elsewhere
#print axioms DiplomatModel.Props.C02.wraps_iff
#print axioms DiplomatModel.Props.C02.invalid_never_reaches_rust
#print axioms DiplomatModel.Props.C02.valid_calls_once
#print axioms DiplomatModel.Props.C02.guard_is_exactly_utf8
#print axioms DiplomatModel.Props.C02.optional_roundtrip
#print axioms DiplomatModel.Props.C02.optional_pointer_roundtrip
#print axioms DiplomatModel.Props.C02.option_unit_return
