import DiplomatModel.Props.C03
#print axioms DiplomatModel.Props.C03.never_dropped_twice
#print axioms DiplomatModel.Props.C03.live_payloads_distinct
#print axioms DiplomatModel.Props.C03.created_is_live_or_dropped
#print axioms DiplomatModel.Props.C03.dropAll_perm
#print axioms DiplomatModel.Props.C03.exactly_once
#print axioms DiplomatModel.Props.C03.convert_moves
#print axioms DiplomatModel.Props.C03.drop_logs_owner
