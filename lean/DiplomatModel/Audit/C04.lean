import DiplomatModel.Props.C04
#print axioms DiplomatModel.Props.C04.allLonger_spec
#print axioms DiplomatModel.Props.C04.allLonger_fuel_enough
#print axioms DiplomatModel.Props.C04.visit_no_panic
#print axioms DiplomatModel.Props.C04.nonstruct_edge_iff
#print axioms DiplomatModel.Props.C04.struct_edge_iff
#print axioms DiplomatModel.Props.C04.borrowMap_keys
#print axioms DiplomatModel.Props.C04.nested_field_exact
#print axioms DiplomatModel.Props.C04.nested_getter_exact
#print axioms DiplomatModel.Props.C04.arena_on_every_edge_array
#print axioms DiplomatModel.Props.C04.arena_stays_on_edge_array
