/-
  C02 — the C++ wrapper layer (tool/src/cpp/ty.rs, templates/cpp/method_impl.h.jinja, runtime.hpp.jinja).

  Modelled here: which parameters a generated wrapper validates before calling into Rust
  (`gen_method_info`: `param_validations`, `returns_utf8_err`), what the wrapper does with the outcome of the
  validation, and the value-level conversions of optionals and results between the C++ API and the C ABI
  (`gen_cpp_to_c_for_type` / `gen_c_to_cpp_for_type` / `gen_c_to_cpp_for_return_type` for
  `std::optional`, nullable pointers, `diplomat::result`).
-/
import DiplomatModel.AbiGen
import DiplomatModel.Utf8
namespace DiplomatModel.CppGen
open Lower AbiGen

/-- `Type::Slice(Slice::Str(_, Utf8))` as a *direct* parameter type -/
def isUtf8Str : TyName → Bool
  | .strRef _ .utf8 _ => true
  | _ => false

/-- the parameters the generated wrapper validates with `diplomat_is_str`, in order -/
def guardedParams (m : AMethod) : List String :=
  (m.params.filter fun p => isUtf8Str p.2).map (·.1)

/-- `returns_utf8_err`: the wrapper's return type becomes `diplomat::result<R, diplomat::Utf8Error>` -/
def wrapsUtf8 (m : AMethod) : Bool := !(guardedParams m).isEmpty

/-! ### what the wrapper does -/

inductive Outcome (ρ : Type) where
  | utf8Error
  | returned (r : ρ)
  deriving Repr

/-- an argument of a call: the bytes of a string argument, or anything else -/
inductive Arg where
  | str (bytes : List Nat)
  | other (v : Nat)
  deriving Repr

def Arg.valid : Arg → Bool
  | .str bs => Utf8.validUtf8 bs
  | .other _ => true

/-- The generated method body: every validation in parameter order, each returning
    `diplomat::Err<diplomat::Utf8Error>()` on failure, then the C call, then the conversion of its result.
    `rust` stands for the exported function together with the return conversion; the second component counts
    how often it was invoked. -/
def wrapper {ρ : Type} (guarded : List Bool) (args : List Arg) (rust : List Arg → ρ) : Outcome ρ × Nat :=
  if ((guarded.zip args).all fun ga => !ga.1 || ga.2.valid) then (.returned (rust args), 1) else (.utf8Error, 0)

/-! ### value conversions -/

/-- `cpp.has_value() ? (T_option{ {conv(cpp.value())}, true }) : (T_option{ {}, false })` -/
def optToC {α β : Type} (conv : α → β) : Option α → Option β × Bool
  | some v => (some (conv v), true)
  | none => (none, false)

/-- `c.is_ok ? std::optional<T>(conv(c.ok)) : std::nullopt` -/
def optFromC {α β : Type} (conv : β → α) : Option β × Bool → Option (Option α)
  | (some v, true) => some (some (conv v))
  | (_, false) => some none
  | (none, true) => none            -- `is_ok` without a payload: not a value the Rust side produces

/-- `cpp ? cpp->AsFFI() : nullptr` and back (`ptr ? … : nullptr/nullopt`); addresses are non-zero -/
def ptrToC : Option Nat → Nat
  | some a => a
  | none => 0
def ptrFromC (p : Nat) : Option Nat := if p = 0 then none else some p

/-- `result.is_ok ? std::optional<std::monostate>(std::monostate()) : std::nullopt` (after the repair of F29) -/
def optUnitFromC (isOk : Bool) : Option Unit := if isOk then some () else none
/-- the expression before the repair: `std::optional<std::monostate>()` is the empty optional -/
def optUnitFromC_before (_isOk : Bool) : Option Unit := none

/-! ### driver -/

/-- `(c02 PREFIX DECL…)` → `Type.method=g1,g2;utf8-result|plain …` -/
def runLine (line : String) : String :=
  match Sexp.parse line with
  | some (.list (.atom "c02" :: .atom _pfx :: decls)) =>
    match optMapM parseDeclA decls with
    | some ds =>
      " ".intercalate (ds.flatMap fun d => (d.methods.filter fun m => m.name != "vmk" && m.name != "vtag").map fun m =>
        d.name ++ "." ++ m.name ++ "=" ++ ",".intercalate (guardedParams m) ++ ";" ++ (if wrapsUtf8 m then "utf8-result" else "plain"))
    | none => "bad-case"
  | _ => "bad-case"

end DiplomatModel.CppGen
