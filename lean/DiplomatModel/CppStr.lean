/-
  C12 — the C++ adaptor `WriteFromString` (tool/templates/cpp/runtime.hpp.jinja) with flushes anywhere.

  The writer's window is the `std::string`'s own storage: `buf = &s[0]`, `len = cap = s.length()` at the start;
  `_grow(requested)` is `s.resize(requested); cap = s.length()`; `_flush` is `s.resize(len)`.  Rust's `write_str`
  (Write.lean) calls `grow` when `len + n > cap` and then copies the chunk to `buf[len..]`.  A write that lands beyond
  `s.length()` would be outside the string (`oob`): behind it `resize` zero-fills, so it would also be lost.
-/
import DiplomatModel.Write
namespace DiplomatModel.CppStr
open DiplomatModel.Write DiplomatModel.Sexp

structure S where
  str : List Nat
  len : Nat
  cap : Nat
  oob : Bool
  deriving Repr

/-- `std::string::resize(n)`: truncate, or extend with NULs -/
def resize (l : List Nat) (n : Nat) : List Nat := l.take n ++ List.replicate (n - l.length) 0

inductive Op where
  | write (chunk : List Nat)
  | flush
  deriving Repr

def start (init : List Nat) : S := ⟨init, init.length, init.length, false⟩

def grow (s : S) (requested : Nat) : S :=
  { s with str := resize s.str requested, cap := (resize s.str requested).length }

def step (s : S) : Op → S
  | .write c =>
    let s1 := if s.len + c.length > s.cap then grow s (s.len + c.length) else s
    { s1 with str := copyAt s1.str s1.len c, len := s1.len + c.length,
              oob := s1.oob || decide (s1.len + c.length > s1.str.length) }
  | .flush => { s with str := resize s.str s.len }

def run (init : List Nat) (ops : List Op) : S := ops.foldl step (start init)

/-- what Rust wrote -/
def written : List Op → List Nat
  | [] => []
  | .write c :: ops => c ++ written ops
  | .flush :: ops => written ops

/-! ### driver: `(cppstr (INIT…) OP…)` with `OP ::= f | (BYTE…)` → `len=… oob=… bytes=…` after a final flush -/
def parseOp : Sexp → Option Op
  | .atom "f" => some .flush
  | .list bs => (optMapM (fun b => match b with | .atom a => a.toNat? | _ => none) bs).map .write
  | _ => none

def runLine (line : String) : String :=
  match Sexp.parse line with
  | some (.list (.atom "cppstr" :: .list init :: ops)) =>
    match optMapM (fun b => match b with | .atom a => a.toNat? | _ => none) init, optMapM parseOp ops with
    | some i, some os =>
      let s := step (run i os) .flush
      "len=" ++ Nat.repr s.len ++ " oob=" ++ (if s.oob then "true" else "false") ++ " bytes=" ++ ",".intercalate (s.str.map Nat.repr)
    | _, _ => "bad-case"
  | _ => "bad-case"

end DiplomatModel.CppStr
