/-
  C08 — tool/src/js/layout.rs: where the JS backend believes struct fields live in wasm32 memory.

  Mirrors `struct_field_info` (running offset, alignment padding attached to the *previous* field as
  `padding_count` fields of width `prev_align`, trailing padding), `type_size_alignment_and_scalar_count`
  (enums / opaque pointers / usize = 4/4, slices = 8/4 with two scalars, nested structs, `DiplomatOption<T>` =
  `size T + align T` / `align T`, "memory" scalar count) and the `ScalarCount` algebra.
-/
import DiplomatModel.Sexp
namespace DiplomatModel.JsLayout

/-- a field type as far as layout goes -/
inductive LTy where
  | scalar (size align : Nat)      -- primitive, enum (4/4), opaque pointer (4/4)
  | slice                          -- (ptr, len): 8/4, two scalars
  | struct (fields : List LTy)
  | opt (t : LTy)                  -- DiplomatOption<T>
  deriving Repr, Inhabited

inductive SC where
  | zst | scalars (n : Nat) | memory
  deriving Repr, DecidableEq

/-- `impl Add for ScalarCount` -/
def SC.add : SC → SC → SC
  | _, .memory => .memory
  | .memory, _ => .memory
  | a, .zst => a
  | .zst, a => a
  | .scalars a, .scalars b => .scalars (a + b)

structure FieldLayout where
  offset : Nat
  paddingCount : Nat
  paddingWidth : Nat
  sc : SC
  deriving Repr, DecidableEq

structure Info where
  fields : List FieldLayout
  size : Nat
  align : Nat
  sc : SC
  deriving Repr

/-- alignment padding needed at `next` for alignment `a` -/
def padTo (next a : Nat) : Nat := (a - next % a) % a

/-- running state of the `for typ in types` loop -/
structure St where
  maxAlign : Nat
  next : Nat
  prevAlign : Nat
  fields : List FieldLayout      -- in order
  sc : SC
  deriving Repr

def setLastPadding (fs : List FieldLayout) (count width : Nat) : List FieldLayout :=
  match fs.reverse with
  | [] => []
  | l :: rest => (({ l with paddingCount := count, paddingWidth := width }) :: rest).reverse

/-- one iteration of the loop for a field of the given (size, align, scalar count) -/
def stepField (s : St) (f : Nat × Nat × SC) : St :=
  let (size, align, fsc) := f
  let padding := padTo s.next align
  let fields := if padding != 0 then setLastPadding s.fields (padding / s.prevAlign) s.prevAlign else s.fields
  { maxAlign := max s.maxAlign align
    next := s.next + padding + size
    prevAlign := align
    fields := fields ++ [⟨s.next + padding, 0, 1, fsc⟩]
    sc := s.sc.add fsc }

/-- `struct_field_info` on already laid-out field descriptions -/
def fieldInfoOf (fs : List (Nat × Nat × SC)) : Info :=
  if fs.isEmpty then ⟨[], 4, 4, .zst⟩
  else
    let s := fs.foldl stepField ⟨0, 0, 1, [], .zst⟩
    let trailing := padTo s.next s.maxAlign
    let fields := if s.next % s.maxAlign != 0 then setLastPadding s.fields (trailing / s.prevAlign) s.prevAlign else s.fields
    ⟨fields, s.next + (if s.next % s.maxAlign != 0 then trailing else 0), s.maxAlign, s.sc⟩

mutual
/-- `type_size_alignment_and_scalar_count`; `none` = the `unimplemented!` for `Option<ZST>` -/
def layoutOf : LTy → Option (Nat × Nat × SC)
  | .scalar size align => some (size, align, .scalars 1)
  | .slice => some (8, 4, .scalars 2)
  | .struct fs => (layoutList fs).map fun ls => let i := fieldInfoOf ls; (i.size, i.align, i.sc)
  | .opt t =>
    match layoutOf t with
    | some (size, align, sc) => if sc = .zst then none else some (size + align, align, .memory)
    | none => none
def layoutList : List LTy → Option (List (Nat × Nat × SC))
  | [] => some []
  | t :: ts => match layoutOf t, layoutList ts with
    | some l, some ls => some (l :: ls)
    | _, _ => none
end

/-- `struct_field_info` -/
def structFieldInfo (fs : List LTy) : Option Info := (layoutList fs).map fieldInfoOf

/-! ### generated JS fragments that carry the layout (tool/src/js/gen.rs `generate_fields`, converter.rs) -/

/-- `ForcePaddingStatus` -/
inductive Force where
  | noForce | force | passThrough
  deriving Repr, DecidableEq

def isStructTy : LTy → Bool
  | .struct _ => true
  | _ => false

def atLeast3 : SC → Bool
  | .scalars n => decide (3 ≤ n)
  | _ => false

/-- the `force_padding` decision of `generate_fields`: (scalar count of the field, of the whole struct, is the
    field a struct); the arms of the Rust `match` in order -/
def forcePadding (field whole : SC) (fieldIsStruct : Bool) : Force :=
  if field = .zst ∨ field = .scalars 1 then .noForce           -- there's no padding needed
  else if fieldIsStruct = false then .noForce                   -- non-structs don't care
  else if field = .scalars 2 ∧ whole = .scalars 2 then .passThrough
  else if field = .scalars 2 ∧ atLeast3 whole = true then .force
  else .noForce

def Force.suffix : Force → String
  | .noForce => "" | .force => ", true" | .passThrough => ", forcePadding"

def widthName (w : Nat) : String := "i" ++ toString (w * 8)

/-- fragments of the struct's `.mjs`, in the order they appear in `_intoFFI` (input structs only), then
    `_writeToArrayBuffer` (input structs only), then `_fromFFI`; field `i` is called `f{i}` -/
def jsFrags (fs : List LTy) (isOut : Bool) : Option (List String) :=
  match structFieldInfo fs, layoutList fs with
  | some info, some ls =>
    let idx := List.range fs.length
    let inner : Nat → Option (Nat × Nat) := fun i =>
      match fs[i]? with
      | some (.opt t) => (layoutOf t).map fun l => (l.1, l.2.1)
      | _ => none
    let into : List String := idx.flatMap fun i =>
      let fl := info.fields.getD i ⟨0, 0, 1, .zst⟩
      let fsc := (ls.getD i (0, 1, .zst)).2.2
      let call : List String :=
        match fs[i]? with
        | some (.struct _) => ["this.#f" ++ toString i ++ ")._intoFFI(functionCleanupArena, {}" ++ (forcePadding fsc info.sc true).suffix ++ ")"]
        | some (.opt _) => match inner i with
          | some (sz, al) => ["diplomatRuntime.optionToArgsForCalling(this.#f" ++ toString i ++ ", " ++ toString sz ++ ", " ++ toString al ++ ","]
          | none => []
        | _ => []
      let pad : List String :=
        if fl.paddingCount = 0 then []
        else if info.sc = .scalars 2 then ["...diplomatRuntime.maybePaddingFields(forcePadding, " ++ toString fl.paddingCount ++ " /* x " ++ widthName fl.paddingWidth ++ " */)"]
        else ["/* [" ++ toString fl.paddingCount ++ " x " ++ widthName fl.paddingWidth ++ "] padding */"]
      call ++ pad
    let write : List String := idx.flatMap fun i =>
      let fl := info.fields.getD i ⟨0, 0, 1, .zst⟩
      match inner i with
      | some (sz, al) => ["diplomatRuntime.writeOptionToArrayBuffer(arrayBuffer, offset + " ++ toString fl.offset ++ ", this.#f" ++ toString i ++ ", " ++ toString sz ++ ", " ++ toString al ++ ","]
      | none => []
    let read : List String := idx.flatMap fun i =>
      match inner i with
      | some (sz, _) => ["diplomatRuntime.readOption(wasm, f" ++ toString i ++ "Deref, " ++ toString sz ++ ","]
      | none => []
    some ((if isOut then [] else into ++ write) ++ read)
  | _, _ => none

/-! ### the flattened argument list of `_intoFFI` (legacy ABI) -/

/-- one element of the flattened argument list: a scalar leaf of a given byte width, a padding zero of a given
    width, one `align`-wide chunk of an option's payload, the option's `is_ok` flag -/
inductive Slot where
  | leaf (w : Nat) | pad (w : Nat) | chunk (w : Nat) | flag
  deriving Repr, DecidableEq

def Slot.width : Slot → Nat
  | .leaf w => w | .pad w => w | .chunk w => w | .flag => 1

def Slot.show : Slot → String
  | .leaf w => "l" ++ toString w | .pad w => "p" ++ toString w | .chunk w => "c" ++ toString w | .flag => "f1"

/-- what a child struct's `_intoFFI` receives as `forcePadding` -/
def childForce (f : Force) (parent : Bool) : Bool :=
  match f with
  | .noForce => false | .force => true | .passThrough => parent

/-- padding slots emitted after a field: unconditional, except in a two-scalar struct where the caller decides -/
def padSlots (fl : FieldLayout) (whole : SC) (force : Bool) : List Slot :=
  if fl.paddingCount = 0 then []
  else if whole = .scalars 2 then (if force then List.replicate fl.paddingCount (.pad fl.paddingWidth) else [])
  else List.replicate fl.paddingCount (.pad fl.paddingWidth)

mutual
/-- the spread of one field: `this.#f`, `...slice.splat()`, `...child._intoFFI(arena, {}, force?)`,
    `...optionToArgsForCalling(value, size, align, …)` -/
def tySlots : LTy → SC → SC → Bool → Option (List Slot)
  | .scalar s _, _, _, _ => some [.leaf s]
  | .slice, _, _, _ => some [.leaf 4, .leaf 4]
  | .struct gs, fsc, whole, force =>
    match structFieldInfo gs, layoutList gs with
    | some info, some ls => fieldsSlots gs info.fields ls info.sc (childForce (forcePadding fsc whole true) force)
    | _, _ => none
  | .opt t, _, _, _ =>
    match layoutOf t with
    | some (sz, al, _) => some (List.replicate (sz / al) (.chunk al) ++ [.flag] ++ List.replicate (al - 1) (.pad 1))
    | none => none
def fieldsSlots : List LTy → List FieldLayout → List (Nat × Nat × SC) → SC → Bool → Option (List Slot)
  | [], _, _, _, _ => some []
  | t :: ts, fl :: fls, l :: ls, whole, force =>
    match tySlots t l.2.2 whole force, fieldsSlots ts fls ls whole force with
    | some own, some rest => some (own ++ padSlots fl whole force ++ rest)
    | _, _ => none
  | _ :: _, _, _, _, _ => none
end

/-- `Struct._intoFFI(arena, {}, forcePadding)` of a struct with fields `fs` -/
def argSlots (fs : List LTy) (force : Bool) : Option (List Slot) :=
  match structFieldInfo fs, layoutList fs with
  | some info, some ls => fieldsSlots fs info.fields ls info.sc force
  | _, _ => none

/-! ### driver -/

partial def parseLTy : Sexp → Option LTy
  | .atom "slice" => some .slice
  | .list [.atom "s", a, b] => match a.asNat, b.asNat with | some a, some b => some (.scalar a b) | _, _ => none
  | .list (.atom "struct" :: fs) => (optMapM parseLTy fs).map .struct
  | .list [.atom "opt", t] => (parseLTy t).map .opt
  | _ => none

def showSC : SC → String
  | .zst => "0" | .scalars n => toString n | .memory => "-1"

/-- `(layout LTy…)` → `size=.. align=.. sc=.. fields=off:count:width:sc,…` or `panic` -/
def runLine (line : String) : String :=
  match Sexp.parse line with
  | some (.list (.atom "layout" :: fs)) =>
    match optMapM parseLTy fs with
    | some fs =>
      match structFieldInfo fs with
      | none => "panic"
      | some i => s!"size={i.size} align={i.align} sc={showSC i.sc} fields=" ++
          ",".intercalate (i.fields.map fun f => s!"{f.offset}:{f.paddingCount}:{f.paddingWidth}:{showSC f.sc}")
    | none => "bad-case"
  | some (.list (.atom "jsargs" :: fs)) =>
    match optMapM parseLTy fs with
    | some fs =>
      match argSlots fs false with
      | none => "panic"
      | some l => " ".intercalate (l.map Slot.show)
    | none => "bad-case"
  | some (.list (.atom "jsfrags" :: .atom out :: fs)) =>
    match optMapM parseLTy fs with
    | some fs =>
      match jsFrags fs (out == "out") with
      | none => "panic"
      | some l => " ;; ".intercalate l
    | none => "bad-case"
  | _ => "bad-case"

end DiplomatModel.JsLayout
