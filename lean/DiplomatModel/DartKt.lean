/-
  C07 — the native declarations of the Dart (dart:ffi) and Kotlin (JNA) bindings.

  `dartFfiAbi` / `jnaAbi` are the documented meanings of the type names those bindings declare
  (dart:ffi `NativeType`s; JNA's default Java↔native type mapping and the `IntegerType` helpers the Kotlin
  runtime file defines).  `dartTy` / `ktTy` are the generators' type functions (`gen_type_name_ffi`,
  `gen_native_type_name`) for the accepted type grammar, as trees with their exact text and their wire
  description, in the vocabulary of `AbiGen` (shared with C01, so "the C ABI" is C01's `cAbi`).
-/
import DiplomatModel.AbiGen
import DiplomatModel.Generated.BindingTables
namespace DiplomatModel.DartKt
open Lower AbiGen
open DiplomatModel.Generated.BindingTables

/-- dart:ffi native types (api.dart.dev/dart-ffi): fixed-width integers, `IntPtr`, `Size`, `Float`, `Double`, `Bool` -/
def dartFfiAbi : String → Option Abi
  | "ffi.Bool" => some [.bool]
  | "ffi.Int8" => some [.int 8 true] | "ffi.Uint8" => some [.int 8 false]
  | "ffi.Int16" => some [.int 16 true] | "ffi.Uint16" => some [.int 16 false]
  | "ffi.Int32" => some [.int 32 true] | "ffi.Uint32" => some [.int 32 false]
  | "ffi.Int64" => some [.int 64 true] | "ffi.Uint64" => some [.int 64 false]
  | "ffi.IntPtr" => some [.psize true] | "ffi.Size" => some [.psize false]
  | "ffi.Float" => some [.float 32] | "ffi.Double" => some [.float 64]
  | _ => none

/-- JNA default mapping (Java `byte/short/int/long/float/double`; `boolean` is a native `int`), plus the
    `IntegerType(size, unsigned = true)` helper classes of the generated Lib.kt -/
def jnaAbi : String → Option Abi
  | "Boolean" => some [.int 32 true]
  | "Byte" => some [.int 8 true] | "Short" => some [.int 16 true] | "Int" => some [.int 32 true] | "Long" => some [.int 64 true]
  | "Float" => some [.float 32] | "Double" => some [.float 64]
  | "FFIUint8" => some [.int 8 false] | "FFIUint16" => some [.int 16 false]
  | "FFIUint32" => some [.int 32 false] | "FFIUint64" => some [.int 64 false]
  | "FFISizet" => some [.psize false] | "FFIIsizet" => some [.psize true]
  | _ => none

def dartPrim (p : Prim) : Option String := dartPrimFfi.lookup (primKey p)
def ktPrim (p : Prim) : Option String := ktPrimFfi.lookup (primKey p)

/-- the primitives whose Kotlin native type does not have the C type's width and signedness
    (known findings: `bool` is a 32-bit `int` for JNA; `DiplomatChar` (u32) is `Int`; `DiplomatByte` (u8) is `Byte`) -/
def ktMismatch : Prim → Bool
  | .bool | .char | .byte => true
  | _ => false

/-! ### Dart: `gen_type_name_ffi` over the accepted grammar -/

inductive DTy where
  | prim (ffi : String)
  | opaquePtr                         -- ffi.Pointer<ffi.Opaque>
  | structTy (n : String)             -- _{n}Ffi
  | enumTy                            -- ffi.Int32
  | slice (name : String)             -- _SliceUtf8, _SliceDouble, …
  | result (ok err : String)          -- _Result{ok}{err}
  | void
  deriving Repr, Inhabited

def DTy.name : DTy → String
  | .prim f => f
  | .opaquePtr => "ffi.Pointer<ffi.Opaque>"
  | .structTy n => "_" ++ n ++ "Ffi"
  | .enumTy => "ffi.Int32"
  | .slice n => n
  | .result a b => "_Result" ++ a ++ b
  | .void => "ffi.Void"

/-- wire description of a Dart native type that is not a result record -/
def dAbiSimple : DTy → Option Abi
  | .prim f => dartFfiAbi f
  | .opaquePtr => some [.ptr]
  | .structTy n => some [.named n]
  | .enumTy => some [.int 32 true]
  | .slice _ => some viewAbi
  | .void => some []
  | .result .. => none

def dartParamTy (env : Env) : TyName → Option DTy
  | .prim p => (dartPrim p).map .prim
  | .named n =>
    match env.get n with
    | some (.struct ..) => some (.structTy n)
    | some .enumTy => some .enumTy
    | _ => none
  | .ref _ _ (.named n) => if isOpaqueName env n then some .opaquePtr else none
  | .opt (.ref _ _ (.named n)) _ => if isOpaqueName env n then some .opaquePtr else none
  | .strRef _ e _ => some (.slice (match e with | .unvalidatedUtf16 => "_SliceUtf16" | _ => "_SliceUtf8"))
  | .write => some .opaquePtr
  | _ => none

/-! ### Dart: the full native signature (`gen_type_name_ffi`, `gen_return_type_name_ffi`, `gen_result`) -/

/-- a native type of a Dart `@ffi.Native` signature -/
inductive NTy where
  | prim (ffi : String)
  | opaquePtr
  | structTy (n : String)
  | enumTy
  | slice (name : String)
  | void
  | result (ok err : Option NTy) (okName errName : String)   -- `_Result{okName}{errName}`; arms without storage are absent
  deriving Repr, Inhabited

/-- `fmt_type_as_ident`: the opaque pointer becomes `Opaque`, `ffi.` and `_` disappear -/
def identOf (name : String) : String :=
  ((name.replace "ffi.Pointer<ffi.Opaque>" "Opaque").replace "ffi." "").replace "_" ""

def NTy.name : NTy → String
  | .prim f => f
  | .opaquePtr => "ffi.Pointer<ffi.Opaque>"
  | .structTy n => "_" ++ n ++ "Ffi"
  | .enumTy => "ffi.Int32"
  | .slice n => n
  | .void => "ffi.Void"
  | .result _ _ a b => "_Result" ++ a ++ b

def nAbiSimple : NTy → Option Abi
  | .prim f => dartFfiAbi f
  | .opaquePtr => some [.ptr]
  | .structTy n => some [.named n]
  | .enumTy => some [.int 32 true]
  | .slice _ => some viewAbi
  | .void => some []
  | .result .. => none

def nArmAbi : Option NTy → Option (List Abi)
  | none => some []
  | some t => (nAbiSimple t).map fun a => [a]

/-- a result record: `{ union { ok; err }, @ffi.Bool() isOk }` (templates/dart/result.dart.jinja) -/
def nAbi : NTy → Option Abi
  | .result ok err _ _ =>
    match nArmAbi ok, nArmAbi err with
    | some a, some b => some (mkResult (a ++ b))
    | _, _ => none
  | t => nAbiSimple t

def dartSliceName : TyName → Option String
  | .strRef _ e _ => some (match e with | .unvalidatedUtf16 => "_SliceUtf16" | _ => "_SliceUtf8")
  | .strSlice e _ => some (match e with | .unvalidatedUtf16 => "_SliceSliceUtf16" | _ => "_SliceSliceUtf8")
  | .primSlice _ p _ => dartPrimSlice.lookup (primKey p)
  | _ => none

/-- `gen_type_name_ffi` after lowering; an optional non-pointer is a result record with a `Void` error -/
def dartTy (env : Env) : TyName → Option NTy
  | .prim p => (dartPrim p).map .prim
  | .ordering => (dartPrim .i8).map .prim
  | .named n =>
    match env.get n with
    | some (.struct ..) => some (.structTy n)
    | some .enumTy => some .enumTy
    | _ => none
  | .ref _ _ (.named n) => if isOpaqueName env n then some .opaquePtr else none
  | .box (.named n) => if isOpaqueName env n then some .opaquePtr else none
  | .opt t _ =>
    match t with
    | .ref _ _ (.named n) => if isOpaqueName env n then some .opaquePtr else none
    | .box (.named n) => if isOpaqueName env n then some .opaquePtr else none
    | .prim p => (dartPrim p).map fun f => .result (some (.prim f)) none (identOf f) "Void"
    | .named n =>
      match env.get n with
      | some (.struct ..) => some (.result (some (.structTy n)) none (identOf ("_" ++ n ++ "Ffi")) "Void")
      | some .enumTy => some (.result (some .enumTy) none "Int32" "Void")
      | _ => none
    | .strRef lt e s => (dartSliceName (.strRef lt e s)).map fun nm => .result (some (.slice nm)) none (identOf nm) "Void"
    | .primSlice l p s => (dartSliceName (.primSlice l p s)).map fun nm => .result (some (.slice nm)) none (identOf nm) "Void"
    | .strSlice e s => (dartSliceName (.strSlice e s)).map fun nm => .result (some (.slice nm)) none (identOf nm) "Void"
    | _ => none
  | .strRef lt e s => (dartSliceName (.strRef lt e s)).map .slice
  | .primSlice l p s => (dartSliceName (.primSlice l p s)).map .slice
  | .strSlice e s => (dartSliceName (.strSlice e s)).map .slice
  | _ => none

/-- an arm of a result: (the member, if it has storage; the name used in the record's name) -/
def dartArm (env : Env) (t : TyName) : Option (Option NTy × String) :=
  if isUnit t then some (none, "Void")
  else (dartTy env t).map fun d => (if isZst env t then none else some d, identOf d.name)

def dartRetTy (env : Env) : Option TyName → Option NTy
  | none => some .void
  | some .unit => some .void
  | some (.res ok err _) =>
    match dartArm env ok, dartArm env err with
    | some a, some b => some (.result a.1 b.1 a.2 b.2)
    | _, _ => none
  | some (.opt v sd) =>
    match v with
    | .box _ | .ref .. => dartTy env (.opt v sd)
    | v => (dartArm env v).map fun a => .result a.1 none a.2 "Void"
  | some t => dartTy env t

/-- the `@ffi.Native<…>` line of a method -/
def dartNativeText (env : Env) (pfx owner : String) (m : AMethod) : Option String :=
  let abi := abiName pfx owner m.name
  let selfP : Option (List NTy) := match m.self with
    | some s => (dartTy env (selfTyName owner s)).map fun c => [c]
    | none => some []
  -- the write buffer is not a declared parameter in the HIR; it is appended as a pointer
  let ps := m.params.filter fun p => match p.2 with | .write => false | _ => true
  let hasWrite := m.params.any fun p => match p.2 with | .write => true | _ => false
  match selfP, optMapM (fun p : String × TyName => dartTy env p.2) ps, dartRetTy env m.ret with
  | some a, some b, some r =>
    let all := a ++ b ++ (if hasWrite then [NTy.opaquePtr] else [])
    some ("@ffi.Native<" ++ r.name ++ " Function(" ++ ", ".intercalate (all.map NTy.name) ++ ")>(isLeaf: true, symbol: '" ++ abi ++ "')")
  | _, _, _ => none

/-! ### Kotlin: `gen_native_type_name` over the accepted grammar -/

inductive KTy where
  | prim (jna : String)
  | pointer                           -- Pointer / Pointer?
  | structTy (n : String)             -- {n}Native (Structure.ByValue)
  | enumTy                            -- Int
  | slice                             -- Slice
  | unit
  deriving Repr, Inhabited

def KTy.name : KTy → String
  | .prim j => j
  | .pointer => "Pointer"
  | .structTy n => n ++ "Native"
  | .enumTy => "Int"
  | .slice => "Slice"
  | .unit => "Unit"

def kAbiSimple : KTy → Option Abi
  | .prim j => jnaAbi j
  | .pointer => some [.ptr]
  | .structTy n => some [.named n]
  | .enumTy => some [.int 32 true]
  | .slice => some viewAbi
  | .unit => some []

def ktParamTy (env : Env) : TyName → Option KTy
  | .prim p => (ktPrim p).map .prim
  | .named n =>
    match env.get n with
    | some (.struct ..) => some (.structTy n)
    | some .enumTy => some .enumTy
    | _ => none
  | .ref _ _ (.named n) => if isOpaqueName env n then some .pointer else none
  | .opt (.ref _ _ (.named n)) _ => if isOpaqueName env n then some .pointer else none
  | .strRef .. => some .slice
  | .primSlice .. => some .slice
  | .strSlice .. => some .slice
  | .write => some .pointer
  | _ => none

/-- an enum is `int`-sized on both sides; the sign of a C enum's underlying type is the compiler's choice:
    descriptions are compared after reading every C enum as a 32-bit integer -/
def normTok : Tok → Tok
  | .cenum _ => .int 32 true
  | t => t

def sameWire (a b : Option Abi) : Bool :=
  a.map (List.map normTok) == b.map (List.map normTok)

/-! ### driver -/

def showAbi' (a : Option Abi) : String := AbiGen.showAbi a

/-- `(c07prim dart|kotlin PRIM)` → `agree NAME` / `mismatch NAME binding=… rust=…` -/
def runLine (line : String) : String :=
  match Sexp.parse line with
  | some (.list [.atom "c07prim", .atom b, .atom p]) =>
    match parsePrim p with
    | none => "bad-case"
    | some p =>
      let (name, abi) := if b == "dart" then (dartPrim p, (dartPrim p).bind dartFfiAbi) else (ktPrim p, (ktPrim p).bind jnaAbi)
      if abi == some (rustPrimAbi p) then "agree " ++ name.getD "?"
      else "mismatch " ++ name.getD "?" ++ " binding=" ++ showAbi' abi ++ " rust=" ++ showAbi' (some (rustPrimAbi p))
  | some (.list (.atom "c07dart" :: .atom pfx :: decls)) =>
    match optMapM parseDeclA decls with
    | some ds =>
      let env : Env := ds.map fun t => (t.name, t.def_)
      " ;; ".intercalate (ds.flatMap fun d => d.methods.map fun m =>
        "dart/" ++ d.name ++ ".g.dart => " ++ (dartNativeText env pfx d.name m).getD "<unrenderable>")
    | none => "bad-case"
  | _ => "bad-case"

end DiplomatModel.DartKt
