/-
  C07 — the native declarations of the Dart (dart:ffi) and Kotlin (JNA) bindings.

  `dartFfiAbi` / `jnaAbi` are the documented meanings of the type names those bindings declare
  (dart:ffi `NativeType`s; JNA's default Java↔native type mapping and the `IntegerType` helpers the Kotlin
  runtime file defines).  `dartTy` / `ktTy` are the generators' type functions (`gen_type_name_ffi`,
  `gen_native_type_name`) for the accepted type grammar, as trees with their exact text and their wire
  description, in the vocabulary of `AbiGen` (shared with C01, so "the C ABI" is C01's `cAbi`).
-/
import DiplomatModel.AbiGen
import DiplomatModel.Generated.BindingTables
namespace DiplomatModel.DartKt
open Lower AbiGen
open DiplomatModel.Generated.BindingTables

/-- dart:ffi native types (api.dart.dev/dart-ffi): fixed-width integers, `IntPtr`, `Size`, `Float`, `Double`, `Bool` -/
def dartFfiAbi : String → Option Abi
  | "ffi.Bool" => some [.bool]
  | "ffi.Int8" => some [.int 8 true] | "ffi.Uint8" => some [.int 8 false]
  | "ffi.Int16" => some [.int 16 true] | "ffi.Uint16" => some [.int 16 false]
  | "ffi.Int32" => some [.int 32 true] | "ffi.Uint32" => some [.int 32 false]
  | "ffi.Int64" => some [.int 64 true] | "ffi.Uint64" => some [.int 64 false]
  | "ffi.IntPtr" => some [.psize true] | "ffi.Size" => some [.psize false]
  | "ffi.Float" => some [.float 32] | "ffi.Double" => some [.float 64]
  | _ => none

/-- JNA default mapping (Java `byte/short/int/long/float/double`; `boolean` is a native `int`), plus the
    `IntegerType(size, unsigned = true)` helper classes of the generated Lib.kt -/
def jnaAbi : String → Option Abi
  | "Boolean" => some [.int 32 true]
  | "Byte" => some [.int 8 true] | "Short" => some [.int 16 true] | "Int" => some [.int 32 true] | "Long" => some [.int 64 true]
  | "Float" => some [.float 32] | "Double" => some [.float 64]
  | "FFIUint8" => some [.int 8 false] | "FFIUint16" => some [.int 16 false]
  | "FFIUint32" => some [.int 32 false] | "FFIUint64" => some [.int 64 false]
  | "FFISizet" => some [.psize false] | "FFIIsizet" => some [.psize true]
  | _ => none

def dartPrim (p : Prim) : Option String := dartPrimFfi.lookup (primKey p)
def ktPrim (p : Prim) : Option String := ktPrimFfi.lookup (primKey p)

/-- the primitives whose Kotlin native type does not have the C type's width and signedness
    (known findings: `bool` is a 32-bit `int` for JNA; `DiplomatChar` (u32) is `Int`; `DiplomatByte` (u8) is `Byte`) -/
def ktMismatch : Prim → Bool
  | .bool | .char | .byte => true
  | _ => false

/-! ### Dart: `gen_type_name_ffi` over the accepted grammar -/

inductive DTy where
  | prim (ffi : String)
  | opaquePtr                         -- ffi.Pointer<ffi.Opaque>
  | structTy (n : String)             -- _{n}Ffi
  | enumTy                            -- ffi.Int32
  | slice (name : String)             -- _SliceUtf8, _SliceDouble, …
  | result (ok err : String)          -- _Result{ok}{err}
  | void
  deriving Repr, Inhabited

def DTy.name : DTy → String
  | .prim f => f
  | .opaquePtr => "ffi.Pointer<ffi.Opaque>"
  | .structTy n => "_" ++ n ++ "Ffi"
  | .enumTy => "ffi.Int32"
  | .slice n => n
  | .result a b => "_Result" ++ a ++ b
  | .void => "ffi.Void"

/-- wire description of a Dart native type that is not a result record -/
def dAbiSimple : DTy → Option Abi
  | .prim f => dartFfiAbi f
  | .opaquePtr => some [.ptr]
  | .structTy n => some [.named n]
  | .enumTy => some [.int 32 true]
  | .slice _ => some viewAbi
  | .void => some []
  | .result .. => none

def dartParamTy (env : Env) : TyName → Option DTy
  | .prim p => (dartPrim p).map .prim
  | .named n =>
    match env.get n with
    | some (.struct ..) => some (.structTy n)
    | some .enumTy => some .enumTy
    | _ => none
  | .ref _ _ (.named n) => if isOpaqueName env n then some .opaquePtr else none
  | .opt (.ref _ _ (.named n)) _ => if isOpaqueName env n then some .opaquePtr else none
  | .strRef _ e _ => some (.slice (match e with | .unvalidatedUtf16 => "_SliceUtf16" | _ => "_SliceUtf8"))
  | .write => some .opaquePtr
  | _ => none

/-! ### Kotlin: `gen_native_type_name` over the accepted grammar -/

inductive KTy where
  | prim (jna : String)
  | pointer                           -- Pointer / Pointer?
  | structTy (n : String)             -- {n}Native (Structure.ByValue)
  | enumTy                            -- Int
  | slice                             -- Slice
  | unit
  deriving Repr, Inhabited

def KTy.name : KTy → String
  | .prim j => j
  | .pointer => "Pointer"
  | .structTy n => n ++ "Native"
  | .enumTy => "Int"
  | .slice => "Slice"
  | .unit => "Unit"

def kAbiSimple : KTy → Option Abi
  | .prim j => jnaAbi j
  | .pointer => some [.ptr]
  | .structTy n => some [.named n]
  | .enumTy => some [.int 32 true]
  | .slice => some viewAbi
  | .unit => some []

def ktParamTy (env : Env) : TyName → Option KTy
  | .prim p => (ktPrim p).map .prim
  | .named n =>
    match env.get n with
    | some (.struct ..) => some (.structTy n)
    | some .enumTy => some .enumTy
    | _ => none
  | .ref _ _ (.named n) => if isOpaqueName env n then some .pointer else none
  | .opt (.ref _ _ (.named n)) _ => if isOpaqueName env n then some .pointer else none
  | .strRef .. => some .slice
  | .primSlice .. => some .slice
  | .strSlice .. => some .slice
  | .write => some .pointer
  | _ => none

/-- an enum is `int`-sized on both sides; the sign of a C enum's underlying type is the compiler's choice -/
def sameWire (a b : Option Abi) : Bool :=
  match a, b with
  | some [.cenum _], some [.int 32 _] => true
  | a, b => a == b

/-! ### driver -/

def showAbi' (a : Option Abi) : String := AbiGen.showAbi a

/-- `(c07prim dart|kotlin PRIM)` → `agree NAME` / `mismatch NAME binding=… rust=…` -/
def runLine (line : String) : String :=
  match Sexp.parse line with
  | some (.list [.atom "c07prim", .atom b, .atom p]) =>
    match parsePrim p with
    | none => "bad-case"
    | some p =>
      let (name, abi) := if b == "dart" then (dartPrim p, (dartPrim p).bind dartFfiAbi) else (ktPrim p, (ktPrim p).bind jnaAbi)
      if abi == some (rustPrimAbi p) then "agree " ++ name.getD "?"
      else "mismatch " ++ name.getD "?" ++ " binding=" ++ showAbi' abi ++ " rust=" ++ showAbi' (some (rustPrimAbi p))
  | _ => "bad-case"

end DiplomatModel.DartKt
