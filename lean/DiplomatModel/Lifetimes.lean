/-
  C04 — lifetime graph and borrow analysis.

  Mirrors
    core/src/ast/lifetimes.rs      LifetimeEnv::from_method_item (extend_generics, extend_bounds,
                                   extend_implicit_lifetime_bounds), LifetimeTransitivity (recursive DFS)
    core/src/hir/lifetimes.rs      LifetimeTransitivityIterator (stack DFS with `visited`), all_longer_lifetimes
    core/src/hir/methods.rs        ReturnType::used_method_lifetimes
    core/src/hir/methods/borrowing_param.rs   BorrowingParamVisitor::{new, visit_param, borrow_map}

  Lifetimes are indices into the method's list of named lifetimes; `none` stands for `'static` and
  for anonymous input lifetimes (both never reach an output lifetime: anonymous ones carry no bounds
  and cannot appear in the output).
-/
import DiplomatModel.Sexp
namespace DiplomatModel.Lifetimes

/-- `longer[i]` = the lifetimes declared or implied to outlive lifetime `i` (direct edges) -/
abbrev Graph := List (List Nat)

def succs (g : Graph) (i : Nat) : List Nat := g.getD i []

/-- stack DFS with a visited list (`LifetimeTransitivityIterator`); `none` = fuel exhausted -/
def dfs (g : Graph) : Nat → List Nat → List Nat → Option (List Nat)
  | 0, [], vis => some vis
  | 0, _ :: _, _ => none
  | _ + 1, [], vis => some vis
  | f + 1, x :: st, vis =>
    if x ∈ vis then dfs g f st vis else dfs g f (succs g x ++ st) (x :: vis)

def fuelFor (g : Graph) : Nat := 1 + ((List.range g.length).map fun u => 1 + (succs g u).length).sum

/-- `all_longer_lifetimes(lt)`: everything that transitively outlives `lt`, `lt` included -/
def allLonger (g : Graph) (a : Nat) : List Nat := (dfs g (fuelFor g) [a] []).getD []

/-- the relation the analysis is supposed to compute: reflexive-transitive closure of the edges -/
inductive Reach (g : Graph) : Nat → Nat → Prop
  | refl (a) : Reach g a a
  | step {a b c} : Reach g a b → c ∈ succs g b → Reach g a c

/-! ### building the graph from a signature (`from_method_item`) -/

/-- the part of a type that matters for implied bounds -/
inductive ATy where
  | named (args : List (Option Nat))               -- `Foo<'a, 'static, '_>`
  | ref (lt : Option Nat) (t : ATy)                -- `&'a T` (none: static / anonymous)
  | opt (t : ATy)
  | res (a b : ATy)
  | other
  deriving Repr, Inhabited

def addEdge (g : Graph) (long short : Nat) : Graph :=
  g.set short (succs g short ++ [long])

/-- `extend_implicit_lifetime_bounds(typ, behind_ref)` -/
def implicitBounds (g : Graph) : ATy → Option Nat → Graph
  | .named args, some r =>
    let explicit := allLonger g r
    let add := args.filterMap fun a => match a with
      | some p => if p ∈ explicit then none else some p
      | none => none
    add.foldl (fun g p => addEdge g p r) g
  | .named _, none => g
  | .ref lt t, _ => implicitBounds g t lt
  | .opt t, _ => implicitBounds g t none
  | .res a b, _ => implicitBounds (implicitBounds g a none) b none
  | .other, _ => g

structure Sig where
  n : Nat                              -- number of named lifetimes (impl generics then method generics)
  bounds : List (Nat × Nat)            -- declared `'long: 'short`, generics then where-clauses, in order
  tys : List ATy                       -- self, parameters, return type, in that order
  deriving Repr

def astGraph (s : Sig) : Graph :=
  let g0 : Graph := List.replicate s.n []
  let g1 := s.bounds.foldl (fun g b => addEdge g b.1 b.2) g0
  s.tys.foldl (fun g t => implicitBounds g t none) g1

/-! ### borrow analysis (`BorrowingParamVisitor`) -/

inductive PKind where
  | opaque | slice
  | struct                    -- lifetimes are the struct's generic arguments, by definition position
  | optStruct | optSlice      -- `DiplomatOption<Struct>` / `Option<&[T]>`
  | other
  deriving Repr, DecidableEq

structure Param where
  name : String
  kind : PKind
  lts : List (Option Nat)     -- `ty.lifetimes()`: for opaques the borrow first, then generics
  deriving Repr

inductive EdgeKind where
  | opaque | slice | structLt (defIdx : Nat)
  deriving Repr, DecidableEq

structure Edge where
  param : String
  kind : EdgeKind
  deriving Repr, DecidableEq

/-- does this use-site lifetime belong to the longer-set (`'static` / anonymous never do) -/
def ltIn (longer : List Nat) : Option Nat → Bool
  | some l => decide (l ∈ longer)
  | none => false

/-- `ty.unwrap_option()`: an optional parameter borrows exactly like its payload -/
def PKind.unwrapOption : PKind → PKind
  | .optStruct => .struct
  | .optSlice => .slice
  | k => k

/-- `visit_param` for one output lifetime whose longer-set is `longer`; `none` = the `unreachable!` arm
    (a lifetime-carrying parameter that is neither opaque, slice nor struct — lowering never produces one) -/
def visitParam (longer : List Nat) (p : Param) : Option (List Edge) :=
  match p.kind.unwrapOption with
  | .struct =>
    some ((p.lts.zipIdx).filterMap fun (lt, i) => match lt with
      | some l => if l ∈ longer then some ⟨p.name, .structLt i⟩ else none
      | none => none)
  | k =>
    if p.lts.any (ltIn longer) then
      match k with
      | .opaque => some [⟨p.name, .opaque⟩]
      | .slice => some [⟨p.name, .slice⟩]
      | _ => none
    else some []

/-- edges for one output lifetime over all parameters, in visiting order -/
def edgesFor (longer : List Nat) : List Param → Option (List Edge)
  | [] => some []
  | p :: ps => match visitParam longer p, edgesFor longer ps with
    | some a, some b => some (a ++ b)
    | _, _ => none

/-- the borrow map: for every lifetime used by the return type, its longer-set and incoming edges -/
def borrowMap (g : Graph) (used : List Nat) (ps : List Param) : Option (List (Nat × List Nat × List Edge)) :=
  optMapM (fun l =>
    let longer := allLonger g l
    (edgesFor longer ps).map fun es => (l, longer, es)) used

/-! ### driver -/

def parseOptNat : Sexp → Option (Option Nat)
  | .atom "-" => some none
  | a => a.asNat.map some

partial def parseATy : Sexp → Option ATy
  | .atom "other" => some .other
  | .list (.atom "named" :: args) => (optMapM parseOptNat args).map .named
  | .list [.atom "ref", lt, t] =>
    match parseOptNat lt, parseATy t with | some lt, some t => some (.ref lt t) | _, _ => none
  | .list [.atom "opt", t] => (parseATy t).map .opt
  | .list [.atom "res", a, b] =>
    match parseATy a, parseATy b with | some a, some b => some (.res a b) | _, _ => none
  | _ => none

def parseKind : String → Option PKind
  | "opaque" => some .opaque | "slice" => some .slice | "struct" => some .struct
  | "optstruct" => some .optStruct | "optslice" => some .optSlice | "other" => some .other
  | _ => none

def parseParam : Sexp → Option Param
  | .list (.atom n :: .atom k :: lts) =>
    match parseKind k, optMapM parseOptNat lts with
    | some k, some lts => some ⟨n, k, lts⟩
    | _, _ => none
  | _ => none

def parseBound : Sexp → Option (Nat × Nat)
  | .list [a, b] => match a.asNat, b.asNat with | some a, some b => some (a, b) | _, _ => none
  | _ => none

def insertNat (x : Nat) : List Nat → List Nat
  | [] => [x]
  | y :: ys => if x == y then y :: ys else if x < y then x :: y :: ys else y :: insertNat x ys
def sortNats (l : List Nat) : List Nat := l.foldr insertNat []

def showEdge (e : Edge) : String :=
  e.param ++ ":" ++ match e.kind with
    | .opaque => "opaque" | .slice => "slice" | .structLt i => s!"struct.{i}"

/-! ### struct fields of struct type (`StructBorrowInfo::compute_for_struct_field`) -/

/-- For a field whose type is a struct instantiated with `args` (use-site lifetimes of the *outer* struct, by the
    inner struct's definition position; `none` = `'static`): the definition lifetimes of the inner struct whose
    fields are borrowed under the outer lifetime `x` -/
def fieldDefLts (args : List (Option Nat)) (x : Nat) : List Nat :=
  (args.zipIdx).filterMap fun (a, i) => if a = some x then some i else none

/-- the outer struct's getter for lifetime `x`: per struct-typed field, the inner getters it spreads -/
def nestedGetter (fields : List (String × List (Option Nat))) (x : Nat) : List (String × Nat) :=
  fields.flatMap fun f => (fieldDefLts f.2 x).map fun i => (f.1, i)

/-- `(c04nest N (FIELD a0 a1 …)…)` with `ai` a lifetime index or `-` for `'static`
    → `lt=0 f.0,f.1,g.0; lt=1 …` -/
def runNest (line : String) : String :=
  match Sexp.parse line with
  | some (.list (.atom "c04nest" :: n :: fs)) =>
    let parseField : Sexp → Option (String × List (Option Nat)) := fun s => match s with
      | .list (.atom name :: args) => (optMapM parseOptNat args).map fun a => (name, a)
      | _ => none
    match n.asNat, optMapM parseField fs with
    | some n, some fields =>
      "; ".intercalate ((List.range n).map fun x =>
        s!"lt={x} " ++ ",".intercalate ((nestedGetter fields x).map fun (f, i) => f ++ "." ++ toString i))
    | _, _ => "bad-case"
  | _ => "bad-case"

/-- `(c04 N (bounds (l s)…) (tys ATy…) (used n…) (params Param…))`
    → `lt=L longer=… edges=…; …` or `panic` -/
def runLine (line : String) : String :=
  match Sexp.parse line with
  | some (.list [.atom "c04", n, .list (.atom "bounds" :: bs), .list (.atom "tys" :: ts),
                 .list (.atom "used" :: us), .list (.atom "params" :: ps)]) =>
    match n.asNat, optMapM parseBound bs, optMapM parseATy ts, optMapM Sexp.asNat us, optMapM parseParam ps with
    | some n, some bs, some ts, some us, some ps =>
      let g := astGraph ⟨n, bs, ts⟩
      match borrowMap g (sortNats us) ps with
      | none => "panic"
      | some m => "; ".intercalate (m.map fun (l, longer, es) =>
          s!"lt={l} longer={",".intercalate ((sortNats longer).map toString)} edges={",".intercalate (es.map showEdge)}")
    | _, _, _, _, _ => "bad-case"
  | _ => "bad-case"

end DiplomatModel.Lifetimes
