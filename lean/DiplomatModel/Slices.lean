/-
  C16 (view half) — runtime/src/slices.rs: `DiplomatSlice`, `DiplomatSliceMut`, `DiplomatOwnedSlice`
  and the two UTF-8 string wrappers (which delegate to the `u8` instances).

  Addresses are `Nat`, `0` is NULL.  A Rust slice reference / `Box<[T]>` is a non-null base address and a
  length; a view is the `#[repr(C)]` pair `(ptr, len)` the foreign side sees.
-/
import DiplomatModel.Sexp
namespace DiplomatModel.Slices

structure Slice where
  ptr : Nat
  len : Nat
  deriving Repr, DecidableEq

structure View where
  ptr : Nat
  len : Nat
  deriving Repr, DecidableEq

/-- `NonNull::<T>::dangling()` / the address of `&[]`: the alignment of `T`, never null. -/
def dangling (align : Nat) : Nat := align

/-- `impl From<&[T]> for DiplomatSlice<T>` (and the `Mut` twin): `as_ptr`, `len`. -/
def fromSlice (s : Slice) : View := ⟨s.ptr, s.len⟩

/-- `impl From<DiplomatSlice<T>> for &[T]`, `Deref`, `DerefMut`: NULL is normalised to `&[]`. -/
def intoSlice (align : Nat) (v : View) : Slice :=
  if v.ptr = 0 then ⟨dangling align, 0⟩ else ⟨v.ptr, v.len⟩

/-- elements a slice denotes in a memory (element-indexed, stride `size`) -/
def contents (m : Nat → Nat) (size : Nat) (s : Slice) : List Nat :=
  (List.range s.len).map fun i => m (s.ptr + i * size)

/-- `impl From<Box<[T]>> for DiplomatOwnedSlice<T>`: `Box::into_raw`, nothing is freed. -/
def ownedFrom (b : Slice) : View := ⟨b.ptr, b.len⟩

/-- `impl From<DiplomatOwnedSlice<T>> for Box<[T]>`: `ManuallyDrop` the view (nothing freed), NULL becomes
    a dangling box that keeps `x.len`. -/
def ownedInto (align : Nat) (v : View) : Slice :=
  if v.ptr = 0 then ⟨dangling align, v.len⟩ else ⟨v.ptr, v.len⟩

/-- `impl Drop for DiplomatOwnedSlice<T>`: the boxes handed to `drop(Box::from_raw(..))`. -/
def ownedDrop (v : View) : List Slice :=
  if v.ptr = 0 then [] else [⟨v.ptr, v.len⟩]

/-- number of element destructors a dropped box runs -/
def elemDrops (bs : List Slice) : Nat := (bs.map (·.len)).sum

/-! ### driver -/

def showSlice (s : Slice) : String := s!"{s.ptr} {s.len}"

def runLine (line : String) : String :=
  match Sexp.parse line with
  | some (.list [.atom op, a, p, l]) =>
    match a.asNat, p.asNat, l.asNat with
    | some a, some p, some l =>
      match op with
      | "from-into" => showSlice (intoSlice a (fromSlice ⟨p, l⟩))
      | "into" => showSlice (intoSlice a ⟨p, l⟩)
      | "owned-from-into" => showSlice (ownedInto a (ownedFrom ⟨p, l⟩))
      | "owned-into" => showSlice (ownedInto a ⟨p, l⟩)
      | "owned-from-drop" => toString (elemDrops (ownedDrop (ownedFrom ⟨p, l⟩)))
      | "owned-drop" => toString (elemDrops (ownedDrop ⟨p, l⟩))
      | _ => "bad-case"
    | _, _, _ => "bad-case"
  | _ => "bad-case"

end DiplomatModel.Slices
