/-
  C06 — ABI symbol names.

  Mirrors
    core/src/ast/attrs.rs    RenamePattern::from_str, RenameAttr::{apply, extend, attrs_for_inheritance}
    core/src/ast/modules.rs  module → type / impl, impl → method inheritance of `abi_rename`
    core/src/ast/methods.rs  Method::from_syn            abi_name   = apply(Type_method)
    core/src/ast/opaque.rs   OpaqueType::dtor_abi_name   dtor name  = apply(Type_destroy)
    macro/src/lib.rs         extern "C" fn identifiers = those names, for every method, whatever the backend
  Which items a backend uses is `Cfg.lower` (C13's model).
-/
import DiplomatModel.Cfg
namespace DiplomatModel.Rename
open DiplomatModel.Cfg

abbrev Str := List Char

def placeholder : Str := ['{', '0', '}']

/-- `str::find("{0}")` -/
def findSub (pat : Str) : Str → Option Nat
  | [] => none
  | c :: cs => if pat.isPrefixOf (c :: cs) then some 0 else (findSub pat cs).map (· + 1)

structure Pattern where
  replacement : Str
  insertion : Option Nat
  deriving Repr, DecidableEq

/-- `RenamePattern::from_str` -/
def parse (s : Str) : Pattern :=
  match findSub placeholder s with
  | some i => ⟨s.take i ++ s.drop (i + 3), some i⟩
  | none => ⟨s, none⟩

/-- `RenameAttr::apply` with a pattern present -/
def Pattern.apply (p : Pattern) (name : Str) : Str :=
  match p.insertion with
  | some i => p.replacement.take i ++ name ++ p.replacement.drop i
  | none => p.replacement

/-- `RenameAttr::apply` -/
def applyAttr (r : Option Pattern) (name : Str) : Str :=
  match r with
  | some p => p.apply name
  | none => name

/-- `RenameAttr::extend`: an inner pattern replaces the outer one (no composition) -/
def extend (outer inner : Option Pattern) : Option Pattern := inner.or outer

/-- specification: the text before and after the first `{0}` -/
def splitFirst : Str → Option (Str × Str)
  | [] => none
  | c :: cs =>
    if placeholder.isPrefixOf (c :: cs) then some ([], (c :: cs).drop 3)
    else (splitFirst cs).map fun p => (c :: p.1, p.2)

/-! ### a bridge module as far as names go -/

inductive Kind where | opaque | struct | enum deriving Repr, DecidableEq

structure Method6 where
  name : String
  abi : Option String
  attrs : List Attr
  deriving Repr

structure Impl6 where
  abi : Option String
  attrs : List Attr
  methods : List Method6
  deriving Repr

structure Type6 where
  kind : Kind
  name : String
  abi : Option String
  attrs : List Attr
  impls : List Impl6
  deriving Repr

structure Module6 where
  abi : Option String
  attrs : List Attr
  types : List Type6
  deriving Repr

def pat (s : Option String) : Option Pattern := s.map fun x => parse x.toList

/-- `Method::abi_name` -/
def methodAbi (m : Module6) (t : Type6) (i : Impl6) (me : Method6) : String :=
  let eff := extend (extend (pat m.abi) (pat i.abi)) (pat me.abi)
  String.ofList (applyAttr eff (t.name ++ "_" ++ me.name).toList)

/-- `OpaqueType::dtor_abi_name` -/
def dtorAbi (m : Module6) (t : Type6) : String :=
  String.ofList (applyAttr (extend (pat m.abi) (pat t.abi)) (t.name ++ "_destroy").toList)

/-- what the proc macro exports: every method of every type and every opaque's destructor -/
def exported (m : Module6) : List String :=
  m.types.flatMap fun t =>
    (if t.kind = .opaque then [dtorAbi m t] else [])
    ++ t.impls.flatMap fun i => i.methods.map fun me => methodAbi m t i me

/-- the cfg-only view of the module (C13's model decides what is enabled) -/
def toCfg (m : Module6) : ModuleDef :=
  ⟨m.attrs, m.types.map fun t => ⟨t.name, t.attrs, t.impls.map fun i => ⟨i.attrs, i.methods.map fun me => ⟨me.name, me.attrs⟩⟩⟩⟩

/-- symbols a backend's generated code refers to: destructors of enabled opaques and enabled methods -/
def usedBy (vd : Validator) (m : Module6) : Option (List String) :=
  match lower vd (toCfg m) with
  | none => none
  | some lts =>
    some (m.types.flatMap fun t =>
      match lts.find? (fun lt => lt.name == t.name) with
      | none => []
      | some lt =>
        if lt.disabled then []
        else
          (if t.kind = .opaque then [dtorAbi m t] else [])
          ++ t.impls.flatMap fun i => (i.methods.filter fun me => lt.methods.any (fun lm => lm.name == me.name)).map fun me => methodAbi m t i me)

/-! ### driver -/

def parseAbi : Sexp → Option (Option String)
  | .atom "-" => some none
  | .atom s => some (some s)
  | _ => none

def parseMethod6 : Sexp → Option Method6
  | .list [.atom "method6", .atom n, abi, as] =>
    match parseAbi abi, parseAttrs as with
    | some a, some as => some ⟨n, a, as⟩
    | _, _ => none
  | _ => none

def parseImpl6 : Sexp → Option Impl6
  | .list (.atom "impl6" :: abi :: as :: ms) =>
    match parseAbi abi, parseAttrs as, optMapM parseMethod6 ms with
    | some a, some as, some ms => some ⟨a, as, ms⟩
    | _, _, _ => none
  | _ => none

def parseKind : Sexp → Option Kind
  | .atom "opaque" => some .opaque
  | .atom "struct" => some .struct
  | .atom "enum" => some .enum
  | _ => none

def parseType6 : Sexp → Option Type6
  | .list (.atom "type6" :: k :: .atom n :: abi :: as :: is) =>
    match parseKind k, parseAbi abi, parseAttrs as, optMapM parseImpl6 is with
    | some k, some a, some as, some is => some ⟨k, n, a, as, is⟩
    | _, _, _, _ => none
  | _ => none

def parseModule6 : Sexp → Option Module6
  | .list (.atom "mod6" :: abi :: as :: ts) =>
    match parseAbi abi, parseAttrs as, optMapM parseType6 ts with
    | some a, some as, some ts => some ⟨a, as, ts⟩
    | _, _, _ => none
  | _ => none

def insertSorted (s : String) : List String → List String
  | [] => [s]
  | x :: xs => if s ≤ x then s :: x :: xs else x :: insertSorted s xs
def sortStrs (l : List String) : List String := l.foldr insertSorted []

/-- `(c06 TARGET MODULE6)` → `exported=… used=…`; `(rename "pattern" "name")` → the renamed text -/
def runLine (line : String) : String :=
  match Sexp.parse line with
  | some (.list [.atom "c06", .atom target, m]) =>
    match validatorFor target, parseModule6 m with
    | some vd, some m =>
      let ex := ",".intercalate (sortStrs (exported m))
      match usedBy vd m with
      | none => s!"exported={ex} used=error"
      | some u => s!"exported={ex} used={",".intercalate (sortStrs u)}"
    | _, _ => "bad-case"
  | some (.list [.atom "rename", .atom p, .atom n]) =>
    String.ofList (applyAttr (some (parse p.toList)) n.toList)
  | _ => "bad-case"

end DiplomatModel.Rename
