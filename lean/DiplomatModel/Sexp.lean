/-
  S-expressions: the one-case-per-line protocol shared by the Rust harness (printer)
  and the `dmodel` driver (this parser).  Total; anything not understood is `none`.
-/
namespace DiplomatModel

inductive Sexp where
  | atom : String → Sexp
  | list : List Sexp → Sexp
  deriving Repr, Inhabited, BEq

namespace Sexp

def isDelim (c : Char) : Bool := c == '(' || c == ')' || c == ' ' || c == '\t' || c == '\n' || c == '\r'

/-- Tokens: "(" ")" atoms; atoms may be double-quoted with `\"`, `\\`, `\n` escapes. -/
inductive Tok where
  | lp | rp | at (s : String)
  deriving Repr, BEq

def tokenizeAux : Nat → List Char → List Tok → Option (List Tok)
  | 0, _, _ => none
  | _+1, [], acc => some acc.reverse
  | fuel+1, c :: cs, acc =>
    if c == '(' then tokenizeAux fuel cs (Tok.lp :: acc)
    else if c == ')' then tokenizeAux fuel cs (Tok.rp :: acc)
    else if c == ' ' || c == '\t' || c == '\n' || c == '\r' then tokenizeAux fuel cs acc
    else if c == '"' then
      let rec str : Nat → List Char → List Char → Option (String × List Char)
        | 0, _, _ => none
        | _+1, [], _ => none
        | f+1, d :: ds, s =>
          if d == '"' then some (String.ofList s.reverse, ds)
          else if d == '\\' then
            match ds with
            | 'n' :: r => str f r ('\n' :: s)
            | 't' :: r => str f r ('\t' :: s)
            | e :: r => str f r (e :: s)
            | [] => none
          else str f ds (d :: s)
      match str (cs.length + 1) cs [] with
      | some (s, rest) => tokenizeAux fuel rest (Tok.at s :: acc)
      | none => none
    else
      let a := (c :: cs).takeWhile (fun x => !isDelim x)
      let rest := (c :: cs).dropWhile (fun x => !isDelim x)
      tokenizeAux fuel rest (Tok.at (String.ofList a) :: acc)

def tokenize (s : String) : Option (List Tok) :=
  tokenizeAux (s.length + 2) s.toList []

/-- Parse with an explicit stack of partially-built lists. -/
def parseToks : List Tok → List (List Sexp) → Option Sexp
  | [], [[x]] => some x
  | [], _ => none
  | Tok.lp :: ts, st => parseToks ts ([] :: st)
  | Tok.rp :: ts, cur :: parent :: st => parseToks ts ((Sexp.list cur.reverse :: parent) :: st)
  | Tok.rp :: _, _ => none
  | Tok.at a :: ts, cur :: st => parseToks ts ((Sexp.atom a :: cur) :: st)
  | Tok.at _ :: _, [] => none

def parse (s : String) : Option Sexp :=
  match tokenize s with
  | some ts => parseToks ts [[]]
  | none => none

def needsQuote (s : String) : Bool :=
  s.isEmpty || s.toList.any (fun c => isDelim c || c == '"' || c == '\\')

def quote (s : String) : String :=
  "\"" ++ String.join (s.toList.map fun c =>
    if c == '"' then "\\\"" else if c == '\\' then "\\\\" else if c == '\n' then "\\n"
    else if c == '\t' then "\\t" else String.singleton c) ++ "\""

partial def toString : Sexp → String
  | atom a => if needsQuote a then quote a else a
  | list xs => "(" ++ " ".intercalate (xs.map toString) ++ ")"

def asAtom : Sexp → Option String
  | atom a => some a
  | _ => none

def asList : Sexp → Option (List Sexp)
  | list xs => some xs
  | _ => none

def asInt (s : Sexp) : Option Int := do
  let a ← s.asAtom
  a.toInt?

def asNat (s : Sexp) : Option Nat := do
  let a ← s.asAtom
  a.toNat?

/-- `(head args…)` -/
def tagged : Sexp → Option (String × List Sexp)
  | list (atom h :: args) => some (h, args)
  | _ => none

end Sexp

/-- `mapM` for `Option` over lists, structurally recursive (usable in proofs). -/
def optMapM {α β} (f : α → Option β) : List α → Option (List β)
  | [] => some []
  | x :: xs => match f x, optMapM f xs with
    | some y, some ys => some (y :: ys)
    | _, _ => none

/-- Collapse all whitespace runs to single spaces and trim (the canonical text form). -/
def normWs (s : String) : String :=
  let rec go : List Char → Bool → List Char → List Char
    | [], _, acc => acc.reverse
    | c :: cs, sp, acc =>
      if c == ' ' || c == '\n' || c == '\t' || c == '\r' then go cs true acc
      else if sp && !acc.isEmpty then go cs false (c :: ' ' :: acc)
      else go cs false (c :: acc)
  String.ofList (go s.toList false [])

end DiplomatModel
