/-
  C01 / C10 — the two descriptions of one `extern "C"` function.

  Rust side (macro/src/lib.rs, core/src/ast/types.rs): `TypeName::to_syn`, `ffi_safe_version`, `is_ffi_safe`
  (in `Lower`), `param_ty`, the return-type rewriting of `gen_custom_type_method`, `SelfParam::to_typename`,
  the `this` insertion.  The tree `RTy` is the Rust type the macro writes.

  C side (tool/src/c/ty.rs, formatter.rs, templates): `gen_ty_name` ∘ lowering, `gen_method`,
  `gen_result_ty`, `gen_ty_decl`, struct template.  The tree `CTy` is the C type the backend prints.

  Both trees have two faces: `render` (the exact text, compared with the real output on every run) and
  `abi` (what the type means on the wire, in one small vocabulary `Abi`).  The theorems of Props/C01 and
  Props/C10 are about `abi`.
-/
import DiplomatModel.Lower
import DiplomatModel.Generated.AbiTables
namespace DiplomatModel.AbiGen
open Lower
open DiplomatModel.Generated.AbiTables

/-! ### the wire vocabulary -/

/-- one token of a flattened ABI description; a description is a token list (brackets nest) -/
inductive Tok where
  | int (bits : Nat) (signed : Bool)
  | psize (signed : Bool)            -- pointer-sized integer
  | float (bits : Nat)
  | bool
  | ptr
  | fnptr
  | named (n : String)               -- a bridge struct passed by value; its fields agree by `struct_agree`
  | cenum (n : String)               -- a C-like enum (C `int`-compatible in both languages)
  | sOpen | sClose | uOpen | uClose
  deriving Repr, DecidableEq

abbrev Abi := List Tok

def mkStruct (fs : List Abi) : Abi := [.sOpen] ++ fs.flatten ++ [.sClose]
def mkUnion (fs : List Abi) : Abi := [.uOpen] ++ fs.flatten ++ [.uClose]
/-- `{ union { arms… }; bool is_ok; }`; arms without storage (unit, zero-sized structs) are absent, and a
    union without arms is absent -/
def mkResult (arms : List Abi) : Abi :=
  mkStruct ((if arms.isEmpty then [] else [mkUnion arms]) ++ [[.bool]])
def viewAbi : Abi := mkStruct [[.ptr], [.psize false]]
def callbackAbi : Abi := mkStruct [[.ptr], [.fnptr], [.fnptr]]

/-! ### primitives -/

def primKey : Prim → String
  | .bool => "bool" | .char => "char" | .i8 => "i8" | .u8 => "u8" | .i16 => "i16" | .u16 => "u16"
  | .i32 => "i32" | .u32 => "u32" | .i64 => "i64" | .u64 => "u64" | .i128 => "i128" | .u128 => "u128"
  | .isize => "isize" | .usize => "usize" | .f32 => "f32" | .f64 => "f64" | .byte => "byte"

def is128 : Prim → Bool
  | .i128 | .u128 => true
  | _ => false

/-- the Rust spelling (`PrimitiveType::as_code_str`) -/
def primRust : Prim → String
  | .char => "DiplomatChar" | .byte => "DiplomatByte" | p => primKey p

/-- what the Rust primitive is on the wire (Rust reference; `DiplomatChar = u32`, `DiplomatByte = u8`) -/
def rustPrimAbi : Prim → Abi
  | .bool => [.bool] | .char => [.int 32 false]
  | .i8 => [.int 8 true] | .u8 => [.int 8 false] | .i16 => [.int 16 true] | .u16 => [.int 16 false]
  | .i32 => [.int 32 true] | .u32 => [.int 32 false] | .i64 => [.int 64 true] | .u64 => [.int 64 false]
  | .i128 => [.int 128 true] | .u128 => [.int 128 false]
  | .isize => [.psize true] | .usize => [.psize false]
  | .f32 => [.float 32] | .f64 => [.float 64] | .byte => [.int 8 false]

/-- what a C scalar type name means (`<stdint.h>`, `<stddef.h>`, `<uchar.h>` as redefined by the runtime header) -/
def cNameAbi : String → Option Abi
  | "bool" => some [.bool]
  | "char32_t" => some [.int 32 false] | "char16_t" => some [.int 16 false] | "char" => some [.int 8 false]
  | "int8_t" => some [.int 8 true] | "uint8_t" => some [.int 8 false]
  | "int16_t" => some [.int 16 true] | "uint16_t" => some [.int 16 false]
  | "int32_t" => some [.int 32 true] | "uint32_t" => some [.int 32 false]
  | "int64_t" => some [.int 64 true] | "uint64_t" => some [.int 64 false]
  | "intptr_t" => some [.psize true] | "size_t" => some [.psize false]
  | "float" => some [.float 32] | "double" => some [.float 64]
  | _ => none

def cPrimName (p : Prim) : Option String := primAsC.lookup (primKey p)
def derivedName (p : Prim) : Option String := primDerived.lookup (primKey p)

/-! ### Rust side -/

inductive RTy where
  | prim (p : Prim)
  | i8                                              -- `Ordering` is written as `i8`
  | named (n : String)
  | ref (lt : Lt) (m : Bool) (t : RTy)
  | box (t : RTy)
  | option (t : RTy)
  | dipOption (t : RTy)
  | dipResult (ok err : RTy)
  | result (ok err : RTy)
  | unit
  | write
  | dipStr (lt : Option Lt) (e : Enc)
  | stdStr (lt : Option Lt) (e : Enc)
  | dipSlice (ltm : Option (Lt × Bool)) (p : Prim)
  | stdSlice (ltm : Option (Lt × Bool)) (p : Prim)
  | dipStrs (e : Enc)
  | stdStrs (e : Enc)
  | callback (ret : RTy)
  deriving Repr, Inhabited

/-- `TypeName::to_syn` -/
def toSyn : TyName → RTy
  | .prim p => .prim p
  | .ordering => .i8
  | .named n => .named n
  | .ref lt m t => .ref lt m (toSyn t)
  | .box t => .box (toSyn t)
  | .opt t .std => .option (toSyn t)
  | .opt t .dip => .dipOption (toSyn t)
  | .res a b .std => .result (toSyn a) (toSyn b)
  | .res a b .dip => .dipResult (toSyn a) (toSyn b)
  | .write => .write
  | .strRef lt e .std => .stdStr lt e
  | .strRef lt e .dip => .dipStr lt e
  | .strSlice e .std => .stdStrs e
  | .strSlice e .dip => .dipStrs e
  | .primSlice ltm p .std => .stdSlice ltm p
  | .primSlice ltm p .dip => .dipSlice ltm p
  | .unit => .unit
  | .fn _ ret => .callback (toSyn ret)

/-- `TypeName::ffi_safe_version` -/
def ffiSafeVersion : TyName → TyName
  | .strRef lt e .std => .strRef lt e .dip
  | .strSlice e .std => .strSlice e .dip
  | .primSlice ltm p .std => .primSlice ltm p .dip
  | .ordering => .prim .i8
  | .opt t sd =>
    match t with
    | .ref .. | .box _ => .opt t .std
    | _ => .opt (ffiSafeVersion t) .dip
  | t => t

/-- `param_ty` (macro/src/lib.rs) -/
def paramTy (t : TyName) : RTy :=
  match t with
  | .strRef lt e _ => .dipStr lt e
  | .strSlice e _ => .dipStrs e
  | .primSlice ltm p _ => .dipSlice ltm p
  | .opt .. => if isFfiSafe t then toSyn t else toSyn (ffiSafeVersion t)
  | t => toSyn t

/-- the return type `gen_custom_type_method` writes -/
def retTy : Option TyName → RTy
  | none => .unit
  | some (.res ok err .std) => .dipResult (toSyn (ffiSafeVersion ok)) (toSyn (ffiSafeVersion err))
  | some (.res ok err .dip) =>
    -- payloads still needing conversion are converted (`ret_wrap`), otherwise the type is left alone
    .dipResult (toSyn (ffiSafeVersion ok)) (toSyn (ffiSafeVersion err))
  | some (.strRef lt e _) => .dipStr lt e
  | some (.strSlice e _) => .dipStrs e
  | some (.primSlice ltm p _) => .dipSlice ltm p
  | some .ordering => .i8
  | some (.opt t sd) =>
    match t with
    | .box _ | .ref .. => toSyn (.opt t sd)
    | _ => .dipResult (toSyn (ffiSafeVersion t)) .unit
  | some t => toSyn t

/-- a payload without storage (`()`, a field-less struct) contributes no union member -/
def rArm (a : Abi) : List Abi := if a.isEmpty then [] else [a]

@[simp] theorem rArm_nil : rArm [] = [] := rfl
@[simp] theorem rArm_cons (x : Tok) (xs : Abi) : rArm (x :: xs) = [x :: xs] := rfl
theorem rArm_ne {a : Abi} (h : a ≠ []) : rArm a = [a] := by
  cases a with
  | nil => exact absurd rfl h
  | cons x xs => rfl

def isPtrTo : RTy → Bool
  | .named _ | .write => true
  | _ => false

/-- meaning of a Rust type on the wire; `none` = the Rust type has no defined C layout -/
def rAbi (env : Env) : RTy → Option Abi
  | .prim p => some (rustPrimAbi p)
  | .i8 => some [.int 8 true]
  | .named n =>
    match env.get n with
    | some (.struct _ fields) => if fields.isEmpty then some [] else some [.named n]   -- a field-less `#[repr(C)]` struct has no storage
    | some .enumTy => some [.cenum n]
    | _ => none
  | .ref _ _ t => if isPtrTo t then some [.ptr] else none
  | .box t => if isPtrTo t then some [.ptr] else none
  | .option t =>
    -- only the pointer niche is guaranteed
    match t with
    | .ref _ _ x => if isPtrTo x then some [.ptr] else none
    | .box x => if isPtrTo x then some [.ptr] else none
    | _ => none
  | .dipOption t => (rAbi env t).map fun a => mkResult (rArm a)
  | .dipResult ok err =>
    -- arms without storage (`()`) contribute no union member
    match rAbi env ok, rAbi env err with
    | some a, some b => some (mkResult (rArm a ++ rArm b))
    | _, _ => none
  | .result .. => none
  | .unit => some []
  | .write => none
  | .dipStr .. => some viewAbi
  | .dipSlice .. => some viewAbi
  | .dipStrs _ => some viewAbi
  | .stdStr .. | .stdSlice .. | .stdStrs _ => none
  | .callback _ => some callbackAbi

/-! rendering (whitespace-free, as the harness strips the token stream of the expansion) -/

def ltGeneric : Lt → String
  | .static => "<'static>" | .named n => "<'" ++ n ++ ">" | .anon => ""
def ltPartial : Lt → String
  | .static => "'static," | .named n => "'" ++ n ++ "," | .anon => ""
def ltRef : Lt → String
  | .static => "&'static" | .named n => "&'" ++ n | .anon => "&"

def encDip : Enc → String
  | .utf8 => "DiplomatUtf8StrSlice" | .unvalidatedUtf8 => "DiplomatStrSlice" | .unvalidatedUtf16 => "DiplomatStr16Slice"
def encDipOwned : Enc → String
  | .utf8 => "DiplomatOwnedUTF8StrSlice" | .unvalidatedUtf8 => "DiplomatOwnedStrSlice" | .unvalidatedUtf16 => "DiplomatOwnedStr16Slice"
def encStd : Enc → String
  | .utf8 => "str" | .unvalidatedUtf8 => "DiplomatStr" | .unvalidatedUtf16 => "DiplomatStr16"

def RTy.render : RTy → String
  | .prim p => primRust p
  | .i8 => "i8"
  | .named n => n
  | .ref lt m t => ltRef lt ++ (if m then "mut" else "") ++ t.render
  | .box t => "Box<" ++ t.render ++ ">"
  | .option t => "Option<" ++ t.render ++ ">"
  | .dipOption t => "diplomat_runtime::DiplomatOption<" ++ t.render ++ ">"
  | .dipResult a b => "diplomat_runtime::DiplomatResult<" ++ a.render ++ "," ++ b.render ++ ">"
  | .result a b => "Result<" ++ a.render ++ "," ++ b.render ++ ">"
  | .unit => "()"
  | .write => "diplomat_runtime::DiplomatWrite"
  | .dipStr (some lt) e => "diplomat_runtime::" ++ encDip e ++ ltGeneric lt
  | .dipStr none e => "diplomat_runtime::" ++ encDipOwned e
  | .stdStr (some lt) e => ltRef lt ++ encStd e
  | .stdStr none e => "Box<" ++ encStd e ++ ">"
  | .dipSlice (some (lt, m)) p =>
    "diplomat_runtime::" ++ (if m then "DiplomatSliceMut<" else "DiplomatSlice<") ++ ltPartial lt ++ primRust p ++ ">"
  | .dipSlice none p => "diplomat_runtime::DiplomatOwnedSlice<" ++ primRust p ++ ">"
  | .stdSlice (some (lt, m)) p => ltRef lt ++ (if m then "mut" else "") ++ "[" ++ primRust p ++ "]"
  | .stdSlice none p => "Box<[" ++ primRust p ++ "]>"
  | .dipStrs e => "diplomat_runtime::DiplomatSlice<diplomat_runtime::" ++ encDip e ++ ">"
  | .stdStrs e => "&[&" ++ encStd e ++ "]"
  | .callback r => "DiplomatCallback<" ++ r.render ++ ">"

/-! ### C side -/

inductive CTy where
  | prim (c : String)
  | opaquePtr (const : Bool) (n : String)
  | structTy (n : String)
  | enumTy (n : String)
  | primView (derived : String) (mutable : Bool)
  | strView (utf16 : Bool)
  | strsView (utf16 : Bool)
  | optPrim (derived : String)
  | optNamed (n : String) (isEnum : Bool)
  | optPrimView (derived : String) (mutable : Bool)
  | optStrView (utf16 : Bool)
  | optStrsView (utf16 : Bool)
  | callback (abi param : String)
  | writePtr
  | void
  | result (fn : String) (ok err : Option CTy)
  deriving Repr, Inhabited

def CTy.name : CTy → String
  | .prim c => c
  | .opaquePtr c n => (if c then "const " else "") ++ n ++ "*"
  | .structTy n => n
  | .enumTy n => n
  | .primView d m => "Diplomat" ++ d ++ "View" ++ (if m then "Mut" else "")
  | .strView u => if u then "DiplomatString16View" else "DiplomatStringView"
  | .strsView u => if u then "DiplomatStrings16View" else "DiplomatStringsView"
  | .optPrim d => "Option" ++ d
  | .optNamed n _ => n ++ "_option"
  | .optPrimView d m => "Option" ++ d ++ "View" ++ (if m then "Mut" else "")
  | .optStrView u => if u then "OptionString16View" else "OptionStringView"
  | .optStrsView u => if u then "OptionStrings16View" else "OptionStringsView"
  | .callback abi p => "DiplomatCallback_" ++ abi ++ "_" ++ p
  | .writePtr => "DiplomatWrite*"
  | .void => "void"
  | .result fn _ _ => fn ++ "_result"

/-- the typedef `gen_result_ty` prints in front of the prototype -/
def CTy.resultTypedef : CTy → String
  | .result fn ok err =>
    let okLine := match ok with | some t => t.name ++ " ok;" | none => ""
    let errLine := match err with | some t => t.name ++ " err;" | none => ""
    let unionDef := if ok.isSome || err.isSome then "union {" ++ okLine ++ " " ++ errLine ++ "};" else ""
    "typedef struct " ++ fn ++ "_result {" ++ unionDef ++ " bool is_ok;} " ++ fn ++ "_result;"
  | _ => ""

def instanceTy (name : String) : Option String := capiInstances.lookup name

/-- meaning of a C type other than a per-method result struct, through the runtime header's macro
    instantiations -/
def cAbiSimple : CTy → Option Abi
  | .prim c => cNameAbi c
  | .opaquePtr _ _ => some [.ptr]
  | .structTy n => some [.named n]
  | .enumTy n => some [.cenum n]
  | .primView d _ => (instanceTy d).map fun _ => viewAbi
  | .strView u => (instanceTy (if u then "String16" else "String")).map fun _ => viewAbi
  | .strsView u => (instanceTy (if u then "Strings16" else "Strings")).map fun _ => viewAbi
  | .optPrim d => ((instanceTy d).bind cNameAbi).map fun a => mkResult [a]
  | .optNamed n e => some (mkResult [[if e then .cenum n else .named n]])
  | .optPrimView d _ => (instanceTy d).map fun _ => mkResult [viewAbi]
  | .optStrView u => (instanceTy (if u then "String16" else "String")).map fun _ => mkResult [viewAbi]
  | .optStrsView u => (instanceTy (if u then "Strings16" else "Strings")).map fun _ => mkResult [viewAbi]
  | .callback .. => some callbackAbi
  | .writePtr => some [.ptr]
  | .void => some []
  | .result .. => none

/-- the union members an `ok` / `err` line contributes -/
def cArmAbi : Option CTy → Option (List Abi)
  | none => some []
  | some c => (cAbiSimple c).map fun a => [a]

/-- meaning of a C type on the wire -/
def cAbi : CTy → Option Abi
  | .result _ ok err =>
    match cArmAbi ok, cArmAbi err with
    | some a, some b => some (mkResult (a ++ b))
    | _, _ => none
  | c => cAbiSimple c


@[simp] theorem cAbi_prim (c) : cAbi (.prim c) = cAbiSimple (.prim c) := rfl
@[simp] theorem cAbi_opaquePtr (a n) : cAbi (.opaquePtr a n) = cAbiSimple (.opaquePtr a n) := rfl
@[simp] theorem cAbi_structTy (n) : cAbi (.structTy n) = cAbiSimple (.structTy n) := rfl
@[simp] theorem cAbi_enumTy (n) : cAbi (.enumTy n) = cAbiSimple (.enumTy n) := rfl
@[simp] theorem cAbi_primView (d m) : cAbi (.primView d m) = cAbiSimple (.primView d m) := rfl
@[simp] theorem cAbi_strView (u) : cAbi (.strView u) = cAbiSimple (.strView u) := rfl
@[simp] theorem cAbi_strsView (u) : cAbi (.strsView u) = cAbiSimple (.strsView u) := rfl
@[simp] theorem cAbi_optPrim (d) : cAbi (.optPrim d) = cAbiSimple (.optPrim d) := rfl
@[simp] theorem cAbi_optNamed (n e) : cAbi (.optNamed n e) = cAbiSimple (.optNamed n e) := rfl
@[simp] theorem cAbi_optPrimView (d m) : cAbi (.optPrimView d m) = cAbiSimple (.optPrimView d m) := rfl
@[simp] theorem cAbi_optStrView (u) : cAbi (.optStrView u) = cAbiSimple (.optStrView u) := rfl
@[simp] theorem cAbi_optStrsView (u) : cAbi (.optStrsView u) = cAbiSimple (.optStrsView u) := rfl
@[simp] theorem cAbi_callback (a p) : cAbi (.callback a p) = cAbiSimple (.callback a p) := rfl
@[simp] theorem cAbi_writePtr : cAbi .writePtr = cAbiSimple .writePtr := rfl
@[simp] theorem cAbi_void : cAbi .void = cAbiSimple .void := rfl

@[simp] theorem cArmAbi_none : cArmAbi none = some [] := rfl
theorem cAbi_result {f : String} {a b : Option CTy} {x y : List Abi} (h1 : cArmAbi a = some x) (h2 : cArmAbi b = some y) :
    cAbi (.result f a b) = some (mkResult (x ++ y)) := by
  simp [cAbi, h1, h2]

def isOpaqueName (env : Env) (n : String) : Bool :=
  match env.get n with | some .opaqueTy => true | _ => false

def isZst (env : Env) : TyName → Bool
  | .named n => match env.get n with | some (.struct _ fields) => fields.isEmpty | _ => false
  | _ => false

def isUnit : TyName → Bool
  | .unit => true
  | _ => false

def isU16 (e : Enc) : Bool := e == .unvalidatedUtf16

def sliceMut : Option (Lt × Bool) → Bool
  | some (_, false) => false
  | _ => true

/-- lowering followed by `gen_ty_name`, for a parameter, struct-field or (non-Result) output type -/
def cTy (env : Env) : TyName → Option CTy
  | .prim p => (cPrimName p).map .prim
  | .ordering => (cPrimName .i8).map .prim
  | .named n =>
    match env.get n with
    | some (.struct ..) => some (.structTy n)
    | some .enumTy => some (.enumTy n)
    | _ => none
  | .ref _ m (.named n) => if isOpaqueName env n then some (.opaquePtr (!m) n) else none
  | .box (.named n) => if isOpaqueName env n then some (.opaquePtr false n) else none
  | .opt t _ =>
    match t with
    | .ref _ m (.named n) => if isOpaqueName env n then some (.opaquePtr (!m) n) else none
    | .box (.named n) => if isOpaqueName env n then some (.opaquePtr false n) else none
    | .prim p => (derivedName p).map .optPrim
    | .named n =>
      match env.get n with
      | some (.struct ..) => some (.optNamed n false)
      | some .enumTy => some (.optNamed n true)
      | _ => none
    | .strRef _ e _ => some (.optStrView (isU16 e))
    | .primSlice ltm p _ => (derivedName p).map fun d => .optPrimView d (sliceMut ltm)
    | .strSlice e _ => some (.optStrsView (isU16 e))
    | _ => none
  | .strRef _ e _ => some (.strView (isU16 e))
  | .primSlice ltm p _ => (derivedName p).map fun d => .primView d (sliceMut ltm)
  | .strSlice e _ => some (.strsView (isU16 e))
  | _ => none

/-- an arm of a returned Result / the payload of a returned Option: absent when it has no storage -/
def cArm (env : Env) (t : TyName) : Option (Option CTy) :=
  if isUnit t || isZst env t then some none else (cTy env t).map some

/-- `lower_return_type` followed by `gen_method`'s return type -/
def cRetTy (env : Env) (abi : String) : Option TyName → Option CTy
  | none => some .void
  | some .unit => some .void
  | some (.res ok err _) =>
    match cArm env ok, cArm env err with
    | some a, some b => some (.result abi a b)
    | _, _ => none
  | some (.opt v sd) =>
    match v with
    | .box _ | .ref .. => cTy env (.opt v sd)
    | v => (cArm env v).map fun a => .result abi a none
  | some t => cTy env t

/-! ### methods -/

structure ASelf where
  byRef : Bool
  lt : Lt
  mutable : Bool
  deriving Repr

structure AMethod where
  name : String
  self : Option ASelf
  params : List (String × TyName)
  ret : Option TyName
  deriving Repr

def abiName (pfx ty m : String) : String := pfx ++ ty ++ "_" ++ m

/-- `SelfParam::to_typename` -/
def selfTyName (owner : String) (s : ASelf) : TyName :=
  if s.byRef then .ref s.lt s.mutable (.named owner) else .named owner

/-- one parameter as the macro declares it -/
def macroParam1 (p : String × TyName) : String × RTy :=
  (p.1, match p.2 with
    | .write => RTy.ref .anon true .write       -- `&mut DiplomatWrite` is parsed as a reference to `Write`
    | t => paramTy t)

def macroSelf (owner : String) (m : AMethod) : List (String × RTy) :=
  match m.self with | some s => [("this", toSyn (selfTyName owner s))] | none => []

/-- the parameter list of the generated `extern "C" fn`: `this` first, then the parameters in order -/
def macroParams (owner : String) (m : AMethod) : List (String × RTy) :=
  macroSelf owner m ++ m.params.map macroParam1

def macroSigText (pfx owner : String) (m : AMethod) : String :=
  abiName pfx owner m.name ++ "(" ++ ",".intercalate ((macroParams owner m).map fun p => p.1 ++ ":" ++ p.2.render) ++ ")->"
    ++ (retTy m.ret).render

/-- one parameter as `gen_ty_decl` declares it (callbacks as wrapper structs, the write buffer as a pointer) -/
def cParam1 (env : Env) (abi : String) (p : String × TyName) : Option (String × CTy) :=
  match p.2 with
  | .write => some ("write", CTy.writePtr)
  | .fn .. => some (p.1 ++ "_cb_wrap", CTy.callback abi p.1)
  | t => (cTy env t).map fun c => (p.1, c)

def cSelf (env : Env) (owner : String) (m : AMethod) : Option (List (String × CTy)) :=
  match m.self with
  | some s => (cTy env (selfTyName owner s)).map fun c => [("self", c)]
  | none => some []

/-- the parameter list `gen_method` prints: `self`, then the parameters in order -/
def cParams (env : Env) (pfx owner : String) (m : AMethod) : Option (List (String × CTy)) :=
  match cSelf env owner m, optMapM (cParam1 env (abiName pfx owner m.name)) m.params with
  | some a, some b => some (a ++ b)
  | _, _ => none

def cProtoText (env : Env) (pfx owner : String) (m : AMethod) : Option String :=
  let abi := abiName pfx owner m.name
  match cParams env pfx owner m, cRetTy env abi m.ret with
  | some ps, some r =>
    let params := if ps.isEmpty then "void" else ", ".intercalate (ps.map fun p => p.2.name ++ " " ++ p.1)
    let td := r.resultTypedef
    some ((if td.isEmpty then "" else td ++ " ") ++ r.name ++ " " ++ abi ++ "(" ++ params ++ ");")
  | _, _ => none

/-- struct template: the body and the `_option` typedef -/
def cStructText (env : Env) (n : String) (fields : List (String × TyName)) : Option String :=
  if fields.isEmpty then some "" else
  (optMapM (fun f : String × TyName => (cTy env f.2).map fun c => c.name ++ " " ++ f.1 ++ ";") fields).map fun fs =>
    "typedef struct " ++ n ++ " { " ++ " ".intercalate fs ++ " } " ++ n ++ "; typedef struct " ++ n ++ "_option {union { "
      ++ n ++ " ok; }; bool is_ok; } " ++ n ++ "_option;"

/-! ### callbacks: the function pointer behind `run_callback` -/

/-- what the macro transmutes `run_callback` to: `unsafe extern "C" fn(*const c_void, A…) -> R` with
    `A = param_ty(in_ty)` and `R = out_type.to_syn()` -/
def cbRustSig (ps : List TyName) (r : TyName) : List RTy × RTy := (ps.map paramTy, toSyn r)

/-- what the C backend declares in the wrapper struct: `R (*run_callback)(const void*, A…)` -/
def cbCSig (env : Env) (ps : List TyName) (r : TyName) : Option (List CTy × CTy) :=
  match optMapM (cTy env) ps, (if isUnit r then some CTy.void else cTy env r) with
  | some a, some b => some (a, b)
  | _, _ => none

def cbRustText (mutable : Bool) (ps : List TyName) (r : TyName) : String :=
  "unsafeextern\"C\"fn(*" ++ (if mutable then "mut" else "const") ++ "c_void" ++ "".intercalate ((cbRustSig ps r).1.map fun t => "," ++ t.render)
    ++ ")->" ++ (cbRustSig ps r).2.render

def cbCText (env : Env) (abi param : String) (ps : List TyName) (r : TyName) : Option String :=
  (cbCSig env ps r).map fun sig =>
    let params := ", ".intercalate (sig.1.map CTy.name)
    "typedef struct DiplomatCallback_" ++ abi ++ "_" ++ param ++ " { const void* data; " ++ sig.2.name
      ++ " (*run_callback)(const void*" ++ (if params.isEmpty then "" else ", " ++ params ++ " ") ++ "); void (*destructor)(const void*); } DiplomatCallback_"
      ++ abi ++ "_" ++ param ++ ";"

/-! ### driver -/

structure ADecl where
  name : String
  def_ : Custom
  methods : List AMethod
  deriving Repr

def parseSelfA : Sexp → Option (Option ASelf)
  | .atom "-" => some none
  | .list [.atom "self", .atom "val"] => some (some ⟨false, .anon, false⟩)
  | .list [.atom "self", .atom "ref", lt, .atom m] =>
    match parseLt lt, parseBool m with
    | some lt, some m => some (some ⟨true, lt, m⟩)
    | _, _ => none
  | _ => none

def parseMethodA : Sexp → Option AMethod
  | .list [.atom "m", .atom n, self, .list ps, ret] =>
    let r : Option (Option TyName) := match ret with
      | .atom "-" => some none
      | t => (parseTy t).map some
    match parseSelfA self, optMapM parseField ps, r with
    | some s, some ps, some r => some ⟨n, s, ps, r⟩
    | _, _, _ => none
  | _ => none

def parseDeclA : Sexp → Option ADecl
  | .list [.atom "struct", .atom n, .list fs, .list ms] =>
    match optMapM parseField fs, optMapM parseMethodA ms with
    | some fs, some ms => some ⟨n, .struct false fs, ms⟩ | _, _ => none
  | .list [.atom "outstruct", .atom n, .list fs, .list ms] =>
    match optMapM parseField fs, optMapM parseMethodA ms with
    | some fs, some ms => some ⟨n, .struct true fs, ms⟩ | _, _ => none
  | .list [.atom "opaque", .atom n, .list ms] => (optMapM parseMethodA ms).map fun ms => ⟨n, .opaqueTy, ms⟩
  | .list [.atom "enum", .atom n, .list ms] => (optMapM parseMethodA ms).map fun ms => ⟨n, .enumTy, ms⟩
  | _ => none

def showAbi (a : Option Abi) : String :=
  match a with
  | none => "?"
  | some ts => " ".intercalate (ts.map fun t => match t with
    | .int b s => (if s then "i" else "u") ++ toString b
    | .psize s => if s then "isize" else "usize"
    | .float b => "f" ++ toString b
    | .bool => "bool" | .ptr => "ptr" | .fnptr => "fnptr"
    | .named n => "struct:" ++ n | .cenum n => "enum:" ++ n
    | .sOpen => "{" | .sClose => "}" | .uOpen => "<" | .uClose => ">")

/-- fragments of one declaration: `key => text` -/
def declFrags (env : Env) (pfx : String) (d : ADecl) : List String :=
  (match d.def_ with
   | .struct _ fields =>
     match cStructText env d.name fields with
     | some "" => []
     | some t => ["c/" ++ d.name ++ ".d.h => " ++ t]
     | none => ["c/" ++ d.name ++ ".d.h => <unrenderable>"]
   | _ => [])
  -- impl.h.jinja prints every callback wrapper struct of the type first, then the prototypes
  ++ (d.methods.flatMap fun m => m.params.flatMap fun p => match p.2 with
      | .fn ps r => ["c/" ++ d.name ++ ".h => " ++ (cbCText env (abiName pfx d.name m.name) p.1 ps r).getD "<unrenderable>"]
      | _ => [])
  ++ d.methods.flatMap fun m =>
    ["macro => " ++ macroSigText pfx d.name m,
     "c/" ++ d.name ++ ".h => " ++ (cProtoText env pfx d.name m).getD "<unrenderable>"]
    ++ m.params.flatMap fun p => match p.2 with
      | .fn ps r => ["macrobody " ++ abiName pfx d.name m.name ++ " => " ++ cbRustText false ps r]
      | _ => []

/-- does the model assign the same wire meaning to both descriptions of the method -/
def methodAgrees (env : Env) (pfx owner : String) (m : AMethod) : Bool :=
  match cParams env pfx owner m, cRetTy env (abiName pfx owner m.name) m.ret with
  | some cps, some cr =>
    let r := (macroParams owner m).map fun p => rAbi env p.2
    let c := cps.map fun p => cAbi p.2
    r == c && r.all Option.isSome && rAbi env (retTy m.ret) == cAbi cr && (cAbi cr).isSome
  | _, _ => false

/-- `(c01 PREFIX DECL…)` → the fragments joined by ` ;; `, then ` ## ` and the agreement verdict per method -/
def runLine (line : String) : String :=
  match Sexp.parse line with
  | some (.list (.atom "c01" :: .atom pfx :: decls)) =>
    match optMapM parseDeclA decls with
    | some ds =>
      let env : Env := ds.map fun t => (t.name, t.def_)
      let frags := ds.flatMap (declFrags env pfx)
      let verdicts := ds.flatMap fun d => d.methods.map fun m =>
        abiName pfx d.name m.name ++ "=" ++ (if methodAgrees env pfx d.name m then "agree" else "DISAGREE")
      " ;; ".intercalate frags ++ " ## " ++ " ".intercalate verdicts
    | none => "bad-case"
  | some (.list [.atom "abi-in", t]) =>
    match parseTy t with
    | some t => showAbi (rAbi [] (paramTy t)) ++ " | " ++ showAbi ((cTy [] t).bind cAbi)
    | none => "bad-case"
  | _ => "bad-case"

end DiplomatModel.AbiGen
