/-
  C05 — the lowering gate (type-shape rules).

  Mirrors core/src/hir/lowering.rs: `lower_type` (input / struct-field positions), `lower_out_type`
  (output / out-struct-field positions), `lower_self_param`, `lower_return_type`, `lower_method`
  (write-parameter splitting), `lower_struct` (+ `TypeName::is_ffi_safe` from core/src/ast/types.rs),
  `lower_out_struct`, `lower_callback_param`, and the "elided lifetime in return type" check of
  `TypeContext::validate` (core/src/hir/type_context.rs).

  The functions return the list of violated rules (`[]` = accepted).  The real code stops early in
  some places (`?`), which can only hide *further* errors of an already rejected item, so acceptance
  and the set of error contexts are unaffected.

  Not modelled here: traits (`impl Trait`), special-method attribute validation, and the implied
  lifetime-bound check (`validate_ty_in_method`), which belongs to the lifetime model (C04).
-/
import DiplomatModel.Sexp
namespace DiplomatModel.Lower

inductive Prim where
  | bool | char | i8 | u8 | i16 | u16 | i32 | u32 | i64 | u64 | i128 | u128 | isize | usize | f32 | f64 | byte
  deriving Repr, DecidableEq

inductive Enc where | utf8 | unvalidatedUtf8 | unvalidatedUtf16 deriving Repr, DecidableEq
inductive Sd where | std | dip deriving Repr, DecidableEq
inductive Lt where | static | named (n : String) | anon deriving Repr, DecidableEq

inductive TyName where
  | prim (p : Prim)
  | named (n : String)
  | ref (lt : Lt) (mutable : Bool) (t : TyName)
  | box (t : TyName)
  | opt (t : TyName) (sd : Sd)
  | res (ok err : TyName) (sd : Sd)
  | write
  | strRef (lt : Option Lt) (e : Enc) (sd : Sd)
  | primSlice (ltm : Option (Lt × Bool)) (p : Prim) (sd : Sd)
  | strSlice (e : Enc) (sd : Sd)
  | unit
  | ordering
  | fn (params : List TyName) (ret : TyName)
  deriving Repr, Inhabited

inductive Custom where
  | struct (out : Bool) (fields : List (String × TyName))
  | opaqueTy
  | enumTy
  deriving Repr, Inhabited

abbrev Env := List (String × Custom)

structure Support where
  option : Bool
  callbacks : Bool
  staticSlices : Bool
  unsafeRefsInCallbacks : Bool       -- LoweringConfig, not a backend flag
  deriving Repr

/-- one value per class of `LoweringError` site -/
inductive Rule where
  | orderingNotReturn | zstStructArg | outStructInInput | opaqueByValue | refNonOpaque | refNonCustom
  | boxInInput | dipOptOfPointer | optRefNonOpaque | optOpaqueByValue | stdOptionInStruct | optionUnsupported
  | optBoxInInput | optOfOther | resultNotTopLevel | writeNotLast | staticSliceUnsupported
  | callbackUnsupported | callbackInStruct | callbackTakesRef | unitInInput
  | orderingInStruct | zstOutsideResultOption | boxNonOpaque | ownedSliceReturned | strsInOutput | fnInOutput
  | selfRefStruct | selfOutStruct | selfOpaqueByValue | selfRefEnum | writeWithValue
  | ffiUnsafeField | zstWithMethods | zstOutStruct
  | elidedInReturn | elisionPanic | unresolved
  deriving Repr, DecidableEq

def Env.get (env : Env) (n : String) : Option Custom := env.lookup n

def isOpaque (env : Env) : TyName → Bool
  | .named n => match env.get n with | some .opaqueTy => true | _ => false
  | _ => false

def isCustom : TyName → Bool
  | .named _ => true
  | _ => false

/-- does the type mention a non-static lifetime (what `ty.lifetimes()` sees on an `OutType`) -/
def hasNonStaticLt : TyName → Bool
  | .ref lt _ _ => lt != .static
  | .opt t _ => hasNonStaticLt t
  | .strRef (some lt) _ _ => lt != .static
  | .primSlice (some (lt, _)) _ _ => lt != .static
  | _ => false

def isSliceTy : TyName → Bool
  | .strRef .. | .primSlice .. | .strSlice .. => true
  | _ => false

mutual
/-- `lower_out_type(ty, …, in_struct, in_result_option)` -/
def outErrs (env : Env) (sup : Support) (inStruct inResOpt : Bool) : TyName → List Rule
  | .prim _ => []
  | .ordering => if inStruct then [.orderingInStruct] else []
  | .named n =>
    match env.get n with
    | some (.struct _ fields) => if !inResOpt && fields.isEmpty then [.zstOutsideResultOption] else []
    | some .opaqueTy => [.opaqueByValue]
    | some .enumTy => []
    | none => [.unresolved]
  | .ref _ _ t => if isOpaque env t then [] else if isCustom t then [.refNonOpaque] else [.refNonCustom]
  | .box t => if isOpaque env t then [] else [.boxNonOpaque]
  | .opt t sd =>
    match t with
    | .ref _ _ r =>
      if isOpaque env r then (if sd = .dip then [.dipOptOfPointer] else [])
      else [.optRefNonOpaque]
    | .box b =>
      if isOpaque env b then (if sd = .dip then [.dipOptOfPointer] else [])
      else [.optRefNonOpaque]
    | .named n =>
      if isOpaque env (.named n) then [.optOpaqueByValue]
      else if inStruct && sd = .std then [.stdOptionInStruct]
      else (if sup.option then [] else [.optionUnsupported]) ++ outErrs env sup inStruct false (.named n)
    | .prim _ =>
      if inStruct && sd = .std then [.stdOptionInStruct]
      else if sup.option then [] else [.optionUnsupported]
    | _ => [.optOfOther]
  | .res .. => [.resultNotTopLevel]
  | .write => [.writeNotLast]
  | .primSlice none _ _ => [.ownedSliceReturned]
  | .strRef none _ _ => [.ownedSliceReturned]
  | .strRef (some _) _ _ => []
  | .strSlice .. => [.strsInOutput]
  | .primSlice (some _) _ _ => []
  | .unit => [.unitInInput]
  | .fn .. => [.fnInOutput]
end

/-- `lower_callback_param` -/
def callbackParamErrs (env : Env) (sup : Support) (t : TyName) : List Rule :=
  let e := outErrs env sup false false t
  if !e.isEmpty then e
  else if !sup.unsafeRefsInCallbacks && hasNonStaticLt t && !isSliceTy t then [.callbackTakesRef] else []

def staticErr (sup : Support) (lt : Option Lt) : List Rule :=
  if lt = some .static && !sup.staticSlices then [.staticSliceUnsupported] else []

/-- `lower_type(ty, …, in_struct)`; structural on the size of the type -/
def inErrs (env : Env) (sup : Support) (inStruct : Bool) : TyName → List Rule
  | .prim _ => []
  | .ordering => [.orderingNotReturn]
  | .named n =>
    match env.get n with
    | some (.struct out fields) =>
      if fields.isEmpty then [.zstStructArg] else if out then [.outStructInInput] else []
    | some .opaqueTy => [.opaqueByValue]
    | some .enumTy => []
    | none => [.unresolved]
  | .ref _ _ t => if isOpaque env t then [] else if isCustom t then [.refNonOpaque] else [.refNonCustom]
  | .box _ => [.boxInInput]
  | .opt t sd =>
    match t with
    | .ref _ _ r =>
      if isOpaque env r then (if sd = .dip then [.dipOptOfPointer] else [])
      else [.optRefNonOpaque]
    | .named n =>
      if isOpaque env (.named n) then [.optOpaqueByValue]
      else if inStruct && sd = .std then [.stdOptionInStruct]
      else (if sup.option then [] else [.optionUnsupported]) ++ inErrs env sup inStruct (.named n)
    | .prim _ =>
      if inStruct && sd = .std then [.stdOptionInStruct]
      else if sup.option then [] else [.optionUnsupported]
    | .strSlice .. => if sup.option then [] else [.optionUnsupported]
    | .strRef lt e s => (if sup.option then [] else [.optionUnsupported]) ++ inErrs env sup inStruct (.strRef lt e s)
    | .primSlice ltm p s => (if sup.option then [] else [.optionUnsupported]) ++ inErrs env sup inStruct (.primSlice ltm p s)
    | .box _ => [.optBoxInInput]
    | _ => [.optOfOther]
  | .res .. => [.resultNotTopLevel]
  | .write => [.writeNotLast]
  | .strRef lt _ _ => staticErr sup lt
  | .strSlice .. => []
  | .primSlice ltm _ _ => staticErr sup (ltm.map (·.1))
  | .unit => [.unitInInput]
  | .fn params ret =>
    (if sup.callbacks then [] else [.callbackUnsupported])
    ++ (if inStruct then [.callbackInStruct]
        else params.flatMap (callbackParamErrs env sup)
          ++ (match ret with
              | .unit => []
              | .fn .. => [.fnInOutput]   -- a callback returning a callback: rejected through the nested lowering
              | r => inErrsFlat env sup r))
where
  /-- callback return types are lowered with `lower_type`; they cannot themselves be callbacks here,
      which keeps the definition structurally recursive -/
  inErrsFlat (env : Env) (sup : Support) : TyName → List Rule
    | .prim _ => []
    | .ordering => [.orderingNotReturn]
    | .named n =>
      match env.get n with
      | some (.struct out fields) =>
        if fields.isEmpty then [.zstStructArg] else if out then [.outStructInInput] else []
      | some .opaqueTy => [.opaqueByValue]
      | some .enumTy => []
      | none => [.unresolved]
    | .ref _ _ t => if isOpaque env t then [] else if isCustom t then [.refNonOpaque] else [.refNonCustom]
    | .box _ => [.boxInInput]
    | .opt _ _ => [.optOfOther]            -- not generated in callback returns (harness restriction)
    | .res .. => [.resultNotTopLevel]
    | .write => [.writeNotLast]
    | .strRef lt _ _ => staticErr sup lt
    | .strSlice .. => []
    | .primSlice ltm _ _ => staticErr sup (ltm.map (·.1))
    | .unit => [.unitInInput]
    | .fn .. => [.fnInOutput]

/-- `TypeName::is_ffi_safe` -/
def isFfiSafe : TyName → Bool
  | .prim _ | .named _ | .ref .. | .box _ | .fn .. => true
  | .strRef _ _ sd | .strSlice _ sd | .primSlice _ _ sd => sd = .dip
  | .unit | .write | .res .. | .ordering => false
  | .opt t sd =>
    match t with
    | .ref .. | .box _ => sd = .std
    | _ => sd = .dip

/-- elided / anonymous lifetimes in a return type (`TypeContext::validate`); for the generated
    modules (no lifetime parameters on types) an anonymous lifetime in the output is resolved by
    elision only when exactly one input lifetime candidate exists — `elisionOk` is that fact,
    computed by the caller -/
def hasAnonLt : TyName → Bool
  | .ref lt _ _ => lt == .anon
  | .opt t _ => hasAnonLt t
  | .res a b _ => hasAnonLt a || hasAnonLt b
  | .strRef (some lt) _ _ => lt == .anon
  | .primSlice (some (lt, _)) _ _ => lt == .anon
  | _ => false

structure SelfParam where
  ty : String
  byRef : Bool
  deriving Repr

structure Method where
  name : String
  self : Option SelfParam
  params : List (String × TyName)
  ret : Option TyName
  deriving Repr

/-- `lower_self_param` -/
def selfErrs (env : Env) (s : SelfParam) : List Rule :=
  match env.get s.ty with
  | some (.struct out _) => if out then [.selfOutStruct] else if s.byRef then [.selfRefStruct] else []
  | some .opaqueTy => if s.byRef then [] else [.selfOpaqueByValue]
  | some .enumTy => if s.byRef then [.selfRefEnum] else []
  | none => [.unresolved]

/-- an `Ok` / `Err` arm of a returned `Result`: unit, or an output type inside a result -/
def armErrs (env : Env) (sup : Support) : TyName → List Rule
  | .unit => []
  | t => outErrs env sup false true t

/-- `lower_return_type` -/
def retErrs (env : Env) (sup : Support) : Option TyName → List Rule
  | none => []
  | some .unit => []
  | some (.res ok err _) =>
    armErrs env sup ok ++ armErrs env sup err
  | some (.opt v sd) =>
    match v with
    | .box _ | .ref .. => outErrs env sup false true (.opt v sd)
    | .unit => []
    | t => outErrs env sup false true t
  | some t => outErrs env sup false false t

/-- number of input positions that provide an elision candidate: `&self` decides alone; otherwise
    every non-static lifetime position in the parameters counts -/
def ltCount : TyName → Nat
  | .ref lt _ _ => if lt == .static then 0 else 1
  | .opt t _ => ltCount t
  | .strRef (some lt) _ _ => if lt == .static then 0 else 1
  | .primSlice (some (lt, _)) _ _ => if lt == .static then 0 else 1
  | _ => 0

/-- the parameters lowered with `lower_type`: a trailing `&mut DiplomatWrite` is split off first -/
def inputParams (m : Method) : List (String × TyName) :=
  match m.params.getLast? with
  | some (_, .write) => m.params.dropLast
  | _ => m.params

def selfErrsOpt (env : Env) : Option SelfParam → List Rule
  | some s => selfErrs env s
  | none => []

/-- is the last parameter a `&mut DiplomatWrite` -/
def takesWrite (m : Method) : Bool :=
  match m.params.getLast? with
  | some (_, .write) => true
  | _ => false

/-- the returns of a method that writes its output: nothing, `Option<()>`, `Result<(), E>`
    (book/src/writeable.md: "methods that philosophically return a `String` or a `Result<String>`") -/
def writeRetOk : Option TyName → Bool
  | none => true
  | some .unit => true
  | some (.opt .unit _) => true
  | some (.res .unit _ _) => true
  | _ => false

/-- a write parameter next to a returned value: the bindings have nowhere to put both -/
def writeErrs (m : Method) : List Rule :=
  if takesWrite m && !writeRetOk m.ret then [.writeWithValue] else []

/-- `lower_method`: self, parameters, return type -/
def shapeErrs (env : Env) (sup : Support) (m : Method) : List Rule :=
  selfErrsOpt env m.self ++ (inputParams m).flatMap (fun p => inErrs env sup false p.2) ++ retErrs env sup m.ret
    ++ writeErrs m

/-- the elided-return check of `validate` (and the elision machine's panic when elision has no unique source) -/
def retHasAnon (m : Method) : Bool := match m.ret with | some t => hasAnonLt t | none => false

def elisionErrs (env : Env) (m : Method) : List Rule :=
  let anonRet := retHasAnon m
  let selfRef := match m.self with | some s => s.byRef && isOpaque env (.named s.ty) | none => false
  let cands := ((inputParams m).map fun p => ltCount p.2).sum
  if anonRet then (if selfRef || cands == 1 then [.elidedInReturn] else [.elisionPanic]) else []

/-- `lower_method` + `validate` -/
def methodErrs (env : Env) (sup : Support) (m : Method) : List Rule :=
  if (shapeErrs env sup m).isEmpty then elisionErrs env m else shapeErrs env sup m

structure TypeDecl where
  name : String
  def_ : Custom
  methods : List Method
  deriving Repr

/-- `lower_struct` / `lower_out_struct` / `lower_opaque` / `lower_enum`: errors with their context
    (`Type` or `Type::method`) -/
def typeErrs (env : Env) (sup : Support) (t : TypeDecl) : List (String × Rule) :=
  let meth := t.methods.flatMap fun m => (methodErrs env sup m).map fun r => (t.name ++ "::" ++ m.name, r)
  match t.def_ with
  | .struct false fields =>
    let fe := fields.flatMap fun f =>
      (if isFfiSafe f.2 then [] else [Rule.ffiUnsafeField]) ++ inErrs env sup false f.2
    (fe.map fun r => (t.name, r))
    ++ (if fields.isEmpty then (if t.methods.isEmpty then [] else [(t.name, Rule.zstWithMethods)]) else meth)
  | .struct true fields =>
    (if fields.isEmpty then [(t.name, Rule.zstOutStruct)]
     else (fields.flatMap fun f =>
        (if isFfiSafe f.2 then [] else [Rule.ffiUnsafeField]) ++ outErrs env sup true false f.2).map fun r => (t.name, r))
    ++ meth
  | .opaqueTy => meth
  | .enumTy => meth

def moduleErrs (sup : Support) (ts : List TypeDecl) : List (String × Rule) :=
  let env : Env := ts.map fun t => (t.name, t.def_)
  ts.flatMap (typeErrs env sup)

/-! ### driver -/

def parsePrim : String → Option Prim
  | "bool" => some .bool | "char" => some .char | "i8" => some .i8 | "u8" => some .u8
  | "i16" => some .i16 | "u16" => some .u16 | "i32" => some .i32 | "u32" => some .u32
  | "i64" => some .i64 | "u64" => some .u64 | "i128" => some .i128 | "u128" => some .u128
  | "isize" => some .isize | "usize" => some .usize | "f32" => some .f32 | "f64" => some .f64
  | "byte" => some .byte | _ => none

def parseEnc : String → Option Enc
  | "utf8" => some .utf8 | "uutf8" => some .unvalidatedUtf8 | "uutf16" => some .unvalidatedUtf16 | _ => none
def parseSd : String → Option Sd
  | "std" => some .std | "dip" => some .dip | _ => none
def parseLt : Sexp → Option Lt
  | .atom "static" => some .static
  | .atom "_" => some .anon
  | .atom n => some (.named n)
  | _ => none
def parseBool : String → Option Bool
  | "mut" => some true | "imm" => some false | _ => none

partial def parseTy : Sexp → Option TyName
  | .atom "unit" => some .unit
  | .atom "ordering" => some .ordering
  | .atom "write" => some .write
  | .list [.atom "prim", .atom p] => (parsePrim p).map .prim
  | .list [.atom "named", .atom n] => some (.named n)
  | .list [.atom "ref", lt, .atom m, t] =>
    match parseLt lt, parseBool m, parseTy t with
    | some lt, some m, some t => some (.ref lt m t) | _, _, _ => none
  | .list [.atom "box", t] => (parseTy t).map .box
  | .list [.atom "opt", .atom sd, t] =>
    match parseSd sd, parseTy t with | some sd, some t => some (.opt t sd) | _, _ => none
  | .list [.atom "res", .atom sd, a, b] =>
    match parseSd sd, parseTy a, parseTy b with | some sd, some a, some b => some (.res a b sd) | _, _, _ => none
  | .list [.atom "str", .atom "owned", .atom e, .atom sd] =>
    match parseEnc e, parseSd sd with | some e, some sd => some (.strRef none e sd) | _, _ => none
  | .list [.atom "str", lt, .atom e, .atom sd] =>
    match parseLt lt, parseEnc e, parseSd sd with | some lt, some e, some sd => some (.strRef (some lt) e sd) | _, _, _ => none
  | .list [.atom "pslice", .atom "owned", .atom p, .atom sd] =>
    match parsePrim p, parseSd sd with | some p, some sd => some (.primSlice none p sd) | _, _ => none
  | .list [.atom "pslice", lt, .atom m, .atom p, .atom sd] =>
    match parseLt lt, parseBool m, parsePrim p, parseSd sd with
    | some lt, some m, some p, some sd => some (.primSlice (some (lt, m)) p sd) | _, _, _, _ => none
  | .list [.atom "strs", .atom e, .atom sd] =>
    match parseEnc e, parseSd sd with | some e, some sd => some (.strSlice e sd) | _, _ => none
  | .list (.atom "fn" :: ret :: ps) =>
    match parseTy ret, optMapM parseTy ps with | some r, some ps => some (.fn ps r) | _, _ => none
  | _ => none

def parseField : Sexp → Option (String × TyName)
  | .list [.atom n, t] => (parseTy t).map fun t => (n, t)
  | _ => none

def parseMethod : Sexp → Option Method
  | .list [.atom "method", .atom n, self, .list ps, ret] =>
    let s : Option (Option SelfParam) := match self with
      | .atom "-" => some none
      | .list [.atom "self", .atom ty, .atom "ref"] => some (some ⟨ty, true⟩)
      | .list [.atom "self", .atom ty, .atom "val"] => some (some ⟨ty, false⟩)
      | _ => none
    let r : Option (Option TyName) := match ret with
      | .atom "-" => some none
      | t => (parseTy t).map some
    match s, optMapM parseField ps, r with
    | some s, some ps, some r => some ⟨n, s, ps, r⟩
    | _, _, _ => none
  | _ => none

def parseDecl : Sexp → Option TypeDecl
  | .list [.atom "struct", .atom n, .list fs, .list ms] =>
    match optMapM parseField fs, optMapM parseMethod ms with
    | some fs, some ms => some ⟨n, .struct false fs, ms⟩ | _, _ => none
  | .list [.atom "outstruct", .atom n, .list fs, .list ms] =>
    match optMapM parseField fs, optMapM parseMethod ms with
    | some fs, some ms => some ⟨n, .struct true fs, ms⟩ | _, _ => none
  | .list [.atom "opaque", .atom n, .list ms] => (optMapM parseMethod ms).map fun ms => ⟨n, .opaqueTy, ms⟩
  | .list [.atom "enum", .atom n, .list ms] => (optMapM parseMethod ms).map fun ms => ⟨n, .enumTy, ms⟩
  | _ => none

def parseSupport : Sexp → Option Support
  | .list [.atom "sup", .atom o, .atom c, .atom s, .atom u] =>
    let b := fun (x : String) => x == "1"
    some ⟨b o, b c, b s, b u⟩
  | _ => none

def insertSorted (s : String) : List String → List String
  | [] => [s]
  | x :: xs => if s == x then x :: xs else if s < x then s :: x :: xs else x :: insertSorted s xs

/-- `(c05 SUPPORT DECL…)` → `accept` or `reject ctx1,ctx2,…` (sorted distinct error contexts) -/
def runLine (line : String) : String :=
  match Sexp.parse line with
  | some (.list (.atom "c05" :: sup :: decls)) =>
    match parseSupport sup, optMapM parseDecl decls with
    | some sup, some ds =>
      let errs := moduleErrs sup ds
      if errs.any (fun e => e.2 == Rule.elisionPanic) then "panic"
      else if errs.isEmpty then "accept"
      else "reject " ++ ",".intercalate ((errs.map (·.1)).foldr insertSorted [])
        ++ " rules=" ++ ",".intercalate ((errs.map fun e => reprStr e.2).foldr insertSorted [])
    | _, _ => "bad-case"
  | _ => "bad-case"

end DiplomatModel.Lower
