/-
  C16 — the UTF-8 view the JS runtime hands to Rust for a JS string (`DiplomatBuf.str8`, tool/templates/js/runtime.mjs).

  A JS string is a list of UTF-16 code units.  `str8` walks it by code point (`for (const cp of string)`), adds
  1/2/3/4 per code point to get the buffer length, allocates that many bytes and lets `TextEncoder.encodeInto`
  write the UTF-8 of the string there; the view is `(ptr, length)`.  `TextEncoder` encodes the string's scalar
  values, an unpaired surrogate counting as U+FFFD (WHATWG Encoding, via USVString conversion).
-/
import DiplomatModel.Utf8
namespace DiplomatModel.JsStr
open DiplomatModel.Utf8 DiplomatModel.Sexp

def isLead (u : Nat) : Bool := 0xD800 ≤ u && u ≤ 0xDBFF
def isTrail (u : Nat) : Bool := 0xDC00 ≤ u && u ≤ 0xDFFF

def pairValue (u v : Nat) : Nat := 0x10000 + (u - 0xD800) * 0x400 + (v - 0xDC00)

/-- the string iterator: a lead followed by a trail is one code point, anything else stands for itself -/
def codePoints : List Nat → List Nat
  | [] => []
  | [u] => [u]
  | u :: v :: rest =>
    if isLead u && isTrail v then pairValue u v :: codePoints rest
    else u :: codePoints (v :: rest)

/-- the `if (codepoint < 0x80) … else …` ladder -/
def cpLen (c : Nat) : Nat := if c < 0x80 then 1 else if c < 0x800 then 2 else if c < 0x10000 then 3 else 4

/-- `utf8Length` as `str8` computes it: the size of the buffer and of the view -/
def str8Len (us : List Nat) : Nat := ((codePoints us).map cpLen).sum

/-- what `TextEncoder` encodes: scalar values, U+FFFD for an unpaired surrogate -/
def scalarOf (c : Nat) : Nat := if 0xD800 ≤ c && c ≤ 0xDFFF then 0xFFFD else c

def scalars (us : List Nat) : List Nat := (codePoints us).map scalarOf

/-- the bytes `encodeInto` writes -/
def encode (us : List Nat) : List Nat := (scalars us).flatMap enc

/-! ### `DiplomatBuf.str16`: the UTF-16 view

  `byteLength = string.length * 2` bytes are allocated with alignment 2, `destination[i] = string.charCodeAt(i)`
  stores each code unit through a `Uint16Array` (little-endian on wasm32), the view is `(ptr, string.length)` and
  the buffer is freed with `byteLength` again. -/

/-- the two bytes a `Uint16Array` store puts in wasm memory for one code unit -/
def unitBytes (u : Nat) : List Nat := [u % 256, u / 256 % 256]

/-- the bytes `str16` writes -/
def encode16 (us : List Nat) : List Nat := us.flatMap unitBytes

/-- the length of the view handed to Rust (elements, not bytes) -/
def str16Len (us : List Nat) : Nat := us.length

/-- the size `diplomat_alloc` and `diplomat_free` are called with -/
def str16Bytes (us : List Nat) : Nat := us.length * 2

/-- what Rust reads from a `&[u16]` view over those bytes -/
def decode16 : List Nat → List Nat
  | lo :: hi :: rest => (lo + 256 * hi) :: decode16 rest
  | _ => []

/-! ### driver: `(str8 U…)` → `LEN BYTES…`, `(str16 U…)` → `LEN NBYTES BYTES…` -/
def runLine (line : String) : String :=
  match Sexp.parse line with
  | some (.list (.atom "str16" :: us)) =>
    match optMapM (fun s => match s with | .atom a => a.toNat? | _ => none) us with
    | some l => (Nat.repr (str16Len l)) ++ " " ++ (Nat.repr (str16Bytes l)) ++ " " ++ " ".intercalate ((encode16 l).map Nat.repr)
    | none => "bad-case"
  | some (.list (.atom "str8" :: us)) =>
    match optMapM (fun s => match s with | .atom a => a.toNat? | _ => none) us with
    | some l => (Nat.repr (str8Len l)) ++ " " ++ " ".intercalate ((encode l).map Nat.repr)
    | none => "bad-case"
  | _ => "bad-case"

end DiplomatModel.JsStr
