/-
  C02 — tool/src/cpp/ty.rs: the C++ method implementation the backend prints for one bridge method, in full.

  `gen_type_name` (C++ parameter / return type names), `gen_cpp_to_c_for_type` (the argument expressions of the
  call into the C function), `gen_cpp_return_type_name`, `gen_c_to_cpp_for_type` / `gen_c_to_cpp_for_return_type`
  (the expression the wrapper returns), `gen_method_info` (argument order: self, parameters, `&write`; the UTF-8
  validations; the `Utf8Error` wrapping of the return type; the `std::move` unwrapping; the `const` qualifier) and
  `templates/cpp/method_impl.h.jinja` (the text around them).  The text is compared, whitespace-normalised, with
  the `.hpp` the real backend generates (harness c02 `cpp-method` tie).
-/
import DiplomatModel.AbiGen
import DiplomatModel.CppGen
namespace DiplomatModel.CppMethod
open DiplomatModel.Lower DiplomatModel.AbiGen

def strView (e : Enc) : String := if isU16 e then "std::u16string_view" else "std::string_view"

/-- is this the spelling of an opaque behind a reference / box -/
def opaqueRef (env : Env) : TyName → Option (Bool × String)      -- (mutable, name)
  | .ref _ m (.named n) => if isOpaqueName env n then some (m, n) else none
  | _ => none
def opaqueBox (env : Env) : TyName → Option String
  | .box (.named n) => if isOpaqueName env n then some n else none
  | _ => none

/-- `gen_type_name` -/
def cppTyName (env : Env) : TyName → Option String
  | .prim p => cPrimName p
  | .ordering => cPrimName .i8
  | .named n =>
    match env.get n with
    | some (.struct ..) => some n
    | some .enumTy => some n
    | _ => none
  | .ref _ m (.named n) =>
    if isOpaqueName env n then some (if m then n ++ "&" else "const " ++ n ++ "&") else none
  | .box (.named n) => if isOpaqueName env n then some ("std::unique_ptr<" ++ n ++ ">") else none
  | .opt t _ =>
    match t with
    | .ref _ m (.named n) => if isOpaqueName env n then some ((if m then "" else "const ") ++ n ++ "*") else none
    | .box (.named n) => if isOpaqueName env n then some ("std::unique_ptr<" ++ n ++ ">") else none
    | .prim p => (cPrimName p).map fun s => "std::optional<" ++ s ++ ">"
    | .named n =>
      match env.get n with
      | some (.struct ..) => some ("std::optional<" ++ n ++ ">")
      | some .enumTy => some ("std::optional<" ++ n ++ ">")
      | _ => none
    | .strRef _ e _ => some ("std::optional<" ++ strView e ++ ">")
    | .primSlice ltm p _ =>
      (cPrimName p).map fun s => "std::optional<diplomat::span<" ++ (if sliceMut ltm then "" else "const ") ++ s ++ ">>"
    | .strSlice e _ => some ("std::optional<diplomat::span<const " ++ strView e ++ ">>")
    | _ => none
  | .strRef _ e _ => some (strView e)
  | .primSlice ltm p _ => (cPrimName p).map fun s => "diplomat::span<" ++ (if sliceMut ltm then "" else "const ") ++ s ++ ">"
  | .strSlice e _ => some ("diplomat::span<const " ++ strView e ++ ">")
  | _ => none

/-- `gen_fn_sig` inside `std::function<…>`: callbacks take and return non-callback types -/
def cppFnTy (env : Env) (ps : List TyName) (r : TyName) : Option String :=
  match optMapM (cppTyName env) ps, (if isUnit r then some "void" else cppTyName env r) with
  | some ps, some r => some ("std::function<" ++ r ++ "(" ++ ", ".intercalate ps ++ ")>")
  | _, _ => none

def cppParamTy (env : Env) : TyName → Option String
  | .fn ps r => cppFnTy env ps r
  | t => cppTyName env t

/-- the C name of an option type, as the C++ header spells it -/
def capiOpt (env : Env) (t : TyName) : Option String :=
  (cTy env t).map fun c => "diplomat::capi::" ++ c.name

/-- conversion of a value that is not itself an option -/
def cppToCPlain (env : Env) (t : TyName) (x : String) : Option String :=
  match t with
  | .prim _ => some x
  | .ordering => some x
  | .named n =>
    match env.get n with
    | some (.struct ..) => some (x ++ ".AsFFI()")
    | some .enumTy => some (x ++ ".AsFFI()")
    | _ => none
  | .ref _ _ (.named n) => if isOpaqueName env n then some (x ++ ".AsFFI()") else none
  | .box (.named n) => if isOpaqueName env n then some (x ++ "->AsFFI()") else none
  | .strRef _ _ _ => some ("{" ++ x ++ ".data(), " ++ x ++ ".size()}")
  | .primSlice _ _ _ => some ("{" ++ x ++ ".data(), " ++ x ++ ".size()}")
  | .strSlice e _ =>
    some ("{reinterpret_cast<const diplomat::capi::" ++ (if isU16 e then "DiplomatString16View" else "DiplomatStringView")
      ++ "*>(" ++ x ++ ".data()), " ++ x ++ ".size()}")
  | .fn _ _ =>
    some ("{new decltype(" ++ x ++ ")(std::move(" ++ x ++ ")), diplomat::fn_traits(" ++ x ++ ").c_run_callback, diplomat::fn_traits("
      ++ x ++ ").c_delete}")
  | _ => none

/-- `gen_cpp_to_c_for_type` -/
def cppToC (env : Env) (t : TyName) (x : String) : Option String :=
  match t with
  | .opt inner sd =>
    match inner with
    | .ref _ _ (.named n) => if isOpaqueName env n then some (x ++ " ? " ++ x ++ "->AsFFI() : nullptr") else none
    | .box (.named n) => if isOpaqueName env n then some (x ++ " ? " ++ x ++ "->AsFFI() : nullptr") else none
    | inner =>
      match cppToCPlain env inner (x ++ ".value()"), capiOpt env (.opt inner sd) with
      | some conv, some copt =>
        some (x ++ ".has_value() ? (" ++ copt ++ "{ { " ++ conv ++ " }, true }) : (" ++ copt ++ "{ {}, false })")
      | _, _ => none
  | t => cppToCPlain env t x

/-- conversion of a returned value that is not itself an option -/
def cToCppPlain (env : Env) (t : TyName) (v : String) : Option String :=
  match t with
  | .prim _ => some v
  | .ordering => some v
  | .box (.named n) => if isOpaqueName env n then some ("std::unique_ptr<" ++ n ++ ">(" ++ n ++ "::FromFFI(" ++ v ++ "))") else none
  | .ref _ _ (.named n) => if isOpaqueName env n then some ("*" ++ n ++ "::FromFFI(" ++ v ++ ")") else none
  | .named n =>
    match env.get n with
    | some (.struct _ fields) => some (if fields.isEmpty then n ++ " {}" else n ++ "::FromFFI(" ++ v ++ ")")
    | some .enumTy => some (n ++ "::FromFFI(" ++ v ++ ")")
    | _ => none
  | .strRef _ e _ => some (strView e ++ "(" ++ v ++ ".data, " ++ v ++ ".len)")
  | .primSlice ltm p _ =>
    (cPrimName p).map fun s => "diplomat::span<" ++ (if sliceMut ltm then "" else "const ") ++ s ++ ">(" ++ v ++ ".data, " ++ v ++ ".len)"
  | _ => none

/-- `gen_c_to_cpp_for_type` -/
def cToCpp (env : Env) (t : TyName) (v : String) : Option String :=
  match t with
  | .opt inner _ =>
    match inner with
    | .box (.named n) => if isOpaqueName env n then some ("std::unique_ptr<" ++ n ++ ">(" ++ n ++ "::FromFFI(" ++ v ++ "))") else none
    | .ref _ _ (.named n) => if isOpaqueName env n then some (n ++ "::FromFFI(" ++ v ++ ")") else none
    | inner => (cToCppPlain env inner (v ++ ".ok")).map fun c => v ++ ".is_ok ? std::optional(" ++ c ++ ") : std::nullopt"
  | t => cToCppPlain env t v

/-- `SuccessType` of an arm, given whether the method has a `DiplomatWrite` parameter -/
inductive Succ where
  | unit | write | out (t : TyName)
  deriving Repr

def succOf (hasWrite : Bool) (t : TyName) : Succ :=
  if isUnit t then (if hasWrite then .write else .unit) else .out t

def succTyName (env : Env) : Succ → Option String
  | .write => some "std::string"
  | .unit => some "std::monostate"
  | .out t => cppTyName env t

inductive Ret where
  | infallible (s : Succ) | fallible (ok : Succ) (err : Option TyName) | nullable (s : Succ)
  deriving Repr

/-- `lower_return_type` as far as the C++ backend looks at it -/
def retOf (hasWrite : Bool) : Option TyName → Ret
  | none => .infallible (if hasWrite then .write else .unit)
  | some (.res ok err _) => .fallible (succOf hasWrite ok) (if isUnit err then none else some err)
  | some (.opt v sd) =>
    match v with
    | .box _ => .infallible (.out (.opt v sd))
    | .ref .. => .infallible (.out (.opt v sd))
    | v => .nullable (succOf hasWrite v)
  | some t => .infallible (succOf hasWrite t)

/-- `gen_cpp_return_type_name` -/
def cppRetTy (env : Env) : Ret → Option String
  | .infallible .unit => some "void"
  | .infallible .write => some "std::string"
  | .infallible (.out t) => cppTyName env t
  | .fallible ok err =>
    match succTyName env ok, (match err with | some e => cppTyName env e | none => some "std::monostate") with
    | some o, some e => some ("diplomat::result<" ++ o ++ ", " ++ e ++ ">")
    | _, _ => none
  | .nullable s => (succTyName env s).map fun n => "std::optional<" ++ n ++ ">"

/-- `gen_c_to_cpp_for_return_type` (`none` = no return statement) -/
def cToCppRet (env : Env) (r : Ret) (v : String) : Option (Option String) :=
  match r with
  | .infallible .unit => some none
  | .infallible .write => some (some "std::move(output)")
  | .infallible (.out t) => (cToCpp env t v).map some
  | .fallible ok err =>
    let okConv : Option String := match ok with
      | .write => some "std::move(output)"
      | .unit => some ""
      | .out t => cToCpp env t (v ++ ".ok")
    let errConv : Option String := match err with
      | some e => cToCpp env e (v ++ ".err")
      | none => some ""
    match succTyName env ok, (match err with | some e => cppTyName env e | none => some "std::monostate"), okConv, errConv with
    | some o, some e, some oc, some ec =>
      let res := "diplomat::result<" ++ o ++ ", " ++ e ++ ">"
      some (some (v ++ ".is_ok ? " ++ res ++ "(diplomat::Ok<" ++ o ++ ">(" ++ oc ++ ")) : " ++ res ++ "(diplomat::Err<" ++ e ++ ">(" ++ ec ++ "))"))
    | _, _, _, _ => none
  | .nullable s =>
    let conv : Option String := match s with
      | .write => some "std::move(output)"
      | .unit => some "std::monostate()"
      | .out t => cToCpp env t (v ++ ".ok")
    match succTyName env s, conv with
    | some n, some c => some (some (v ++ ".is_ok ? std::optional<" ++ n ++ ">(" ++ c ++ ") : std::nullopt"))
    | _, _ => none

def hasWriteParam (m : AMethod) : Bool := m.params.any fun p => match p.2 with | .write => true | _ => false

/-- parameters as the C++ method declares them (the write parameter is not one of them) -/
def cppParams (m : AMethod) : List (String × TyName) :=
  m.params.filter fun p => match p.2 with | .write => false | _ => true

/-- the expressions passed to the C function, in order: self, every parameter, `&write` -/
def cppArgs (env : Env) (m : AMethod) : Option (List String) :=
  match optMapM (fun p : String × TyName => cppToC env p.2 p.1) (cppParams m) with
  | some args => some ((if m.self.isSome then ["this->AsFFI()"] else []) ++ args ++ (if hasWriteParam m then ["&write"] else []))
  | none => none

def isUtf8Param : TyName → Bool
  | .strRef _ e _ => e == .utf8
  | _ => false

def validation (p : String) : String :=
  "if (!diplomat::capi::diplomat_is_str(" ++ p ++ ".data(), " ++ p ++ ".size())) { return diplomat::Err<diplomat::Utf8Error>(); }"

def stripMove (e : String) : String :=
  if e.startsWith "std::move(" then ((e.drop "std::move(".length).dropEnd 1).toString else e

def ffiUnit : Ret → Bool
  | .infallible .unit => true
  | .infallible .write => true
  | _ => false

/-- the whole `inline … { … }` of one method, single-spaced -/
def methodImpl (env : Env) (pfx owner : String) (m : AMethod) : Option String :=
  let ret := retOf (hasWriteParam m) m.ret
  let guarded := (cppParams m).filter fun p => isUtf8Param p.2
  match optMapM (fun p : String × TyName => (cppParamTy env p.2).map fun t => t ++ " " ++ p.1) (cppParams m),
        cppArgs env m, cppRetTy env ret, cToCppRet env ret "result" with
  | some decls, some args, some retTy, some retExpr =>
    let (retTy, retExpr) :=
      if guarded.isEmpty then (retTy, retExpr)
      else match retExpr with
        | some e => ("diplomat::result<" ++ retTy ++ ", diplomat::Utf8Error>", some ("diplomat::Ok<" ++ retTy ++ ">(" ++ e ++ ")"))
        | none => ("diplomat::result<std::monostate, diplomat::Utf8Error>", some "diplomat::Ok<std::monostate>()")
    let retExpr := retExpr.map stripMove
    let qual := match m.self with
      | some s => if (s.byRef && !s.mutable) || !s.byRef then "const " else ""
      | none => ""
    some ("inline " ++ retTy ++ " " ++ owner ++ "::" ++ m.name ++ "(" ++ ", ".intercalate decls ++ ") " ++ qual ++ "{ "
      ++ String.join (guarded.map fun p => validation p.1 ++ " ")
      ++ (if hasWriteParam m then "std::string output; diplomat::capi::DiplomatWrite write = diplomat::WriteFromString(output); " else "")
      ++ (if ffiUnit ret then "" else "auto result = ")
      ++ "diplomat::capi::" ++ abiName pfx owner m.name ++ "(" ++ ", ".intercalate args ++ ");"
      ++ (match retExpr with | some e => " return " ++ e ++ ";" | none => "")
      ++ " }")
  | _, _, _, _ => none

/-- `struct_impl.h.jinja`: the field-wise conversions of a struct to and from its C mirror -/
def structConv (env : Env) (n : String) (fields : List (String × TyName)) : Option (List String) :=
  if fields.isEmpty then some [] else
  match optMapM (fun f : String × TyName => (cppToC env f.2 f.1).map fun e => "/* ." ++ f.1 ++ " = */ " ++ e ++ ",") fields,
        optMapM (fun f : String × TyName => (cToCpp env f.2 ("c_struct." ++ f.1)).map fun e => "/* ." ++ f.1 ++ " = */ " ++ e ++ ",") fields with
  | some to, some from_ =>
    some ["inline diplomat::capi::" ++ n ++ " " ++ n ++ "::AsFFI() const { return diplomat::capi::" ++ n ++ " { " ++ " ".intercalate to ++ " }; }",
          "inline " ++ n ++ " " ++ n ++ "::FromFFI(diplomat::capi::" ++ n ++ " c_struct) { return " ++ n ++ " { " ++ " ".intercalate from_ ++ " }; }"]
  | _, _ => none

/-- `(c02cpp PREFIX DECL…)` → `cpp/Type.hpp => text` per method, ` ;; `-separated -/
def runLine (line : String) : String :=
  match Sexp.parse line with
  | some (.list (.atom "c02cpp" :: .atom pfx :: ds)) =>
    match optMapM parseDeclA ds with
    | some ds =>
      let env : Env := ds.map fun d => (d.name, d.def_)
      " ;; ".intercalate (ds.flatMap fun d =>
        (d.methods.map fun m =>
          "cpp/" ++ d.name ++ ".hpp => " ++ (methodImpl env (if pfx == "-" then "" else pfx) d.name m).getD "<unrenderable>")
        ++ (match d.def_ with
            | .struct _ fields => ((structConv env d.name fields).getD ["<unrenderable>"]).map fun t => "cpp/" ++ d.name ++ ".hpp => " ++ t
            | _ => []))
    | none => "bad-case"
  | _ => "bad-case"

end DiplomatModel.CppMethod
