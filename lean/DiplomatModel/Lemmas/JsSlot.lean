import DiplomatModel.JsSlot
import DiplomatModel.Lemmas.Wire
import DiplomatModel.Props.C08
namespace DiplomatModel.JsSlot
open DiplomatModel.Wire DiplomatModel.JsLayout

/-- rounding up by `div_ceil` and by adding the padding are the same number -/
theorem divCeil_mul (p a : Nat) (ha : 0 < a) : divCeil p a * a = roundUp p a := by
  unfold divCeil roundUp padTo
  have hd : a * (p / a) + p % a = p := Nat.div_add_mod p a
  have hr : p % a < a := Nat.mod_lt p ha
  generalize hq : p / a = q at hd
  generalize hrr : p % a = r at hd hr
  by_cases h0 : r = 0
  · subst h0
    have hp : p + a - 1 = a * q + (a - 1) := by omega
    have hz : (a - 1) / a = 0 := Nat.div_eq_of_lt (by omega)
    rw [hp, Nat.mul_add_div ha, hz, Nat.sub_zero, Nat.mod_self, Nat.add_zero, Nat.add_zero, Nat.mul_comm]
    omega
  · have hm : a * (q + 1) = a * q + a := by rw [Nat.mul_add, Nat.mul_one]
    have hp : p + a - 1 = a * (q + 1) + (r - 1) := by rw [hm]; omega
    have hz : (r - 1) / a = 0 := Nat.div_eq_of_lt (by omega)
    have hmod : (a - r) % a = a - r := Nat.mod_eq_of_lt (by omega)
    rw [hp, Nat.mul_add_div ha, hz, hmod, Nat.add_zero, Nat.mul_comm, hm]
    omega

theorem roundUp_of_mod_zero (p a : Nat) (h : p % a = 0) : roundUp p a = p := by
  unfold roundUp padTo
  rw [h]; simp

/-- every boundary type's size is a multiple of its alignment (C08's repr(C) characterisation for structs) -/
theorem size_mod_align : ∀ (t : WTy), t.WF → size t % align t = 0
  | .unit, _ => by simp [size, align, sizeAlign]
  | .scalar s, _ => by simp [size, align, sizeAlign]
  | .struct fs, h => by
    simp only [WTy.WF] at h
    have hne : layouts fs ≠ [] := layouts_ne fs h.1
    have := (DiplomatModel.Props.C08.size_is_rounded_end (layouts fs) hne (layouts_pos fs h.2)).1
    simpa [size, align, sizeAlign] using this
  | .result ok err, h => by
    have hp : 0 < align (.result ok err) := align_pos _ h
    simp only [size, align, sizeAlign] at hp ⊢
    exact (pad_spec _ _ hp).1

end DiplomatModel.JsSlot
