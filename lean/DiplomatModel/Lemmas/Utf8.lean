import DiplomatModel.Utf8
namespace DiplomatModel.Utf8

theorem valid_enc_append (c : Nat) (hc : isScalar c) (rest : List Nat) :
    validUtf8 (enc c ++ rest) = validUtf8 rest := by
  unfold isScalar at hc
  unfold enc
  split
  · show validUtf8 (c :: rest) = validUtf8 rest
    conv => lhs; unfold validUtf8
    simp [*]
  · split
    · have h1 : ¬ (0xC0 + c / 64 < 0x80) := by omega
      have h2 : 0xC2 ≤ 0xC0 + c / 64 ∧ 0xC0 + c / 64 ≤ 0xDF := by omega
      simp [validUtf8, cont, h1, h2]; omega
    · split
      · have h1 : ¬ (0xE0 + c / 4096 < 0x80) := by omega
        have h2 : ¬ (0xC2 ≤ 0xE0 + c / 4096 ∧ 0xE0 + c / 4096 ≤ 0xDF) := by omega
        have h3 : 0xE0 ≤ 0xE0 + c / 4096 ∧ 0xE0 + c / 4096 ≤ 0xEF := by omega
        simp only [List.cons_append, List.nil_append, validUtf8, h1, h2, h3, if_true, if_false, and_self]
        have hb2 : cont (0x80 + c % 64) = true := by simp [cont]; omega
        rw [hb2]
        simp [cont]
        intro _
        (repeat' split) <;> omega
      · have h1 : ¬ (0xF0 + c / 262144 < 0x80) := by omega
        have h2 : ¬ (0xC2 ≤ 0xF0 + c / 262144 ∧ 0xF0 + c / 262144 ≤ 0xDF) := by omega
        have h3 : ¬ (0xE0 ≤ 0xF0 + c / 262144 ∧ 0xF0 + c / 262144 ≤ 0xEF) := by omega
        have h4 : 0xF0 ≤ 0xF0 + c / 262144 ∧ 0xF0 + c / 262144 ≤ 0xF4 := by omega
        simp only [List.cons_append, List.nil_append, validUtf8, h1, h2, h3, h4, if_true, if_false, and_self]
        have hb2 : cont (0x80 + (c / 64) % 64) = true := by simp [cont]; omega
        have hb3 : cont (0x80 + c % 64) = true := by simp [cont]; omega
        rw [hb2, hb3]
        simp [cont]
        intro _
        (repeat' split) <;> omega

theorem complete (bs : List Nat) (h : IsUtf8 bs) : validUtf8 bs = true := by
  obtain ⟨cs, hs, rfl⟩ := h
  induction cs with
  | nil => simp [validUtf8]
  | cons c cs ih =>
    simp only [List.flatMap_cons]
    rw [valid_enc_append c (hs c (by simp))]
    exact ih (fun c hc => hs c (by simp [hc]))

theorem isUtf8_cons (c : Nat) (hc : isScalar c) (bs : List Nat) (h : IsUtf8 bs) :
    IsUtf8 (enc c ++ bs) := by
  obtain ⟨cs, hs, rfl⟩ := h
  refine ⟨c :: cs, ?_, by simp⟩
  intro x hx
  rcases List.mem_cons.mp hx with h | h
  · subst h; exact hc
  · exact hs x h

set_option maxRecDepth 4000 in
theorem sound : ∀ (n : Nat) (bs : List Nat), bs.length ≤ n → validUtf8 bs = true → IsUtf8 bs := by
  intro n
  induction n with
  | zero =>
    intro bs hl _
    have : bs = [] := List.eq_nil_of_length_eq_zero (by omega)
    subst this; exact ⟨[], by simp, rfl⟩
  | succ n ih =>
    intro bs hl hv
    match bs, hl, hv with
    | [], _, _ => exact ⟨[], by simp, rfl⟩
    | b0 :: rest, hl, hv =>
      unfold validUtf8 at hv
      split at hv
      next h0 =>
        have := isUtf8_cons b0 (by unfold isScalar; omega) rest (ih rest (by simp at hl; omega) hv)
        simpa [enc, h0] using this
      next h0 =>
        split at hv
        next h1 =>
          match rest, hl, hv with
          | [], _, hv => simp at hv
          | b1 :: r, hl, hv =>
            simp [cont] at hv
            obtain ⟨⟨ha, hb⟩, hr⟩ := hv
            have hsc : isScalar ((b0 - 0xC0) * 64 + (b1 - 0x80)) := by unfold isScalar; omega
            have := isUtf8_cons _ hsc r (ih r (by simp at hl; omega) hr)
            have he : enc ((b0 - 0xC0) * 64 + (b1 - 0x80)) = [b0, b1] := by
              unfold enc
              have c1 : ¬ ((b0 - 0xC0) * 64 + (b1 - 0x80) < 0x80) := by omega
              have c2 : (b0 - 0xC0) * 64 + (b1 - 0x80) < 0x800 := by omega
              simp only [c1, c2, if_true, if_false]
              congr 1
              · omega
              · congr 1; omega
            rw [he] at this; exact this
        next h1 =>
          split at hv
          next h2 =>
            match rest, hl, hv with
            | [], _, hv => simp at hv
            | [_], _, hv => simp at hv
            | b1 :: b2 :: r, hl, hv =>
              simp [cont] at hv
              obtain ⟨⟨hb1, hb2a, hb2b⟩, hr⟩ := hv
              have hb1' : 0x80 ≤ b1 ∧ b1 ≤ 0xBF ∧ (b0 = 0xE0 → 0xA0 ≤ b1) ∧ (b0 = 0xED → b1 ≤ 0x9F) := by
                split at hb1
                · omega
                · split at hb1 <;> omega
              have hsc : isScalar ((b0 - 0xE0) * 4096 + (b1 - 0x80) * 64 + (b2 - 0x80)) := by
                unfold isScalar; omega
              have := isUtf8_cons _ hsc r (ih r (by simp at hl; omega) hr)
              have he : enc ((b0 - 0xE0) * 4096 + (b1 - 0x80) * 64 + (b2 - 0x80)) = [b0, b1, b2] := by
                unfold enc
                have c1 : ¬ ((b0 - 0xE0) * 4096 + (b1 - 0x80) * 64 + (b2 - 0x80) < 0x80) := by omega
                have c2 : ¬ ((b0 - 0xE0) * 4096 + (b1 - 0x80) * 64 + (b2 - 0x80) < 0x800) := by omega
                have c3 : (b0 - 0xE0) * 4096 + (b1 - 0x80) * 64 + (b2 - 0x80) < 0x10000 := by omega
                simp only [c1, c2, c3, if_true, if_false]
                congr 1
                · omega
                · congr 1
                  · omega
                  · congr 1; omega
              rw [he] at this; exact this
          next h2 =>
            split at hv
            next h3 =>
              match rest, hl, hv with
              | [], _, hv => simp at hv
              | [_], _, hv => simp at hv
              | [_, _], _, hv => simp at hv
              | b1 :: b2 :: d3 :: r, hl, hv =>
                simp [cont] at hv
                obtain ⟨⟨⟨hb1, hb2a, hb2b⟩, hb3a, hb3b⟩, hr⟩ := hv
                have hb1' : 0x80 ≤ b1 ∧ b1 ≤ 0xBF ∧ (b0 = 0xF0 → 0x90 ≤ b1) ∧ (b0 = 0xF4 → b1 ≤ 0x8F) := by
                  split at hb1
                  · omega
                  · split at hb1 <;> omega
                have hsc : isScalar ((b0 - 0xF0) * 262144 + (b1 - 0x80) * 4096 + (b2 - 0x80) * 64 + (d3 - 0x80)) := by
                  unfold isScalar; omega
                have := isUtf8_cons _ hsc r (ih r (by simp at hl; omega) hr)
                have he : enc ((b0 - 0xF0) * 262144 + (b1 - 0x80) * 4096 + (b2 - 0x80) * 64 + (d3 - 0x80)) = [b0, b1, b2, d3] := by
                  unfold enc
                  have c1 : ¬ ((b0 - 0xF0) * 262144 + (b1 - 0x80) * 4096 + (b2 - 0x80) * 64 + (d3 - 0x80) < 0x80) := by omega
                  have c2 : ¬ ((b0 - 0xF0) * 262144 + (b1 - 0x80) * 4096 + (b2 - 0x80) * 64 + (d3 - 0x80) < 0x800) := by omega
                  have c3 : ¬ ((b0 - 0xF0) * 262144 + (b1 - 0x80) * 4096 + (b2 - 0x80) * 64 + (d3 - 0x80) < 0x10000) := by omega
                  simp only [c1, c2, c3, if_false]
                  congr 1
                  · omega
                  · congr 1
                    · omega
                    · congr 1
                      · omega
                      · congr 1; omega
                rw [he] at this; exact this
            next h3 => simp at hv

end DiplomatModel.Utf8
