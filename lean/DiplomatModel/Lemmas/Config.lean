import DiplomatModel.Config
namespace DiplomatModel.Config

def Lang.scoped : Lang → Bool
  | .kotlin | .demoGen | .nanobind | .js => true
  | .other _ => false

theorem lastOf_nil (k : Key) : lastOf [] k = none := rfl

theorem lastOf_cons (es : List (Key × Val)) (k k' : Key) (v : Val) :
    lastOf ((k', v) :: es) k = (lastOf es k).or (if k' = k then some v else none) := rfl

theorem lastOf_append (a b : List (Key × Val)) (k : Key) :
    lastOf (a ++ b) k = (lastOf b k).or (lastOf a k) := by
  induction a with
  | nil => simp [lastOf_nil]
  | cons x xs ih =>
    obtain ⟨k', v⟩ := x
    rw [List.cons_append, lastOf_cons, lastOf_cons, ih]
    cases lastOf b k <;> simp

/-- the spec really is "last matching entry" -/
theorem lastOf_eq_filter (es : List (Key × Val)) (k : Key) :
    lastOf es k = ((es.filter fun e => e.1 = k).getLast?).map (·.2) := by
  induction es with
  | nil => rfl
  | cons x xs ih =>
    obtain ⟨k', v⟩ := x
    rw [lastOf_cons, ih]
    by_cases h : k' = k
    · simp only [List.filter_cons, h, decide_true, if_true]
      cases hf : List.filter (fun e => decide (e.1 = k)) xs with
      | nil => simp
      | cons y ys =>
        rw [List.getLast?_cons_cons]
        have : ∃ z, (y :: ys).getLast? = some z := by
          cases hh : (y :: ys).getLast? with
          | none => simp at hh
          | some z => exact ⟨z, rfl⟩
        obtain ⟨z, hz⟩ := this
        simp [hz]
    · simp [List.filter_cons, h]

/-- one `Config::set`: what happens to the unscoped `lib_name` -/
theorem set_libName (c c' : Config) (k : Key) (v : Val) (h : set c k v = some c') :
    c'.libName.map Val.str = if k = ⟨none, .libName⟩ then some v else c.libName.map Val.str := by
  obtain ⟨sc, n⟩ := k
  cases sc with
  | none =>
    cases n <;> simp [set, sharedSet] at h <;> try (subst h; simp)
    all_goals (cases v <;> simp at h; subst h; simp)
  | some l =>
    cases l <;> cases n <;> simp [set, Name.isShared, kotlinSet, demoSet, jsSet] at h <;> subst h <;> simp <;>
      (try split) <;> simp

theorem set_unsafeRefs (c c' : Config) (k : Key) (v : Val) (h : set c k v = some c') :
    c'.unsafeRefs.map Val.bool = if k = ⟨none, .unsafeRefs⟩ then some v else c.unsafeRefs.map Val.bool := by
  obtain ⟨sc, n⟩ := k
  cases sc with
  | none =>
    cases n <;> simp [set, sharedSet] at h <;> try (subst h; simp)
    all_goals (cases v <;> simp at h; subst h; simp)
  | some l =>
    cases l <;> cases n <;> simp [set, Name.isShared, kotlinSet, demoSet, jsSet] at h <;> subst h <;> simp <;>
      (try split) <;> simp

end DiplomatModel.Config

namespace DiplomatModel.Config

theorem lookup_insertOverride (os : List ((Lang × Name) × Val)) (k k' : Lang × Name) (v : Val) :
    lookupOverride (insertOverride os k v) k' = if k = k' then some v else lookupOverride os k' := by
  unfold lookupOverride insertOverride
  induction os with
  | nil =>
    by_cases h : k = k' <;> simp [h]
  | cons x xs ih =>
    by_cases hx : x.1 = k
    · -- x is filtered out
      have : List.filter (fun p => decide (p.1 ≠ k)) (x :: xs) = List.filter (fun p => decide (p.1 ≠ k)) xs := by
        simp [List.filter_cons, hx]
      rw [this, ih]
      by_cases h : k = k'
      · simp [h]
      · have hx' : ¬ x.1 = k' := by rw [hx]; exact h
        simp [h, List.find?_cons, hx']
    · have : List.filter (fun p => decide (p.1 ≠ k)) (x :: xs) = x :: List.filter (fun p => decide (p.1 ≠ k)) xs := by
        simp [List.filter_cons, hx]
      rw [this, List.cons_append, List.find?_cons, List.find?_cons]
      by_cases hx' : x.1 = k'
      · have hne : ¬ k = k' := by intro e; apply hx; rw [e]; exact hx'
        simp [hx', hne]
      · simp only [hx', decide_false]
        exact ih

/-- one `Config::set`: what happens to the stored language overrides -/
theorem set_override (c c' : Config) (k : Key) (v : Val) (h : set c k v = some c') (l : Lang) (n : Name)
    (hl : l.scoped = true) (hn : n.isShared = true) :
    lookupOverride c'.overrides (l, n) = if k = ⟨some l, n⟩ then some v else lookupOverride c.overrides (l, n) := by
  obtain ⟨sc, m⟩ := k
  cases sc with
  | none =>
    have hk : ¬ ((⟨none, m⟩ : Key) = ⟨some l, n⟩) := by simp
    rw [if_neg hk]
    cases m <;> simp [set, sharedSet] at h <;> try (subst h; rfl)
    all_goals (cases v <;> simp at h; subst h; rfl)
  | some l' =>
    cases l' with
    | other s =>
      simp [set] at h; subst h
      have hk : ¬ ((⟨some (.other s), m⟩ : Key) = ⟨some l, n⟩) := by
        intro e; injection e with e1 e2; injection e1 with e1; subst e1; simp [Lang.scoped] at hl
      rw [if_neg hk]
    | kotlin =>
      by_cases hm : m.isShared = true
      · simp only [set, hm, if_true] at h
        injection h with h; subst h
        simp only [lookup_insertOverride]
        split
        next e =>
          injection e with e1 e2; subst e1; subst e2; simp
        next e =>
          have : ¬ ((⟨some Lang.kotlin, m⟩ : Key) = ⟨some l, n⟩) := by
            intro e'; injection e' with e1 e2; injection e1 with e1; apply e; rw [e1, e2]
          simp [this]
      · have hne : m ≠ n := by intro e; subst e; exact hm hn
        have hk : ¬ ((⟨some Lang.kotlin, m⟩ : Key) = ⟨some l, n⟩) := by
          intro e'; injection e' with _ e2; exact hne e2
        rw [if_neg hk]
        have hm' : m.isShared = false := by simpa using hm
        simp only [set, hm', Bool.false_eq_true, if_false] at h
        injection h with h; subst h
        cases m <;> simp [Name.isShared] at hm' <;> simp [kotlinSet, demoSet, jsSet] <;> (try split) <;> rfl
    | demoGen =>
      by_cases hm : m.isShared = true
      · simp only [set, hm, if_true] at h
        injection h with h; subst h
        simp only [lookup_insertOverride]
        split
        next e =>
          injection e with e1 e2; subst e1; subst e2; simp
        next e =>
          have : ¬ ((⟨some Lang.demoGen, m⟩ : Key) = ⟨some l, n⟩) := by
            intro e'; injection e' with e1 e2; injection e1 with e1; apply e; rw [e1, e2]
          simp [this]
      · have hne : m ≠ n := by intro e; subst e; exact hm hn
        have hk : ¬ ((⟨some Lang.demoGen, m⟩ : Key) = ⟨some l, n⟩) := by
          intro e'; injection e' with _ e2; exact hne e2
        rw [if_neg hk]
        have hm' : m.isShared = false := by simpa using hm
        simp only [set, hm', Bool.false_eq_true, if_false] at h
        injection h with h; subst h
        cases m <;> simp [Name.isShared] at hm' <;> simp [kotlinSet, demoSet, jsSet] <;> (try split) <;> rfl
    | nanobind =>
      by_cases hm : m.isShared = true
      · simp only [set, hm, if_true] at h
        injection h with h; subst h
        simp only [lookup_insertOverride]
        split
        next e =>
          injection e with e1 e2; subst e1; subst e2; simp
        next e =>
          have : ¬ ((⟨some Lang.nanobind, m⟩ : Key) = ⟨some l, n⟩) := by
            intro e'; injection e' with e1 e2; injection e1 with e1; apply e; rw [e1, e2]
          simp [this]
      · have hne : m ≠ n := by intro e; subst e; exact hm hn
        have hk : ¬ ((⟨some Lang.nanobind, m⟩ : Key) = ⟨some l, n⟩) := by
          intro e'; injection e' with _ e2; exact hne e2
        rw [if_neg hk]
        have hm' : m.isShared = false := by simpa using hm
        simp only [set, hm', Bool.false_eq_true, if_false] at h
        injection h with h; subst h
        cases m <;> simp [Name.isShared] at hm' <;> simp [kotlinSet, demoSet, jsSet] <;> (try split) <;> rfl
    | js =>
      by_cases hm : m.isShared = true
      · simp only [set, hm, if_true] at h
        injection h with h; subst h
        simp only [lookup_insertOverride]
        split
        next e =>
          injection e with e1 e2; subst e1; subst e2; simp
        next e =>
          have : ¬ ((⟨some Lang.js, m⟩ : Key) = ⟨some l, n⟩) := by
            intro e'; injection e' with e1 e2; injection e1 with e1; apply e; rw [e1, e2]
          simp [this]
      · have hne : m ≠ n := by intro e; subst e; exact hm hn
        have hk : ¬ ((⟨some Lang.js, m⟩ : Key) = ⟨some l, n⟩) := by
          intro e'; injection e' with _ e2; exact hne e2
        rw [if_neg hk]
        have hm' : m.isShared = false := by simpa using hm
        simp only [set, hm', Bool.false_eq_true, if_false] at h
        injection h with h; subst h
        cases m <;> simp [Name.isShared] at hm' <;> simp [kotlinSet, demoSet, jsSet] <;> (try split) <;> rfl

end DiplomatModel.Config

namespace DiplomatModel.Config

theorem or_step {α} (a : Option α) (p : Prop) [Decidable p] (v : α) (z : Option α) :
    a.or (if p then some v else z) = (a.or (if p then some v else none)).or z := by
  cases a <;> by_cases h : p <;> simp [h]

/-- after all `set`s: unscoped shared settings hold the last unscoped entry, and the override store
    holds the last scoped entry for each (language, shared name) -/
theorem setAll_spec (es : List (Key × Val)) (c0 c : Config) (h : setAll c0 es = some c) :
    c.libName.map Val.str = (lastOf es ⟨none, .libName⟩).or (c0.libName.map Val.str)
    ∧ c.unsafeRefs.map Val.bool = (lastOf es ⟨none, .unsafeRefs⟩).or (c0.unsafeRefs.map Val.bool)
    ∧ ∀ l n, l.scoped = true → n.isShared = true →
        lookupOverride c.overrides (l, n) = (lastOf es ⟨some l, n⟩).or (lookupOverride c0.overrides (l, n)) := by
  induction es generalizing c0 with
  | nil => simp [setAll] at h; subst h; simp [lastOf]
  | cons x r ih =>
    obtain ⟨k, v⟩ := x
    simp only [setAll] at h
    cases hs : set c0 k v with
    | none => simp [hs] at h
    | some c1 =>
      simp only [hs] at h
      obtain ⟨i1, i2, i3⟩ := ih c1 h
      refine ⟨?_, ?_, ?_⟩
      · rw [i1, set_libName c0 c1 k v hs, lastOf_cons]; exact or_step _ _ _ _
      · rw [i2, set_unsafeRefs c0 c1 k v hs, lastOf_cons]; exact or_step _ _ _ _
      · intro l n hl hn
        rw [i3 l n hl hn, set_override c0 c1 k v hs l n hl hn, lastOf_cons]; exact or_step _ _ _ _

theorem sharedSet_libName (c c' : Config) (v : Val) (h : sharedSet c .libName v = some c') :
    c'.libName.map Val.str = some v ∧ c'.unsafeRefs = c.unsafeRefs ∧ c'.overrides = c.overrides := by
  cases v <;> simp [sharedSet] at h; subst h; simp

theorem sharedSet_unsafeRefs (c c' : Config) (v : Val) (h : sharedSet c .unsafeRefs v = some c') :
    c'.unsafeRefs.map Val.bool = some v ∧ c'.libName = c.libName ∧ c'.overrides = c.overrides := by
  cases v <;> simp [sharedSet] at h; subst h; simp

/-- `get_overridden`: a stored override for the target replaces the shared value, otherwise it stays -/
theorem getOverridden_spec (c c' : Config) (t : Lang) (h : getOverridden c t = some c') :
    c'.libName.map Val.str = (lookupOverride c.overrides (t, .libName)).or (c.libName.map Val.str)
    ∧ c'.unsafeRefs.map Val.bool = (lookupOverride c.overrides (t, .unsafeRefs)).or (c.unsafeRefs.map Val.bool) := by
  unfold getOverridden at h
  simp only at h
  cases h1 : lookupOverride c.overrides (t, .libName) with
  | none =>
    simp only [h1] at h
    cases h2 : lookupOverride c.overrides (t, .unsafeRefs) with
    | none => simp only [h2] at h; injection h with h; subst h; simp
    | some v2 =>
      simp only [h2] at h
      obtain ⟨a, b, _⟩ := sharedSet_unsafeRefs c c' v2 h
      simp [a, b]
  | some v1 =>
    simp only [h1] at h
    cases hs : sharedSet c .libName v1 with
    | none => simp [hs] at h
    | some c1 =>
      simp only [hs] at h
      obtain ⟨a1, b1, o1⟩ := sharedSet_libName c c1 v1 hs
      rw [o1] at h
      cases h2 : lookupOverride c.overrides (t, .unsafeRefs) with
      | none => simp only [h2] at h; injection h with h; subst h; simp [a1, b1]
      | some v2 =>
        simp only [h2] at h
        obtain ⟨a, b, _⟩ := sharedSet_unsafeRefs c1 c' v2 h
        simp [a, b, a1, b1]

end DiplomatModel.Config

namespace DiplomatModel.Config

/-- nothing is ever stored under an unknown language -/
theorem set_noOther (c c' : Config) (k : Key) (v : Val) (h : set c k v = some c') (s : String) (n : Name)
    (h0 : lookupOverride c.overrides (.other s, n) = none) : lookupOverride c'.overrides (.other s, n) = none := by
  obtain ⟨sc, m⟩ := k
  cases sc with
  | none =>
    cases m <;> simp [set, sharedSet] at h <;> try (subst h; exact h0)
    all_goals (cases v <;> simp at h; subst h; exact h0)
  | some l' =>
    cases l' <;> simp only [set] at h
    case other => injection h with h; subst h; exact h0
    all_goals (
      by_cases hm : m.isShared = true
      · simp only [hm, if_true] at h
        injection h with h; subst h
        simp only [lookup_insertOverride]
        rw [if_neg (by simp)]
        exact h0
      · have hm' : m.isShared = false := by simpa using hm
        simp only [hm', Bool.false_eq_true, if_false] at h
        injection h with h; subst h
        cases m <;> (try simp only [kotlinSet, demoSet, jsSet]) <;> (try split) <;> exact h0)

theorem setAll_noOther (es : List (Key × Val)) (c0 c : Config) (h : setAll c0 es = some c) (s : String) (n : Name)
    (h0 : lookupOverride c0.overrides (.other s, n) = none) : lookupOverride c.overrides (.other s, n) = none := by
  induction es generalizing c0 with
  | nil => simp [setAll] at h; subst h; exact h0
  | cons x r ih =>
    obtain ⟨k, v⟩ := x
    simp only [setAll] at h
    cases hs : set c0 k v with
    | none => simp [hs] at h
    | some c1 =>
      simp only [hs] at h
      exact ih c1 h (set_noOther c0 c1 k v hs s n h0)

end DiplomatModel.Config
