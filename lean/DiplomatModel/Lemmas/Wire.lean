import DiplomatModel.Wire
import DiplomatModel.Lemmas.JsLayout
namespace DiplomatModel.Wire
open DiplomatModel.JsLayout DiplomatModel.Memory

theorem le_roundUp (n a : Nat) : n ≤ roundUp n a := Nat.le_add_right _ _

/-- the fields sit at their offsets in order, without overlap, and end by `limit` -/
def Fits : Nat → List WTy → List Nat → Nat → Prop
  | next, [], [], limit => next ≤ limit
  | next, t :: ts, o :: os, limit => next ≤ o ∧ Fits (o + size t) ts os limit
  | _, _, _, _ => False

theorem fits_offsetsFrom (ts : List WTy) (next : Nat) :
    Fits next ts (offsetsFrom next (layouts ts)) (endFrom next (layouts ts)) := by
  induction ts generalizing next with
  | nil => simp [layouts, offsetsFrom, endFrom, Fits]
  | cons t ts ih =>
    simp only [layouts, offsetsFrom, endFrom, Fits]
    exact ⟨Nat.le_add_right _ _, ih _⟩

theorem fits_mono (ts : List WTy) (os : List Nat) (next l1 l2 : Nat) (h : Fits next ts os l1) (hl : l1 ≤ l2) :
    Fits next ts os l2 := by
  induction ts generalizing os next with
  | nil => cases os <;> simp [Fits] at h ⊢; omega
  | cons t ts ih =>
    cases os with
    | nil => simp [Fits] at h
    | cons o os => exact ⟨h.1, ih os _ h.2⟩

theorem fits_end (ts : List WTy) (os : List Nat) (next limit : Nat) (h : Fits next ts os limit) : next ≤ limit := by
  induction ts generalizing os next with
  | nil => cases os <;> simp [Fits] at h; exact h
  | cons t ts ih =>
    cases os with
    | nil => simp [Fits] at h
    | cons o os =>
      have := ih os _ h.2
      have := h.1
      omega

mutual
theorem align_pos : ∀ (t : WTy), t.WF → 0 < align t
  | .unit, _ => by simp [align, sizeAlign]
  | .scalar s, h => by
    simp only [WTy.WF] at h
    simp only [align, sizeAlign]; omega
  | .struct fs, h => by
    simp only [WTy.WF] at h
    have hpos := layouts_pos fs h.2
    have hne : layouts fs ≠ [] := by
      cases fs with
      | nil => exact absurd rfl h.1
      | cons t ts => simp [layouts]
    simp only [align, sizeAlign]
    have hal : (fieldInfoOf (layouts fs)).align = maxAlignFrom 0 (layouts fs) := by
      unfold fieldInfoOf
      have he : (layouts fs).isEmpty = false := by cases hl : layouts fs <;> simp_all
      simp only [he, Bool.false_eq_true, if_false]
      exact (foldl_step (layouts fs) ⟨0, 0, 1, [], .zst⟩).2.2
    rw [hal]
    cases hl : layouts fs with
    | nil => exact absurd hl hne
    | cons f r =>
      have h1 := (maxAlignFrom_ge (f :: r) 0).2 f (by simp)
      have h2 := hpos f (by rw [hl]; simp)
      omega
  | .result ok err, h => by
    simp only [WTy.WF] at h
    have := align_pos ok h.1
    simp only [align, sizeAlign] at this ⊢
    omega
theorem layouts_pos : ∀ (ts : List WTy), WFList ts → ∀ f ∈ layouts ts, 0 < f.2.1
  | [], _ => by simp [layouts]
  | t :: ts, h => by
    simp only [WFList] at h
    intro f hf
    simp only [layouts, List.mem_cons] at hf
    rcases hf with rfl | hf
    · exact align_pos t h.1
    · exact layouts_pos ts h.2 f hf
end

theorem layouts_ne (fs : List WTy) (h : fs ≠ []) : layouts fs ≠ [] := by
  cases fs with
  | nil => exact absurd rfl h
  | cons t ts => simp [layouts]

/-- the fields of a well-formed struct fit inside it -/
theorem struct_fits (fs : List WTy) (hne : fs ≠ []) (hwf : WFList fs) :
    Fits 0 fs (offsets fs) (size (.struct fs)) := by
  have hl := layouts_ne fs hne
  have hpos := layouts_pos fs hwf
  have ho : offsets fs = offsetsFrom 0 (layouts fs) := by
    unfold offsets fieldInfoOf
    have he : (layouts fs).isEmpty = false := by cases hl' : layouts fs <;> simp_all
    simp only [he, Bool.false_eq_true, if_false]
    obtain ⟨h1, _, _⟩ := foldl_step (layouts fs) ⟨0, 0, 1, [], .zst⟩
    split
    · rw [setLastPadding_offsets, h1]; simp
    · rw [h1]; simp
  rw [ho]
  apply fits_mono _ _ _ _ _ (fits_offsetsFrom fs 0)
  -- the struct's size covers the end of the last field
  simp only [size, sizeAlign]
  unfold fieldInfoOf
  have he : (layouts fs).isEmpty = false := by cases hl' : layouts fs <;> simp_all
  simp only [he, Bool.false_eq_true, if_false]
  obtain ⟨_, h2, _⟩ := foldl_step (layouts fs) ⟨0, 0, 1, [], .zst⟩
  simp only at h2
  rw [h2]
  exact Nat.le_add_right _ _

theorem size_result (ok err : WTy) : flagOffset ok err + 1 ≤ size (.result ok err) := by
  simp only [size, sizeAlign, flagOffset, align]
  exact le_roundUp _ _

theorem arm_le_flag (ok err : WTy) : size ok ≤ flagOffset ok err ∧ size err ≤ flagOffset ok err := by
  simp only [flagOffset]
  have := le_roundUp (max (size ok) (size err)) (max (align ok) (align err))
  omega

/-! ### writes stay inside the value -/

mutual
theorem encode_outside : ∀ (t : WTy) (v : WVal) (base : Nat) (m : Mem) (a : Nat), t.WF → WellTyped t v →
    (a < base ∨ base + size t ≤ a) → encode t v base m a = m a
  | .unit, v, base, m, a, _, _, _ => by simp [encode]
  | .scalar s, .scalar bs, base, m, a, _, hw, ha => by
    simp only [WellTyped] at hw
    simp only [encode]
    apply writeAt_outside
    simp only [size, sizeAlign] at ha
    omega
  | .struct fs, .struct vs, base, m, a, hwf, hw, ha => by
    simp only [WTy.WF] at hwf
    simp only [WellTyped] at hw
    simp only [encode]
    exact encodeFields_outside fs vs (offsets fs) base m a 0 (size (.struct fs)) hwf.2 hw (struct_fits fs hwf.1 hwf.2)
      (by rcases ha with ha | ha; exact Or.inl (by omega); exact Or.inr ha)
  | .result ok err, .ok v, base, m, a, hwf, hw, ha => by
    simp only [WTy.WF] at hwf
    simp only [WellTyped] at hw
    simp only [encode]
    have h1 := size_result ok err
    have h2 := arm_le_flag ok err
    rw [writeAt_outside _ _ _ _ (by simp; omega)]
    exact encode_outside ok v base m a hwf.1 hw (by omega)
  | .result ok err, .err v, base, m, a, hwf, hw, ha => by
    simp only [WTy.WF] at hwf
    simp only [WellTyped] at hw
    simp only [encode]
    have h1 := size_result ok err
    have h2 := arm_le_flag ok err
    rw [writeAt_outside _ _ _ _ (by simp; omega)]
    exact encode_outside err v base m a hwf.2 hw (by omega)
  | .scalar _, .unit, _, _, _, _, hw, _ => by simp [WellTyped] at hw
  | .scalar _, .struct _, _, _, _, _, hw, _ => by simp [WellTyped] at hw
  | .scalar _, .ok _, _, _, _, _, hw, _ => by simp [WellTyped] at hw
  | .scalar _, .err _, _, _, _, _, hw, _ => by simp [WellTyped] at hw
  | .struct _, .unit, _, _, _, _, hw, _ => by simp [WellTyped] at hw
  | .struct _, .scalar _, _, _, _, _, hw, _ => by simp [WellTyped] at hw
  | .struct _, .ok _, _, _, _, _, hw, _ => by simp [WellTyped] at hw
  | .struct _, .err _, _, _, _, _, hw, _ => by simp [WellTyped] at hw
  | .result _ _, .unit, _, _, _, _, hw, _ => by simp [WellTyped] at hw
  | .result _ _, .scalar _, _, _, _, _, hw, _ => by simp [WellTyped] at hw
  | .result _ _, .struct _, _, _, _, _, hw, _ => by simp [WellTyped] at hw
theorem encodeFields_outside : ∀ (ts : List WTy) (vs : List WVal) (os : List Nat) (base : Nat) (m : Mem) (a next limit : Nat),
    WFList ts → WellTypedList ts vs → Fits next ts os limit → (a < base + next ∨ base + limit ≤ a) →
    encodeFields ts vs os base m a = m a
  | [], vs, os, base, m, a, next, limit, _, _, _, _ => by simp [encodeFields]
  | t :: ts, [], os, base, m, a, next, limit, _, hw, _, _ => by simp [WellTypedList] at hw
  | t :: ts, v :: vs, [], base, m, a, next, limit, _, _, hf, _ => by simp [Fits] at hf
  | t :: ts, v :: vs, o :: os, base, m, a, next, limit, hwf, hw, hf, ha => by
    simp only [WFList] at hwf
    simp only [WellTypedList] at hw
    simp only [Fits] at hf
    simp only [encodeFields]
    rw [encodeFields_outside ts vs os base _ a (o + size t) limit hwf.2 hw.2 hf.2
      (by rcases ha with ha | ha; exact Or.inl (by omega); exact Or.inr ha)]
    have hlim : o + size t ≤ limit := fits_end ts os _ _ hf.2
    exact encode_outside t v (base + o) m a hwf.1 hw.1 (by rcases ha with ha | ha; exact Or.inl (by omega); exact Or.inr (by omega))
end

/-! ### reads look only inside the value -/

mutual
theorem decode_congr : ∀ (t : WTy) (base : Nat) (m m' : Mem), t.WF →
    (∀ a, base ≤ a → a < base + size t → m a = m' a) → decode t base m = decode t base m'
  | .unit, base, m, m', _, _ => by simp [decode]
  | .scalar s, base, m, m', _, h => by
    simp only [decode]
    congr 1
    exact readAt_congr m m' base s (by simpa [size, sizeAlign] using h)
  | .struct fs, base, m, m', hwf, h => by
    simp only [WTy.WF] at hwf
    simp only [decode]
    congr 1
    exact decodeFields_congr fs (offsets fs) base m m' 0 (size (.struct fs)) hwf.2 (struct_fits fs hwf.1 hwf.2)
      (fun a h1 h2 => h a (by omega) h2)
  | .result ok err, base, m, m', hwf, h => by
    simp only [WTy.WF] at hwf
    have h1 := size_result ok err
    have h2 := arm_le_flag ok err
    simp only [decode]
    rw [h (base + flagOffset ok err) (by omega) (by omega)]
    rw [decode_congr ok base m m' hwf.1 (fun a ha hb => h a ha (by omega)),
        decode_congr err base m m' hwf.2 (fun a ha hb => h a ha (by omega))]
theorem decodeFields_congr : ∀ (ts : List WTy) (os : List Nat) (base : Nat) (m m' : Mem) (next limit : Nat),
    WFList ts → Fits next ts os limit → (∀ a, base + next ≤ a → a < base + limit → m a = m' a) →
    decodeFields ts os base m = decodeFields ts os base m'
  | [], os, base, m, m', next, limit, _, _, _ => by simp [decodeFields]
  | t :: ts, [], base, m, m', next, limit, _, hf, _ => by simp [Fits] at hf
  | t :: ts, o :: os, base, m, m', next, limit, hwf, hf, h => by
    simp only [WFList] at hwf
    simp only [Fits] at hf
    simp only [decodeFields]
    have hlim : o + size t ≤ limit := fits_end ts os _ _ hf.2
    rw [decode_congr t (base + o) m m' hwf.1 (fun a ha hb => h a (by omega) (by omega)),
        decodeFields_congr ts os base m m' (o + size t) limit hwf.2 hf.2 (fun a ha hb => h a (by omega) hb)]
end

/-! ### what is stored is what is loaded -/

theorem decode_result_eq (ok err : WTy) (base : Nat) (m : Mem) :
    decode (.result ok err) base m
      = if m (base + flagOffset ok err) = 0 then .err (decode err base m) else .ok (decode ok base m) := by
  simp only [decode]

theorem encode_ok_eq (ok err : WTy) (v : WVal) (base : Nat) (m : Mem) :
    encode (.result ok err) (.ok v) base m = writeAt (encode ok v base m) (base + flagOffset ok err) [1] := by
  simp only [encode]

theorem encode_err_eq (ok err : WTy) (v : WVal) (base : Nat) (m : Mem) :
    encode (.result ok err) (.err v) base m = writeAt (encode err v base m) (base + flagOffset ok err) [0] := by
  simp only [encode]

mutual
theorem decode_encode : ∀ (t : WTy) (v : WVal) (base : Nat) (m : Mem), t.WF → WellTyped t v →
    decode t base (encode t v base m) = v
  | .unit, .unit, base, m, _, _ => by simp [decode]
  | .scalar s, .scalar bs, base, m, _, hw => by
    simp only [WellTyped] at hw
    simp only [decode, encode]
    rw [← hw, readAt_writeAt_same]
  | .struct fs, .struct vs, base, m, hwf, hw => by
    simp only [WTy.WF] at hwf
    simp only [WellTyped] at hw
    simp only [decode, encode]
    congr 1
    exact decodeFields_encodeFields fs vs (offsets fs) base m 0 (size (.struct fs)) hwf.2 hw (struct_fits fs hwf.1 hwf.2)
  | .result ok err, .ok v, base, m, hwf, hw => by
    simp only [WTy.WF] at hwf
    simp only [WellTyped] at hw
    have h2 := arm_le_flag ok err
    rw [encode_ok_eq, decode_result_eq]
    have hflag : writeAt (encode ok v base m) (base + flagOffset ok err) [1] (base + flagOffset ok err) = 1 := by
      simp [writeAt]
    rw [if_neg (by rw [hflag]; decide)]
    congr 1
    rw [decode_congr ok base _ (encode ok v base m) hwf.1 (fun a ha hb => writeAt_outside _ _ _ a (Or.inl (by omega)))]
    exact decode_encode ok v base m hwf.1 hw
  | .result ok err, .err v, base, m, hwf, hw => by
    simp only [WTy.WF] at hwf
    simp only [WellTyped] at hw
    have h2 := arm_le_flag ok err
    rw [encode_err_eq, decode_result_eq]
    have hflag : writeAt (encode err v base m) (base + flagOffset ok err) [0] (base + flagOffset ok err) = 0 := by
      simp [writeAt]
    rw [if_pos hflag]
    congr 1
    rw [decode_congr err base _ (encode err v base m) hwf.2 (fun a ha hb => writeAt_outside _ _ _ a (Or.inl (by omega)))]
    exact decode_encode err v base m hwf.2 hw
  | .unit, .scalar _, _, _, _, hw => by simp [WellTyped] at hw
  | .unit, .struct _, _, _, _, hw => by simp [WellTyped] at hw
  | .unit, .ok _, _, _, _, hw => by simp [WellTyped] at hw
  | .unit, .err _, _, _, _, hw => by simp [WellTyped] at hw
  | .scalar _, .unit, _, _, _, hw => by simp [WellTyped] at hw
  | .scalar _, .struct _, _, _, _, hw => by simp [WellTyped] at hw
  | .scalar _, .ok _, _, _, _, hw => by simp [WellTyped] at hw
  | .scalar _, .err _, _, _, _, hw => by simp [WellTyped] at hw
  | .struct _, .unit, _, _, _, hw => by simp [WellTyped] at hw
  | .struct _, .scalar _, _, _, _, hw => by simp [WellTyped] at hw
  | .struct _, .ok _, _, _, _, hw => by simp [WellTyped] at hw
  | .struct _, .err _, _, _, _, hw => by simp [WellTyped] at hw
  | .result _ _, .unit, _, _, _, hw => by simp [WellTyped] at hw
  | .result _ _, .scalar _, _, _, _, hw => by simp [WellTyped] at hw
  | .result _ _, .struct _, _, _, _, hw => by simp [WellTyped] at hw
theorem decodeFields_encodeFields : ∀ (ts : List WTy) (vs : List WVal) (os : List Nat) (base : Nat) (m : Mem) (next limit : Nat),
    WFList ts → WellTypedList ts vs → Fits next ts os limit →
    decodeFields ts os base (encodeFields ts vs os base m) = vs
  | [], [], os, base, m, next, limit, _, _, _ => by simp [decodeFields]
  | [], v :: vs, os, base, m, next, limit, _, hw, _ => by simp [WellTypedList] at hw
  | t :: ts, [], os, base, m, next, limit, _, hw, _ => by simp [WellTypedList] at hw
  | t :: ts, v :: vs, [], base, m, next, limit, _, _, hf => by simp [Fits] at hf
  | t :: ts, v :: vs, o :: os, base, m, next, limit, hwf, hw, hf => by
    simp only [WFList] at hwf
    simp only [WellTypedList] at hw
    simp only [Fits] at hf
    simp only [decodeFields, encodeFields]
    congr 1
    · -- the later fields are written above this one
      rw [decode_congr t (base + o) _ (encode t v (base + o) m) hwf.1
        (fun a ha hb => encodeFields_outside ts vs os base _ a (o + size t) limit hwf.2 hw.2 hf.2 (Or.inl (by omega)))]
      exact decode_encode t v (base + o) m hwf.1 hw.1
    · exact decodeFields_encodeFields ts vs os base _ (o + size t) limit hwf.2 hw.2 hf.2
end

end DiplomatModel.Wire

namespace DiplomatModel.Wire
open DiplomatModel.Lower DiplomatModel.AbiGen

theorem optMapM_wf {α : Type} (f : α → Option WTy) (l : List α) (ws : List WTy)
    (h : optMapM f l = some ws) (hf : ∀ a w, f a = some w → w.WF) : WFList ws ∧ ws.length = l.length := by
  induction l generalizing ws with
  | nil => simp [optMapM] at h; subst h; exact ⟨trivial, rfl⟩
  | cons a l ih =>
    simp only [optMapM] at h
    cases ha : f a with
    | none => simp [ha] at h
    | some w =>
      cases hr : optMapM f l with
      | none => simp [ha, hr] at h
      | some r =>
        simp [ha, hr] at h
        subst h
        obtain ⟨h1, h2⟩ := ih r hr
        exact ⟨⟨hf a w ha, h1⟩, by simp [h2]⟩

theorem primSize_wf (p : Prim) (s : Nat) (h : primSize p = some s) : (WTy.scalar s).WF := by
  cases p <;> simp [primSize] at h <;> subst h <;> simp [WTy.WF]

theorem viewW_wf : viewW.WF := by simp [viewW, WTy.WF, WFList]

/-- **Every wire type of a bridge type is well formed** (so the round trip below applies to it). -/
theorem wireOf_wf (env : Env) : ∀ (fuel : Nat) (t : TyName) (w : WTy), wireOf env fuel t = some w → w.WF := by
  intro fuel
  induction fuel with
  | zero => intro t w h; simp [wireOf] at h
  | succ fuel ih =>
    intro t w h
    unfold wireOf at h
    cases t with
    | prim p =>
      simp only [Option.map_eq_some_iff] at h
      obtain ⟨s, hs, rfl⟩ := h
      exact primSize_wf p s hs
    | ordering => simp at h; subst h; simp [WTy.WF]
    | named n =>
      simp only at h
      split at h
      · rename_i out fields _
        split at h
        · simp at h; subst h; trivial
        · rename_i hne
          simp only [Option.map_eq_some_iff] at h
          obtain ⟨ws, hws, rfl⟩ := h
          obtain ⟨h1, h2⟩ := optMapM_wf _ fields ws hws (fun a w hw => ih a.2 w hw)
          refine ⟨?_, h1⟩
          intro h0; subst h0
          simp at h2
          simp [List.length_eq_zero_iff.mp h2.symm] at hne
      · simp at h; subst h; simp [WTy.WF]
      · simp at h
    | ref lt m inner =>
      cases inner <;> simp at h
      obtain ⟨_, rfl⟩ := h; simp [WTy.WF]
    | box inner =>
      cases inner <;> simp at h
      obtain ⟨_, rfl⟩ := h; simp [WTy.WF]
    | opt inner sd =>
      simp only at h
      split at h
      · split at h <;> simp at h
        subst h; simp [WTy.WF]
      · split at h <;> simp at h
        subst h; simp [WTy.WF]
      · simp only [Option.map_eq_some_iff] at h
        obtain ⟨x, hx, rfl⟩ := h
        exact ⟨ih _ x hx, trivial⟩
    | strRef => simp at h; subst h; exact viewW_wf
    | primSlice => simp at h; subst h; exact viewW_wf
    | strSlice => simp at h; subst h; exact viewW_wf
    | fn => simp at h; subst h; simp [WTy.WF, WFList]
    | write => simp at h; subst h; simp [WTy.WF]
    | unit => simp at h; subst h; trivial
    | res => simp at h

end DiplomatModel.Wire
