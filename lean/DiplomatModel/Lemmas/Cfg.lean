import DiplomatModel.Cfg
namespace DiplomatModel.Cfg

mutual
theorem sat_denote (vd : Validator) : ∀ (c : Cfg) (allow : Bool) (b af : Bool),
    sat vd c allow = some (b, af) → b = denote vd c
  | .not c, allow, b, af, h => by
    simp only [sat] at h
    cases hs : sat vd c false with
    | none => simp [hs] at h
    | some r =>
      obtain ⟨b', af'⟩ := r
      simp [hs] at h
      have := sat_denote vd c false b' af' hs
      simp [denote, ← this, h.1]
  | .any cs, allow, b, af, h => by
    simp only [sat] at h
    simpa [denote] using satAny_denote vd cs allow b af h
  | .all cs, allow, b, af, h => by
    simp only [sat] at h
    simpa [denote] using satAll_denote vd cs b af h
  | .star, _, b, af, h => by simp [sat] at h; simp [denote, h.1]
  | .auto, allow, b, af, h => by
    simp only [sat] at h
    split at h <;> simp at h
    simp [denote, h.1]
  | .backend n, _, b, af, h => by simp [sat] at h; simp [denote, h.1]
  | .nameValue n v, _, b, af, h => by
    simp only [sat] at h
    cases hv : vd.isNameValue n v with
    | none => simp [hv] at h
    | some x => simp [hv] at h; simp [denote, hv, h.1]
theorem satAny_denote (vd : Validator) : ∀ (cs : List Cfg) (allow : Bool) (b af : Bool),
    satAny vd cs allow = some (b, af) → b = denoteAny vd cs
  | [], _, b, af, h => by simp [satAny] at h; simp [denoteAny, h.1]
  | c :: cs, allow, b, af, h => by
    simp only [satAny] at h
    cases hs : sat vd c allow with
    | none => simp [hs] at h
    | some r =>
      obtain ⟨b', af'⟩ := r
      have hd := sat_denote vd c allow b' af' hs
      cases b' with
      | true =>
        simp [hs] at h
        simp [denoteAny, ← hd, h.1]
      | false =>
        simp only [hs] at h
        cases hr : satAny vd cs allow with
        | none => simp [hr] at h
        | some r2 =>
          obtain ⟨b2, af2⟩ := r2
          simp [hr] at h
          have := satAny_denote vd cs allow b2 af2 hr
          simp [denoteAny, ← hd, ← this, h.1]
theorem satAll_denote (vd : Validator) : ∀ (cs : List Cfg) (b af : Bool),
    satAll vd cs = some (b, af) → b = denoteAll vd cs
  | [], b, af, h => by simp [satAll] at h; simp [denoteAll, h.1]
  | c :: cs, b, af, h => by
    simp only [satAll] at h
    cases hs : sat vd c false with
    | none => simp [hs] at h
    | some r =>
      obtain ⟨b', af'⟩ := r
      have hd := sat_denote vd c false b' af' hs
      cases b' with
      | false =>
        simp [hs] at h
        simp [denoteAll, ← hd, h.1]
      | true =>
        simp only [hs] at h
        have := satAll_denote vd cs b af h
        simp [denoteAll, ← hd, ← this]
end

/-- an attribute whose condition is false is as if it were not there -/
theorem fromAst_skip (vd : Validator) (a : Attr) (af : Bool) (h : sat vd a.cfg true = some (false, af)) :
    ∀ (l1 l2 : List Attr) (parent : HAttrs),
      fromAst vd parent (l1 ++ a :: l2) = fromAst vd parent (l1 ++ l2) := by
  intro l1
  induction l1 with
  | nil => intro l2 parent; simp [fromAst, h]
  | cons x xs ih =>
    intro l2 parent
    simp only [List.cons_append, fromAst]
    cases hx : sat vd x.cfg true with
    | none => simp [ih]
    | some r =>
      obtain ⟨b, f⟩ := r
      cases b with
      | false => simp [ih]
      | true =>
        simp only
        cases x.kind <;> simp [ih] <;> split <;> simp [ih]

theorem fromAst_disable_mono (vd : Validator) : ∀ (attrs : List Attr) (parent : HAttrs),
    parent.disable = true → (fromAst vd parent attrs).1.disable = true := by
  intro attrs
  induction attrs with
  | nil => intro p h; simpa [fromAst] using h
  | cons a rest ih =>
    intro p h
    simp only [fromAst]
    cases hs : sat vd a.cfg true with
    | none => simp [ih p h]
    | some r =>
      obtain ⟨b, f⟩ := r
      cases b with
      | false => simp [ih p h]
      | true =>
        simp only
        cases a.kind with
        | disable => simp [h, ih p h]
        | rename s => simp; exact ih _ (by simpa using h)
        | other s => simp [ih p h]

/-- with no errors reported: `disable` ends up set iff the parent had it or some attribute in the list is a
    `disable` whose condition holds (plain Boolean reading) -/
theorem fromAst_disable_iff (vd : Validator) : ∀ (attrs : List Attr) (parent : HAttrs),
    (fromAst vd parent attrs).2 = 0 →
    ((fromAst vd parent attrs).1.disable = true ↔
      parent.disable = true ∨ ∃ a ∈ attrs, a.kind = .disable ∧ denote vd a.cfg = true) := by
  intro attrs
  induction attrs with
  | nil => intro p _; simp [fromAst]
  | cons a rest ih =>
    intro p herr
    simp only [fromAst] at herr ⊢
    cases hs : sat vd a.cfg true with
    | none => simp [hs] at herr
    | some r =>
      obtain ⟨b, f⟩ := r
      have hd := sat_denote vd a.cfg true b f hs
      cases b with
      | false =>
        simp only [hs] at herr ⊢
        rw [ih p herr]
        constructor
        · rintro (h | ⟨x, hx, hk⟩)
          · exact Or.inl h
          · exact Or.inr ⟨x, List.mem_cons_of_mem _ hx, hk⟩
        · rintro (h | ⟨x, hx, hk, hden⟩)
          · exact Or.inl h
          · rcases List.mem_cons.mp hx with e | hx
            · subst e; rw [← hd] at hden; cases hden
            · exact Or.inr ⟨x, hx, hk, hden⟩
      | true =>
        simp only [hs] at herr ⊢
        cases hk : a.kind with
        | disable =>
          simp only [hk] at herr ⊢
          by_cases hp : p.disable = true
          · simp [hp] at herr
          · simp only [hp, Bool.false_eq_true, if_false] at herr ⊢
            have hz : (fromAst vd { p with disable := true } rest).2 = 0 := by omega
            have := fromAst_disable_mono vd rest { p with disable := true } rfl
            simp only [this, true_iff]
            exact Or.inr ⟨a, List.mem_cons_self, hk, hd.symm⟩
        | rename s =>
          simp only [hk] at herr ⊢
          have hz : (fromAst vd { p with rename := some s } rest).2 = 0 := by omega
          rw [ih _ hz]
          constructor
          · rintro (h | ⟨x, hx, hk'⟩)
            · exact Or.inl h
            · exact Or.inr ⟨x, List.mem_cons_of_mem _ hx, hk'⟩
          · rintro (h | ⟨x, hx, hk', hden⟩)
            · exact Or.inl h
            · rcases List.mem_cons.mp hx with e | hx
              · subst e; rw [hk] at hk'; cases hk'
              · exact Or.inr ⟨x, hx, hk', hden⟩
        | other s => simp [hk] at herr

/-- the rename pattern that applies: the last `rename` whose condition holds, else the parent's -/
def lastRename (vd : Validator) : List Attr → Option String
  | [] => none
  | a :: rest =>
    (lastRename vd rest).or (match a.kind with
      | .rename p => if denote vd a.cfg then some p else none
      | _ => none)

theorem fromAst_rename (vd : Validator) : ∀ (attrs : List Attr) (parent : HAttrs),
    (fromAst vd parent attrs).2 = 0 →
    (fromAst vd parent attrs).1.rename = (lastRename vd attrs).or parent.rename := by
  intro attrs
  induction attrs with
  | nil => intro p _; simp [fromAst, lastRename]
  | cons a rest ih =>
    intro p herr
    simp only [fromAst] at herr ⊢
    cases hs : sat vd a.cfg true with
    | none => simp [hs] at herr
    | some r =>
      obtain ⟨b, f⟩ := r
      have hd := sat_denote vd a.cfg true b f hs
      cases b with
      | false =>
        simp only [hs] at herr ⊢
        rw [ih p herr, lastRename]
        cases a.kind <;> simp [← hd]
      | true =>
        simp only [hs] at herr ⊢
        cases hk : a.kind with
        | disable =>
          simp only [hk] at herr ⊢
          by_cases hp : p.disable = true
          · simp [hp] at herr
          · simp only [hp, Bool.false_eq_true, if_false] at herr ⊢
            have hz : (fromAst vd { p with disable := true } rest).2 = 0 := by omega
            rw [ih _ hz, lastRename, hk]; simp
        | rename s =>
          simp only [hk] at herr ⊢
          have hz : (fromAst vd { p with rename := some s } rest).2 = 0 := by omega
          rw [ih _ hz, lastRename, hk]
          simp only [← hd, if_true]
          cases lastRename vd rest <;> simp
        | other s => simp [hk] at herr

end DiplomatModel.Cfg
