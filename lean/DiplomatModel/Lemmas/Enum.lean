import DiplomatModel.EnumGen
namespace DiplomatModel.EnumGen

theorem discsFrom_length (l : Int) (vs : List (Option Int)) : (discsFrom l vs).length = vs.length := by
  induction vs generalizing l with
  | nil => rfl
  | cons v r ih => cases v <;> simp [discsFrom, ih]

theorem isContigFrom_iff (k : Nat) (ds : List Int) :
    isContigFrom k ds = true ↔ ∀ i (h : i < ds.length), ds[i] = ((k + i : Nat) : Int) := by
  induction ds generalizing k with
  | nil => simp [isContigFrom]
  | cons d r ih =>
    simp only [isContigFrom, Bool.and_eq_true, beq_iff_eq, ih]
    constructor
    · rintro ⟨h0, hr⟩ i hi
      cases i with
      | zero => simpa using h0
      | succ j =>
        have := hr j (by simpa using hi)
        simp only [List.getElem_cons_succ]
        rw [this]; congr 1; omega
    · intro h
      refine ⟨by have := h 0 (by simp); simpa using this, ?_⟩
      intro i hi
      have := h (i + 1) (by simpa using hi)
      simp only [List.getElem_cons_succ] at this
      rw [this]; congr 1; omega

theorem enumFrom_length {α} (i : Nat) (l : List α) : (enumFrom i l).length = l.length := by
  induction l generalizing i with
  | nil => rfl
  | cons x xs ih => simp [enumFrom, ih]

theorem enumFrom_getElem? {α} (i : Nat) (l : List α) (k : Nat) :
    (enumFrom i l)[k]? = l[k]?.map (fun x => (i + k, x)) := by
  induction l generalizing i k with
  | nil => simp [enumFrom]
  | cons x xs ih =>
    cases k with
    | zero => simp [enumFrom]
    | succ j =>
      simp only [enumFrom, List.getElem?_cons_succ, ih]
      cases xs[j]? <;> simp <;> omega

theorem enumFrom_append {α} (i : Nat) (a b : List α) :
    enumFrom i (a ++ b) = enumFrom i a ++ enumFrom (i + a.length) b := by
  induction a generalizing i with
  | nil => simp [enumFrom]
  | cons x xs ih =>
    simp only [List.cons_append, enumFrom, ih, List.length_cons]
    have : i + 1 + xs.length = i + (xs.length + 1) := by omega
    rw [this]

theorem firstIdx_nodup {α β} [DecidableEq β] (f : α → β) (l : List α) (i : Nat) (h : i < l.length)
    (nd : (l.map f).Nodup) : firstIdx (fun r => f r == f l[i]) l = some i := by
  induction l generalizing i with
  | nil => simp at h
  | cons x xs ih =>
    cases i with
    | zero => simp [firstIdx]
    | succ j =>
      have hj : j < xs.length := by simpa using h
      simp only [List.map_cons, List.nodup_cons] at nd
      have hne : f x ≠ f xs[j] := by
        intro e; apply nd.1; rw [e]; exact List.mem_map.mpr ⟨xs[j], List.getElem_mem hj, rfl⟩
      simp [firstIdx, hne, ih j hj nd.2]

theorem find?_nodup {α β} [DecidableEq β] (f : α → β) (l : List α) (i : Nat) (h : i < l.length)
    (nd : (l.map f).Nodup) : l.find? (fun r => f r == f l[i]) = some l[i] := by
  induction l generalizing i with
  | nil => simp at h
  | cons x xs ih =>
    cases i with
    | zero => simp [List.find?]
    | succ j =>
      have hj : j < xs.length := by simpa using h
      simp only [List.map_cons, List.nodup_cons] at nd
      have hne : f x ≠ f xs[j] := by
        intro e; apply nd.1; rw [e]; exact List.mem_map.mpr ⟨xs[j], List.getElem_mem hj, rfl⟩
      have hb : (f x == f xs[j]) = false := by simpa using hne
      simp only [List.find?, List.getElem_cons_succ, hb]
      exact ih j hj nd.2

end DiplomatModel.EnumGen

namespace DiplomatModel.EnumGen

/-! ### discriminants -/

theorem discsFrom_getElem?_some (l : Int) (vs : List (Option Int)) (i : Nat) (d : Int)
    (h : vs[i]? = some (some d)) : (discsFrom l vs)[i]? = some d := by
  induction vs generalizing l i with
  | nil => simp at h
  | cons v r ih =>
    cases i with
    | zero => simp at h; subst h; simp [discsFrom]
    | succ j =>
      simp only [List.getElem?_cons_succ] at h
      cases v <;> simp [discsFrom, ih _ j h]

theorem discsFrom_head_none (l : Int) (vs : List (Option Int)) (h : vs[0]? = some none) :
    (discsFrom l vs)[0]? = some (l + 1) := by
  cases vs with
  | nil => simp at h
  | cons v r => simp at h; subst h; simp [discsFrom]

theorem discsFrom_succ_none (l : Int) (vs : List (Option Int)) (i : Nat) (p : Int)
    (h : vs[i + 1]? = some none) (hp : (discsFrom l vs)[i]? = some p) :
    (discsFrom l vs)[i + 1]? = some (p + 1) := by
  induction vs generalizing l i with
  | nil => simp at h
  | cons v r ih =>
    cases i with
    | zero =>
      simp only [List.getElem?_cons_succ, Nat.zero_add] at h
      cases v with
      | none =>
        simp [discsFrom] at hp ⊢; subst hp; exact discsFrom_head_none _ r h
      | some d =>
        simp [discsFrom] at hp ⊢; subst hp; exact discsFrom_head_none _ r h
    | succ j =>
      simp only [List.getElem?_cons_succ] at h
      cases v with
      | none => simp only [discsFrom, List.getElem?_cons_succ] at hp ⊢; exact ih _ j h hp
      | some d => simp only [discsFrom, List.getElem?_cons_succ] at hp ⊢; exact ih _ j h hp

/-! ### rows -/

theorem names_length (e : EnumDef) : e.names.length = e.vars.length := by simp [EnumDef.names]
theorem discs_length (e : EnumDef) : e.discs.length = e.vars.length := by
  simp [EnumDef.discs, discs, discsFrom_length]
theorem rows_length (e : EnumDef) : e.rows.length = e.vars.length := by
  simp [EnumDef.rows, names_length, discs_length]

theorem rows_getElem (e : EnumDef) (i : Nat) (h : i < e.vars.length) :
    e.rows[i]'(by simp [rows_length, h]) = (e.names[i]'(by simp [names_length, h]), e.discs[i]'(by simp [discs_length, h])) := by
  simp [EnumDef.rows]

theorem rows_map_fst (e : EnumDef) : e.rows.map (·.1) = e.names := by
  unfold EnumDef.rows
  rw [List.map_fst_zip]; simp [names_length, discs_length]

theorem rows_map_snd (e : EnumDef) : e.rows.map (·.2) = e.discs := by
  unfold EnumDef.rows
  rw [List.map_snd_zip]; simp [names_length, discs_length]

/-! ### Kotlin fold -/

theorem ktFold_nonContig (rows : List (Int × String)) (i : Nat) (vs : List (String × Int)) :
    ktFold (.nonContiguous rows) i vs = .nonContiguous (rows ++ vs.map (fun v => (wrapI32 v.2, v.1))) := by
  induction vs generalizing rows i with
  | nil => simp [ktFold]
  | cons v r ih => simp [ktFold, ktStep, ih]

theorem ktFold_contig (names : List String) (i : Nat) (vs : List (String × Int)) (hl : names.length = i) :
    ktFold (.contiguous names) i vs =
      if isContigFrom i (vs.map (·.2)) then .contiguous (names ++ vs.map (·.1))
      else .nonContiguous ((enumFrom 0 names).map (fun p => (wrapI32 (p.1 : Int), p.2))
            ++ vs.map (fun v => (wrapI32 v.2, v.1))) := by
  induction vs generalizing names i with
  | nil => simp [ktFold, isContigFrom]
  | cons v r ih =>
    simp only [ktFold, ktStep, List.map_cons, isContigFrom]
    by_cases hv : (i : Int) = v.2
    · have hb : (v.2 == (i : Int)) = true := by simp [hv]
      rw [if_pos hv, hb, Bool.true_and, ih (names ++ [v.1]) (i + 1) (by simp [hl])]
      by_cases hc : isContigFrom (i + 1) (List.map (fun x => x.snd) r) = true
      · rw [if_pos hc, if_pos hc]; simp
      · rw [if_neg hc, if_neg hc]
        simp only [enumFrom_append, enumFrom, List.map_append, List.map_cons, List.map_nil,
          List.append_assoc, List.cons_append, List.nil_append, Nat.zero_add, hl]
        rw [hv]
    · have hb : (v.2 == (i : Int)) = false := by
        simp; intro e; exact hv e.symm
      rw [if_neg hv, hb, Bool.false_and, ktFold_nonContig]
      simp

end DiplomatModel.EnumGen

namespace DiplomatModel.EnumGen

theorem find_enumFrom (k : Nat) (l : List Int) (i : Nat) (h : i < l.length) :
    ((enumFrom k l).map (fun p => ((p.1 : Int), p.2))).find? (fun p => p.1 == ((k + i : Nat) : Int))
      = some (((k + i : Nat) : Int), l[i]) := by
  induction l generalizing k i with
  | nil => simp at h
  | cons x xs ih =>
    cases i with
    | zero => simp [enumFrom, List.find?]
    | succ j =>
      have hj : j < xs.length := by simpa using h
      have hne : ((k : Int) == ((k + (j + 1) : Nat) : Int)) = false := by
        simp; omega
      simp only [enumFrom, List.map_cons, List.find?, hne, List.getElem_cons_succ]
      have := ih (k + 1) j hj
      have e : k + 1 + j = k + (j + 1) := by omega
      rw [e] at this
      exact this

end DiplomatModel.EnumGen

namespace DiplomatModel.EnumGen
theorem hiD (e : EnumDef) (i : Nat) (hi : i < e.vars.length) : i < e.discs.length := by simp [discs_length, hi]
theorem hiN (e : EnumDef) (i : Nat) (hi : i < e.vars.length) : i < e.names.length := by simp [names_length, hi]
theorem hiR (e : EnumDef) (i : Nat) (hi : i < e.vars.length) : i < e.rows.length := by simp [rows_length, hi]
end DiplomatModel.EnumGen
