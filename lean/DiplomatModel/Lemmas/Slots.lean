import DiplomatModel.Lemmas.JsLayout
/-!
  C08 — the typed padding attached to fields (`padding_count` × `padding_field_width`) accounts for every gap
  of the layout: field sizes plus padding fields add up to the struct's size.  This is what makes the
  "padded direct" argument list of `_intoFFI` cover the whole struct.
-/
namespace DiplomatModel.JsLayout

def Pow2 (a : Nat) : Prop := ∃ k, a = 2 ^ k

theorem Pow2.pos {a : Nat} (h : Pow2 a) : 0 < a := by
  obtain ⟨k, rfl⟩ := h; exact Nat.pow_pos (by decide)

theorem Pow2.one : Pow2 1 := ⟨0, rfl⟩

theorem Pow2.dvd_of_le {a b : Nat} (ha : Pow2 a) (hb : Pow2 b) (h : a ≤ b) : a ∣ b := by
  obtain ⟨j, rfl⟩ := ha; obtain ⟨k, rfl⟩ := hb
  exact Nat.pow_dvd_pow 2 ((Nat.pow_le_pow_iff_right (by decide)).mp h)

theorem Pow2.total {a b : Nat} (ha : Pow2 a) (hb : Pow2 b) : a ∣ b ∨ b ∣ a := by
  rcases Nat.le_total a b with h | h
  · exact Or.inl (ha.dvd_of_le hb h)
  · exact Or.inr (hb.dvd_of_le ha h)

theorem Pow2.max {a b : Nat} (ha : Pow2 a) (hb : Pow2 b) : Pow2 (max a b) := by
  rcases Nat.le_total a b with h | h
  · rw [Nat.max_eq_right h]; exact hb
  · rw [Nat.max_eq_left h]; exact ha

theorem padTo_zero_of_dvd {n a : Nat} (h : a ∣ n) : padTo n a = 0 := by
  unfold padTo
  rw [Nat.mod_eq_zero_of_dvd h]; simp

theorem dvd_padTo {d n a : Nat} (hn : d ∣ n) (ha : d ∣ a) : d ∣ padTo n a := by
  unfold padTo
  rw [Nat.dvd_mod_iff ha]
  exact Nat.dvd_sub ha ((Nat.dvd_mod_iff ha).mpr hn)

/-- total width of the padding fields attached to a list of field layouts -/
def padSum (fs : List FieldLayout) : Nat := (fs.map fun f => f.paddingCount * f.paddingWidth).sum

def sizeSum (ls : List (Nat × Nat × SC)) : Nat := (ls.map (·.1)).sum

/-- the last field (if any) has no padding attached yet -/
def LastClear (fs : List FieldLayout) : Prop := ∀ l, fs.getLast? = some l → l.paddingCount = 0

@[simp] theorem padSum_nil : padSum [] = 0 := rfl

theorem padSum_append (a b : List FieldLayout) : padSum (a ++ b) = padSum a + padSum b := by
  simp [padSum, List.map_append, List.sum_append]

theorem padSum_setLast (fs : List FieldLayout) (c w : Nat) (hne : fs ≠ []) (hc : LastClear fs) :
    padSum (setLastPadding fs c w) = padSum fs + c * w := by
  unfold setLastPadding
  cases h : fs.reverse with
  | nil => simp at h; exact absurd h hne
  | cons l rest =>
    have hfs : fs = rest.reverse ++ [l] := by
      have := congrArg List.reverse h; simpa using this
    have hl : l.paddingCount = 0 := hc l (by rw [hfs]; simp)
    subst hfs
    simp only [List.reverse_cons, padSum_append]
    simp [padSum, hl]

theorem padSum_new (o w : Nat) (sc : SC) : padSum [⟨o, 0, w, sc⟩] = 0 := by simp [padSum]

theorem lastClear_append_new (fs : List FieldLayout) (o : Nat) (sc : SC) : LastClear (fs ++ [⟨o, 0, 1, sc⟩]) := by
  intro l hl; simp at hl; subst hl; rfl

/-- the loop invariant of `struct_field_info`, `acc` being the total size of the fields laid out so far -/
structure TileInv (s : St) (acc : Nat) : Prop where
  sum : acc + padSum s.fields = s.next
  clear : LastClear s.fields
  dvd : s.prevAlign ∣ s.next
  start : s.fields = [] → s.next = 0 ∧ s.maxAlign = 0
  pprev : Pow2 s.prevAlign
  pmax : s.fields ≠ [] → Pow2 s.maxAlign ∧ s.prevAlign ∣ s.maxAlign

theorem tile_step (s : St) (acc sz al : Nat) (sc : SC) (h : TileInv s acc) (hal : Pow2 al) (hsz : al ∣ sz) :
    TileInv (stepField s (sz, al, sc)) (acc + sz) := by
  have hpd : s.prevAlign ∣ padTo s.next al := by
    rcases h.pprev.total hal with hd | hd
    · exact dvd_padTo h.dvd hd
    · rw [padTo_zero_of_dvd (Nat.dvd_trans hd h.dvd)]; exact Nat.dvd_zero _
  have hps := pad_spec s.next al hal.pos
  by_cases hp0 : padTo s.next al = 0
  · -- no padding: the previous field is left alone
    refine ⟨?_, ?_, ?_, ?_, ?_, ?_⟩
    · simp only [stepField, hp0, bne_self_eq_false, Bool.false_eq_true, if_false, padSum_append, padSum_new]
      have := h.sum; omega
    · simp only [stepField]; exact lastClear_append_new _ _ _
    · simp only [stepField]
      have h1 : al ∣ s.next + padTo s.next al := Nat.dvd_of_mod_eq_zero hps.1
      exact Nat.dvd_add h1 hsz
    · intro hf; simp [stepField] at hf
    · exact hal
    · intro _
      simp only [stepField]
      by_cases hf : s.fields = []
      · -- first field
        rw [(h.start hf).2, Nat.zero_max]
        exact ⟨hal, Nat.dvd_refl _⟩
      · obtain ⟨hm, _⟩ := h.pmax hf
        exact ⟨hm.max hal, hal.dvd_of_le (hm.max hal) (Nat.le_max_right _ _)⟩
  · have hf : s.fields ≠ [] := by
      intro hf; have := (h.start hf).1; rw [this] at hp0; exact hp0 (padTo_zero_of_dvd (Nat.dvd_zero _))
    have hcount : padTo s.next al / s.prevAlign * s.prevAlign = padTo s.next al := Nat.div_mul_cancel hpd
    refine ⟨?_, ?_, ?_, ?_, ?_, ?_⟩
    · have hb : (padTo s.next al != 0) = true := by simp [hp0]
      simp only [stepField, hb, if_true, padSum_append, padSum_setLast _ _ _ hf h.clear, hcount, padSum_new]
      have := h.sum; omega
    · simp only [stepField]; exact lastClear_append_new _ _ _
    · simp only [stepField]
      have h1 : al ∣ s.next + padTo s.next al := Nat.dvd_of_mod_eq_zero hps.1
      exact Nat.dvd_add h1 hsz
    · intro hf'; simp [stepField] at hf'
    · exact hal
    · intro _
      obtain ⟨hm, _⟩ := h.pmax hf
      exact ⟨hm.max hal, hal.dvd_of_le (hm.max hal) (Nat.le_max_right _ _)⟩

theorem tile_fold (fs : List (Nat × Nat × SC)) (s : St) (acc : Nat) (h : TileInv s acc)
    (hwf : ∀ f ∈ fs, Pow2 f.2.1 ∧ f.2.1 ∣ f.1) : TileInv (fs.foldl stepField s) (acc + sizeSum fs) := by
  induction fs generalizing s acc with
  | nil => simpa [sizeSum] using h
  | cons f r ih =>
    obtain ⟨sz, al, sc⟩ := f
    have hf := hwf (sz, al, sc) (by simp)
    have := ih (stepField s (sz, al, sc)) (acc + sz) (tile_step s acc sz al sc h hf.1 hf.2)
      (fun g hg => hwf g (by simp [hg]))
    simpa [sizeSum, Nat.add_assoc] using this

theorem fold_fields_ne (fs : List (Nat × Nat × SC)) (s : St) (hne : fs ≠ []) : (fs.foldl stepField s).fields ≠ [] := by
  intro h
  have h1 := (foldl_step fs s).1
  rw [h] at h1
  cases fs with
  | nil => exact hne rfl
  | cons f r => obtain ⟨sz, al, sc⟩ := f; simp [offsetsFrom] at h1

/-- **One level of the layout is tiled**: field sizes plus the typed padding fields attached to the fields add
    up to the struct's size (alignments powers of two, sizes multiples of the alignment). -/
theorem tile_one_level (ls : List (Nat × Nat × SC)) (hne : ls ≠ [])
    (hwf : ∀ f ∈ ls, Pow2 f.2.1 ∧ f.2.1 ∣ f.1) :
    sizeSum ls + padSum (fieldInfoOf ls).fields = (fieldInfoOf ls).size := by
  have init : TileInv ⟨0, 0, 1, [], .zst⟩ 0 :=
    ⟨rfl, by intro l hl; simp at hl, Nat.dvd_zero _, fun _ => ⟨rfl, rfl⟩, Pow2.one, fun h => absurd rfl h⟩
  have inv := tile_fold ls _ 0 init hwf
  have hfne := fold_fields_ne ls ⟨0, 0, 1, [], .zst⟩ hne
  unfold fieldInfoOf
  have he : ls.isEmpty = false := by cases ls <;> simp at hne ⊢
  simp only [he, Bool.false_eq_true, if_false]
  generalize ls.foldl stepField ⟨0, 0, 1, [], .zst⟩ = s at inv hfne
  have hsum := inv.sum
  simp only [Nat.zero_add] at hsum
  obtain ⟨hm, hpm⟩ := inv.pmax hfne
  by_cases hz : s.next % s.maxAlign = 0
  · simp [hz]; exact hsum
  · have hb : (s.next % s.maxAlign != 0) = true := by simp [hz]
    simp only [hb, if_true]
    have hd : s.prevAlign ∣ padTo s.next s.maxAlign := dvd_padTo inv.dvd hpm
    rw [padSum_setLast _ _ _ hfne inv.clear, Nat.div_mul_cancel hd]
    omega

/-! ### nested structs: the whole argument list -/

def slotsWidth (sl : List Slot) : Nat := (sl.map Slot.width).sum

@[simp] theorem slotsWidth_nil : slotsWidth [] = 0 := rfl
theorem slotsWidth_append (a b : List Slot) : slotsWidth (a ++ b) = slotsWidth a + slotsWidth b := by
  simp [slotsWidth, List.map_append, List.sum_append]
theorem slotsWidth_replicate (n : Nat) (x : Slot) : slotsWidth (List.replicate n x) = n * x.width := by
  induction n with
  | zero => simp [slotsWidth]
  | succ n ih => simp only [List.replicate_succ]; unfold slotsWidth at ih ⊢; simp [Nat.succ_mul, Nat.add_comm]

mutual
/-- well-formed field types: power-of-two alignments, sizes that are multiples of them, no empty structs -/
def LTy.WF : LTy → Prop
  | .scalar s a => Pow2 a ∧ a ∣ s
  | .slice => True
  | .struct fs => fs ≠ [] ∧ WFList fs
  | .opt t => t.WF
def WFList : List LTy → Prop
  | [] => True
  | t :: ts => t.WF ∧ WFList ts
end

theorem layoutList_length : ∀ (fs : List LTy) (ls), layoutList fs = some ls → ls.length = fs.length
  | [], ls, h => by simp [layoutList] at h; subst h; rfl
  | t :: ts, ls, h => by
    simp only [layoutList] at h
    split at h
    · rename_i l ls' _ h2
      simp at h; subst h
      simp [layoutList_length ts ls' h2]
    · simp at h

theorem fieldInfo_fields_length (ls : List (Nat × Nat × SC)) : (fieldInfoOf ls).fields.length = ls.length := by
  by_cases hne : ls = []
  · subst hne; rfl
  · have h := congrArg List.length (show (fieldInfoOf ls).fields.map (·.offset) = offsetsFrom 0 ls from by
      unfold fieldInfoOf
      have he : ls.isEmpty = false := by cases ls <;> simp at hne ⊢
      simp only [he, Bool.false_eq_true, if_false]
      obtain ⟨h1, _, _⟩ := foldl_step ls ⟨0, 0, 1, [], .zst⟩
      split
      · rw [setLastPadding_offsets, h1]; simp
      · rw [h1]; simp)
    have hl : ∀ (n : Nat) (l : List (Nat × Nat × SC)), (offsetsFrom n l).length = l.length := by
      intro n l; induction l generalizing n with
      | nil => rfl
      | cons f r ih => obtain ⟨a, b, c⟩ := f; simp [offsetsFrom, ih]
    simpa [hl] using h

theorem struct_layout_wf (ls : List (Nat × Nat × SC)) (hne : ls ≠ []) (hwf : ∀ f ∈ ls, Pow2 f.2.1 ∧ f.2.1 ∣ f.1) :
    Pow2 (fieldInfoOf ls).align ∧ (fieldInfoOf ls).align ∣ (fieldInfoOf ls).size := by
  have hpos : ∀ f ∈ ls, 0 < f.2.1 := fun f hf => (hwf f hf).1.pos
  have he : ls.isEmpty = false := by cases ls <;> simp at hne ⊢
  have halign : (fieldInfoOf ls).align = maxAlignFrom 0 ls := by
    unfold fieldInfoOf
    simp only [he, Bool.false_eq_true, if_false]
    exact (foldl_step ls ⟨0, 0, 1, [], .zst⟩).2.2
  have hsize : (fieldInfoOf ls).size =
      endFrom 0 ls + (if endFrom 0 ls % maxAlignFrom 0 ls != 0 then padTo (endFrom 0 ls) (maxAlignFrom 0 ls) else 0) := by
    unfold fieldInfoOf
    simp only [he, Bool.false_eq_true, if_false]
    obtain ⟨_, h2, h3⟩ := foldl_step ls ⟨0, 0, 1, [], .zst⟩
    simp only at h2 h3
    rw [h2, h3]
  have hp2 : Pow2 (maxAlignFrom 0 ls) := by
    rcases maxAlignFrom_mem ls 0 with h | ⟨g, hg, h⟩
    · cases ls with
      | nil => exact absurd rfl hne
      | cons f r =>
        have h1 := (maxAlignFrom_ge (f :: r) 0).2 f (by simp)
        have h2 := hpos f (by simp)
        omega
    · rw [h]; exact (hwf g hg).1
  refine ⟨by rw [halign]; exact hp2, ?_⟩
  rw [halign, hsize]
  generalize endFrom 0 ls = e
  generalize maxAlignFrom 0 ls = a at hp2 ⊢
  have hp := pad_spec e a hp2.pos
  by_cases hz : e % a = 0
  · simp [hz]; exact Nat.dvd_of_mod_eq_zero hz
  · simp only [bne_iff_ne, ne_eq, hz, not_false_eq_true, if_true]
    exact Nat.dvd_of_mod_eq_zero hp.1

mutual
theorem layout_wf : ∀ (t : LTy) (sz al : Nat) (sc : SC), t.WF → layoutOf t = some (sz, al, sc) → Pow2 al ∧ al ∣ sz
  | .scalar s a, sz, al, sc, hwf, h => by
    simp only [layoutOf, Option.some.injEq, Prod.mk.injEq] at h
    obtain ⟨rfl, rfl, _⟩ := h
    exact hwf
  | .slice, sz, al, sc, _, h => by
    simp only [layoutOf, Option.some.injEq, Prod.mk.injEq] at h
    obtain ⟨rfl, rfl, _⟩ := h
    exact ⟨⟨2, rfl⟩, ⟨2, rfl⟩⟩
  | .struct fs, sz, al, sc, hwf, h => by
    simp only [layoutOf, Option.map_eq_some_iff] at h
    obtain ⟨ls, hls, heq⟩ := h
    simp only [Prod.mk.injEq] at heq
    obtain ⟨rfl, rfl, _⟩ := heq
    unfold LTy.WF at hwf
    have hne : ls ≠ [] := by
      intro h0; have := layoutList_length fs ls hls; rw [h0] at this
      exact hwf.1 (List.length_eq_zero_iff.mp this.symm)
    exact struct_layout_wf ls hne (layoutList_wf fs ls hwf.2 hls)
  | .opt t, sz, al, sc, hwf, h => by
    unfold LTy.WF at hwf
    simp only [layoutOf] at h
    split at h
    · rename_i size align sc' heq
      split at h
      · simp at h
      · simp only [Option.some.injEq, Prod.mk.injEq] at h
        obtain ⟨rfl, rfl, _⟩ := h
        obtain ⟨h1, h2⟩ := layout_wf t size align sc' hwf heq
        exact ⟨h1, Nat.dvd_add h2 (Nat.dvd_refl _)⟩
    · simp at h
theorem layoutList_wf : ∀ (fs : List LTy) (ls : List (Nat × Nat × SC)), WFList fs → layoutList fs = some ls →
    ∀ f ∈ ls, Pow2 f.2.1 ∧ f.2.1 ∣ f.1
  | [], ls, _, h => by simp [layoutList] at h; subst h; simp
  | t :: ts, ls, hwf, h => by
    unfold WFList at hwf
    simp only [layoutList] at h
    split at h
    · rename_i l ls' h1 h2
      simp at h; subst h
      intro f hf
      rcases List.mem_cons.mp hf with rfl | hf
      · obtain ⟨sz, al, sc⟩ := f
        exact layout_wf t sz al sc hwf.1 h1
      · exact layoutList_wf ts ls' hwf.2 h2 f hf
    · simp at h
end

mutual
/-- padding is actually emitted at every struct level below (and including) this field: a struct's own padding
    fields are conditional exactly when it has two scalars, and then its caller must have asked for them -/
def padOK : LTy → SC → SC → Bool → Bool
  | .struct gs, fsc, whole, force =>
    match structFieldInfo gs, layoutList gs with
    | some info, some ls =>
      (decide (info.sc ≠ .scalars 2) || childForce (forcePadding fsc whole true) force)
        && padOKList gs ls info.sc (childForce (forcePadding fsc whole true) force)
    | _, _ => true
  | .scalar _ _, _, _, _ => true
  | .slice, _, _, _ => true
  | .opt _, _, _, _ => true
def padOKList : List LTy → List (Nat × Nat × SC) → SC → Bool → Bool
  | t :: ts, l :: ls, whole, force => padOK t l.2.2 whole force && padOKList ts ls whole force
  | _, _, _, _ => true
end

theorem padSlots_width (fl : FieldLayout) (whole : SC) (force : Bool) (hp : whole ≠ .scalars 2 ∨ force = true) :
    slotsWidth (padSlots fl whole force) = fl.paddingCount * fl.paddingWidth := by
  unfold padSlots
  by_cases h0 : fl.paddingCount = 0
  · simp [h0]
  · simp only [h0, if_false]
    rcases hp with hp | hp
    · simp only [hp, if_false, slotsWidth_replicate, Slot.width]
    · split <;> simp only [hp, if_true, slotsWidth_replicate, Slot.width]

mutual
theorem tySlots_tile : ∀ (t : LTy) (fsc whole : SC) (force : Bool) (sz al : Nat) (sc : SC) (sl : List Slot),
    t.WF → padOK t fsc whole force = true → layoutOf t = some (sz, al, sc) → tySlots t fsc whole force = some sl →
    slotsWidth sl = sz
  | .scalar s a, fsc, whole, force, sz, al, sc, sl, _, _, hl, hs => by
    simp only [layoutOf, Option.some.injEq, Prod.mk.injEq] at hl
    simp only [tySlots, Option.some.injEq] at hs
    subst hs; obtain ⟨rfl, _, _⟩ := hl
    simp [slotsWidth, Slot.width]
  | .slice, fsc, whole, force, sz, al, sc, sl, _, _, hl, hs => by
    simp only [layoutOf, Option.some.injEq, Prod.mk.injEq] at hl
    simp only [tySlots, Option.some.injEq] at hs
    subst hs; obtain ⟨rfl, _, _⟩ := hl
    simp [slotsWidth, Slot.width]
  | .struct gs, fsc, whole, force, sz, al, sc, sl, hwf, hok, hl, hs => by
    simp only [layoutOf, Option.map_eq_some_iff] at hl
    obtain ⟨ls, hls, heq⟩ := hl
    simp only [Prod.mk.injEq] at heq
    obtain ⟨rfl, _, _⟩ := heq
    unfold LTy.WF at hwf
    have hsi : structFieldInfo gs = some (fieldInfoOf ls) := by simp [structFieldInfo, hls]
    simp only [tySlots, hsi, hls] at hs
    simp only [padOK, hsi, hls, Bool.and_eq_true, Bool.or_eq_true, decide_eq_true_eq] at hok
    have hlen := layoutList_length gs ls hls
    have hne : ls ≠ [] := by
      intro h0; rw [h0] at hlen
      exact hwf.1 (List.length_eq_zero_iff.mp hlen.symm)
    have hw := layoutList_wf gs ls hwf.2 hls
    have := fieldsSlots_tile gs (fieldInfoOf ls).fields ls (fieldInfoOf ls).sc _ sl hwf.2 hok.2 hok.1 hls
      (by rw [fieldInfo_fields_length, hlen]) hs
    rw [this]
    exact tile_one_level ls hne hw
  | .opt t, fsc, whole, force, sz, al, sc, sl, hwf, _, hl, hs => by
    unfold LTy.WF at hwf
    simp only [layoutOf] at hl
    simp only [tySlots] at hs
    split at hl
    · rename_i size align sc' heq
      rw [heq] at hs
      simp only [Option.some.injEq] at hs
      split at hl
      · simp at hl
      · simp only [Option.some.injEq, Prod.mk.injEq] at hl
        obtain ⟨rfl, _, _⟩ := hl
        obtain ⟨h1, h2⟩ := layout_wf t size align sc' hwf heq
        subst hs
        simp only [slotsWidth_append, slotsWidth_replicate, Slot.width, Nat.div_mul_cancel h2]
        have := h1.pos
        simp [slotsWidth, Slot.width]; omega
    · simp at hl
theorem fieldsSlots_tile : ∀ (ts : List LTy) (fls : List FieldLayout) (ls : List (Nat × Nat × SC)) (whole : SC)
    (force : Bool) (sl : List Slot),
    WFList ts → padOKList ts ls whole force = true → (whole ≠ .scalars 2 ∨ force = true) → layoutList ts = some ls →
    fls.length = ts.length → fieldsSlots ts fls ls whole force = some sl →
    slotsWidth sl = sizeSum ls + padSum fls
  | [], fls, ls, whole, force, sl, _, _, _, hl, hlen, hs => by
    simp [layoutList] at hl; subst hl
    simp only [fieldsSlots, Option.some.injEq] at hs; subst hs
    have : fls = [] := List.length_eq_zero_iff.mp (by simpa using hlen)
    subst this; simp [sizeSum]
  | t :: ts, [], ls, whole, force, sl, _, _, _, _, hlen, _ => by simp at hlen
  | t :: ts, fl :: fls, ls, whole, force, sl, hwf, hok, hp, hl, hlen, hs => by
    unfold WFList at hwf
    simp only [layoutList] at hl
    split at hl
    · rename_i l ls' h1 h2
      simp at hl; subst hl
      simp only [fieldsSlots] at hs
      split at hs
      · rename_i own rest ho hr
        simp only [Option.some.injEq] at hs; subst hs
        simp only [padOKList, Bool.and_eq_true] at hok
        obtain ⟨sz, al, sc⟩ := l
        have e1 := tySlots_tile t sc whole force sz al sc own hwf.1 hok.1 h1 ho
        have e2 := fieldsSlots_tile ts fls ls' whole force rest hwf.2 hok.2 hp h2 (by simpa using hlen) hr
        simp only [slotsWidth_append, e1, e2, padSlots_width fl whole force hp]
        simp [sizeSum, padSum]; omega
      · simp at hs
    · simp at hl
end

end DiplomatModel.JsLayout
