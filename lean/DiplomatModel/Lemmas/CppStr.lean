import DiplomatModel.CppStr
import DiplomatModel.Lemmas.Write
namespace DiplomatModel.CppStr
open DiplomatModel.Write

theorem resize_self (l : List Nat) : resize l l.length = l := by simp [resize]

theorem resize_grow (l : List Nat) (n : Nat) (h : l.length ≤ n) : resize l n = l ++ List.replicate (n - l.length) 0 := by
  simp [resize, List.take_of_length_le h]

theorem resize_length (l : List Nat) (n : Nat) : (resize l n).length = n := by
  simp [resize]; omega

/-- the invariant of the adaptor: the window is exactly the string, nothing was written outside it,
    and the string is the initial contents followed by everything written -/
structure Inv (init : List Nat) (done : List Nat) (s : S) : Prop where
  lenCap : s.len = s.cap
  capStr : s.cap = s.str.length
  noOob : s.oob = false
  content : s.str = init ++ done

theorem start_inv (init : List Nat) : Inv init [] (start init) :=
  ⟨rfl, rfl, rfl, by simp [start]⟩

theorem copy_into_fresh (l c : List Nat) :
    copyAt (l ++ List.replicate c.length 0) l.length c = l ++ c := by
  rw [copyAt_spec _ _ _ (by simp)]
  simp

theorem step_inv (init done : List Nat) (s : S) (op : Op) (h : Inv init done s) :
    Inv init (done ++ written [op]) (step s op) := by
  obtain ⟨h1, h2, h3, h4⟩ := h
  cases op with
  | flush =>
    have hr : resize s.str s.len = s.str := by rw [h1, h2]; exact resize_self _
    refine ⟨h1, ?_, h3, ?_⟩
    · show s.cap = (resize s.str s.len).length
      rw [hr]; exact h2
    · show resize s.str s.len = init ++ (done ++ written [Op.flush])
      rw [hr, h4]; simp [written]
  | write c =>
    by_cases hc : c = []
    · subst hc
      have hng : ¬ (s.len + ([] : List Nat).length > s.cap) := by simp [h1]
      have hlt : ¬ (s.cap < s.len) := by omega
      have hst : step s (.write []) = { s with str := s.str, len := s.len + 0, oob := s.oob || decide (s.len + 0 > s.str.length) } := by
        simp [step, hlt, copyAt]
      rw [hst]
      refine ⟨?_, ?_, ?_, ?_⟩
      · simpa using h1
      · exact h2
      · have : ¬ (s.len > s.str.length) := by omega
        simp [h3, this]
      · simp [written, h4]
    · have hpos : 0 < c.length := List.length_pos_iff.mpr hc
      have hg : s.len + c.length > s.cap := by omega
      have hle : s.str.length ≤ s.len + c.length := by omega
      have hrs : resize s.str (s.len + c.length) = s.str ++ List.replicate c.length 0 := by
        rw [resize_grow _ _ hle]; congr 2; omega
      have hcopy : copyAt (resize s.str (s.len + c.length)) s.len c = s.str ++ c := by
        rw [hrs, h1, h2]; exact copy_into_fresh s.str c
      have hst : step s (.write c) = { str := s.str ++ c, len := s.len + c.length, cap := s.len + c.length,
                                       oob := s.oob || decide (s.len + c.length > s.len + c.length) } := by
        simp only [step, hg, if_true, grow, resize_length, hcopy]
      rw [hst]
      refine ⟨rfl, ?_, ?_, ?_⟩
      · simp; omega
      · simp [h3]
      · simp [written, h4]

theorem written_append (a b : List Op) : written (a ++ b) = written a ++ written b := by
  induction a with
  | nil => rfl
  | cons o os ih => cases o <;> simp [written, ih]

theorem run_inv (init : List Nat) (ops : List Op) : Inv init (written ops) (run init ops) := by
  unfold run
  suffices h : ∀ (s : S) (done : List Nat), Inv init done s → Inv init (done ++ written ops) (ops.foldl step s) by
    simpa using h (start init) [] (start_inv init)
  induction ops with
  | nil => intro s done h; simpa [written] using h
  | cons o os ih =>
    intro s done h
    have h1 := step_inv init done s o h
    have := ih (step s o) (done ++ written [o]) h1
    have hw : written (o :: os) = written [o] ++ written os := written_append [o] os
    simpa [List.foldl, hw, List.append_assoc] using this

end DiplomatModel.CppStr
