import DiplomatModel.Own
namespace DiplomatModel.Own

theorem takeH_perm (live : List (Nat × List Nat)) (h : Nat) (ps : List Nat) (rest : List (Nat × List Nat))
    (ht : takeH live h = some (ps, rest)) : (allLive live).Perm (ps ++ allLive rest) := by
  induction live generalizing rest with
  | nil => simp [takeH] at ht
  | cons x tl ih =>
    obtain ⟨h', qs⟩ := x
    simp only [takeH] at ht
    by_cases he : h' = h
    · simp only [he, if_true, Option.some.injEq, Prod.mk.injEq] at ht
      obtain ⟨rfl, rfl⟩ := ht
      simp [allLive]
    · simp only [he, if_false] at ht
      cases hr : takeH tl h with
      | none => simp [hr] at ht
      | some r =>
        obtain ⟨qs', rest'⟩ := r
        simp only [hr, Option.some.injEq, Prod.mk.injEq] at ht
        obtain ⟨rfl, rfl⟩ := ht
        have := ih rest' hr
        simp only [allLive, List.flatMap_cons] at this ⊢
        -- qs ++ allLive tl ~ qs ++ (ps ++ allLive rest') ~ ps ++ (qs ++ allLive rest')
        have h1 : (qs ++ List.flatMap (fun x => x.2) tl).Perm (qs ++ (qs' ++ List.flatMap (fun x => x.2) rest')) :=
          List.Perm.append_left qs this
        refine h1.trans ?_
        rw [← List.append_assoc, ← List.append_assoc]
        exact List.Perm.append_right _ List.perm_append_comm

theorem range_add_fresh (a n : Nat) : List.range (a + n) = List.range a ++ fresh a n := by
  rw [List.range_add]
  congr 1
  unfold fresh
  apply List.map_congr_left
  intro x _; omega

/-- the ledger invariant: live and dropped payloads together are exactly the payloads created so far,
    each once -/
def Ledger (s : St) : Prop := (allLive s.live ++ s.dropped).Perm (List.range s.nextP)

theorem ledger_init : Ledger St.init := by simp [Ledger, St.init, allLive]

theorem allLive_append (a b : List (Nat × List Nat)) : allLive (a ++ b) = allLive a ++ allLive b := by
  simp [allLive]

theorem ledger_step (s s' : St) (o : Op) (hl : Ledger s) (hs : step s o = some s') : Ledger s' := by
  unfold Ledger at *
  cases o with
  | create n =>
    simp only [step, Option.some.injEq] at hs
    subst hs
    simp only [allLive_append]
    rw [range_add_fresh]
    have : allLive [(s.nextH, fresh s.nextP n)] = fresh s.nextP n := by simp [allLive]
    rw [this]
    -- (live ++ fresh) ++ dropped ~ (live ++ dropped) ++ fresh
    have h1 : (allLive s.live ++ fresh s.nextP n ++ s.dropped).Perm (allLive s.live ++ s.dropped ++ fresh s.nextP n) := by
      rw [List.append_assoc, List.append_assoc]
      exact List.Perm.append_left _ List.perm_append_comm
    exact h1.trans (List.Perm.append_right _ hl)
  | convert h =>
    simp only [step] at hs
    cases ht : takeH s.live h with
    | none => simp [ht] at hs
    | some r =>
      obtain ⟨ps, rest⟩ := r
      simp only [ht, Option.some.injEq] at hs
      subst hs
      have hp := takeH_perm s.live h ps rest ht
      simp only [allLive_append]
      have : allLive [(s.nextH, ps)] = ps := by simp [allLive]
      rw [this]
      have h1 : (allLive rest ++ ps).Perm (allLive s.live) := List.perm_append_comm.trans hp.symm
      exact (List.Perm.append_right _ h1).trans hl
  | clone h =>
    simp only [step] at hs
    cases ht : takeH s.live h with
    | none => simp [ht] at hs
    | some r =>
      obtain ⟨ps, rest⟩ := r
      simp only [ht, Option.some.injEq] at hs
      subst hs
      simp only [allLive_append]
      rw [range_add_fresh]
      have : allLive [(s.nextH, fresh s.nextP ps.length)] = fresh s.nextP ps.length := by simp [allLive]
      rw [this]
      have h1 : (allLive s.live ++ fresh s.nextP ps.length ++ s.dropped).Perm (allLive s.live ++ s.dropped ++ fresh s.nextP ps.length) := by
        rw [List.append_assoc, List.append_assoc]
        exact List.Perm.append_left _ List.perm_append_comm
      exact h1.trans (List.Perm.append_right _ hl)
  | borrow h =>
    simp only [step] at hs
    cases ht : takeH s.live h with
    | none => simp [ht] at hs
    | some r => simp only [ht, Option.some.injEq] at hs; subst hs; exact hl
  | drop h =>
    simp only [step] at hs
    cases ht : takeH s.live h with
    | none => simp [ht] at hs
    | some r =>
      obtain ⟨ps, rest⟩ := r
      simp only [ht, Option.some.injEq] at hs
      subst hs
      have hp := takeH_perm s.live h ps rest ht
      -- rest ++ (dropped ++ ps) ~ (ps ++ rest) ++ dropped ~ live ++ dropped
      have h1 : (allLive rest ++ (s.dropped ++ ps)).Perm (ps ++ allLive rest ++ s.dropped) := by
        rw [← List.append_assoc]
        refine List.perm_append_comm.trans ?_
        rw [List.append_assoc]
      exact h1.trans ((List.Perm.append_right _ hp.symm).trans hl)

theorem ledger_run (s s' : St) (ops : List Op) (hl : Ledger s) (hr : run s ops = some s') : Ledger s' := by
  induction ops generalizing s with
  | nil => simp [run] at hr; subst hr; exact hl
  | cons o os ih =>
    simp only [run] at hr
    cases hs : step s o with
    | none => simp [hs] at hr
    | some s1 => simp only [hs] at hr; exact ih s1 (ledger_step s s1 o hl hs) hr

end DiplomatModel.Own
