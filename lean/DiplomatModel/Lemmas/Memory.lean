/-
  A byte memory and the field-wise write / read of a struct laid out by the repr(C) algorithm
  (`JsLayout.fieldInfoOf`, characterised by `Good`): because the offsets are ordered and do not overlap,
  what is written field by field is what is read back field by field.  Used by C08 (JS `_writeToArrayBuffer`
  / `_fromFFI`) and C01 (a by-value struct crossing the boundary).
-/
import DiplomatModel.Lemmas.JsLayout
namespace DiplomatModel.Memory
open DiplomatModel.JsLayout

abbrev Mem := Nat → Nat

def writeAt (m : Mem) (off : Nat) : List Nat → Mem
  | [] => m
  | b :: bs => writeAt (fun a => if a = off then b else m a) (off + 1) bs

def readAt (m : Mem) (off : Nat) : Nat → List Nat
  | 0 => []
  | n + 1 => m off :: readAt m (off + 1) n

theorem writeAt_outside (m : Mem) (off : Nat) (bs : List Nat) (a : Nat) (h : a < off ∨ off + bs.length ≤ a) :
    writeAt m off bs a = m a := by
  induction bs generalizing m off with
  | nil => rfl
  | cons b bs ih =>
    simp only [writeAt]
    rw [ih]
    · have : a ≠ off := by
        rcases h with h | h
        · omega
        · simp at h; omega
      simp [this]
    · rcases h with h | h
      · left; omega
      · right; simp at h ⊢; omega

theorem readAt_congr (m m' : Mem) (off n : Nat) (h : ∀ a, off ≤ a → a < off + n → m a = m' a) :
    readAt m off n = readAt m' off n := by
  induction n generalizing off with
  | zero => rfl
  | succ n ih =>
    simp only [readAt]
    rw [h off (Nat.le_refl _) (by omega), ih (off + 1) (fun a h1 h2 => h a (by omega) (by omega))]

theorem readAt_writeAt_same (m : Mem) (off : Nat) (bs : List Nat) :
    readAt (writeAt m off bs) off bs.length = bs := by
  induction bs generalizing m off with
  | nil => rfl
  | cons b bs ih =>
    simp only [writeAt, List.length_cons, readAt]
    rw [ih]
    congr 1
    rw [writeAt_outside _ _ _ _ (Or.inl (by omega))]
    simp

theorem readAt_writeAt_disjoint (m : Mem) (off : Nat) (bs : List Nat) (off2 n : Nat)
    (h : off2 + n ≤ off ∨ off + bs.length ≤ off2) :
    readAt (writeAt m off bs) off2 n = readAt m off2 n := by
  apply readAt_congr
  intro a h1 h2
  apply writeAt_outside
  rcases h with h | h
  · left; omega
  · right; omega

/-- write every field's bytes at its offset, in order -/
def writeFields (m : Mem) : List (Nat × List Nat) → Mem
  | [] => m
  | (off, bs) :: fs => writeFields (writeAt m off bs) fs

/-- the fields are laid out in order from `next` on without overlapping -/
def Ordered : Nat → List (Nat × List Nat) → Prop
  | _, [] => True
  | next, (off, bs) :: fs => next ≤ off ∧ Ordered (off + bs.length) fs

theorem writeFields_below (m : Mem) (fs : List (Nat × List Nat)) (next : Nat) (h : Ordered next fs)
    (off2 n : Nat) (hb : off2 + n ≤ next) :
    readAt (writeFields m fs) off2 n = readAt m off2 n := by
  induction fs generalizing m next with
  | nil => rfl
  | cons f fs ih =>
    obtain ⟨off, bs⟩ := f
    simp only [writeFields]
    obtain ⟨h1, h2⟩ := h
    rw [ih _ _ h2 (by omega)]
    exact readAt_writeAt_disjoint m off bs off2 n (Or.inl (by omega))

/-- **Field-wise round trip.** After writing the fields of an ordered, non-overlapping placement, every field
    reads back exactly the bytes written for it. -/
theorem read_after_writeFields (m : Mem) (fs : List (Nat × List Nat)) (next : Nat) (h : Ordered next fs) :
    ∀ f ∈ fs, readAt (writeFields m fs) f.1 f.2.length = f.2 := by
  induction fs generalizing m next with
  | nil => intro f hf; cases hf
  | cons g fs ih =>
    obtain ⟨off, bs⟩ := g
    obtain ⟨h1, h2⟩ := h
    intro f hf
    rcases List.mem_cons.mp hf with rfl | hf
    · simp only [writeFields]
      rw [writeFields_below _ fs _ h2 off bs.length (Nat.le_refl _)]
      exact readAt_writeAt_same m off bs
    · simp only [writeFields]
      exact ih _ _ h2 f hf

/-- a repr(C) placement (`Good`) with field values of the fields' sizes is ordered and non-overlapping -/
theorem good_ordered (fs : List (Nat × Nat × SC)) (os : List Nat) (vals : List (List Nat)) (next : Nat)
    (hg : Good fs os next) (hl : vals.length = fs.length)
    (hs : ∀ i (h1 : i < fs.length) (h2 : i < vals.length), (vals[i]'h2).length = (fs[i]'h1).1) :
    Ordered next (os.zip vals) := by
  induction fs generalizing os vals next with
  | nil =>
    cases os <;> simp [Good] at hg
    simp [Ordered]
  | cons f fs ih =>
    obtain ⟨sz, al, sc⟩ := f
    cases os with
    | nil => simp [Good] at hg
    | cons o os =>
      cases vals with
      | nil => simp at hl
      | cons v vals =>
        obtain ⟨_, h2, _, h4⟩ := hg
        have hv : v.length = sz := hs 0 (by simp) (by simp)
        simp only [List.zip_cons_cons, Ordered]
        refine ⟨h2, ?_⟩
        rw [hv]
        apply ih os vals (o + sz) h4 (by simpa using hl)
        intro i h1 h2'
        have := hs (i + 1) (by simp; omega) (by simp; omega)
        simpa using this

end DiplomatModel.Memory
