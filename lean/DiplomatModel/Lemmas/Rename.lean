import DiplomatModel.Rename
namespace DiplomatModel.Rename

theorem isPrefixOf_length {p s : Str} (h : p.isPrefixOf s = true) : p.length ≤ s.length := by
  induction p generalizing s with
  | nil => simp
  | cons a as ih =>
    cases s with
    | nil => simp [List.isPrefixOf] at h
    | cons b bs =>
      simp only [List.isPrefixOf, Bool.and_eq_true] at h
      have := ih h.2
      simp; omega

/-- `find` and the before/after specification agree -/
theorem findSub_splitFirst (s : Str) :
    (findSub placeholder s).map (fun i => (s.take i, s.drop (i + 3))) = splitFirst s := by
  induction s with
  | nil => rfl
  | cons c cs ih =>
    simp only [findSub, splitFirst]
    by_cases h : placeholder.isPrefixOf (c :: cs) = true
    · simp [h]
    · simp only [h, Bool.false_eq_true, if_false]
      rw [← ih]
      cases findSub placeholder cs <;> simp

theorem findSub_bound (s : Str) (i : Nat) (h : findSub placeholder s = some i) : i + 3 ≤ s.length := by
  induction s generalizing i with
  | nil => simp [findSub] at h
  | cons c cs ih =>
    simp only [findSub] at h
    by_cases hp : placeholder.isPrefixOf (c :: cs) = true
    · simp [hp] at h; subst h
      have := isPrefixOf_length hp
      simpa [placeholder] using this
    · simp only [hp, Bool.false_eq_true, if_false] at h
      cases hf : findSub placeholder cs with
      | none => simp [hf] at h
      | some j =>
        simp [hf] at h; subst h
        have := ih j hf
        simp; omega

theorem splitFirst_sound (s a b : Str) (h : splitFirst s = some (a, b)) : s = a ++ placeholder ++ b := by
  induction s generalizing a b with
  | nil => simp [splitFirst] at h
  | cons c cs ih =>
    simp only [splitFirst] at h
    by_cases hp : placeholder.isPrefixOf (c :: cs) = true
    · simp only [hp, if_true, Option.some.injEq, Prod.mk.injEq] at h
      obtain ⟨rfl, rfl⟩ := h
      -- the first three characters are the placeholder
      have hl := isPrefixOf_length hp
      simp only [placeholder, List.length_cons, List.length_nil] at hl
      match cs, hp, hl with
      | c1 :: c2 :: rest, hp, _ =>
        simp [placeholder, List.isPrefixOf] at hp
        obtain ⟨h0, h1, h2⟩ := hp
        subst h0; subst h1; subst h2
        simp [placeholder]
    · simp only [hp, Bool.false_eq_true, if_false] at h
      cases hs : splitFirst cs with
      | none => simp [hs] at h
      | some p =>
        obtain ⟨a', b'⟩ := p
        simp [hs] at h
        obtain ⟨rfl, rfl⟩ := h
        rw [ih a' b' hs]; simp

end DiplomatModel.Rename
